import Hertz.Basic
/-!
Property C18 as a predicate over an *observed* event sequence of one server instance
(independent of the interleaving model in `Hertz.Model.Shutdown`).  The events are what a test
harness can timestamp around a real server: the shutdown call and its return, handler entry and
exit, complete responses read by the clients, connection accept / close / EOF, dial attempts,
hook start / end.  Times are microseconds since scenario start; the list is in recording order.
-/
namespace Hertz.ShutdownSpec

inductive Ev
  /-- the listener answers (causally after Init, MarkAsRunning, Listen) -/
  | L
  /-- `Engine.Run` returned -/
  | RR
  | Ds (i : Nat) | De (i : Nat) (ok : Bool)
  | A (c : Nat)
  /-- handler entry / exit of request `k` on connection `c` -/
  | Q (c k : Nat) (rc : Bool) | X (c k : Nat) (respClose : Bool)
  /-- the client read response `k`: `cl` = carried `Connection: close`; `complete` = status line,
  headers and the full expected body arrived -/
  | R (c k : Nat) (cl complete : Bool)
  /-- request `k` failed without a response -/
  | F (c k : Nat)
  /-- the same on a connection the server never accepted -/
  | FN (i k : Nat)
  /-- the client got an error response to garbage -/
  | B (c : Nat)
  /-- client closed / client saw EOF -/
  | C (c : Nat) | E (c : Nat)
  /-- `Shutdown` called by caller `k` / returned (`nil`, `notrunning`, `timeout`, `other`, `hang`) -/
  | S (k : Nat) | T (k : Nat) (err : String)
  | HS (j : Nat) | HE (j : Nat)
  deriving Repr, BEq, DecidableEq

structure TEv where
  ev : Ev
  t : Nat
  deriving Repr, BEq

structure Params where
  /-- ExitWaitTimeout, µs -/
  exitWait : Nat
  /-- ticker period of the transport's wait loop, µs -/
  tick : Nat
  /-- scheduling slack granted to wall-clock bounds, µs -/
  slack : Nat
  nHooks : Nat
  /-- `shutdownTimeout`, the hard cap inside `standard.transport.Shutdown`, µs -/
  maxWait : Nat := 30000000

abbrev Trace := Array TEv

def evAt (tr : Trace) (i : Nat) : Option TEv := tr[i]?

def idxOf? (tr : Trace) (p : Ev → Bool) : Option Nat :=
  (List.range tr.size).find? fun i => match evAt tr i with | some e => p e.ev | none => false

def lastIdxOf? (tr : Trace) (p : Ev → Bool) : Option Nat :=
  (List.range tr.size).reverse.find? fun i => match evAt tr i with | some e => p e.ev | none => false

def existsFrom (tr : Trace) (i : Nat) (p : Ev → Bool) : Bool :=
  (List.range tr.size).any fun j => i < j && (match evAt tr j with | some e => p e.ev | none => false)

def existsBefore (tr : Trace) (i : Nat) (p : Ev → Bool) : Bool :=
  (List.range tr.size).any fun j => j < i && (match evAt tr j with | some e => p e.ev | none => false)

def timeAt (tr : Trace) (i : Nat) : Nat := match evAt tr i with | some e => e.t | none => 0

def isT : Ev → Bool | .T _ _ => true | _ => false
def isTnil : Ev → Bool | .T _ "nil" => true | _ => false
def isFlipWitness : Ev → Bool | .HS _ => true | .T _ _ => true | _ => false

def isS : Ev → Bool | .S _ => true | _ => false

/-- the event at position `i` is the return of a `Shutdown` call that proves that the engine status has
left `running`: any return except an `errStatusNotRunning` given to a call that was made before the
listener answered (an engine that has not been started reports that error too, and may be started
and serve normally afterwards) -/
def retFlipAt (tr : Trace) (i : Nat) : Bool :=
  match evAt tr i with
  | some ⟨.T k err, _⟩ =>
    err != "notrunning" ||
      (match idxOf? tr (· == .S k) with
       | some s => existsBefore tr s (· == .L)
       | none => false)
  | _ => false

/-- position `i` proves that the status has left `running`: a hook started, or `retFlipAt` -/
def flipAt (tr : Trace) (i : Nat) : Bool :=
  (match evAt tr i with | some ⟨.HS _, _⟩ => true | _ => false) || retFlipAt tr i

/-- every clause returns the list of violations it finds (empty = holds).

`inflightComplete`: every request that had been received when shutdown was requested (handler entered
before the first `Shutdown` call) is answered by a complete, untruncated response. -/
def inflightComplete (tr : Trace) : List String :=
  let firstS := (idxOf? tr isS).getD tr.size
  (List.range tr.size).filterMap fun i =>
    match evAt tr i with
    | some ⟨.Q c k _, _⟩ =>
      if i < firstS then
        if existsFrom tr i (fun e => e == .R c k true true || e == .R c k false true) then none
        else some s!"inflight_complete: request {k} on connection {c} entered its handler before shutdown was requested but no complete response was read"
      else none
    | some ⟨.R c k _ false, _⟩ =>
      if existsBefore tr firstS (fun e => e == .Q c k true || e == .Q c k false) then
        some s!"inflight_complete: truncated response {k} on connection {c}"
      else none
    | _ => none

/-- requests that reached a handler only after shutdown had been requested and whose response the
client never got (not promised by the property; reported, not judged) -/
def lateDropped (tr : Trace) : Nat :=
  let firstS := (idxOf? tr isS).getD tr.size
  ((List.range tr.size).filter fun i =>
    match evAt tr i with
    | some ⟨.Q c k _, _⟩ => firstS < i && !existsFrom tr i (fun e => e == .R c k true true || e == .R c k false true)
    | _ => false).length

def closeAfterShutdown (tr : Trace) : List String :=
  let running := existsBefore tr tr.size (· == .L)
  match (List.range tr.size).find? (flipAt tr) with
  | none => []
  | some f =>
    if !running then [] else
    (List.range tr.size).filterMap fun i =>
      match evAt tr i with
      | some ⟨.X c k _, _⟩ =>
        if f < i && existsFrom tr i (fun e => e == .R c k false true) then
          some s!"close_after_shutdown: handler {k} on connection {c} returned after shutdown began, response without Connection: close"
        else none
      | _ => none

/-- no forced close before any shutdown was requested -/
def noSpuriousClose (tr : Trace) : List String :=
  let firstS := (idxOf? tr (fun e => match e with | .S _ => true | _ => false)).getD tr.size
  (List.range tr.size).filterMap fun i =>
    match evAt tr i with
    | some ⟨.R c k true _, _⟩ =>
      if i < firstS && !(existsBefore tr i (fun e => e == .Q c k true) || existsBefore tr i (fun e => e == .X c k true)) then
        some s!"spurious close on response {k} of connection {c} before any shutdown"
      else none
    | _ => none

def noAcceptAfter (tr : Trace) : List String :=
  let running := existsBefore tr tr.size (· == .L)
  match idxOf? tr isTnil with
  | none => []
  | some w =>
    if !running then [] else
    (List.range tr.size).filterMap fun i =>
      match evAt tr i with
      | some ⟨.A c, _⟩ => if w < i then some s!"no_accept: connection {c} accepted after Shutdown returned" else none
      | some ⟨.De d true, _⟩ =>
        if existsBefore tr i (fun e => e == .Ds d) &&
           (match idxOf? tr (· == .Ds d) with | some s => w < s | none => false) then
          some s!"no_accept: dial {d} started after Shutdown returned and succeeded"
        else none
      | _ => none

def bounded (p : Params) (tr : Trace) : List String :=
  (List.range tr.size).filterMap fun i =>
    match evAt tr i with
    | some ⟨.S k, ts⟩ =>
      match (List.range tr.size).find? (fun j => i < j && (match evAt tr j with | some ⟨.T k' _, _⟩ => k' == k | _ => false)) with
      | none => some s!"shutdown_bounded: caller {k} never returned"
      | some j =>
        match evAt tr j with
        | some ⟨.T _ err, tt⟩ =>
          if err == "hang" then some s!"shutdown_bounded: caller {k} hangs"
          else if tt - ts > p.exitWait + p.tick + p.slack then
            some s!"shutdown_bounded: caller {k} returned after {tt - ts} us > exit wait {p.exitWait} + tick + slack"
          else none
        | _ => none
    | _ => none

def errOf (tr : Trace) (k : Nat) : Option String :=
  tr.toList.findSome? fun e => match e.ev with | .T k' err => if k' == k then some err else none | _ => none

def errorsReported (p : Params) (tr : Trace) : List String :=
  (List.range tr.size).filterMap fun i =>
    match evAt tr i with
    | some ⟨.S k, ts⟩ =>
      let running := existsBefore tr i (· == .L)
      -- some call has returned before this one was made, in a way that shows that the status had flipped
      let someReturned := (List.range i).any (retFlipAt tr)
      -- another caller is in flight before this one returns: either of them may be the one that does the work
      let retIdx := (idxOf? tr (fun e => match e with | .T k' _ => k' == k | _ => false)).getD tr.size
      let otherCalled := existsBefore tr retIdx (fun e => match e with | .S k' => k' != k | _ => false)
      -- the listener answered before this call returned (a call made earlier may still find the engine running)
      let runningAtRet := existsBefore tr retIdx (· == .L)
      match errOf tr k with
      | none => none
      | some err =>
        if (!runningAtRet || someReturned) && err != "notrunning" then
          some s!"second_shutdown_errors: caller {k} (server not running / already shut down) got {err}"
        -- `errShutdownTimeout` is legitimate once the call has lasted longer than the transport's cap
        else if running && !someReturned && !otherCalled && err != "nil" &&
            !(err == "timeout" && p.maxWait < timeAt tr retIdx - ts) then
          some s!"first shutdown of a running server returned {err}"
        else none
    | _ => none

/-- index of the return of the caller that did the work: the last `T nil` -/
def winnerRet (tr : Trace) : Option Nat := lastIdxOf? tr isTnil

def winnerCall (tr : Trace) (w : Nat) : Option Nat :=
  match evAt tr w with
  | some ⟨.T k _, _⟩ => idxOf? tr (· == .S k)
  | _ => none

def hooksRun (p : Params) (tr : Trace) : List String :=
  let running := existsBefore tr tr.size (· == .L)
  match winnerRet tr with
  | none => []
  | some w =>
    if !running then [] else
    let missing := (List.range p.nHooks).filter fun j => !existsBefore tr tr.size (· == .HS j)
    let a := missing.map fun j => s!"hooks_started: hook {j} never started"
    match winnerCall tr w with
    | none => a
    | some s =>
      let early := timeAt tr w - timeAt tr s + 2000 < p.exitWait
      if !early then a else
      let b := (List.range p.nHooks).filterMap fun j =>
        if existsBefore tr w (· == .HE j) then none
        else some s!"hooks_waited: Shutdown returned before the deadline while hook {j} was still running"
      let c := (List.range w).filterMap fun i =>
        match evAt tr i with
        | some ⟨.Q c k _, _⟩ =>
          if existsBefore tr w (fun e => e == .X c k true || e == .X c k false) then none
          else some s!"inflight_waited: Shutdown returned before the deadline while handler {k} of connection {c} was running"
        | _ => none
      a ++ b ++ c

/-- `Shutdown` returns before its deadline only once every connection is gone (the transport waits for
`active = 0`, i.e. for every connection goroutine to have finished, and the listener is closed): after
an early return of the winning call no request enters a handler any more -/
def connsWaited (p : Params) (tr : Trace) : List String :=
  match winnerRet tr with
  | none => []
  | some w =>
    match winnerCall tr w with
    | none => []
    | some s =>
      if !(timeAt tr w - timeAt tr s + 2000 < p.exitWait) then [] else
      (List.range tr.size).filterMap fun i =>
        match evAt tr i with
        | some ⟨.Q c k _, _⟩ =>
          if w < i then
            some s!"conns_waited: Shutdown returned before the deadline, yet request {k} of connection {c} entered its handler afterwards"
          else none
        | _ => none

/-- the client's close of connection `c` at position `i` ends the connection as far as the server is
concerned only if the connection is idle then and stays so: every request of `c` that entered its
handler before `i` has been answered (complete response read before `i`), and no request of `c` enters
a handler after `i`.  (A client that hangs up while its request is in the handler does not stop the
handler; `Shutdown` rightly keeps waiting for it.) -/
def idleClose (tr : Trace) (c i : Nat) : Bool :=
  (List.range tr.size).all fun j =>
    match evAt tr j with
    | some ⟨.Q c' k _, _⟩ =>
      c' != c || (j < i && existsBefore tr i (fun e => e == .R c k true true || e == .R c k false true))
    | _ => true

/-- position `i` ends connection `c`: the client saw EOF, or closed the idle connection itself -/
def connEndAt (tr : Trace) (c i : Nat) : Bool :=
  match evAt tr i with
  | some e => e.ev == .E c || (e.ev == .C c && idleClose tr c i)
  | none => false

/-- nothing left to wait for, but the call still sat out the exit wait -/
def prompt (p : Params) (tr : Trace) : List String :=
  match winnerRet tr with
  | none => []
  | some w =>
    match winnerCall tr w with
    | none => []
    | some s =>
      let ts := timeAt tr s
      let tt := timeAt tr w
      if tt - ts + 2000 < p.exitWait then [] else
      let hooksEnd := (List.range p.nHooks).map fun j => (idxOf? tr (· == .HE j)).map (timeAt tr)
      let conns := (List.range tr.size).filterMap fun i => match evAt tr i with | some ⟨.A c, _⟩ => some c | _ => none
      let connsEnd := conns.map fun c => ((List.range tr.size).find? (connEndAt tr c)).map (timeAt tr)
      let all := hooksEnd ++ connsEnd
      if all.any (·.isNone) then [] else
      let q := (all.filterMap id).foldl max ts
      if q + 10 * p.tick + p.slack < tt then
        [s!"prompt: hooks and connections were all finished at {q} us, Shutdown (called {ts}) returned only at {tt}"]
      else []

def violations (p : Params) (tr : Trace) : List String :=
  inflightComplete tr ++ closeAfterShutdown tr ++ noSpuriousClose tr ++ noAcceptAfter tr ++ bounded p tr ++
  errorsReported p tr ++ hooksRun p tr ++ connsWaited p tr ++ prompt p tr

end Hertz.ShutdownSpec
