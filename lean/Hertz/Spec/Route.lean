import Hertz.Basic
/-!
Specification of route selection (C06), over *patterns*; no tree, no registration order.

A pattern is read as a list of tokens: a literal byte, a named parameter `:name` (up to the next
`/`), or a catch-all `*name` (the rest of the pattern).  One pattern matches a path in at most one
way (`matchToks`): literals match themselves, a parameter needs a non-empty remaining path and
takes it up to the next `/`, a catch-all takes everything that is left (possibly nothing).

Among the patterns that match, the documented priority picks the one that is better at the first
token where two patterns differ: end of pattern, then literal text, then a parameter, then a
catch-all (`prefer`).  "Backtracking when a choice cannot complete" is the restriction to patterns
that match completely.  The selected route is the matching route preferred to every other matching
route (`Selected`); `select` computes it.
-/
namespace Hertz.Spec.Route

inductive Tok where
  | lit (c : UInt8)
  | param (name : Bytes)
  | any (name : Bytes)
  deriving DecidableEq, Repr

/-- tokens of a pattern; `nm = some s`: inside a parameter name of which `s` has been read -/
def parseGo : Option Bytes → Bytes → List Tok
  | none, [] => []
  | some nm, [] => [.param nm]
  | none, c :: r => if c = 58 then parseGo (some []) r else if c = 42 then [.any r] else .lit c :: parseGo none r
  | some nm, c :: r => if c = 47 then .param nm :: .lit c :: parseGo none r else parseGo (some (nm ++ [c])) r

def parsePattern (p : Bytes) : List Tok := parseGo none p

/-- value of a parameter: the path up to the next `/` -/
def seg (p : Bytes) : Bytes := p.takeWhile (· != 47)
def afterSeg (p : Bytes) : Bytes := p.dropWhile (· != 47)

/-- `some params` (name, matched substring) iff the pattern matches the whole path -/
def matchToks : List Tok → Bytes → Option (List (Bytes × Bytes))
  | [], [] => some []
  | [], _ :: _ => none
  | .lit _ :: _, [] => none
  | .lit c :: ts, d :: p => if c = d then matchToks ts p else none
  | .param nm :: ts, p =>
    if p.isEmpty then none
    else match matchToks ts (afterSeg p) with
      | none => none
      | some r => some ((nm, seg p) :: r)
  | .any nm :: _, p => some [(nm, p)]

/-- rank of what a pattern has at a position: end < literal < parameter < catch-all -/
def rank : Tok → Nat
  | .lit _ => 1
  | .param _ => 2
  | .any _ => 3

def sameShape : Tok → Tok → Bool
  | .lit a, .lit b => a == b
  | .param _, .param _ => true
  | .any _, .any _ => true
  | _, _ => false

/-- `prefer a b`: at the first position where `a` and `b` differ, `a` has the better token -/
def prefer : List Tok → List Tok → Bool
  | [], _ => true
  | _ :: _, [] => false
  | x :: a, y :: b => if sameShape x y then prefer a b else rank x < rank y

structure Route where
  method : Bytes
  pattern : Bytes
  handler : Nat
  deriving DecidableEq, Repr

def Route.matches (r : Route) (method path : Bytes) : Option (List (Bytes × Bytes)) :=
  if r.method = method then matchToks (parsePattern r.pattern) path else none

/-- `r` with parameters `ps` is what the priority rule selects for (`method`, `path`) among `rs`. -/
def Selected (rs : List Route) (method path : Bytes) (r : Route) (ps : List (Bytes × Bytes)) : Prop :=
  r ∈ rs ∧ r.matches method path = some ps ∧
  ∀ r' ∈ rs, (r'.matches method path).isSome → prefer (parsePattern r.pattern) (parsePattern r'.pattern) = true

instance (rs m p r ps) : Decidable (Selected rs m p r ps) := by unfold Selected; infer_instance

/-- nothing matches -/
def NoMatch (rs : List Route) (method path : Bytes) : Prop :=
  ∀ r ∈ rs, r.matches method path = none

instance (rs m p) : Decidable (NoMatch rs m p) := by unfold NoMatch; infer_instance

/-- executable selection: the best matching route seen so far -/
def selectGo (method path : Bytes) : Option (Route × List (Bytes × Bytes)) → List Route →
    Option (Route × List (Bytes × Bytes))
  | best, [] => best
  | best, r :: rs =>
    match r.matches method path with
    | none => selectGo method path best rs
    | some ps =>
      match best with
      | none => selectGo method path (some (r, ps)) rs
      | some (b, bps) =>
        if prefer (parsePattern b.pattern) (parsePattern r.pattern) then selectGo method path (some (b, bps)) rs
        else selectGo method path (some (r, ps)) rs

def select (rs : List Route) (method path : Bytes) : Option (Route × List (Bytes × Bytes)) :=
  selectGo method path none rs

/-- substitute the parameter values back into the pattern -/
def instantiate : List Tok → List (Bytes × Bytes) → Bytes
  | [], _ => []
  | .lit c :: ts, ps => c :: instantiate ts ps
  | .param _ :: ts, (_, v) :: ps => v ++ instantiate ts ps
  | .param _ :: ts, [] => instantiate ts []
  | .any _ :: _, (_, v) :: _ => v
  | .any _ :: _, [] => []

end Hertz.Spec.Route
