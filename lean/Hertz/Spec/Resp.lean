import Hertz.Spec.Head
/-!
Strict reader of an HTTP/1.1 response (RFC 7230 §3.3.3), the specification side of C04: one status
line, header fields, then a body framed by `Content-Length` xor `Transfer-Encoding: chunked`, and no
body at all for HEAD, 1xx, 204, 304.
-/
namespace Hertz.Spec.Resp
open Hertz Hertz.Spec.Head

inductive Framing where
  | none | cl (n : Nat) | chunked
deriving Repr, DecidableEq

structure Msg where
  status : Nat
  fields : List (Bytes × Bytes)
  framing : Framing
  /-- the raw bytes between the header block and the end of the message -/
  raw : Bytes
  body : Bytes
  trailers : List (Bytes × Bytes)
deriving Repr, DecidableEq

def lower (c : UInt8) : UInt8 := if 65 ≤ c && c ≤ 90 then c + 32 else c
def lowerAll (b : Bytes) : Bytes := b.map lower

def parseDec (b : Bytes) : Option Nat :=
  if b.isEmpty || !b.all (fun c => 48 ≤ c && c ≤ 57) then none
  else some (b.foldl (fun n c => n * 10 + (c - 48).toNat) 0)

def hexVal (c : UInt8) : Option Nat :=
  if 48 ≤ c && c ≤ 57 then some (c - 48).toNat
  else if 97 ≤ c && c ≤ 102 then some (c - 87).toNat
  else if 65 ≤ c && c ≤ 70 then some (c - 55).toNat
  else none

def parseHex (b : Bytes) : Option Nat :=
  if b.isEmpty then none else b.foldlM (fun n c => (hexVal c).map (fun d => n * 16 + d)) 0

/-- `HTTP/1.1 NNN reason` -/
def statusOf (line : Bytes) : Option Nat :=
  if line.take 9 != [72, 84, 84, 80, 47, 49, 46, 49, 32] then none
  else match parseDec ((line.drop 9).take 3) with
    | some n => if (line.drop 12).head? == some 32 || (line.drop 12).isEmpty then some n else none
    | none => none

/-- chunked body: returns (decoded body, trailers, rest, consumed raw length) -/
def chunks : Nat → Bytes → Bytes → Option (Bytes × List (Bytes × Bytes) × Bytes)
  | 0, _, _ => none
  | fuel + 1, s, acc =>
    match crlfLine s with
    | none => none
    | some (line, rest) =>
      match parseHex line with
      | none => none
      | some 0 =>
        (fields (rest.length + 1) rest).map (fun r => (acc, r.1, r.2))
      | some n =>
        if rest.length < n + 2 then none
        else if (rest.drop n).take 2 != [13, 10] then none
        else chunks fuel (rest.drop (n + 2)) (acc ++ rest.take n)

def noBodyStatus (st : Nat) : Bool := (100 ≤ st && st < 200) || st == 204 || st == 304

def sCL : Bytes := "content-length".toUTF8.toList
def sTE : Bytes := "transfer-encoding".toUTF8.toList
def sChunked : Bytes := "chunked".toUTF8.toList

/-- one response from the front of `s`; `isHead` = it answers a HEAD request -/
def decodeOne (isHead : Bool) (s : Bytes) : Option (Msg × Bytes) := do
  let (start, fs, rest) ← parseHead s
  let status ← statusOf start
  let cls := (fs.filter (fun kv => lowerAll kv.1 == sCL)).map (·.2)
  let tes := (fs.filter (fun kv => lowerAll kv.1 == sTE)).map (·.2)
  let framing ← match cls, tes with
    | [], [] => some Framing.none
    | [c], [] => (parseDec c).map Framing.cl
    | [], [t] => if lowerAll t == sChunked then some Framing.chunked else none
    | _, _ => none
  if isHead || noBodyStatus status then
    pure ({ status, fields := fs, framing, raw := [], body := [], trailers := [] }, rest)
  else match framing with
    | .none => pure ({ status, fields := fs, framing, raw := [], body := [], trailers := [] }, rest)
    | .cl n =>
      if rest.length < n then none
      else pure ({ status, fields := fs, framing, raw := rest.take n, body := rest.take n, trailers := [] }, rest.drop n)
    | .chunked =>
      let (body, tr, rest') ← chunks (rest.length + 1) rest []
      pure ({ status, fields := fs, framing, raw := rest.take (rest.length - rest'.length), body, trailers := tr }, rest')

end Hertz.Spec.Resp
