import Hertz.Model.Bytesconv
/-!
A short independent multipart/form-data decoder (RFC 2046 §5.1.1 delimiter lines, RFC 7578 §4.2 `Content-Disposition:
form-data; name="…"; filename="…"`): subset without preamble text or transport padding; parameter values are quoted strings with quoted-pair escapes (RFC 2045 / RFC 7230 §3.2.6).
-/
namespace Hertz.Spec.Multipart
open Hertz

structure Part where
  name : Bytes
  fileName : Option Bytes
  ctype : Option Bytes
  content : Bytes
deriving Repr, DecidableEq

/-- split at the first occurrence of `pat`: what precedes it and what follows it -/
def splitOnce (pat : Bytes) : Bytes → Option (Bytes × Bytes)
  | [] => if pat.isEmpty then some ([], []) else none
  | c :: t =>
    if pat.isPrefixOf (c :: t) then some ([], (c :: t).drop pat.length)
    else (splitOnce pat t).map (fun (a, b) => (c :: a, b))

def lower (c : UInt8) : UInt8 := if 65 ≤ c && c ≤ 90 then c + 32 else c

/-- header lines up to the empty line: `(name lower-cased, value)` -/
def headerLines : Nat → Bytes → Option (List (Bytes × Bytes) × Bytes)
  | 0, _ => none
  | fuel + 1, s => do
    let (line, rest) ← splitOnce [13, 10] s
    if line.isEmpty then pure ([], rest) else
      let (k, v) ← splitOnce [58] line
      let (more, rest') ← headerLines fuel rest
      pure ((k.map lower, v.dropWhile (· == 32)) :: more, rest')

/-- a quoted string after its opening quote: the value (quoted pairs `\x` read as `x`) up to the closing quote, and what follows -/
def quoted : Bytes → Option (Bytes × Bytes)
  | [] => none
  | [c] => if c = 34 then some ([], []) else none
  | c :: d :: t =>
    if c = 34 then some ([], d :: t)
    else if c = 92 then (quoted t).map (fun (v, r) => (d :: v, r))
    else (quoted (d :: t)).map (fun (v, r) => (c :: v, r))
termination_by structural x => x

/-- the parameter list of a `Content-Disposition` value: a sequence of `; key="value"` (the value a quoted string) -/
def params : Nat → Bytes → Option (List (Bytes × Bytes))
  | 0, _ => none
  | _ + 1, [] => some []
  | fuel + 1, c :: s =>
    match c :: s with
    | 59 :: 32 :: rest => do
      let (k, after) ← splitOnce [61, 34] rest
      let (v, more) ← quoted after
      (params fuel more).map ((k, v) :: ·)
    | _ => none

def lookup (key : Bytes) : List (Bytes × Bytes) → Option Bytes
  | [] => none
  | (k, v) :: t => if k == key then some v else lookup key t

/-- `form-data` -/
def sFormData : Bytes := [102, 111, 114, 109, 45, 100, 97, 116, 97]
def sName : Bytes := [110, 97, 109, 101]
def sFileName : Bytes := [102, 105, 108, 101, 110, 97, 109, 101]
def sCD : Bytes := [99, 111, 110, 116, 101, 110, 116, 45, 100, 105, 115, 112, 111, 115, 105, 116, 105, 111, 110]
def sCT : Bytes := [99, 111, 110, 116, 101, 110, 116, 45, 116, 121, 112, 101]

/-- parts after a delimiter line has been consumed -/
def parts (b : Bytes) : Nat → Bytes → Option (List Part)
  | 0, _ => none
  | fuel + 1, s => do
    let (hs, rest) ← headerLines (s.length + 1) s
    -- a part has exactly one Content-Disposition and at most one Content-Type, nothing else
    if hs.length > 2 then none
    let cds := hs.filter (·.1 == sCD)
    let cts := hs.filter (·.1 == sCT)
    if cds.length != 1 || cds.length + cts.length != hs.length then none
    let cd ← cds.head?
    if !sFormData.isPrefixOf cd.2 then none
    let ps ← params (cd.2.length + 1) (cd.2.drop sFormData.length)
    let name ← lookup sName ps
    let (content, after) ← splitOnce ([13, 10, 45, 45] ++ b) rest
    let p : Part := { name, fileName := lookup sFileName ps, ctype := cts.head?.map (·.2), content }
    if after == [45, 45, 13, 10] then pure [p]
    else match after with
      | 13 :: 10 :: t => (parts b fuel t).map (p :: ·)
      | _ => none

/-- a whole body with boundary `b` -/
def decode (b : Bytes) (s : Bytes) : Option (List Part) :=
  if s == [13, 10, 45, 45] ++ b ++ [45, 45, 13, 10] then some []     -- `Writer.Close` with no part
  else match splitOnce ([45, 45] ++ b ++ [13, 10]) s with
    | some ([], rest) => parts b (s.length + 1) rest
    | _ => none

end Hertz.Spec.Multipart
