import Hertz.Basic
/-!
# Spec for C12 — what an onion-ordered handler trace looks like, and what chain a route must get

Independent of the chain interpreter: a *monitor* reads the trace of events recorded by the
instrumented handlers and accepts it iff
* `enter p` happens only while no `Abort` has been seen, and only for a position larger than every
  position entered before (so: at most once each, in registration order),
* `exit p` closes the innermost open handler, which must be `p` (so handlers unwind in reverse order
  and everything a handler does after `Next` happens after all later handlers returned),
* every other event of handler `p` happens while `p` is the innermost open handler,
* at the end nothing is open.

The second half is the history-based reading of "middleware attached before a route is registered
precedes the route's own handlers, outermost group first".
-/
namespace Hertz.Chain

/-- What an instrumented handler records.  `pos` is the handler's position in the chain. -/
inductive Event
  | enter (pos : Nat)
  | exit (pos : Nat) (idx : Int)
  | abort (pos : Nat)
  | abortStatus (pos code : Nat)
  | probe (pos : Nat) (idx : Int)
deriving DecidableEq, Repr

/-- Monitor state: open handlers (innermost first), one more than the largest position entered so
far, has any `Abort*` been seen. -/
structure Mon where
  stack : List Nat
  lo : Nat
  aborted : Bool
deriving DecidableEq, Repr

def Mon.init : Mon := ⟨[], 0, false⟩

def Mon.step (m : Mon) : Event → Option Mon
  | .enter p => if m.aborted = false ∧ m.lo ≤ p then some ⟨p :: m.stack, p + 1, m.aborted⟩ else none
  | .exit p _ =>
    match m.stack with
    | t :: s => if t = p then some ⟨s, m.lo, m.aborted⟩ else none
    | [] => none
  | .abort p => if m.stack.head? = some p then some ⟨m.stack, m.lo, true⟩ else none
  | .abortStatus p _ => if m.stack.head? = some p then some ⟨m.stack, m.lo, true⟩ else none
  | .probe p _ => if m.stack.head? = some p then some m else none

def Mon.run (m : Mon) : List Event → Option Mon
  | [] => some m
  | e :: t => match m.step e with
    | some m' => Mon.run m' t
    | none => none

/-- The trace of a complete request over a chain of `n` handlers is onion-ordered. -/
def onionOK (n : Nat) (tr : List Event) : Bool :=
  match Mon.init.run tr with
  | some m => m.stack.isEmpty && decide (m.lo ≤ n)
  | none => false

/-! ### declarative readings (proved from monitor acceptance in `Proofs/Chain.lean`) -/

def enters : List Event → List Nat
  | [] => []
  | .enter p :: t => p :: enters t
  | _ :: t => enters t

def isAbort : Event → Bool
  | .abort _ => true
  | .abortStatus _ _ => true
  | _ => false

/-- no handler is entered after an `Abort*` event -/
def noEnterAfterAbort : List Event → Bool
  | [] => true
  | e :: t => (if isAbort e then (enters t).isEmpty else true) && noEnterAfterAbort t

/-- Status the response ends with when handlers touch it only through `AbortWithStatus`. -/
def finalStatus (dflt : Nat) : List Event → Nat
  | [] => dflt
  | .abortStatus _ c :: t => finalStatus c t
  | _ :: t => finalStatus dflt t

/-! ### registration history -/

abbrev H := Nat

/-- Calls made on an engine before serving.  Groups are numbered in creation order, `0` is the
engine itself; `use 0` is `Engine.Use`, `rawUse` is `engine.RouterGroup.Use` (the promoted method that
`Engine.Use` shadows). -/
inductive Op
  | use (g : Nat) (m : List H)
  | group (p : Nat) (m : List H)
  | handle (g method num : Nat) (hs : List H)
  | noRoute (hs : List H)
  | noMethod (hs : List H)
  | rawUse (m : List H)
deriving DecidableEq, Repr

/-- Per group: the path of ancestors from the engine down to the group itself, each with the
middleware it contributes *as seen by this group*.  `Group()` copies the parent's view. -/
abbrev Lineage := List (Nat × List H)

def appendLast (m : List H) : Lineage → Lineage
  | [] => []
  | [(a, l)] => [(a, l ++ m)]
  | x :: y :: t => x :: appendLast m (y :: t)

/-- The lineage bookkeeping of one registration call (calls on a missing group change nothing). -/
def Op.shadow (ls : List Lineage) : Op → List Lineage
  | .use g m => match ls[g]? with
    | some l => ls.set g (appendLast m l)
    | none => ls
  | .rawUse m => match ls[0]? with
    | some l => ls.set 0 (appendLast m l)
    | none => ls
  | .group p m => match ls[p]? with
    | some l => ls ++ [l ++ [(ls.length, m)]]
    | none => ls
  | _ => ls

def shadowInit : List Lineage := [[(0, [])]]

def shadowOf (ops : List Op) : List Lineage := ops.foldl Op.shadow shadowInit

/-- Everything attached to group `g` itself so far (at creation and by `Use`). -/
def ownOf (ls : List Lineage) (g : Nat) : List H :=
  match ls[g]? with
  | some l => (l.getLast?.map (·.2)).getD []
  | none => []

/-- The literal reading of the property: every ancestor contributes everything attached to it so far. -/
def literalMws (ls : List Lineage) (g : Nat) : List H :=
  match ls[g]? with
  | some l => l.flatMap (fun a => ownOf ls a.1)
  | none => []

/-- What the group actually carries: every ancestor contributes what was attached to it when the next
group down the path was created. -/
def snapshotMws (ls : List Lineage) (g : Nat) : List H :=
  match ls[g]? with
  | some l => l.flatMap (·.2)
  | none => []

/-- "`Use` on a group that already has a child group": the one pattern on which the two readings differ. -/
def hasChild (ls : List Lineage) (g : Nat) : Bool :=
  ls.any (fun l => l.length ≥ 2 && (l.dropLast.any (fun a => a.1 == g)))

def Op.useAfterChild (ls : List Lineage) : Op → Bool
  | .use g m => !m.isEmpty && hasChild ls g
  | .rawUse m => !m.isEmpty && hasChild ls 0
  | _ => false

/-- no `Use` with a non-empty argument on a group that already has a child -/
def noUseAfterChild : List Lineage → List Op → Bool
  | _, [] => true
  | ls, op :: t => !op.useAfterChild ls && noUseAfterChild (op.shadow ls) t

/-- Middleware attached with `Engine.Use`, in order. -/
def engineMws (ops : List Op) : List H :=
  ops.flatMap fun op => match op with
    | .use 0 m => m
    | _ => []

def Op.isRaw : Op → Bool
  | .rawUse _ => true
  | _ => false

end Hertz.Chain
