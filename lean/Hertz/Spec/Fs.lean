import Hertz.Model.Fs
/-!
Specification side of C08: the single-range rule of RFC 7233 §2.1 / §4.4 and what a correct answer
of the file handler looks like.  Written independently of the model's algorithm: numbers are read
as unbounded naturals (no 64-bit arithmetic), the header is taken apart by pattern matching, and the
`Content-Range` value is *parsed back* rather than rendered.  Only the record type `FS.Resp` is
shared with the model.

Policy decisions of hertz that the spec accepts (they are visible in the branch tags):
* a syntactically invalid `Range` value (wrong unit, no dash, non-digits, several ranges,
  last < first) is answered with 416 rather than ignored;
* a header naming a position that does not fit Go's `int` (≥ 2^63) is answered with 416 (`numsFit`;
  proved: `range_eq_rfc`), where the RFC would clamp it.
-/
namespace Hertz.FS.Spec
open Hertz Hertz.FS

def isDigit (c : UInt8) : Bool := 48 ≤ c && c ≤ 57

/-- `1*DIGIT` -/
def isDigits (b : Bytes) : Bool := !b.isEmpty && b.all isDigit

def digitVal (c : UInt8) : Nat := c.toNat - 48

/-- value of a digit string, most significant first (unbounded) -/
def decAcc : Bytes → Nat → Nat
  | [], acc => acc
  | c :: t, acc => decAcc t (10 * acc + digitVal c)

def decVal (b : Bytes) : Nat := decAcc b 0

/-- split at the first occurrence of `sep` -/
def splitAt1 (sep : UInt8) : Bytes → Option (Bytes × Bytes)
  | [] => none
  | c :: t => if c = sep then some ([], t) else
      match splitAt1 sep t with
      | some (a, b) => some (c :: a, b)
      | none => none

inductive Range where
  /-- not a `bytes=` single byte-range-spec / suffix-byte-range-spec -/
  | invalid
  /-- well-formed but unsatisfiable for this representation length (RFC 7233 §2.1) -/
  | unsat
  /-- satisfiable: first and last byte position (inclusive), `first ≤ last < length` -/
  | sat (first last : Nat)
deriving DecidableEq, Repr

/-- RFC 7233 §2.1 for a header value and a representation of `n` bytes. -/
def rfcRange (hdr : Bytes) (n : Nat) : Range :=
  match hdr with
  | 98 :: 121 :: 116 :: 101 :: 115 :: 61 :: spec =>
    match splitAt1 45 spec with
    | none => .invalid
    | some ([], suf) =>
      -- suffix-byte-range-spec = "-" suffix-length
      if !isDigits suf then .invalid
      else if decVal suf = 0 ∨ n = 0 then .unsat
      else .sat (n - min (decVal suf) n) (n - 1)
    | some (a, b) =>
      -- byte-range-spec = first-byte-pos "-" [ last-byte-pos ]
      if !isDigits a then .invalid
      else if b = [] then (if decVal a ≥ n then .unsat else .sat (decVal a) (n - 1))
      else if !isDigits b then .invalid
      else if decVal b < decVal a then .invalid
      else if decVal a ≥ n then .unsat
      else .sat (decVal a) (min (decVal b) (n - 1))
  | _ => .invalid

/-- every position named in the header fits Go's `int` -/
def numsFit (hdr : Bytes) : Bool :=
  match hdr with
  | 98 :: 121 :: 116 :: 101 :: 115 :: 61 :: spec =>
    match splitAt1 45 spec with
    | none => true
    | some (a, b) => (!isDigits a || decVal a < 9223372036854775808) && (!isDigits b || decVal b < 9223372036854775808)
  | _ => true

/-- `Content-Range: bytes <first>-<last>/<complete-length>` parsed back -/
def parseContentRange (v : Bytes) : Option (Nat × Nat × Nat) :=
  match v with
  | 98 :: 121 :: 116 :: 101 :: 115 :: 32 :: rest =>
    match splitAt1 45 rest with
    | none => none
    | some (a, r2) =>
      match splitAt1 47 r2 with
      | none => none
      | some (b, c) =>
        if isDigits a && isDigits b && isDigits c then some (decVal a, decVal b, decVal c) else none
  | _ => none

/-- bytes `first..last` (inclusive) of the file -/
def slice (content : Bytes) (first last : Nat) : Bytes := (content.drop first).take (last + 1 - first)

def okWhole (content : Bytes) (head accept : Bool) (r : Resp) : Bool :=
  r.status == 200 && r.contentLength == content.length && r.contentRange == none &&
  r.acceptRanges == accept && r.body == (if head then [] else content)

def okPartial (content : Bytes) (head : Bool) (s e : Nat) (r : Resp) : Bool :=
  r.status == 206 && r.contentLength == ((e + 1 - s : Nat) : Int) &&
  (r.contentRange.bind parseContentRange) == some (s, e, content.length) &&
  r.acceptRanges && r.body == (if head then [] else slice content s e)

def okUnsat (head : Bool) (r : Resp) : Bool :=
  r.status == 416 && r.contentRange == none && (!head || r.body == []) &&
  (head || (r.body.length : Int) == r.contentLength)

/-- The answer `r` to a GET/HEAD for an existing file with the given content is what the property
asks for: the whole file, or exactly the range RFC 7233 prescribes with consistent `Content-Length`
and `Content-Range`, or 416; HEAD carries the same headers and no body. -/
def respOk (content : Bytes) (head : Bool) (hdr : Bytes) (accept : Bool) (r : Resp) : Bool :=
  if accept && !hdr.isEmpty then
    match rfcRange hdr content.length with
    | .sat s e => okPartial content head s e r || (!numsFit hdr && okUnsat head r)
    | _ => okUnsat head r
  else okWhole content head accept r

end Hertz.FS.Spec
