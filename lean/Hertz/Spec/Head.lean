import Hertz.Basic
/-!
Strict reader of a header block, the specification side of C05 / C04: lines end in CRLF, no bare CR
or LF inside a line, a field line is `name ": " value`, the block ends at the first empty line.
-/
namespace Hertz.Spec.Head
open Hertz

/-- first CRLF-terminated line, `none` if a bare CR/LF comes first or there is no CRLF -/
def crlfLine : Bytes → Option (Bytes × Bytes)
  | [] => none
  | [_] => none
  | c :: d :: t =>
    if c = 13 ∧ d = 10 then some ([], d :: t |>.drop 1)
    else if c = 10 ∨ c = 13 then none
    else (crlfLine (d :: t)).map (fun r => (c :: r.1, r.2))
termination_by structural x => x

/-- `name ": " value` -/
def splitField : Bytes → Option (Bytes × Bytes)
  | [] => none
  | [_] => none
  | c :: d :: t =>
    if c = 58 then (if d = 32 then some ([], t) else none)
    else (splitField (d :: t)).map (fun r => (c :: r.1, r.2))
termination_by structural x => x

/-- field lines up to the empty line; returns the fields and what follows the block -/
def fields : Nat → Bytes → Option (List (Bytes × Bytes) × Bytes)
  | 0, _ => none
  | fuel + 1, s =>
    match crlfLine s with
    | none => none
    | some (line, rest) =>
      if line.isEmpty then some ([], rest)
      else match splitField line with
        | none => none
        | some kv => (fields fuel rest).map (fun r => (kv :: r.1, r.2))

/-- start line, fields, remainder -/
def parseHead (s : Bytes) : Option (Bytes × List (Bytes × Bytes) × Bytes) :=
  match crlfLine s with
  | none => none
  | some (start, rest) => (fields (rest.length + 1) rest).map (fun r => (start, r.1, r.2))

end Hertz.Spec.Head
