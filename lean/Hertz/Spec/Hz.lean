import Hertz.Model.Hz
/-!
Specification side of C16, independent of the tree algorithm of the generator.

`interp` gives the meaning of the body of a generated `Register` function (a list of abstract statements):
which routes it registers on which full path, with which chain of middleware functions in front of the
handler.  Paths are joined as hertz's `RouterGroup` does for clean operands.

`exactRoutes`, `chainsWeak`, `chainsStrong` are the three parts of the property, stated on the
*registered routes* only:
  * the registered (verb, path, handler name) list is a permutation of the declared one;
  * every route is wrapped by one group middleware per proper prefix of its path, then its own;
  * every group declared anywhere in `Register` whose path is a proper prefix of the route's path is in
    the route's chain.
-/
namespace Hertz.HzSpec
open Hertz Hertz.Hz

structure Route where
  verb : Bytes
  path : Bytes
  handler : Bytes
  chain : List Bytes
  deriving DecidableEq, Repr

structure GroupVal where
  base : Bytes
  chain : List Bytes
  deriving DecidableEq, Repr

abbrev Scopes := List (List (Bytes × GroupVal))

/-- hertz `joinPaths(base, rel)` for operands that `path.Join` leaves alone -/
def joinPath (base rel : Bytes) : Bytes :=
  if rel = [sl] then (if base.getLast? = some sl then base else base ++ [sl])
  else if base.getLast? = some sl then base ++ rel.drop 1
  else base ++ rel

def lookupVar : Scopes → Bytes → Option GroupVal
  | [], _ => none
  | s :: r, v => match s.lookup v with
    | some g => some g
    | none => lookupVar r v

/-- routes registered and groups declared (full path, middleware function) by a statement list;
`none`: a variable is used that is not in scope, or the blocks are unbalanced -/
def interp : List Stmt → Scopes → Option (List Route × List (Bytes × Bytes))
  | [], _ => some ([], [])
  | .open_ :: r, sc => interp r ([] :: sc)
  | .close :: r, sc =>
    match sc with
    | _ :: s :: sc' => interp r (s :: sc')
    | _ => none
  | .group v g p mw :: r, sc =>
    match sc, lookupVar sc g with
    | top :: sc', some gv =>
      let nv : GroupVal := { base := joinPath gv.base p, chain := gv.chain ++ [mw] }
      match interp r (((v, nv) :: top) :: sc') with
      | some (rs, gs) => some (rs, (nv.base, mw) :: gs)
      | none => none
    | _, _ => none
  | .route g verb p mw h :: r, sc =>
    match lookupVar sc g with
    | some gv =>
      match interp r sc with
      | some (rs, gs) => some ({ verb := verb, path := joinPath gv.base p, handler := h, chain := gv.chain ++ [mw] } :: rs, gs)
      | none => none
    | none => none

/-- the scope `Register(r *server.Hertz)` starts in -/
def scope0 : Scopes := [[([114], { base := [sl], chain := [] })]]

/-- a path of the property's quantifier: leading slash, no empty inner segment, no `.`/`..` segment,
printable ASCII without `"` and `\` (the templates put the path into a Go string literal unescaped) -/
def cleanPath (p : Bytes) : Bool :=
  match splitSlash p with
  | [] :: segs =>
    !segs.isEmpty
    && (segs.dropLast).all (fun s => !s.isEmpty)
    && segs.all (fun s => s != [46] && s != [46, 46])
    && p.all (fun c => 33 ≤ c && c ≤ 126 && c != 34 && c != 92)
  | _ => false

def declaredKey (m : Method) : Bytes × Bytes × Bytes := (getHttpMethod m.verb, m.path, m.name)
def routeKey (r : Route) : Bytes × Bytes × Bytes := (r.verb, r.path, afterLastDot r.handler)

/-- the registered (verb, path, handler name) list is a permutation of the declared one -/
def exactRoutes (ms : List Method) (rs : List Route) : Bool := (rs.map routeKey).isPerm (ms.map declaredKey)

/-- number of path elements of a clean path: `/` ↦ 1, `/a/b` ↦ 2, `/a/` ↦ 2 -/
def depth (p : Bytes) : Nat := (splitSlash p).length - 1

/-- one middleware per proper prefix (root included) plus the route's own -/
def chainsWeak (rs : List Route) : Bool := rs.all (fun r => r.chain.length = depth r.path + 1)

def properPrefix (g p : Bytes) : Bool := g = [sl] || (g ++ [sl]).isPrefixOf p

/-- every declared group lying on the route's path wraps the route -/
def chainsStrong (rs : List Route) (gs : List (Bytes × Bytes)) : Bool :=
  rs.all (fun r => gs.all (fun g => !properPrefix g.1 r.path || r.chain.contains g.2))

/-- the methods `RouterGroup.Any` registers, sorted (the harness sorts what `Engine.Routes()` reports) -/
def anyVerbsSorted : List String := ["CONNECT", "DELETE", "GET", "HEAD", "OPTIONS", "PATCH", "POST", "PUT", "TRACE"]

/-- Go identifiers the generated files declare at package level / as local variables -/
def declaredVars : List Stmt → List Bytes
  | [] => []
  | .group v _ _ _ :: r => v :: declaredVars r
  | _ :: r => declaredVars r

def nodupB (l : List Bytes) : Bool :=
  match l with
  | [] => true
  | a :: r => !r.contains a && nodupB r

end Hertz.HzSpec
