import Hertz.Spec.Resp
/-!
X04 — the client's view of a connection: responses are read one after the other with the strict reader
`decodeOne`, each starting exactly where the previous one ended, until a response announces
`Connection: close`, the outstanding requests run out, or the connection ends between two messages.
-/
namespace Hertz.Spec.Resp
open Hertz

/-- `connection` -/
def sConnection : Bytes := [99, 111, 110, 110, 101, 99, 116, 105, 111, 110]
/-- `close` -/
def sClose : Bytes := [99, 108, 111, 115, 101]
/-- `keep-alive` -/
def sKeepAlive : Bytes := [107, 101, 101, 112, 45, 97, 108, 105, 118, 101]

def isConnClose (kv : Bytes × Bytes) : Bool := lowerAll kv.1 == sConnection && lowerAll kv.2 == sClose
def isConnKeepAlive (kv : Bytes × Bytes) : Bool := lowerAll kv.1 == sConnection && lowerAll kv.2 == sKeepAlive

/-- the response announces that the connection ends after it -/
def saysClose (m : Msg) : Bool := m.fields.any isConnClose
def saysKeepAlive (m : Msg) : Bool := m.fields.any isConnKeepAlive

/-- `heads` = for every outstanding request, whether it was a HEAD request.  `none` = some response is not a
well-formed complete message (cut short, or bytes that are no response); otherwise the responses read and
the bytes left over. -/
def decodeSeq : List Bool → Bytes → Option (List Msg × Bytes)
  | [], s => some ([], s)
  | h :: hs, s =>
    if s.isEmpty then some ([], []) else
    match decodeOne h s with
    | none => none
    | some (m, rest) =>
      if saysClose m then some ([m], rest)
      else (decodeSeq hs rest).map (fun r => (m :: r.1, r.2))

end Hertz.Spec.Resp
