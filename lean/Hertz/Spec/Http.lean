import Hertz.Basic
/-!
Independent strict HTTP/1.1 request-stream decoder (RFC 7230 §3), used as the *specification* of C01:
what framing assigns to each request of a well-formed, unambiguously framed pipelined stream.
Written without reference to hertz's scanner: line oriented, CRLF only, token names, Content-Length
xor `chunked`.  Returns `none` when the stream is not of that shape (then C01 says nothing).
-/
namespace Hertz.Spec.Http
open Hertz

structure Req where
  method : Bytes
  target : Bytes
  fields : List (Bytes × Bytes)      -- wire order, names as sent, values OWS-trimmed, obs-fold unfolded
  body : Bytes
  trailers : List (Bytes × Bytes)
  /-- some obs-fold continuation line contains a colon (a server may reject obs-fold; hertz does for these) -/
  foldedColon : Bool := false
deriving Repr, DecidableEq

def isTchar (c : UInt8) : Bool :=
  (48 ≤ c && c ≤ 57) || (65 ≤ c && c ≤ 90) || (97 ≤ c && c ≤ 122) ||
  c == 33 || c == 35 || c == 36 || c == 37 || c == 38 || c == 39 || c == 42 || c == 43 || c == 45 || c == 46 ||
  c == 94 || c == 95 || c == 96 || c == 124 || c == 126

def isToken (b : Bytes) : Bool := !b.isEmpty && b.all isTchar
def isFieldVchar (c : UInt8) : Bool := c == 9 || (32 ≤ c && c != 127)
def lower (c : UInt8) : UInt8 := if 65 ≤ c && c ≤ 90 then c + 32 else c
def lowerAll (b : Bytes) : Bytes := b.map lower

/-- first CRLF: `(line, rest)` -/
def crlfLine : Bytes → Option (Bytes × Bytes)
  | [] => none
  | [_] => none
  | c :: d :: t =>
    if c = 13 ∧ d = 10 then some ([], t)
    else if c = 10 ∨ (c = 13) then none      -- bare LF / bare CR are not allowed in a strict line
    else (crlfLine (d :: t)).map (fun r => (c :: r.1, r.2))
termination_by structural x => x

def trimOWS (b : Bytes) : Bytes :=
  ((b.dropWhile (fun c => c == 32 || c == 9)).reverse.dropWhile (fun c => c == 32 || c == 9)).reverse

def splitAt1 (sep : UInt8) : Bytes → Option (Bytes × Bytes)
  | [] => none
  | c :: t => if c = sep then some ([], t) else (splitAt1 sep t).map (fun r => (c :: r.1, r.2))

/-- header section up to the empty line: fields with obs-fold unfolded (continuation text joined by one space) -/
def fieldsAux : Nat → Bytes → List (Bytes × Bytes) → Option (List (Bytes × Bytes) × Bytes)
  | 0, _, _ => none
  | fuel + 1, s, acc =>
    match crlfLine s with
    | none => none
    | some (line, rest) =>
      if line.isEmpty then some (acc.reverse, rest)
      else match line with
        | c :: _ =>
          if c = 32 ∨ c = 9 then
            -- obs-fold: continuation of the previous field
            match acc with
            | [] => none
            | (k, v) :: acc' =>
              if !line.all isFieldVchar then none
              else fieldsAux fuel rest ((k, trimOWS (v ++ 32 :: trimOWS line)) :: acc')
          else match splitAt1 58 line with
            | none => none
            | some (name, value) =>
              if !isToken name || !value.all isFieldVchar then none
              else fieldsAux fuel rest ((name, trimOWS value) :: acc)
        | [] => none

/-- does the header section contain an obs-fold line with a colon? -/
def hasFoldedColon : Nat → Bytes → Bool
  | 0, _ => false
  | fuel + 1, s =>
    match crlfLine s with
    | none => false
    | some (line, rest) =>
      if line.isEmpty then false
      else ((line.head? == some 32 || line.head? == some 9) && line.contains 58) || hasFoldedColon fuel rest

def splitOnComma : Bytes → List Bytes
  | [] => [[]]
  | c :: t =>
    if c = 44 then [] :: splitOnComma t
    else match splitOnComma t with
      | [] => [[c]]
      | s :: r => (c :: s) :: r

def parseDec (b : Bytes) : Option Nat :=
  if b.isEmpty || !b.all (fun c => 48 ≤ c && c ≤ 57) then none
  else some (b.foldl (fun n c => n * 10 + (c - 48).toNat) 0)

def hexDigitVal (c : UInt8) : Option Nat :=
  if 48 ≤ c && c ≤ 57 then some (c - 48).toNat
  else if 97 ≤ c && c ≤ 102 then some (c - 87).toNat
  else if 65 ≤ c && c ≤ 70 then some (c - 55).toNat
  else none

def parseHex (b : Bytes) : Option Nat :=
  if b.isEmpty then none else b.foldlM (fun n c => (hexDigitVal c).map (fun d => n * 16 + d)) 0

def chunksAux : Nat → Bytes → Bytes → Option (Bytes × Bytes)
  | 0, _, _ => none
  | fuel + 1, s, acc =>
    match crlfLine s with
    | none => none
    | some (line, rest) =>
      -- BWS after the size is tolerated; hertz reads at most 15 hex digits (maxHexIntChars) and answers 400
      -- to longer size lines, which is a safe refusal: such streams are outside the comparison
      -- blanks IN FRONT of the size are not part of any reading of the grammar (chunk-size = 1*HEXDIG): no claim
      if line.head?.any (fun c => c == 32 || c == 9) then none else
      -- HTAB after the size (hertz skips SP only and answers 400: a safe refusal) and chunk extensions are not claimed either
      if line.any (fun c => c == 9) then none else
      if (trimOWS line).length > 15 then none else
      match parseHex (trimOWS line) with
      | none => none
      | some 0 => some (acc, rest)
      | some n =>
        if rest.length < n + 2 then none
        else if rest.drop n |>.take 2 |> (· != [13, 10]) then none
        else chunksAux fuel (rest.drop (n + 2)) (acc ++ rest.take n)

def lookupAll (fs : List (Bytes × Bytes)) (name : Bytes) : List Bytes :=
  (fs.filter (fun kv => lowerAll kv.1 == name)).map (·.2)

def sContentLength : Bytes := [99,111,110,116,101,110,116,45,108,101,110,103,116,104]
def sTransferEncoding : Bytes := [116,114,97,110,115,102,101,114,45,101,110,99,111,100,105,110,103]
def sChunked : Bytes := [99,104,117,110,107,101,100]
def sHTTP11 : Bytes := [72,84,84,80,47,49,46,49]

/-- one request from the front of the stream -/
def decodeOne (s : Bytes) : Option (Req × Bytes) := do
  let (line, rest) ← crlfLine s
  let (method, r1) ← splitAt1 32 line
  let (target, version) ← splitAt1 32 r1
  if !isToken method || target.isEmpty || !target.all (fun c => 33 ≤ c && c != 127) || version != sHTTP11 then none
  let fc := hasFoldedColon (rest.length + 1) rest
  let (fields, rest) ← fieldsAux (rest.length + 1) rest []
  let cls := lookupAll fields sContentLength
  let tes := lookupAll fields sTransferEncoding
  match cls, tes with
  | [], [] => pure ({ method, target, fields, body := [], trailers := [], foldedColon := fc }, rest)
  | cl :: more, [] =>
    if !more.all (· == cl) then none
    let n ← parseDec cl
    if rest.length < n then none
    pure ({ method, target, fields, body := rest.take n, trailers := [], foldedColon := fc }, rest.drop n)
  | [], [te] =>
    if lowerAll te != sChunked then none
    let (body, rest) ← chunksAux (rest.length + 1) rest []
    let (trailers, rest) ← fieldsAux (rest.length + 1) rest []
    pure ({ method, target, fields, body, trailers, foldedColon := fc }, rest)
  | _, _ => none      -- both, or several Transfer-Encoding fields: not unambiguous

def decodeAllAux : Nat → Bytes → List Req → Option (List Req)
  | 0, _, _ => none
  | fuel + 1, s, acc =>
    if s.isEmpty then some acc.reverse
    else match decodeOne s with
      | none => none
      | some (r, rest) => decodeAllAux fuel rest (r :: acc)

/-- the whole stream as a list of requests, or `none` if it is not a well-formed pipelined stream -/
def decodeAll (s : Bytes) : Option (List Req) := decodeAllAux (s.length + 1) s []

end Hertz.Spec.Http
