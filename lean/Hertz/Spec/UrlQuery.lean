import Hertz.Basic
/-!
Reference model of Go's `net/url` query parsing (go1.23 `src/net/url/url.go`), written function by
function after the Go source and independent of hertz's `protocol.Args` model:

* `ishex`, `unhex`                                  - the two helpers, by their `switch`;
* `unescapeScan`  - first loop of `unescape(s, encodeQueryComponent)` (count `%`, check that each is
                    followed by two hex digits, note a `+`);
* `unescapeBuild` - second loop (`%XY` -> byte, `+` -> space);
* `unescape`      - `QueryUnescape`;
* `cutByte`       - `strings.Cut` with a one-byte separator;
* `parseSegment`  - the body of the loop of `parseQuery` for one `key`;
* `parseQueryLoop`- the loop `for query != ""` of `parseQuery`;
* `stdParse`      - `url.ParseQuery`, keeping the pairs in wire order instead of a map
                    (`none` = ParseQuery returns an error).

The correspondence check ties it to the real `net/url`: op `argsstd` of C17 compares `stdParse` with what
the harness (`stdQuery` in `harness/c17.go`) gets from `url.ParseQuery`/`url.QueryUnescape` on every case.
-/
namespace Hertz.Spec.UrlQuery
open Hertz

/-- `ishex` -/
def ishex (c : UInt8) : Bool :=
  if 48 ≤ c && c ≤ 57 then true
  else if 97 ≤ c && c ≤ 102 then true
  else if 65 ≤ c && c ≤ 70 then true
  else false

/-- `unhex` -/
def unhex (c : UInt8) : UInt8 :=
  if 48 ≤ c && c ≤ 57 then c - 48
  else if 97 ≤ c && c ≤ 102 then c - 97 + 10
  else if 65 ≤ c && c ≤ 70 then c - 65 + 10
  else 0

/-- First loop of `unescape(s, encodeQueryComponent)`: `none` is `EscapeError` (a `%` not followed by two
hex digits; `i+2 >= len(s) || !ishex(s[i+1]) || !ishex(s[i+2])`), otherwise `(n, hasPlus)`: the number of
`%` and whether a `+` was seen. -/
def unescapeScan : Bytes → Option (Nat × Bool)
  | [] => some (0, false)
  | [c] => if c = 37 then none else some (0, c == 43)
  | c :: d :: [] =>
    if c = 37 then none else (unescapeScan (d :: [])).map (fun r => (r.1, r.2 || c == 43))
  | c :: a :: b :: rest =>
    if c = 37 then
      if !ishex a || !ishex b then none
      else (unescapeScan rest).map (fun r => (r.1 + 1, r.2))
    else (unescapeScan (a :: b :: rest)).map (fun r => (r.1, r.2 || c == 43))
termination_by structural x => x

/-- Second loop of `unescape`: `none` stands for Go's index-out-of-range panic at `s[i+1]`/`s[i+2]`, which the
first loop excludes (`Hertz.unescapeBuild_isSome_of_scan`). -/
def unescapeBuild : Bytes → Option Bytes
  | [] => some []
  | [c] => if c = 37 then none else some [if c = 43 then 32 else c]
  | c :: d :: [] =>
    if c = 37 then none else (unescapeBuild (d :: [])).map ((if c = 43 then 32 else c) :: ·)
  | c :: a :: b :: rest =>
    if c = 37 then (unescapeBuild rest).map ((unhex a <<< 4 ||| unhex b) :: ·)
    else (unescapeBuild (a :: b :: rest)).map ((if c = 43 then 32 else c) :: ·)
termination_by structural x => x

/-- `url.QueryUnescape(s)`; `none` = error. -/
def unescape (s : Bytes) : Option Bytes :=
  match unescapeScan s with
  | none => none
  | some (n, hasPlus) => if n == 0 && !hasPlus then some s else unescapeBuild s

/-- `strings.Cut(s, sep)` for a one-byte separator: `(before, after, found)`. -/
def cutByte (sep : UInt8) : Bytes → Bytes × Bytes × Bool
  | [] => ([], [], false)
  | c :: t =>
    if c = sep then ([], t, true)
    else
      let r := cutByte sep t
      (c :: r.1, r.2.1, r.2.2)

/-- What one turn of the loop of `parseQuery` does with its `key`. -/
inductive Seg where
  /-- `err` is set (`;` in the segment, or a malformed escape in key or value); nothing is added -/
  | err
  /-- empty segment: `continue` -/
  | skip
  /-- `m[key] = append(m[key], value)` -/
  | pair (key value : Bytes)
deriving DecidableEq, Repr

/-- Body of the loop of `parseQuery` after `key, query, _ = strings.Cut(query, "&")`. -/
def parseSegment (key : Bytes) : Seg :=
  if key.contains 59 then .err
  else if key.isEmpty then .skip
  else
    let kv := cutByte 61 key
    match unescape kv.1 with
    | none => .err
    | some k =>
      match unescape kv.2.1 with
      | none => .err
      | some v => .pair k v

/-- The loop `for query != ""` of `parseQuery`, on a fuel argument (`query` gets strictly shorter in every
turn, so `query.length` is enough fuel): the pairs appended, in order, and whether `err != nil` at the end.
As in Go the loop goes on after an error. -/
def parseQueryLoop : Nat → Bytes → List (Bytes × Bytes) × Bool
  | 0, _ => ([], false)
  | fuel + 1, query =>
    if query.isEmpty then ([], false)
    else
      let c := cutByte 38 query
      let r := parseQueryLoop fuel c.2.1
      match parseSegment c.1 with
      | .err => (r.1, true)
      | .skip => r
      | .pair k v => ((k, v) :: r.1, r.2)

/-- `url.ParseQuery(query)` with the pairs kept in wire order; `none` = it returns an error. -/
def stdParse (query : Bytes) : Option (List (Bytes × Bytes)) :=
  let r := parseQueryLoop query.length query
  if r.2 then none else some r.1

end Hertz.Spec.UrlQuery
