import Hertz.Gen.Resets
/-!
# C09 — specification side: what can be observed, what a fresh object is, what may survive

Hand-written and independent of the reset bodies (those are generated into `Hertz/Gen/Resets.lean`).

* `obs…` : the observable part of a state.  Scratch buffers (written before every read: `bufKV`, `buf`,
  `fullURI`, `requestURI` of `URI`), lock words, the `noCopy` marker and the body-writer back pointer are erased;
  a nil `*Trailer` is identified with an empty trailer (every getter goes through the allocating
  accessor `Trailer()`), a nil body buffer with an empty one (`Body()`/`BodyBytes()` return no bytes for both).
  Every other field — in particular every field added to the Go structs later — counts as observable.
* `fresh…` : a newly allocated object that carries the connection- or configuration-connScoped fields of `s`
  (these are re-established per connection by `Server.Serve`, per request by `Engine.ServeHTTP`, or
  once per object by `Engine.allocateContext`, and are not request state).
* `connScoped`/`scratch` : the same two allow-lists as tables, for `every_field_accounted`.
-/
namespace Hertz.Recycle
open Hertz Hertz.ResetBase Hertz.Gen.Resets

/-- fields that legitimately survive a reset: (type, field) -/
def connScoped : List (String × String) := [
  ("RequestContext", "conn"),          -- set by Serve per connection; cleared by Reset before pooling
  ("RequestContext", "HTMLRender"),    -- ctx.HTMLRender = s.HTMLRender in Serve
  ("RequestContext", "traceInfo"),     -- trace-info object, reset in place when tracing is on
  ("RequestContext", "enableTrace"),   -- ctx.SetEnableTrace(s.EnableTrace) in Serve
  ("RequestContext", "clientIPFunc"),  -- Engine.allocateContext
  ("RequestContext", "formValueFunc"), -- Engine.allocateContext
  ("RequestContext", "binder"),        -- Engine.ServeHTTP, every request
  ("RequestContext", "validator"),     -- Engine.ServeHTTP, every request
  ("Request", "isTLS"),                -- ctx.Request.SetIsTLS in Serve (cleared by Request.Reset)
  ("Request", "maxKeepBodySize"),      -- Engine.allocateContext
  ("Response", "maxKeepBodySize")]     -- Engine.allocateContext

/-- fields no getter can see: (type, field) -/
def scratch : List (String × String) := [
  ("Args", "noCopy"), ("Args", "buf"),
  ("Trailer", "bufKV"),
  ("Cookie", "noCopy"), ("Cookie", "bufKV"), ("Cookie", "buf"),
  ("URI", "noCopy"), ("URI", "fullURI"), ("URI", "requestURI"),
  ("RequestHeader", "noCopy"), ("RequestHeader", "bufKV"),
  ("ResponseHeader", "noCopy"), ("ResponseHeader", "bufKV"),
  ("Request", "noCopy"), ("Request", "w"),
  ("Response", "noCopy"), ("Response", "w"),
  ("RequestContext", "mu"), ("RequestContext", "finishedMu")]

def allow : List (String × String) := connScoped ++ scratch

/-! ## observation -/

def obsArgs (a : Args) : Args := { a with noCopy := 0, buf := [] }
def obsTrailer (t : Trailer) : Trailer := { t with bufKV := zero_ArgsKV }
def obsCookie (c : Cookie) : Cookie := { c with noCopy := 0, bufKV := zero_ArgsKV, buf := [] }
def obsURI (u : URI) : URI :=
  { u with noCopy := 0, queryArgs := obsArgs u.queryArgs, fullURI := [], requestURI := [] }
def obsRequestHeader (h : RequestHeader) : RequestHeader :=
  { h with noCopy := 0, bufKV := zero_ArgsKV, trailer := some (obsTrailer (h.trailer.getD zero_Trailer)) }
def obsResponseHeader (h : ResponseHeader) : ResponseHeader :=
  { h with noCopy := 0, bufKV := zero_ArgsKV, trailer := some (obsTrailer (h.trailer.getD zero_Trailer)) }
def obsRequest (r : Request) : Request :=
  { r with noCopy := 0, Header := obsRequestHeader r.Header, uri := obsURI r.uri, postArgs := obsArgs r.postArgs,
           w := 0, body := some (r.body.getD []) }
def obsResponse (r : Response) : Response :=
  { r with noCopy := 0, Header := obsResponseHeader r.Header, w := 0, body := some (r.body.getD []) }
def obsContext (c : RequestContext) : RequestContext :=
  { c with Request := obsRequest c.Request, Response := obsResponse c.Response, mu := 0, finishedMu := 0 }

/-! ## fresh objects -/

/-- `new(Request)` with the configured body-retention limit (after `ReleaseRequest`/`AcquireRequest`). -/
def freshRequest (s : Request) : Request := { zero_Request with maxKeepBodySize := s.maxKeepBodySize }
def freshResponse (s : Response) : Response := { zero_Response with maxKeepBodySize := s.maxKeepBodySize }

/-- What `Engine.ctxPool.New` + the set-up in `Server.Serve` / `Engine.ServeHTTP` produce for the connection
and engine that `s` belongs to (`index` is the literal of `app.NewContext`, regenerated from the source). -/
def freshContext (s : RequestContext) : RequestContext :=
  { zero_RequestContext with
    index := newContextIndex
    conn := s.conn, HTMLRender := s.HTMLRender, traceInfo := s.traceInfo, enableTrace := s.enableTrace,
    clientIPFunc := s.clientIPFunc, formValueFunc := s.formValueFunc, binder := s.binder, validator := s.validator,
    Request := { freshRequest s.Request with isTLS := s.Request.isTLS },
    Response := freshResponse s.Response }

/-- the same after `putRequestContext` (no connection attached yet) -/
def freshPooledContext (s : RequestContext) : RequestContext := { freshContext s with conn := 0 }

/-! ## accounting over the generated tables -/

def fieldsOf (ty : String) : List (String × String × String) := (fieldTable.lookup ty).getD []

def writesRaw (ty m : String) : List Wr :=
  match writeTable.find? (fun e => e.1 == ty && e.2.1 == m) with
  | some e => e.2.2
  | none => [.unknown ("no such method " ++ ty ++ "." ++ m)]

/-- writes of a method with sibling calls expanded -/
def writesOf : Nat → String → String → List Wr
  | 0, ty, m => [.unknown ("call depth exceeded at " ++ ty ++ "." ++ m)]
  | n + 1, ty, m => (writesRaw ty m).flatMap (fun w => match w with
      | .self m' => writesOf n ty m'
      | w => [w])

def nestedType (kind : String) : Option String :=
  if kind.startsWith "struct:" then some (kind.drop 7).toString
  else if kind.startsWith "opt:" then some (kind.drop 4).toString
  else none

/-- The fields reachable from a `ty` value (prefixed with the access path) that the write list `ws` leaves neither
written nor allow-listed.  A nested pooled value is accounted field by field through the methods called on it
and the writes made through its accessor. -/
def unaccountedIn : Nat → String → String → List Wr → List String
  | 0, path, ty, _ => [path ++ ty ++ ": depth exceeded"]
  | n + 1, path, ty, ws =>
    (ws.filterMap (fun w => match w with | .unknown s => some (path ++ ty ++ ": untranslated " ++ s) | _ => none)) ++
    (fieldsOf ty).flatMap (fun (f, _, kind) =>
      if allow.contains (ty, f) || ws.contains (.set f) then [] else
      match nestedType kind with
      | none => [path ++ ty ++ "." ++ f]
      | some sub =>
        let nested := ws.flatMap (fun w => match w with
          | .sub f' ty' m' => if f' == f && ty' == sub then writesOf 8 sub m' else []
          | .part f' ty' g => if f' == f && ty' == sub then [.set g] else []
          | _ => [])
        if nested.isEmpty then [path ++ ty ++ "." ++ f]
        else unaccountedIn n (path ++ ty ++ "." ++ f ++ " > ") sub nested)

def unaccounted (ty m : String) : List String := unaccountedIn 6 "" ty (writesOf 8 ty m)

/-- allow-list entries that name no field of the current source (stale entries) -/
def staleAllow : List (String × String) :=
  allow.filter (fun (ty, f) => !((fieldsOf ty).any (fun e => e.1 == f)))

end Hertz.Recycle
