import Hertz.Proofs.Hz
import Hertz.Proofs.HzGen
/-!
# C16 — hz-generated router code registers exactly the routes declared in the IDL

Model: `Hertz/Model/Hz.lean` (tree building `Update/FindNearest/Insert`, sorting, `DyeGroupName`, the
snake-style pass, denotation of the router.go / middleware.go templates, in-place update of
middleware.go).  Spec: `Hertz/Spec/Hz.lean` (meaning of a `Register` body).

What is proved for ALL inputs (no bound on the number of methods, path depth, names):

* `gen_registers_exactly`      the tree that is rendered carries exactly the declared (verb, path elements,
                               handler name) list, under every option combination, fresh or update;
* `tree_registers_exactly_any_sort`  … for every sorting function that permutes (so also for Go's pdqsort,
                               which `sort.Sort` uses above 12 children);
* `route_path_spells_declared` the node paths of a route, concatenated, are the declared path string;
* `generation_total`, `generation_fails_only_on_empty_path`   no panic, no other error;
* `unique_name_is_free`        invariant of `getUniqueName`;
* `identifiers_distinct_partial`  camel-style names, fresh router directory: the functions of middleware.go
                               and the variables of `Register` are pairwise distinct, whatever names were
                               taken before in the process;
* `model_matches_gen`          the templates, `RouterGroup.Any`, the probe bound and the root node are the
                               ones the model was written against (regenerated from the source each run).

What is FALSE of the code as it stands (witness theorems, each replayed against the real generator by
`bin/check`, classes in known_findings.json):

* `identifiers_distinct_fails_at`           snake-style names: one handler on two routes → `_AMw` twice;
* `identifiers_distinct_update_fails_at`    snake-style names + existing middleware.go → every function again;
* `group_middleware_covers_fails_at`        without sort-router `[/a/b, /a, /a/c]` → two groups for `/a`;
* `empty_service_imports_unused`            no routes: `Register` is empty, the handler import is still there;
* `handler_alias_shadowed_at`               handler-by-method in directory `root`: alias = local variable.
-/
namespace Hertz.Props.C16
open Hertz Hertz.Hz Hertz.HzSpec

/-! ## the routes -/

/-- Every generation step that succeeds renders a tree whose handler nodes are exactly the declared
methods: same verb (as rendered), same path elements, same handler name — as multisets, so nothing is
dropped, duplicated or invented.  Holds for every option combination, every set of names taken before,
fresh generation or update of an existing middleware.go. -/
theorem gen_registers_exactly (cfg : Cfg) (ms : List Method) (used : List Bytes) (ex : Option (List Bytes))
    (o : Output) (h : generate cfg ms used ex = .ok o) :
    ((routes o.tree).map Hz.routeKey).Perm (ms.map declKey) :=
  generate_routes cfg ms used ex o h

example : (match generate {} [⟨[71,69,84], [47,97,47,98], [65], []⟩, ⟨[80,79,83,84], [47,97], [66], []⟩] [] none with
    | .ok o => (routes o.tree).length | .error _ => 0) = 2 := by decide

/-- The same for the tree building alone and ANY sorting function that returns a permutation of its
input: the route set does not depend on how `sort.Sort` orders the children. -/
theorem tree_registers_exactly_any_sort (srt : List Node → List Node) (hs : ∀ l, (srt l).Perm l)
    (cfg : Cfg) (ms : List Method) (root : Node) (st : PkgSt)
    (h : buildWith srt cfg newRouterTree {} ms = .ok (root, st)) :
    ((routes root).map Hz.routeKey).Perm (ms.map declKey) := by
  have := buildWith_routes srt hs cfg ms newRouterTree root {} st h
  simpa [routes, newRouterTree, routesN, routesL] using this

example : ∀ l : List Node, (updSort true l).Perm l := updSort_perm true

/-- The path elements of a declared path with a leading slash, each with its slash, concatenate to the
declared path: the node paths handed to `Group(...)`/`VERB(...)` along a route spell the IDL path. -/
theorem route_path_spells_declared (t : Bytes) : ((segsOf (sl :: t)).map (sl :: ·)).flatten = sl :: t :=
  segs_spell_path t

example : segsOf [47, 97, 47, 98] = [[97], [98]] := by decide

/-- `Update` succeeds on every method list without an empty path (it never panics on `paths[0]`, never
reports "has been registered") … -/
theorem generation_total (cfg : Cfg) (ms : List Method) (h : ∀ m ∈ ms, m.path ≠ []) :
    ∃ r, build cfg ms = .ok r :=
  buildWith_ok _ cfg ms newRouterTree {} h

/-- … and the only error it can report is the empty path of some method. -/
theorem generation_fails_only_on_empty_path (cfg : Cfg) (ms : List Method) (e : Err)
    (h : build cfg ms = .error e) : e = .emptyPath ∧ ∃ m ∈ ms, m.path = [] :=
  buildWith_error _ cfg ms newRouterTree {} e h

example : build {} [⟨[71,69,84], [], [65], []⟩] = .error .emptyPath := by rfl

/-! ## identifiers -/

/-- `getUniqueName` returns a name that was not taken and records it. -/
theorem unique_name_is_free (name : Bytes) (used : List Bytes) (u : Bytes) (used' : List Bytes)
    (h : getUniqueName name used = .ok (u, used')) : u ∉ used ∧ used' = u :: used :=
  getUniqueName_spec name used u used' h

example : getUniqueName [97] [[97], [97, 48]] = .ok ([97, 49], [[97, 49], [97], [97, 48]]) := by rfl

def funcsOf (r : Except Err Output) : List Bytes := match r with | .ok o => o.funcs | .error _ => []
def stmtsOf (r : Except Err Output) : List Stmt := match r with | .ok o => o.stmts | .error _ => []
def importsOf (r : Except Err Output) : List (Bytes × Bytes) := match r with | .ok o => o.imports | .error _ => []

def GET : Bytes := [71, 69, 84]
def POST : Bytes := [80, 79, 83, 84]
def snakeCfg : Cfg := { snake := true }

/-- The statement "no identifier is declared twice" is FALSE with snake-style middleware names:
`A` bound to GET /a and POST /a declares `_AMw` twice in middleware.go. -/
theorem identifiers_distinct_fails_at :
    ¬ (∀ (cfg : Cfg) (ms : List Method) (used : List Bytes) (o : Output),
        generate cfg ms used none = .ok o → o.funcs.Nodup) := by
  intro h
  have key : ¬ (funcsOf (generate snakeCfg [⟨GET, [47, 97], [65], []⟩, ⟨POST, [47, 97], [65], []⟩] [] none)).Nodup := by
    decide
  cases hg : generate snakeCfg [⟨GET, [47, 97], [65], []⟩, ⟨POST, [47, 97], [65], []⟩] [] none with
  | error e => simp [funcsOf, hg] at key
  | ok o => exact key (by simpa [funcsOf, hg] using h _ _ _ o hg)

/-- Camel-style names, fresh router directory (the excluding hypothesis is `cfg.snake = false` and
`existing = none`): the functions middleware.go declares and the variables `Register` declares are
pairwise distinct — for every method list, every option otherwise, every set of names taken before. -/
theorem identifiers_distinct_partial (cfg : Cfg) (hs : cfg.snake = false) (ms : List Method) (used : List Bytes)
    (o : Output) (h : generate cfg ms used none = .ok o) :
    o.funcs.Nodup ∧ (declaredVars o.stmts).Nodup :=
  generate_idents cfg hs ms used o h

example : funcsOf (generate {} [⟨GET, [47, 97], [65], []⟩, ⟨POST, [47, 97], [65], []⟩] [] none)
    = [[114,111,111,116,77,119], [95,97,77,119], [95,97,48,77,119]] := by decide

/-- Snake style + update: generating GET /a (A) and then, on top of the resulting middleware.go,
GET /a (A) + GET /b (B) appends every function again. -/
theorem identifiers_distinct_update_fails_at :
    ¬ (funcsOf (generate snakeCfg [⟨GET, [47, 97], [65], []⟩, ⟨GET, [47, 98], [66], []⟩] []
        (some (funcsOf (generate snakeCfg [⟨GET, [47, 97], [65], []⟩] [] none))))).Nodup := by
  decide

/-- … while in camel style the same update declares every function once (the general statement for
updates is TODO-OPEN below). -/
example : (funcsOf (generate {} [⟨GET, [47, 97], [65], []⟩, ⟨GET, [47, 98], [66], []⟩] []
        (some (funcsOf (generate {} [⟨GET, [47, 97], [65], []⟩] [] none))))).Nodup := by
  decide

/-! ## group middleware -/

def strongOf (r : Except Err Output) : Bool :=
  match r with
  | .ok o => (match interp o.stmts scope0 with
              | some (rs, gs) => chainsStrong rs gs
              | none => false)
  | .error _ => false

def weakExactOf (ms : List Method) (r : Except Err Output) : Bool :=
  match r with
  | .ok o => (match interp o.stmts scope0 with
              | some (rs, _) => chainsWeak rs && exactRoutes ms rs
              | none => false)
  | .error _ => false

def splitWitness : List Method :=
  [⟨GET, [47,97,47,98], [65], []⟩, ⟨GET, [47,97], [66], []⟩, ⟨GET, [47,97,47,99], [67], []⟩]

/-- "wrapped by the middleware of every group on its path" is FALSE without sort-router: for
`[GET /a/b, GET /a, GET /a/c]` the rendered `Register` declares two groups with path `/a`; `/a/c` is
wrapped by one of them and `/a/b` by the other. -/
theorem group_middleware_covers_fails_at : strongOf (generate {} splitWitness [] none) = false := by decide

/-- With sort-router the same list gets one group per prefix; and in both modes each route is
registered on its declared path behind one middleware per proper prefix. -/
theorem group_middleware_covers_sorted_witness :
    strongOf (generate { sortRouter := true } splitWitness [] none) = true
    ∧ weakExactOf splitWitness (generate { sortRouter := true } splitWitness [] none) = true
    ∧ weakExactOf splitWitness (generate {} splitWitness [] none) = true := by decide

/-! ## two further defects of the rendered files -/

/-- A service without routes: `Register` is empty, the import of the handler package stays. -/
theorem empty_service_imports_unused :
    stmtsOf (generate { svcPkg := [120] } [] [] none) = [] ∧
    importsOf (generate { svcPkg := [120] } [] [] none) = [([112], [120])] := by decide

/-- Handler-by-method into a directory called `root`: the import alias equals the local variable `root`. -/
theorem handler_alias_shadowed_at :
    (importsOf (generate { byMethod := true, handlerBase := [104] } [⟨GET, [47, 97], [65], [114,111,111,116]⟩] [] none)).map (·.1)
      = [[114,111,111,116]]
    ∧ declaredVars (stmtsOf (generate { byMethod := true, handlerBase := [104] } [⟨GET, [47, 97], [65], [114,111,111,116]⟩] [] none))
      = [[114,111,111,116]] := by decide

/-! ## tie to the source -/

/-- The template texts, the method list of `RouterGroup.Any`, the probe bound of `getUniqueName` and the
root node of `NewRouterTree`, regenerated from the Go source on every run, are the ones the model and
the denotation were written against. -/
theorem model_matches_gen :
    Gen.HzTpl.routerTpl = expectedRouterTpl ∧ Gen.HzTpl.middlewareTpl = expectedMiddlewareTpl ∧
    Gen.HzTpl.middlewareSingleTpl = expectedMiddlewareSingleTpl ∧ Gen.HzTpl.registerTpl = expectedRegisterTpl ∧
    Gen.HzTpl.anyMethods.isPerm anyVerbsSorted = true ∧ probeLimit = Gen.HzTpl.uniqueProbeLimit ∧
    Gen.HzTpl.rootFields = ["GroupName=root", "MiddleWare=root", "GroupMiddleware=root", "Path=/"] :=
  ⟨routerTpl_matches_gen, middlewareTpl_matches_gen, middlewareSingleTpl_matches_gen, registerTpl_matches_gen,
   anyMethods_matches_gen, probeLimit_matches_gen, root_matches_gen.1⟩

example : Gen.HzTpl.anyMethods.length = 9 := by decide

/-
TODO-OPEN (stated, not proved; each is evaluated on the implementation's own output for every case of the
correspondence run, see Driver/C16.lean):

1. denotation theorem.  For every `o` with `generate cfg ms used ex = .ok o`, all declared paths clean
   (`cleanPath`), camel style:
     `interp o.stmts scope0 = some (rs, gs)` with
     `rs.map (fun r => (r.verb, r.path, afterLastDot r.handler)) ~ ms.map declaredKey`  (i.e. `exactRoutes ms rs`)
     and `chainsWeak rs`.
   Missing: (a) `dye` sets `groupName` to the parent's `middleWare` (invariant of the `groups` stack),
   (b) variable lookup in `interp` finds the parent's binding — needs `identifiers_distinct_partial` plus
   scoping of blocks, (c) no inner node has path `/` (needs "no empty inner segment" carried through `build`),
   (d) `joinPath` over node paths = `flatten` (have `route_path_spells_declared`).
   `gen_registers_exactly` is the tree-level half of this statement.

2. `chainsStrong` under sort-router: for `cfg.sortRouter = true` and clean paths, every declared group whose
   path is a proper prefix of a route wraps it (one group per prefix).  Missing: invariant "sibling group
   nodes have distinct paths" through `findNearest`/`insertAt` in sort mode.

3. `identifiers_distinct` for the update flow in camel style (`ex = some fs` where `fs` are the functions of
   an earlier generation in a fresh process): needs `mwDeclared` ⇔ membership for names over `[_a-z0-9]`.
-/

end Hertz.Props.C16
