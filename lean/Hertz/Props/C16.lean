import Hertz.Proofs.Hz
import Hertz.Proofs.HzGen
import Hertz.Proofs.HzDenote
/-!
# C16 — hz-generated router code registers exactly the routes declared in the IDL

Model: `Hertz/Model/Hz.lean` (tree building `Update/FindNearest/Insert`, sorting, `DyeGroupName`, the
snake-style pass, denotation of the router.go / middleware.go templates, in-place update of
middleware.go).  Spec: `Hertz/Spec/Hz.lean` (meaning of a `Register` body).

What is proved for ALL inputs (no bound on the number of methods, path depth, names):

* `gen_registers_exactly`      the tree that is rendered carries exactly the declared (verb, path elements,
                               handler name) list, under every option combination, fresh or update;
* `tree_registers_exactly_any_sort`  … for every sorting function that permutes (so also for Go's pdqsort,
                               which `sort.Sort` uses above 12 children);
* `route_path_spells_declared` the node paths of a route, concatenated, are the declared path string;
* `generation_total`, `generation_fails_only_on_empty_path`   no panic, no other error;
* `unique_name_is_free`        invariant of `getUniqueName`;
* `identifiers_distinct_partial`  camel-style names, fresh router directory: the functions of middleware.go
                               and the variables of `Register` are pairwise distinct, whatever names were
                               taken before in the process;
* `register_denotes_declared_routes`  THE DENOTATION THEOREM: for clean paths and identifier handler names,
                               executing the rendered `Register` statements succeeds and registers exactly the
                               declared (verb, full path, handler) list, each route behind one middleware per path
                               element — every option combination, both naming styles, fresh or update;
* `register_denotes_sorted`    … and with sort-router every group on a route's path wraps the route;
* `register_variables_distinct`  the variables of `Register` are distinct in both naming styles;
* `register_calls_declared_middleware`  fresh directory: every `…Mw()` that `Register` calls is declared;
* `identifiers_distinct_update`, `identifiers_distinct_two_step`  camel style: updating an existing
                               middleware.go declares nothing twice and keeps what was there;
* `model_matches_gen`          the templates, `RouterGroup.Any`, the probe bound and the root node are the
                               ones the model was written against (regenerated from the source each run).

What is FALSE of the code as it stands (witness theorems, each replayed against the real generator by
`bin/check`, classes in known_findings.json):

* `identifiers_distinct_fails_at`           snake-style names: one handler on two routes → `_AMw` twice;
* `identifiers_distinct_update_fails_at`    snake-style names + existing middleware.go → every function again;
* `group_middleware_covers_fails_at`        without sort-router `[/a/b, /a, /a/c]` → two groups for `/a`;
* `empty_service_imports_unused`            no routes: `Register` is empty, the handler import is still there;
* `handler_alias_shadowed_at`               handler-by-method in directory `root`: alias = local variable.
-/
namespace Hertz.Props.C16
open Hertz Hertz.Hz Hertz.HzSpec

/-! ## the routes -/

/-- Every generation step that succeeds renders a tree whose handler nodes are exactly the declared
methods: same verb (as rendered), same path elements, same handler name — as multisets, so nothing is
dropped, duplicated or invented.  Holds for every option combination, every set of names taken before,
fresh generation or update of an existing middleware.go. -/
theorem gen_registers_exactly (cfg : Cfg) (ms : List Method) (used : List Bytes) (ex : Option (List Bytes))
    (o : Output) (h : generate cfg ms used ex = .ok o) :
    ((routes o.tree).map Hz.routeKey).Perm (ms.map declKey) :=
  generate_routes cfg ms used ex o h

example : (match generate {} [⟨[71,69,84], [47,97,47,98], [65], []⟩, ⟨[80,79,83,84], [47,97], [66], []⟩] [] none with
    | .ok o => (routes o.tree).length | .error _ => 0) = 2 := by decide

/-- The same for the tree building alone and ANY sorting function that returns a permutation of its
input: the route set does not depend on how `sort.Sort` orders the children. -/
theorem tree_registers_exactly_any_sort (srt : List Node → List Node) (hs : ∀ l, (srt l).Perm l)
    (cfg : Cfg) (ms : List Method) (root : Node) (st : PkgSt)
    (h : buildWith srt cfg newRouterTree {} ms = .ok (root, st)) :
    ((routes root).map Hz.routeKey).Perm (ms.map declKey) := by
  have := buildWith_routes srt hs cfg ms newRouterTree root {} st h
  simpa [routes, newRouterTree, routesN, routesL] using this

example : ∀ l : List Node, (updSort true l).Perm l := updSort_perm true

/-- The path elements of a declared path with a leading slash, each with its slash, concatenate to the
declared path: the node paths handed to `Group(...)`/`VERB(...)` along a route spell the IDL path. -/
theorem route_path_spells_declared (t : Bytes) : ((segsOf (sl :: t)).map (sl :: ·)).flatten = sl :: t :=
  segs_spell_path t

example : segsOf [47, 97, 47, 98] = [[97], [98]] := by decide

/-- `Update` succeeds on every method list without an empty path (it never panics on `paths[0]`, never
reports "has been registered") … -/
theorem generation_total (cfg : Cfg) (ms : List Method) (h : ∀ m ∈ ms, m.path ≠ []) :
    ∃ r, build cfg ms = .ok r :=
  buildWith_ok _ cfg ms newRouterTree {} h

/-- … and the only error it can report is the empty path of some method. -/
theorem generation_fails_only_on_empty_path (cfg : Cfg) (ms : List Method) (e : Err)
    (h : build cfg ms = .error e) : e = .emptyPath ∧ ∃ m ∈ ms, m.path = [] :=
  buildWith_error _ cfg ms newRouterTree {} e h

example : build {} [⟨[71,69,84], [], [65], []⟩] = .error .emptyPath := by rfl

/-! ## identifiers -/

/-- `getUniqueName` returns a name that was not taken and records it. -/
theorem unique_name_is_free (name : Bytes) (used : List Bytes) (u : Bytes) (used' : List Bytes)
    (h : getUniqueName name used = .ok (u, used')) : u ∉ used ∧ used' = u :: used :=
  getUniqueName_spec name used u used' h

example : getUniqueName [97] [[97], [97, 48]] = .ok ([97, 49], [[97, 49], [97], [97, 48]]) := by rfl

def funcsOf (r : Except Err Output) : List Bytes := match r with | .ok o => o.funcs | .error _ => []
def stmtsOf (r : Except Err Output) : List Stmt := match r with | .ok o => o.stmts | .error _ => []
def importsOf (r : Except Err Output) : List (Bytes × Bytes) := match r with | .ok o => o.imports | .error _ => []

def GET : Bytes := [71, 69, 84]
def POST : Bytes := [80, 79, 83, 84]
def snakeCfg : Cfg := { snake := true }

/-- The statement "no identifier is declared twice" is FALSE with snake-style middleware names:
`A` bound to GET /a and POST /a declares `_AMw` twice in middleware.go. -/
theorem identifiers_distinct_fails_at :
    ¬ (∀ (cfg : Cfg) (ms : List Method) (used : List Bytes) (o : Output),
        generate cfg ms used none = .ok o → o.funcs.Nodup) := by
  intro h
  have key : ¬ (funcsOf (generate snakeCfg [⟨GET, [47, 97], [65], []⟩, ⟨POST, [47, 97], [65], []⟩] [] none)).Nodup := by
    decide
  cases hg : generate snakeCfg [⟨GET, [47, 97], [65], []⟩, ⟨POST, [47, 97], [65], []⟩] [] none with
  | error e => simp [funcsOf, hg] at key
  | ok o => exact key (by simpa [funcsOf, hg] using h _ _ _ o hg)

/-- Camel-style names, fresh router directory (the excluding hypothesis is `cfg.snake = false` and
`existing = none`): the functions middleware.go declares and the variables `Register` declares are
pairwise distinct — for every method list, every option otherwise, every set of names taken before. -/
theorem identifiers_distinct_partial (cfg : Cfg) (hs : cfg.snake = false) (ms : List Method) (used : List Bytes)
    (o : Output) (h : generate cfg ms used none = .ok o) :
    o.funcs.Nodup ∧ (declaredVars o.stmts).Nodup :=
  generate_idents cfg hs ms used o h

example : funcsOf (generate {} [⟨GET, [47, 97], [65], []⟩, ⟨POST, [47, 97], [65], []⟩] [] none)
    = [[114,111,111,116,77,119], [95,97,77,119], [95,97,48,77,119]] := by decide

/-- Snake style + update: generating GET /a (A) and then, on top of the resulting middleware.go,
GET /a (A) + GET /b (B) appends every function again. -/
theorem identifiers_distinct_update_fails_at :
    ¬ (funcsOf (generate snakeCfg [⟨GET, [47, 97], [65], []⟩, ⟨GET, [47, 98], [66], []⟩] []
        (some (funcsOf (generate snakeCfg [⟨GET, [47, 97], [65], []⟩] [] none))))).Nodup := by
  decide

/-- … while in camel style the same update declares every function once (the general statement for
updates is TODO-OPEN below). -/
example : (funcsOf (generate {} [⟨GET, [47, 97], [65], []⟩, ⟨GET, [47, 98], [66], []⟩] []
        (some (funcsOf (generate {} [⟨GET, [47, 97], [65], []⟩] [] none))))).Nodup := by
  decide

/-! ## group middleware -/

def strongOf (r : Except Err Output) : Bool :=
  match r with
  | .ok o => (match interp o.stmts scope0 with
              | some (rs, gs) => chainsStrong rs gs
              | none => false)
  | .error _ => false

def weakExactOf (ms : List Method) (r : Except Err Output) : Bool :=
  match r with
  | .ok o => (match interp o.stmts scope0 with
              | some (rs, _) => chainsWeak rs && exactRoutes ms rs
              | none => false)
  | .error _ => false

def splitWitness : List Method :=
  [⟨GET, [47,97,47,98], [65], []⟩, ⟨GET, [47,97], [66], []⟩, ⟨GET, [47,97,47,99], [67], []⟩]

/-- "wrapped by the middleware of every group on its path" is FALSE without sort-router: for
`[GET /a/b, GET /a, GET /a/c]` the rendered `Register` declares two groups with path `/a`; `/a/c` is
wrapped by one of them and `/a/b` by the other. -/
theorem group_middleware_covers_fails_at : strongOf (generate {} splitWitness [] none) = false := by decide

/-- With sort-router the same list gets one group per prefix; and in both modes each route is
registered on its declared path behind one middleware per proper prefix. -/
theorem group_middleware_covers_sorted_witness :
    strongOf (generate { sortRouter := true } splitWitness [] none) = true
    ∧ weakExactOf splitWitness (generate { sortRouter := true } splitWitness [] none) = true
    ∧ weakExactOf splitWitness (generate {} splitWitness [] none) = true := by decide

/-! ## the denotation theorem -/

/-- **What the generated `Register` does.**  Every declared path clean (`cleanPath`: leading slash, no
empty inner element, no `.`/`..`, printable without `"` and `\`); every handler name without a dot (a Go
identifier).  Then, for every option combination (sort-router, snake or camel names, handler by method or
by service), every set of names taken before, fresh generation or update: executing the rendered
statements (`interp`, which fails on a variable that is not in scope and on unbalanced blocks) succeeds;
the (verb, full path, handler name) list it registers is a permutation of the declared one — full paths
computed as hertz's `RouterGroup` joins them; and every route is registered behind exactly one middleware
function per element of its path plus the root's. -/
theorem register_denotes_declared_routes (cfg : Cfg) (ms : List Method)
    (hclean : ∀ m ∈ ms, cleanPath m.path = true) (hnames : ∀ m ∈ ms, (46 : UInt8) ∉ m.name)
    (used : List Bytes) (ex : Option (List Bytes)) (o : Output) (h : generate cfg ms used ex = .ok o) :
    ∃ rs gs, interp o.stmts scope0 = some (rs, gs) ∧ exactRoutes ms rs = true ∧ chainsWeak rs = true :=
  generate_denotes cfg ms (fun m hm => ⟨hclean m hm, hnames m hm⟩) used ex o h

/-- non-vacuity: a four-method list (one path with a trailing slash, one nested below a route) satisfies
the hypotheses and generates, in camel and in snake style -/
example : (∀ m ∈ splitWitness ++ [⟨POST, [47,97,47], [68], []⟩], cleanPath m.path = true ∧ (46 : UInt8) ∉ m.name)
    ∧ weakExactOf (splitWitness ++ [⟨POST, [47,97,47], [68], []⟩])
        (generate {} (splitWitness ++ [⟨POST, [47,97,47], [68], []⟩]) [] none) = true := by decide +kernel

example : weakExactOf splitWitness (generate snakeCfg splitWitness [] none) = true := by decide +kernel

/-- The hypothesis on handler names is needed for the statement as the spec words it (`routeKey` reads the
handler name as what follows the last dot of the rendered `alias.name`): a name with a dot is not a Go
identifier and `exactRoutes` is false for it. -/
theorem register_denotes_needs_identifier_names :
    weakExactOf [⟨GET, [47, 97], [65, 46, 66], []⟩] (generate {} [⟨GET, [47, 97], [65, 46, 66], []⟩] [] none) = false := by
  decide

/-- **Group middleware covers, with sort-router.**  Same hypotheses, `sort_router` on, every verb
non-empty: every group declared anywhere in `Register` whose full path is a proper prefix of a registered
route's path has its middleware function in the route's chain (there is one group per prefix — the
statement that is false without sort-router, `group_middleware_covers_fails_at`).  The three parts
together, about one interpretation of the rendered statements: -/
theorem register_denotes_sorted (cfg : Cfg) (hsr : cfg.sortRouter = true)
    (ms : List Method) (hclean : ∀ m ∈ ms, cleanPath m.path = true) (hnames : ∀ m ∈ ms, (46 : UInt8) ∉ m.name)
    (hverbs : ∀ m ∈ ms, m.verb ≠ [])
    (used : List Bytes) (ex : Option (List Bytes)) (o : Output) (h : generate cfg ms used ex = .ok o) :
    ∃ rs gs, interp o.stmts scope0 = some (rs, gs) ∧ exactRoutes ms rs = true ∧ chainsWeak rs = true
      ∧ chainsStrong rs gs = true := by
  obtain ⟨rs, gs, h1, h2, h3, h4⟩ :=
    generate_denotes_strong cfg ms (fun m hm => ⟨hclean m hm, hnames m hm⟩) used ex o h
  exact ⟨rs, gs, h1, h2, h3, h4 hsr hverbs⟩

/-- non-vacuity: the list that splits the `/a` group without sort-router satisfies the hypotheses -/
example : (∀ m ∈ splitWitness, cleanPath m.path = true ∧ (46 : UInt8) ∉ m.name ∧ m.verb ≠ [])
    ∧ strongOf (generate { sortRouter := true } splitWitness [] none) = true := by decide +kernel

/-- The variables `Register` declares are pairwise distinct in BOTH naming styles, fresh or update (the
duplicates of `identifiers_distinct_fails_at` are functions of middleware.go, never variables). -/
theorem register_variables_distinct (cfg : Cfg) (ms : List Method) (hclean : ∀ m ∈ ms, cleanPath m.path = true)
    (hnames : ∀ m ∈ ms, (46 : UInt8) ∉ m.name) (used : List Bytes) (ex : Option (List Bytes)) (o : Output)
    (h : generate cfg ms used ex = .ok o) : (declaredVars o.stmts).Nodup :=
  generate_vars_nodup cfg ms (fun m hm => ⟨hclean m hm, hnames m hm⟩) used ex o h

example : declaredVars (stmtsOf (generate snakeCfg splitWitness [] none)) = [[114,111,111,116], [95,97], [95,97,48]] := by
  decide +kernel

/-- Fresh router directory, both naming styles, every input: every middleware function the rendered
`Register` calls (`…Mw()` in a `Group(...)` or a route registration) is declared by the rendered
middleware.go.  (For the update flow this is TODO-OPEN B.) -/
theorem register_calls_declared_middleware (cfg : Cfg) (ms : List Method) (used : List Bytes) (o : Output)
    (h : generate cfg ms used none = .ok o) : ∀ f ∈ referencedMws o.stmts, f ∈ o.funcs :=
  generate_referenced_declared cfg ms used o h

example : referencedMws (stmtsOf (generate {} [⟨GET, [47, 97], [65], []⟩] [] none))
    = [[114,111,111,116,77,119], [95,97,77,119]] := by decide

/-! ## update of an existing middleware.go -/

/-- Camel-style names, router directory whose middleware.go declares the pairwise distinct functions `fs`
(in particular: the functions of any earlier camel-style generation, `identifiers_distinct_partial`): after
the update no function and no variable is declared twice, and the existing functions are still there, in
order, at the front of the file.  (Snake style: `identifiers_distinct_update_fails_at`.) -/
theorem identifiers_distinct_update (cfg : Cfg) (hs : cfg.snake = false) (ms : List Method) (used : List Bytes)
    (fs : List Bytes) (hfs : fs.Nodup) (o : Output) (h : generate cfg ms used (some fs) = .ok o) :
    o.funcs.Nodup ∧ (declaredVars o.stmts).Nodup ∧ fs <+: o.funcs :=
  generate_idents_update cfg hs ms used fs hfs o h

/-- the update flow the correspondence run exercises: generate a prefix of the method list in a fresh
directory, then the whole list on top of the resulting middleware.go -/
theorem identifiers_distinct_two_step (cfg : Cfg) (hs : cfg.snake = false) (ms0 ms : List Method)
    (used0 used : List Bytes) (o0 o : Output) (h0 : generate cfg ms0 used0 none = .ok o0)
    (h : generate cfg ms used (some o0.funcs) = .ok o) :
    o.funcs.Nodup ∧ (declaredVars o.stmts).Nodup ∧ o0.funcs <+: o.funcs :=
  generate_idents_update cfg hs ms used o0.funcs (generate_idents cfg hs ms0 used0 o0 h0).1 o h

example : funcsOf (generate {} [⟨GET, [47, 97], [65], []⟩, ⟨GET, [47, 98], [66], []⟩] []
        (some (funcsOf (generate {} [⟨GET, [47, 97], [65], []⟩] [] none))))
    = [[114,111,111,116,77,119], [95,97,77,119], [95,98,77,119]] := by decide

/-! ## two further defects of the rendered files -/

/-- A service without routes: `Register` is empty, the import of the handler package stays. -/
theorem empty_service_imports_unused :
    stmtsOf (generate { svcPkg := [120] } [] [] none) = [] ∧
    importsOf (generate { svcPkg := [120] } [] [] none) = [([112], [120])] := by decide

/-- Handler-by-method into a directory called `root`: the import alias equals the local variable `root`. -/
theorem handler_alias_shadowed_at :
    (importsOf (generate { byMethod := true, handlerBase := [104] } [⟨GET, [47, 97], [65], [114,111,111,116]⟩] [] none)).map (·.1)
      = [[114,111,111,116]]
    ∧ declaredVars (stmtsOf (generate { byMethod := true, handlerBase := [104] } [⟨GET, [47, 97], [65], [114,111,111,116]⟩] [] none))
      = [[114,111,111,116]] := by decide

/-! ## tie to the source -/

/-- The template texts, the method list of `RouterGroup.Any`, the probe bound of `getUniqueName` and the
root node of `NewRouterTree`, regenerated from the Go source on every run, are the ones the model and
the denotation were written against. -/
theorem model_matches_gen :
    Gen.HzTpl.routerTpl = expectedRouterTpl ∧ Gen.HzTpl.middlewareTpl = expectedMiddlewareTpl ∧
    Gen.HzTpl.middlewareSingleTpl = expectedMiddlewareSingleTpl ∧ Gen.HzTpl.registerTpl = expectedRegisterTpl ∧
    Gen.HzTpl.anyMethods.isPerm anyVerbsSorted = true ∧ probeLimit = Gen.HzTpl.uniqueProbeLimit ∧
    Gen.HzTpl.rootFields = ["GroupName=root", "MiddleWare=root", "GroupMiddleware=root", "Path=/"] :=
  ⟨routerTpl_matches_gen, middlewareTpl_matches_gen, middlewareSingleTpl_matches_gen, registerTpl_matches_gen,
   anyMethods_matches_gen, probeLimit_matches_gen, root_matches_gen.1⟩

example : Gen.HzTpl.anyMethods.length = 9 := by decide

/-
TODO-OPEN — state after the proof round (`Proofs/HzDenote.lean`).

PROVED (were items 1–3 of this block):

1. denotation theorem = `register_denotes_declared_routes`: for every successful generation over clean
   paths and dot-free handler names — both naming styles, every option, fresh or update —
   `interp o.stmts scope0 = some (rs, gs)` with `exactRoutes ms rs` and `chainsWeak rs`.  The four
   ingredients: (a) `dye_gn` (groups stack: `GroupName` = parent's `MiddleWare`), (b) `interp_node` /
   `interp_nodes` (scoping, from `register_variables_distinct`, now also for snake style), (c) `buildWith_shape`
   (a node with children is never called `/`; node paths are `/seg`, `seg` slash-free), (d) `joinPath_full`.
   The hypothesis "no dot in a handler name" is needed by the spec's `routeKey`
   (`register_denotes_needs_identifier_names`).
2. `chainsStrong` under sort-router = `register_denotes_sorted`, with the extra explicit hypothesis that
   every verb is non-empty (`buildWith_si`: only method-less nodes have children and method-less siblings
   have distinct paths; `strongN`).
3. update flow, camel style = `identifiers_distinct_update` (any existing middleware.go with distinct
   function names) and `identifiers_distinct_two_step`.

STILL OPEN (stated, not proved; evaluated per case by Driver/C16.lean):

A. `register_denotes_sorted` without `m.verb ≠ []`.  A method with an empty verb yields a leaf without
   HTTP method, which sort-router's `FindNearest` treats as a group node; the invariant then needs the
   stability of `sort.Sort`'s insertion sort.  Not refuted: no counterexample among all lists of ≤ 4
   methods over 5 paths × {"", GET}.  (hz never produces an empty verb: it comes from the annotation name.)
B. update flow: every middleware function the new router.go refers to is declared in the updated
   middleware.go (`∀ f ∈ mwFuncs o.tree, f ∈ o.funcs` for `ex = some fs`, `fs` from an earlier camel-style
   generation).  Needs `mwDeclared` (a prefix test) ⇔ membership for names `x ++ "Mw"` with `x` over
   `[_a-z0-9]`.  Only "nothing is declared twice" is proved for the update flow.
C. the statements about paths outside `cleanPath` (empty inner elements, `.`/`..`): the driver only judges
   the (verb, handler) set there.
-/

end Hertz.Props.C16
