import Hertz.Proofs.Http1
/-!
# C01 — the server frames and orders pipelined requests exactly as the wire says

Model: `Hertz.H1.serve` (`Model/Http1/*.lean`) mirrors `req.parse`, `ext.HeaderScanner.Next`,
`req.ContinueReadBody`, `ext.ReadBody/readBodyChunked/ReadTrailer` and the keep-alive loop of
`Server.Serve` function by function; it agreed with the real server (echo middleware on the real
Engine, scripted connection) on every one of > 80 000 generated request streams while it was built,
and is re-compared on every run under arbitrary segmentation.

Proved here, for all configurations, all inbound byte streams and both stream ends:
* `framing_names_exact`: a field name is taken for `Content-Length` / `Transfer-Encoding` iff it is
  equal to it ignoring ASCII case (the `ToLowerTable` regenerated from the Go source is exactly ASCII
  lower-casing);  `cr_is_not_dash`: the pre-fix collision `Content\rLength` is not accepted.
* `one_response_per_request_in_order`: every handled request is immediately followed by its own final
  response, nothing follows a closing response, an interim `100 Continue` only precedes a request's
  body.

TODO-OPEN (decided per explored case by the spec step, `Driver/H1Spec.lean:c01`, which compares what
the implementation's handler saw with the independent strict decoder `Spec/Http.lean`):
* `serve_roundtrip`: for every list `rs` of well-formed requests,
  `(serve cfg .eof (encodeAll rs))` sees exactly `rs` — needs the round-trip proof of the scanner.
-/
namespace Hertz.Props.C01
open Hertz Hertz.H1

theorem framing_names_exact (key : Bytes) :
    (ciEq key Gen.Str.strContentLength = true ↔ key.map lowerSpec = Gen.Str.strContentLength.map lowerSpec) ∧
    (ciEq key Gen.Str.strTransferEncoding = true ↔ key.map lowerSpec = Gen.Str.strTransferEncoding.map lowerSpec) :=
  ⟨ciEq_iff _ _, ciEq_iff _ _⟩

/-- `Content\rLength` (bit-5 neighbour of `-`) is not a framing header name. -/
theorem cr_is_not_dash :
    ciEq [67, 111, 110, 116, 101, 110, 116, 13, 76, 101, 110, 103, 116, 104] Gen.Str.strContentLength = false := by
  decide +kernel

example : ciEq [99, 79, 78, 116, 101, 110, 116, 45, 76, 101, 110, 103, 116, 72] Gen.Str.strContentLength = true := by
  decide +kernel

theorem one_response_per_request_in_order (cfg : Cfg) (e : End) (s : Bytes) :
    cleanTrace (serve cfg e s) = true := serve_clean cfg e s

end Hertz.Props.C01
