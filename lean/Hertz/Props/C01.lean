import Hertz.Proofs.Http1
import Hertz.Proofs.ReqRoundtrip
/-!
# C01 — the server frames and orders pipelined requests exactly as the wire says

Model: `Hertz.H1.serve` (`Model/Http1/*.lean`) mirrors `req.parse`, `ext.HeaderScanner.Next`,
`req.ContinueReadBody`, `ext.ReadBody/readBodyChunked/ReadTrailer` and the keep-alive loop of
`Server.Serve` function by function; it agreed with the real server (echo middleware on the real
Engine, scripted connection) on every one of > 80 000 generated request streams while it was built,
and is re-compared on every run under arbitrary segmentation.

Proved here, for all configurations, all inbound byte streams and both stream ends:
* `framing_names_exact`: a field name is taken for `Content-Length` / `Transfer-Encoding` iff it is
  equal to it ignoring ASCII case (the `ToLowerTable` regenerated from the Go source is exactly ASCII
  lower-casing);  `cr_is_not_dash`: the pre-fix collision `Content\rLength` is not accepted.
* `one_response_per_request_in_order`: every handled request is immediately followed by its own final
  response, nothing follows a closing response, an interim `100 Continue` only precedes a request's
  body.

Proved for every stream that is the encoding of well-formed requests (`Proofs/ReqRoundtrip.lean`):
* `head_roundtrip`, `body_roundtrip`, `request_roundtrip`, `serve_roundtrip` (+ `serve_roundtrip_all`,
  `serve_own_bytes`, `seen_fields`): for every list of well-formed wire requests `rs : List WReq` (predicate
  `wfReq`: token method, target without SP/CTL, token field names, OWS-trimmed field values without CR/LF/CTL,
  framing fields as the strict decoder demands — none / equal `Content-Length` fields < 2^63 / exactly one
  `Transfer-Encoding: chunked` —, chunks with size lines of ≤ 15 hex digits, every `Trailer` field a clean
  declaration `n1, n2, …` of allowed names, and the trailer section of a chunked request = well-formed fields
  whose names are, in order, the declared names (possibly none)), every configuration whose limits the requests respect (`withinLimits`: `MaxRequestBodySize`,
  multipart pre-parse not triggered), both stream ends and any bytes after a request: the head is parsed to
  exactly the request's method, target and fields (`expectedHead`), consuming exactly the head; the body reader
  returns exactly the body and leaves exactly what follows; and the handler is handed exactly the requests to be
  served (up to and including the first `Connection: close`), in order, with their own method, target, fields,
  body and trailers (`seen_trailers`; trailer names starting with the byte `0` included — the case repaired by
  `/repo` 0060100).  Fields may repeat, come in any order and any letter case; encoding is the canonical
  `name ": " value CRLF`.
* `spec_decodes_encoding`, `serve_refines_spec`: the independent strict decoder `Spec.Http.decodeAll` reads
  `encAll rs` back as exactly `rs` (so `wfReq`/`encAll` describe streams of the specification's language, and the
  encoder is a right inverse of the specification), and what the handler is handed agrees with what the strict
  decoder assigns to each request.

TODO-OPEN (still decided per explored case by the spec step, `Driver/H1Spec.lean:c01`, which compares what the
implementation's handler saw with the independent strict decoder `Spec/Http.lean`):
* `serve_roundtrip` for the part of the strict decoder's language outside `wfReq`:
  - trailer sections whose names are not exactly the declared names in declaration order (undeclared trailer
    fields are dropped by the server, missing ones are reported empty, `updateTrailer` fills by name), and `Trailer`
    declarations in another spelling than `n1, n2` (no blank after the comma, empty elements, a trailing comma) or
    naming a forbidden field (answered 400 when it is the last element);
  - other spellings of a field line that the strict decoder accepts: no or several blanks / HTAB after the colon,
    blanks before CRLF, obs-fold continuation lines (the scanner lemma `scanNext_field` covers `": "` only);
  - HTTP/1.0 request lines (the strict decoder refuses them anyway), empty lines in front of a request.
-/
namespace Hertz.Props.C01
open Hertz Hertz.H1

theorem framing_names_exact (key : Bytes) :
    (ciEq key Gen.Str.strContentLength = true ↔ key.map lowerSpec = Gen.Str.strContentLength.map lowerSpec) ∧
    (ciEq key Gen.Str.strTransferEncoding = true ↔ key.map lowerSpec = Gen.Str.strTransferEncoding.map lowerSpec) :=
  ⟨ciEq_iff _ _, ciEq_iff _ _⟩

/-- `Content\rLength` (bit-5 neighbour of `-`) is not a framing header name. -/
theorem cr_is_not_dash :
    ciEq [67, 111, 110, 116, 101, 110, 116, 13, 76, 101, 110, 103, 116, 104] Gen.Str.strContentLength = false := by
  decide +kernel

example : ciEq [99, 79, 78, 116, 101, 110, 116, 45, 76, 101, 110, 103, 116, 72] Gen.Str.strContentLength = true := by
  decide +kernel

theorem one_response_per_request_in_order (cfg : Cfg) (e : End) (s : Bytes) :
    cleanTrace (serve cfg e s) = true := serve_clean cfg e s

/-! ### round trip: what is written on the wire is what the handler gets (`Proofs/ReqRoundtrip.lean`)

`WReq` is a request as written on the wire (method, target, field list incl. the framing fields, body as
sent: nothing / `Content-Length` bytes / chunks with their size lines and the zero size line).
`wfReq` is the explicit well-formedness predicate (the conditions of the strict decoder `Spec.Http.decodeOne`
plus: field values OWS-trimmed, `Trailer` fields clean declarations of allowed names, the trailer section's names
= the declared names in order, chunk size lines of at most 15 hex digits, `Content-Length` below 2^63; it takes the
server's `DisableNormalizing` flag because that decides which spelling of a trailer name matches a declared one).  `encHeadOf`/`encBody`/`encReq`/`encAll` are the encoders. -/

open Hertz.H1.RT

/-- `POST /a?b HTTP/1.1`, `Host: h`, `content-LENGTH: 3`, `X-y: a b`, body `abc` -/
def exFixed : WReq :=
  { method := [80, 79, 83, 84], target := [47, 97, 63, 98],
    fields := [([72, 111, 115, 116], [104]), ([99, 111, 110, 116, 101, 110, 116, 45, 76, 69, 78, 71, 84, 72], [51]),
               ([88, 45, 121], [97, 32, 98])],
    body := .fixed [97, 98, 99] }

/-- `POST / HTTP/1.1`, `transfer-encoding: Chunked`, chunks `3 abc`, `0A <10 bytes>`, last size line `0` -/
def exChunked : WReq :=
  { method := [80, 79, 83, 84], target := [47],
    fields := [([116, 114, 97, 110, 115, 102, 101, 114, 45, 101, 110, 99, 111, 100, 105, 110, 103],
                [67, 104, 117, 110, 107, 101, 100])],
    body := .chunked [⟨[51], [97, 98, 99]⟩, ⟨[48, 65], [1, 2, 3, 4, 5, 6, 7, 8, 9, 10]⟩] [48] [] }

/-- `POST /t HTTP/1.1`, `Trailer: 0a, x-sum`, `Transfer-Encoding: chunked`, chunk `3 abc`, last size line `0`,
trailer section `0a: b:c`, `X-Sum: 9` (a trailer name that starts with the byte `0`) -/
def exTrailers : WReq :=
  { method := [80, 79, 83, 84], target := [47, 116],
    fields := [([84, 114, 97, 105, 108, 101, 114], [48, 97, 44, 32, 120, 45, 115, 117, 109]),
               ([84, 114, 97, 110, 115, 102, 101, 114, 45, 69, 110, 99, 111, 100, 105, 110, 103],
                [99, 104, 117, 110, 107, 101, 100])],
    body := .chunked [⟨[51], [97, 98, 99]⟩] [48] [([48, 97], [98, 58, 99]), ([88, 45, 83, 117, 109], [57])] }

/-- `GET /x HTTP/1.1`, `Host: h`, `Connection: close` -/
def exClose : WReq :=
  { method := [71, 69, 84], target := [47, 120],
    fields := [([72, 111, 115, 116], [104]), ([67, 111, 110, 110, 101, 99, 116, 105, 111, 110], [99, 108, 111, 115, 101])],
    body := .none }

/-- Stage 1. For every well-formed request and every continuation of the stream, `req.parse` returns the
request's own method and target, the special fields (`Host`, `User-Agent`, `Content-Type`: last one of that
name), the framing decision, the close flag, and the generic header list in wire order with names as normalised
(all spelled out in `expectedHead`), and consumes exactly the bytes of the head. -/
theorem head_roundtrip (dn : Bool) (r : WReq) (h : wfReq dn r = true) (rest : Bytes) :
    parseReqHead dn (encHeadOf r ++ rest) = .ok (expectedHead dn r, (encHeadOf r).length) :=
  parseReqHead_enc dn r h rest

example : (∀ dn, wfReq dn exFixed = true ∧ wfReq dn exChunked = true ∧ wfReq dn exClose = true) := by decide
set_option maxRecDepth 100000 in
example : wfReq false exTrailers = true ∧ (expectedHead false exTrailers).trailer = [[48, 97], [88, 45, 83, 117, 109]] := by
  decide +kernel
example : (expectedHead false exFixed).h = [([88, 45, 89], [97, 32, 98])] ∧ (expectedHead false exFixed).cl = 3 := by decide +kernel

/-- Stage 2. After the head, `ContinueReadBody` (fixed length, chunked, or no body) yields exactly the body
and leaves exactly the bytes that follow the body's encoding, for either way the stream may end later. -/
theorem body_roundtrip (cfg : Cfg) (e : End) (r : WReq) (h : wfReq cfg.disableNorm r = true)
    (hlim : withinLimits cfg r = true) (rest : Bytes) :
    continueReadBody cfg e (expectedHead cfg.disableNorm r) (encBody r.body ++ rest) =
      .ok (expectedSeen cfg.disableNorm r).head (bodyOf r.body) (expectedSeen cfg.disableNorm r).trailers rest :=
  continueReadBody_enc cfg e r h hlim rest

example : wfReq false exChunked = true ∧ withinLimits {} exChunked = true ∧
    bodyOf exChunked.body = [97, 98, 99, 1, 2, 3, 4, 5, 6, 7, 8, 9, 10] := by decide

/-- Stage 3a. One turn of the keep-alive loop on an encoded request followed by anything: the handler gets
exactly this request (preceded by `100 Continue` if it asked for it), 200 is written, and the loop goes on
with exactly the bytes after the request unless the request (or the configuration) closes. -/
theorem request_roundtrip (cfg : Cfg) (e : End) (r : WReq) (h : wfReq cfg.disableNorm r = true)
    (hlim : withinLimits cfg r = true) (fuel : Nat) (first : Bool) (rest : Bytes) :
    serveLoop cfg e (fuel + 1) first (encReq r ++ rest) =
      (if mayContinue (expectedHead cfg.disableNorm r) then [Ev.continue100] else []) ++
      [.req (expectedSeen cfg.disableNorm r), .resp 200 (cfg.disableKeepalive || closes r)] ++
      (if (cfg.disableKeepalive || closes r) = true then [] else serveLoop cfg e fuel false rest) :=
  serveLoop_step cfg e r h hlim fuel first rest

/-- Stage 3b (`serve_roundtrip`). For every list of well-formed requests, every configuration whose limits
they respect, and both stream ends: the requests handed to the handler are exactly the requests to be served
(all up to and including the first that says `Connection: close`; the first only if keep-alive is disabled),
in order, each as `expectedSeen` spells out. -/
theorem serve_roundtrip (cfg : Cfg) (e : End) (rs : List WReq)
    (hw : ∀ r ∈ rs, wfReq cfg.disableNorm r = true ∧ withinLimits cfg r = true) :
    handled (serve cfg e (encAll rs)) = (served cfg.disableKeepalive rs).map (expectedSeen cfg.disableNorm) :=
  serve_enc cfg e rs hw

/-- … in particular, with keep-alive and no `Connection: close` except possibly on the last request, every
request is handed over, in order. -/
theorem serve_roundtrip_all (cfg : Cfg) (e : End) (rs : List WReq)
    (hw : ∀ r ∈ rs, wfReq cfg.disableNorm r = true ∧ withinLimits cfg r = true) (hk : cfg.disableKeepalive = false)
    (hc : ∀ r ∈ rs.dropLast, closes r = false) :
    handled (serve cfg e (encAll rs)) = rs.map (expectedSeen cfg.disableNorm) := by
  rw [serve_enc cfg e rs hw, hk, served_all rs hc]

set_option maxRecDepth 100000 in
example : (∀ r ∈ [exFixed, exTrailers, exChunked, exClose], wfReq false r = true ∧ withinLimits {} r = true) ∧
    (∀ r ∈ [exFixed, exTrailers, exChunked, exClose].dropLast, closes r = false) := by decide +kernel

/-- No byte of one request is delivered as part of another: method, target and body the handler sees are the
request's own, request by request. -/
theorem serve_own_bytes (cfg : Cfg) (e : End) (rs : List WReq)
    (hw : ∀ r ∈ rs, wfReq cfg.disableNorm r = true ∧ withinLimits cfg r = true) :
    (handled (serve cfg e (encAll rs))).map (fun s => (s.head.method, s.head.uri, s.body)) =
      (served cfg.disableKeepalive rs).map (fun r => (r.method, r.target, bodyOf r.body)) := by
  rw [serve_enc cfg e rs hw, List.map_map]
  apply List.map_congr_left
  intro r _
  obtain ⟨h1, h2, h3⟩ := expectedSeen_own cfg.disableNorm r
  simp [h1, h2, h3]

/-- … and its own header fields (see `expectedSeen_fields` for the reading of `pick` / `generic`). -/
theorem seen_fields (dn : Bool) (r : WReq) :
    (expectedSeen dn r).head.host = pick .host r.fields [] ∧
    (expectedSeen dn r).head.userAgent = pick .ua r.fields [] ∧
    (expectedSeen dn r).head.contentType = pick .ct r.fields [] ∧
    ((expectedSeen dn r).head.h = r.fields.filterMap (generic dn) ∨
     (expectedSeen dn r).head.h = (r.fields.filterMap (generic dn)).filter (fun kv => kv.1 != Gen.Str.strTransferEncoding)) :=
  expectedSeen_fields dn r

/-- The trailers the handler is handed: for a chunked request the fields of its own trailer section, in order,
names normalised, values untouched (this includes names that start with the byte `0`); for any other request the
declared names with empty values. -/
theorem seen_trailers (dn : Bool) (r : WReq) :
    (expectedSeen dn r).trailers =
      (match r.body with
       | .chunked _ _ trs => trs.map (fun kv => (normalizeKey dn kv.1, kv.2))
       | _ => (pickT dn r.fields []).map (fun k => (k, []))) := rfl

set_option maxRecDepth 100000 in
example : (expectedSeen false exTrailers).trailers = [([48, 97], [98, 58, 99]), ([88, 45, 83, 117, 109], [57])] := by
  decide +kernel

/-- The encoder of the theorems above is a right inverse of the independent strict decoder (`Spec/Http.lean`):
a stream of encoded well-formed requests is in the specification's language and decodes to those requests. -/
theorem spec_decodes_encoding (dn : Bool) (rs : List WReq) (hw : ∀ r ∈ rs, wfReq dn r = true) :
    Spec.Http.decodeAll (encAll rs) = some (rs.map toSpec) :=
  decodeAll_enc rs hw

example : (toSpec exChunked).body = [97, 98, 99, 1, 2, 3, 4, 5, 6, 7, 8, 9, 10] ∧ (toSpec exChunked).fields = exChunked.fields := by
  decide

/-- Model refines specification on these streams: the strict decoder accepts the stream, and method, target and
body of what the handler is handed are, request by request, what the strict decoder assigns (for the requests
that are to be served). -/
theorem serve_refines_spec (cfg : Cfg) (e : End) (rs : List WReq)
    (hw : ∀ r ∈ rs, wfReq cfg.disableNorm r = true ∧ withinLimits cfg r = true) :
    Spec.Http.decodeAll (encAll rs) = some (rs.map toSpec) ∧
    (handled (serve cfg e (encAll rs))).map (fun s => (s.head.method, s.head.uri, s.body)) =
      ((served cfg.disableKeepalive rs).map toSpec).map (fun q => (q.method, q.target, q.body)) := by
  refine ⟨decodeAll_enc rs (fun r hr => (hw r hr).1), ?_⟩
  rw [serve_own_bytes cfg e rs hw, List.map_map]
  rfl

end Hertz.Props.C01
