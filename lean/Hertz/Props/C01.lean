import Hertz.Proofs.Http1
import Hertz.Proofs.ReqRoundtrip
import Hertz.Proofs.ReqRoundtripOws
import Hertz.Proofs.ReqOwsBlank
import Hertz.Proofs.Trailers
/-!
# C01 — the server frames and orders pipelined requests exactly as the wire says

Model: `Hertz.H1.serve` (`Model/Http1/*.lean`) mirrors `req.parse`, `ext.HeaderScanner.Next`,
`req.ContinueReadBody`, `ext.ReadBody/readBodyChunked/ReadTrailer` and the keep-alive loop of
`Server.Serve` function by function; it agreed with the real server (echo middleware on the real
Engine, scripted connection) on every one of > 80 000 generated request streams while it was built,
and is re-compared on every run under arbitrary segmentation.

Proved here, for all configurations, all inbound byte streams and both stream ends:
* `framing_names_exact`: a field name is taken for `Content-Length` / `Transfer-Encoding` iff it is
  equal to it ignoring ASCII case (the `ToLowerTable` regenerated from the Go source is exactly ASCII
  lower-casing);  `cr_is_not_dash`: the pre-fix collision `Content\rLength` is not accepted.
* `one_response_per_request_in_order`: every handled request is immediately followed by its own final
  response, nothing follows a closing response, an interim `100 Continue` only precedes a request's
  body.

Proved for every stream that is the encoding of well-formed requests (`Proofs/ReqRoundtrip.lean`):
* `head_roundtrip`, `body_roundtrip`, `request_roundtrip`, `serve_roundtrip` (+ `serve_roundtrip_all`,
  `serve_own_bytes`, `seen_fields`): for every list of well-formed wire requests `rs : List WReq` (predicate
  `wfReq`: token method, target without SP/CTL, token field names, OWS-trimmed field values without CR/LF/CTL,
  framing fields as the strict decoder demands — none / equal `Content-Length` fields < 2^63 / exactly one
  `Transfer-Encoding: chunked` —, chunks with size lines of ≤ 15 hex digits, every `Trailer` field a clean
  declaration `n1, n2, …` of allowed names, and the trailer section of a chunked request = well-formed fields
  whose names are, in order, the declared names (possibly none)), every configuration whose limits the requests respect (`withinLimits`: `MaxRequestBodySize`,
  multipart pre-parse not triggered), both stream ends and any bytes after a request: the head is parsed to
  exactly the request's method, target and fields (`expectedHead`), consuming exactly the head; the body reader
  returns exactly the body and leaves exactly what follows; and the handler is handed exactly the requests to be
  served (up to and including the first `Connection: close`), in order, with their own method, target, fields,
  body and trailers (`seen_trailers`; trailer names starting with the byte `0` included — the case repaired by
  `/repo` 0060100).  Fields may repeat, come in any order and any letter case; encoding is the canonical
  `name ": " value CRLF` (every other spelling: `serve_roundtrip_ows` below).
* `spec_decodes_encoding`, `serve_refines_spec`: the independent strict decoder `Spec.Http.decodeAll` reads
  `encAll rs` back as exactly `rs` (so `wfReq`/`encAll` describe streams of the specification's language, and the
  encoder is a right inverse of the specification), and what the handler is handed agrees with what the strict
  decoder assigns to each request.

Proved for every spelling of a field line the strict decoder accepts (`Proofs/ReqOwsLine.lean`, `ReqOwsCanon.lean`,
`ReqRoundtripOws.lean`, `ReqOwsBlank.lean`; second half of this file):
* `field_line_scan`, `field_value_ows`, `field_value_canon`, `canon_is_canonVal`, `value_without_blanks_same`,
  `strict_value_without_blanks_same`, `head_roundtrip_ows`, `request_roundtrip_ows`, `serve_roundtrip_ows`,
  `serve_roundtrip_ows_trimmed`, `serve_refines_spec_ows`, `close_readings_agree`: a field line is
  `name ":" raw CRLF (cont CRLF)*` with `raw` any field-vchars (any optional whitespace, SP / HTAB, none or several, before
  and after the value) and obs-fold continuation lines `cont` (start with SP / HTAB, field-vchars, no colon), in the
  header section and in the trailer section.  The handler is handed `hval f`, the strict decoder returns `sval f`.
  Without obs-fold both are `trimOWS raw`, and the handler is handed exactly the strict decoder's reading of the requests
  to be served (`serve_roundtrip_ows_trimmed`, conditions on the trimmed values).  With obs-fold `hval f` = `trimOWS` of the
  lines joined (CRLF removed, leading HTABs of a continuation line turned into SPs, nothing compacted);
  `sval f` = OWS-trimmed lines joined by one SP; for every
  list of such requests (`wfOReq`) the handler gets exactly the requests to be served in the reading `seenW`, the strict
  decoder reads the stream back in the reading `strictW`, and the two readings are equal modulo `canon` = the driver's
  `canonVal` (proved equal for all values).  A value without blanks is the same in both readings.
* FOUND BY THIS PROOF, FIXED IN `/repo` 4c60fb1: hertz stripped SP only around a field value, so a HTAB next to the value
  of `Connection` / `Content-Length` / `Expect` made server and strict decoder disagree (`Connection:<HTAB>close` did not
  close and the next pipelined request was served; `Content-Length:<HTAB>3` → 400; `Expect:<HTAB>100-continue` → no
  interim response).  Regression theorems on the same streams: `htab_connection_close_closes`,
  `htab_content_length_accepted`, `htab_expect_continue` (replayed on the repaired server: same, no spec failure).
* FOUND BY THIS PROOF AFTER THAT, FIXED IN `/repo` 6637594: in the obs-fold corner "blank first line, continuation line
  starting with SPs followed by a HTAB" (`Connection: CRLF ␠⇥close`) `normalizeHeaderValue` dropped leading SPs only and the
  handler's value kept the HTAB (no close; `Content-Length: CRLF ␠⇥3` → 400).  Regression theorems on the same streams:
  `fold_tab_connection_close_closes`, `fold_tab_content_length_accepted` (replayed on the repaired server,
  `replays-Q01/fold_corner.json`: same, no spec failure).  Now `hval f = trimOWS (lines joined)`, handler and strict decoder
  agree on every value without blanks in either reading, in particular on `Connection: close`, and `serve_refines_spec_ows`
  holds without any side hypothesis.
* `blank_lines_ignored`, `serve_roundtrip_blank_lines`, `spec_refuses_blank_line`: any number of empty lines (CRLF) in
  front of a request line are skipped by the server; the round trip holds with them (the strict decoder refuses them).

Proved for trailer sections that differ from their announcement, and for every spelling of the announcement
(X01; `Spec/Trailers.lean`, `Proofs/Trailers.lean`; last part of this file):
* `trailer_view`: for EVERY list of announced names and EVERY trailer section of well-formed field lines (any spelling),
  `ext.ReadTrailer` hands the handler exactly `specTrailerView names section` — the announced names in announcement
  order, the i-th entry of a name with the value of the i-th field of that name, entries without a field empty, fields
  not announced dropped, fields with a forbidden name (`IsBadTrailer`) ignored — and consumes exactly the section;
  EXCEPT when the LAST field of the section has a forbidden name: then the request is refused (400).  (A forbidden
  field that is not the last one is silently dropped: `parseTrailer` overwrites its `err` with every field — see
  `forbidden_trailer_field_order_dependent`.)  `trailer_view_exchange`: the code's loop (field by field, first
  empty entry of that name) = the specification's (entry by entry, first field not yet taken).
* `serve_roundtrip_any_trailers` (+ `any_trailers_generalises`, `serve_any_trailers_in_sync`, `spec_decodes_any_trailers`,
  `serve_refines_spec_any_trailers`): `serve_roundtrip_ows` with
  the clause "names of the section = announced names, in order" replaced by "last field not forbidden" (`wfOReqT`).
* `trailer_decl_spellings`: `Trailer.SetTrailers` on ANY value = the RFC 7230 `#field-name` list rule
  (split at commas, optional whitespace SP / HTAB stripped, empty elements — `a,,b`, trailing comma — ignored), names
  normalised, forbidden names dropped, refused exactly when the LAST element is forbidden.  FOUND BY THE FIRST VERSION OF
  THIS PROOF (it needed "no HTAB"): hertz stripped SP only, so `Trailer: a,<HTAB>b` announced the name `<HTAB>b` and the
  trailer field `b` was lost; of two `Trailer` fields only the last one counted.  Both repaired in `/repo` 117944e
  (`patches/trailer-decl-list.diff`); regression theorems `trailer_decl_htab_repaired`, `trailer_decl_two_fields_combine`.

TODO-OPEN (still decided per explored case by the spec step, `Driver/H1Spec.lean:c01`, which compares what the
implementation's handler saw with the independent strict decoder `Spec/Http.lean`):
* `serve_roundtrip` for the part of the strict decoder's language outside `wfReq` / `wfOReq` / `wfOReqT`:
  - `Trailer` declarations in another spelling than `n1, n2` INSIDE the loop theorem (`wfOReqT` still asks for `declOk`;
    `trailer_decl_spellings` is the statement about `SetTrailers` alone, the function `req.parse` calls);
  - requests whose framing / `Trailer` conditions hold of the strict reading `sval` but are spelled with obs-fold: `wfOReq`
    states them on `hval`; they coincide for values without blanks (`strict_value_without_blanks_same`: numbers, `chunked`)
    but the transfer `wfOReqS → wfOReq` is proved only without obs-fold (`wfOReq_eq_wfOReqS`), a folded `Trailer` list may
    differ in inner whitespace;
  - obs-fold continuation lines that contain a colon (refused by hertz with 400, `foldedColon` in the strict decoder: no claim);
  - bare LF line ends, empty lines after the last request, HTTP/1.0 request lines (the strict decoder refuses all of them).
* the transports: netpoll's reader and the sense-client-disconnection goroutine are not modelled; they are run
  (`harness/c01net.go`, op `netserve`, tags `netpoll:` / `std:` / `sense:` / `+hold`) against the model's single answer.
-/
namespace Hertz.Props.C01
open Hertz Hertz.H1

theorem framing_names_exact (key : Bytes) :
    (ciEq key Gen.Str.strContentLength = true ↔ key.map lowerSpec = Gen.Str.strContentLength.map lowerSpec) ∧
    (ciEq key Gen.Str.strTransferEncoding = true ↔ key.map lowerSpec = Gen.Str.strTransferEncoding.map lowerSpec) :=
  ⟨ciEq_iff _ _, ciEq_iff _ _⟩

/-- `Content\rLength` (bit-5 neighbour of `-`) is not a framing header name. -/
theorem cr_is_not_dash :
    ciEq [67, 111, 110, 116, 101, 110, 116, 13, 76, 101, 110, 103, 116, 104] Gen.Str.strContentLength = false := by
  decide +kernel

example : ciEq [99, 79, 78, 116, 101, 110, 116, 45, 76, 101, 110, 103, 116, 72] Gen.Str.strContentLength = true := by
  decide +kernel

theorem one_response_per_request_in_order (cfg : Cfg) (e : End) (s : Bytes) :
    cleanTrace (serve cfg e s) = true := serve_clean cfg e s

/-! ### round trip: what is written on the wire is what the handler gets (`Proofs/ReqRoundtrip.lean`)

`WReq` is a request as written on the wire (method, target, field list incl. the framing fields, body as
sent: nothing / `Content-Length` bytes / chunks with their size lines and the zero size line).
`wfReq` is the explicit well-formedness predicate (the conditions of the strict decoder `Spec.Http.decodeOne`
plus: field values OWS-trimmed, `Trailer` fields clean declarations of allowed names, the trailer section's names
= the declared names in order, chunk size lines of at most 15 hex digits, `Content-Length` below 2^63; it takes the
server's `DisableNormalizing` flag because that decides which spelling of a trailer name matches a declared one).  `encHeadOf`/`encBody`/`encReq`/`encAll` are the encoders. -/

open Hertz.H1.RT

/-- `POST /a?b HTTP/1.1`, `Host: h`, `content-LENGTH: 3`, `X-y: a b`, body `abc` -/
def exFixed : WReq :=
  { method := [80, 79, 83, 84], target := [47, 97, 63, 98],
    fields := [([72, 111, 115, 116], [104]), ([99, 111, 110, 116, 101, 110, 116, 45, 76, 69, 78, 71, 84, 72], [51]),
               ([88, 45, 121], [97, 32, 98])],
    body := .fixed [97, 98, 99] }

/-- `POST / HTTP/1.1`, `transfer-encoding: Chunked`, chunks `3 abc`, `0A <10 bytes>`, last size line `0` -/
def exChunked : WReq :=
  { method := [80, 79, 83, 84], target := [47],
    fields := [([116, 114, 97, 110, 115, 102, 101, 114, 45, 101, 110, 99, 111, 100, 105, 110, 103],
                [67, 104, 117, 110, 107, 101, 100])],
    body := .chunked [⟨[51], [97, 98, 99]⟩, ⟨[48, 65], [1, 2, 3, 4, 5, 6, 7, 8, 9, 10]⟩] [48] [] }

/-- `POST /t HTTP/1.1`, `Trailer: 0a, x-sum`, `Transfer-Encoding: chunked`, chunk `3 abc`, last size line `0`,
trailer section `0a: b:c`, `X-Sum: 9` (a trailer name that starts with the byte `0`) -/
def exTrailers : WReq :=
  { method := [80, 79, 83, 84], target := [47, 116],
    fields := [([84, 114, 97, 105, 108, 101, 114], [48, 97, 44, 32, 120, 45, 115, 117, 109]),
               ([84, 114, 97, 110, 115, 102, 101, 114, 45, 69, 110, 99, 111, 100, 105, 110, 103],
                [99, 104, 117, 110, 107, 101, 100])],
    body := .chunked [⟨[51], [97, 98, 99]⟩] [48] [([48, 97], [98, 58, 99]), ([88, 45, 83, 117, 109], [57])] }

/-- `GET /x HTTP/1.1`, `Host: h`, `Connection: close` -/
def exClose : WReq :=
  { method := [71, 69, 84], target := [47, 120],
    fields := [([72, 111, 115, 116], [104]), ([67, 111, 110, 110, 101, 99, 116, 105, 111, 110], [99, 108, 111, 115, 101])],
    body := .none }

/-- Stage 1. For every well-formed request and every continuation of the stream, `req.parse` returns the
request's own method and target, the special fields (`Host`, `User-Agent`, `Content-Type`: last one of that
name), the framing decision, the close flag, and the generic header list in wire order with names as normalised
(all spelled out in `expectedHead`), and consumes exactly the bytes of the head. -/
theorem head_roundtrip (dn : Bool) (r : WReq) (h : wfReq dn r = true) (rest : Bytes) :
    parseReqHead dn (encHeadOf r ++ rest) = .ok (expectedHead dn r, (encHeadOf r).length) :=
  parseReqHead_enc dn r h rest

example : (∀ dn, wfReq dn exFixed = true ∧ wfReq dn exChunked = true ∧ wfReq dn exClose = true) := by decide
set_option maxRecDepth 100000 in
example : wfReq false exTrailers = true ∧ (expectedHead false exTrailers).trailer = [[48, 97], [88, 45, 83, 117, 109]] := by
  decide +kernel
example : (expectedHead false exFixed).h = [([88, 45, 89], [97, 32, 98])] ∧ (expectedHead false exFixed).cl = 3 := by decide +kernel

/-- Stage 2. After the head, `ContinueReadBody` (fixed length, chunked, or no body) yields exactly the body
and leaves exactly the bytes that follow the body's encoding, for either way the stream may end later. -/
theorem body_roundtrip (cfg : Cfg) (e : End) (r : WReq) (h : wfReq cfg.disableNorm r = true)
    (hlim : withinLimits cfg r = true) (rest : Bytes) :
    continueReadBody cfg e (expectedHead cfg.disableNorm r) (encBody r.body ++ rest) =
      .ok (expectedSeen cfg.disableNorm r).head (bodyOf r.body) (expectedSeen cfg.disableNorm r).trailers rest :=
  continueReadBody_enc cfg e r h hlim rest

example : wfReq false exChunked = true ∧ withinLimits {} exChunked = true ∧
    bodyOf exChunked.body = [97, 98, 99, 1, 2, 3, 4, 5, 6, 7, 8, 9, 10] := by decide

/-- Stage 3a. One turn of the keep-alive loop on an encoded request followed by anything: the handler gets
exactly this request (preceded by `100 Continue` if it asked for it), 200 is written, and the loop goes on
with exactly the bytes after the request unless the request (or the configuration) closes. -/
theorem request_roundtrip (cfg : Cfg) (e : End) (r : WReq) (h : wfReq cfg.disableNorm r = true)
    (hlim : withinLimits cfg r = true) (fuel : Nat) (first : Bool) (rest : Bytes) :
    serveLoop cfg e (fuel + 1) first (encReq r ++ rest) =
      (if mayContinue (expectedHead cfg.disableNorm r) then [Ev.continue100] else []) ++
      [.req (expectedSeen cfg.disableNorm r), .resp 200 (cfg.disableKeepalive || closes r)] ++
      (if (cfg.disableKeepalive || closes r) = true then [] else serveLoop cfg e fuel false rest) :=
  serveLoop_step cfg e r h hlim fuel first rest

/-- Stage 3b (`serve_roundtrip`). For every list of well-formed requests, every configuration whose limits
they respect, and both stream ends: the requests handed to the handler are exactly the requests to be served
(all up to and including the first that says `Connection: close`; the first only if keep-alive is disabled),
in order, each as `expectedSeen` spells out. -/
theorem serve_roundtrip (cfg : Cfg) (e : End) (rs : List WReq)
    (hw : ∀ r ∈ rs, wfReq cfg.disableNorm r = true ∧ withinLimits cfg r = true) :
    handled (serve cfg e (encAll rs)) = (served cfg.disableKeepalive rs).map (expectedSeen cfg.disableNorm) :=
  serve_enc cfg e rs hw

/-- … in particular, with keep-alive and no `Connection: close` except possibly on the last request, every
request is handed over, in order. -/
theorem serve_roundtrip_all (cfg : Cfg) (e : End) (rs : List WReq)
    (hw : ∀ r ∈ rs, wfReq cfg.disableNorm r = true ∧ withinLimits cfg r = true) (hk : cfg.disableKeepalive = false)
    (hc : ∀ r ∈ rs.dropLast, closes r = false) :
    handled (serve cfg e (encAll rs)) = rs.map (expectedSeen cfg.disableNorm) := by
  rw [serve_enc cfg e rs hw, hk, served_all rs hc]

set_option maxRecDepth 100000 in
example : (∀ r ∈ [exFixed, exTrailers, exChunked, exClose], wfReq false r = true ∧ withinLimits {} r = true) ∧
    (∀ r ∈ [exFixed, exTrailers, exChunked, exClose].dropLast, closes r = false) := by decide +kernel

/-- No byte of one request is delivered as part of another: method, target and body the handler sees are the
request's own, request by request. -/
theorem serve_own_bytes (cfg : Cfg) (e : End) (rs : List WReq)
    (hw : ∀ r ∈ rs, wfReq cfg.disableNorm r = true ∧ withinLimits cfg r = true) :
    (handled (serve cfg e (encAll rs))).map (fun s => (s.head.method, s.head.uri, s.body)) =
      (served cfg.disableKeepalive rs).map (fun r => (r.method, r.target, bodyOf r.body)) := by
  rw [serve_enc cfg e rs hw, List.map_map]
  apply List.map_congr_left
  intro r _
  obtain ⟨h1, h2, h3⟩ := expectedSeen_own cfg.disableNorm r
  simp [h1, h2, h3]

/-- … and its own header fields (see `expectedSeen_fields` for the reading of `pick` / `generic`). -/
theorem seen_fields (dn : Bool) (r : WReq) :
    (expectedSeen dn r).head.host = pick .host r.fields [] ∧
    (expectedSeen dn r).head.userAgent = pick .ua r.fields [] ∧
    (expectedSeen dn r).head.contentType = pick .ct r.fields [] ∧
    ((expectedSeen dn r).head.h = r.fields.filterMap (generic dn) ∨
     (expectedSeen dn r).head.h = (r.fields.filterMap (generic dn)).filter (fun kv => kv.1 != Gen.Str.strTransferEncoding)) :=
  expectedSeen_fields dn r

/-- The trailers the handler is handed: for a chunked request the fields of its own trailer section, in order,
names normalised, values untouched (this includes names that start with the byte `0`); for any other request the
declared names with empty values. -/
theorem seen_trailers (dn : Bool) (r : WReq) :
    (expectedSeen dn r).trailers =
      (match r.body with
       | .chunked _ _ trs => trs.map (fun kv => (normalizeKey dn kv.1, kv.2))
       | _ => (pickT dn r.fields []).map (fun k => (k, []))) := rfl

set_option maxRecDepth 100000 in
example : (expectedSeen false exTrailers).trailers = [([48, 97], [98, 58, 99]), ([88, 45, 83, 117, 109], [57])] := by
  decide +kernel

/-- The encoder of the theorems above is a right inverse of the independent strict decoder (`Spec/Http.lean`):
a stream of encoded well-formed requests is in the specification's language and decodes to those requests. -/
theorem spec_decodes_encoding (dn : Bool) (rs : List WReq) (hw : ∀ r ∈ rs, wfReq dn r = true) :
    Spec.Http.decodeAll (encAll rs) = some (rs.map toSpec) :=
  decodeAll_enc rs hw

example : (toSpec exChunked).body = [97, 98, 99, 1, 2, 3, 4, 5, 6, 7, 8, 9, 10] ∧ (toSpec exChunked).fields = exChunked.fields := by
  decide

/-- Model refines specification on these streams: the strict decoder accepts the stream, and method, target and
body of what the handler is handed are, request by request, what the strict decoder assigns (for the requests
that are to be served). -/
theorem serve_refines_spec (cfg : Cfg) (e : End) (rs : List WReq)
    (hw : ∀ r ∈ rs, wfReq cfg.disableNorm r = true ∧ withinLimits cfg r = true) :
    Spec.Http.decodeAll (encAll rs) = some (rs.map toSpec) ∧
    (handled (serve cfg e (encAll rs))).map (fun s => (s.head.method, s.head.uri, s.body)) =
      ((served cfg.disableKeepalive rs).map toSpec).map (fun q => (q.method, q.target, q.body)) := by
  refine ⟨decodeAll_enc rs (fun r hr => (hw r hr).1), ?_⟩
  rw [serve_own_bytes cfg e rs hw, List.map_map]
  rfl

/-! ### round trip for every spelling of a field line (`Proofs/ReqOwsLine.lean`, `ReqOwsCanon.lean`, `ReqRoundtripOws.lean`)

`FLine` is a field as spelled on the wire: `name ":" raw CRLF (cont CRLF)*` — `raw` is the text between the colon and
the first CRLF, blanks included (so any optional whitespace, SP or HTAB, none or several, on either side of the value),
`conts` are obs-fold continuation lines.  `wfFLine` = the strict decoder's conditions (token name, field-vchars, a
continuation line starts with SP / HTAB) plus "no colon in a continuation line" (hertz refuses those; the strict decoder
flags them `foldedColon`, no claim).  `hval f` is what the handler is handed, `sval f` what the strict decoder returns:

  `hval f = trimOWS (raw ++ continuation lines with their leading HTABs turned into SPs)`,
  `sval f = trimOWS (… trimOWS (trimOWS raw ++ SP ++ trimOWS cont₁) … ++ SP ++ trimOWS contₙ)`.

History: hertz used to strip SP only around a value (`Connection:<HTAB>close` did not close, `Content-Length:<HTAB>3` was
answered 400, `Expect:<HTAB>100-continue` got no interim response) — found by this proof, fixed in `/repo` 4c60fb1; then
the compaction of a folded value still dropped leading SPs only (`Connection: CRLF ␠⇥close` kept the HTAB) — found by the
proof of the repaired model, fixed in `/repo` 6637594.  Now: without obs-fold both readings are `trimOWS raw`
(`field_value_ows`) and the handler is handed exactly the strict decoder's reading (`serve_roundtrip_ows_trimmed`); with
obs-fold the CRLFs are removed, the continuation line's leading HTABs become SPs and nothing is compacted, so the readings
differ in inner whitespace only (equal modulo `canon`; equal outright when either has no blank).  `OReq` is a request with
such fields (header and trailer section), `seenW r` (values `hval`) / `strictW r` (values `sval`) its two readings as `WReq`,
`wfOReq` the explicit well-formedness predicate: every line a `wfFLine`, and the framing / `Trailer` conditions of `wfReq`
on the values as hertz reads them; `wfOReqS` the same with these conditions on the values `sval` (equivalent when there is
no obs-fold, `wfOReq_eq_wfOReqS`). -/

/-- `POST /o HTTP/1.1`, `Host:h`, `Content-Length:␠␠␠3␠␠`, `X-A:⇥a␠␠b⇥␠`, `X-Fold:␠a CRLF ⇥␠b CRLF ␠␠c␠`, body `abc` -/
def exOws : OReq :=
  { method := [80, 79, 83, 84], target := [47, 111],
    fields := [⟨[72, 111, 115, 116], [104], []⟩,
               ⟨[67, 111, 110, 116, 101, 110, 116, 45, 76, 101, 110, 103, 116, 104], [32, 32, 32, 51, 32, 32], []⟩,
               ⟨[88, 45, 65], [9, 97, 32, 32, 98, 9, 32], []⟩,
               ⟨[88, 45, 70, 111, 108, 100], [32, 97], [[9, 32, 98], [32, 32, 99, 32]]⟩],
    body := .fixed [97, 98, 99] }

/-- `POST /c HTTP/1.1`, `Trailer:␠␠X-T`, `Transfer-Encoding:chunked`, chunk `3 abc`, `0`, trailer `X-T:␠1 CRLF ⇥2` -/
def exOwsChunked : OReq :=
  { method := [80, 79, 83, 84], target := [47, 99],
    fields := [⟨[84, 114, 97, 105, 108, 101, 114], [32, 32, 88, 45, 84], []⟩,
               ⟨[84, 114, 97, 110, 115, 102, 101, 114, 45, 69, 110, 99, 111, 100, 105, 110, 103], [99, 104, 117, 110, 107, 101, 100], []⟩],
    body := .chunked [⟨[51], [97, 98, 99]⟩] [48] [⟨[88, 45, 84], [32, 49], [[9, 50]]⟩] }

/-- One call of `HeaderScanner.Next` on any spelled field followed by something that is not a continuation line:
key = normalised name, value = `hval f`, exactly the field's bytes consumed. -/
theorem field_line_scan (dn : Bool) (f : FLine) (rest : Bytes) (hf : wfFLine f = true)
    (hr : ∀ c, rest.head? = some c → c ≠ 32 ∧ c ≠ 9) :
    scanNext dn (encFLine f ++ rest) = .kv (normalizeKey dn f.name) (hval f) rest (encFLine f).length :=
  scanNext_fline dn f rest hf hr

example : wfFLine ⟨[88, 45, 70], [32, 97], [[9, 32, 98], [32, 32, 99, 32]]⟩ = true ∧
    hval ⟨[88, 45, 70], [32, 97], [[9, 32, 98], [32, 32, 99, 32]]⟩ = [97, 32, 32, 98, 32, 32, 99] ∧
    sval ⟨[88, 45, 70], [32, 97], [[9, 32, 98], [32, 32, 99, 32]]⟩ = [97, 32, 98, 32, 99] := by decide

/-- Optional whitespace only (stage 1): hertz and the strict decoder both strip SP and HTAB at both ends
(before `/repo` 4c60fb1 hertz stripped SP only: `hval = stripSpace raw`). -/
theorem field_value_ows (k raw : Bytes) :
    hval { name := k, raw := raw, conts := [] } = Spec.Http.trimOWS raw ∧
    sval { name := k, raw := raw, conts := [] } = Spec.Http.trimOWS raw := hval_sval_ows k raw

example : hval ⟨[88], [32, 9, 97, 9, 32], []⟩ = [97] ∧ sval ⟨[88], [32, 9, 97, 9, 32], []⟩ = [97] := by decide

/-- `canon` (whitespace runs collapsed to one SP, ends trimmed) is the function `canonVal` the per-case check
(`Driver/H1Spec.lean`) compares field values with. -/
theorem canon_is_canonVal (v : Bytes) : canon v = Driver.H1Spec.canonVal v := canon_eq_canonVal v

/-- What the handler is handed and what the strict decoder returns for a spelled field are equal modulo `canon`:
they consist of the same words. -/
theorem field_value_canon (f : FLine) (hf : wfFLine f = true) : canon (hval f) = canon (sval f) :=
  canon_hval_sval f hf

/-- If the value the handler is handed contains no SP / HTAB, the strict decoder returns exactly the same value (so
numbers, `chunked`, `close`, tokens read the same; a difference needs a blank that hertz keeps). -/
theorem value_without_blanks_same (f : FLine) (hf : wfFLine f = true) (hnb : ∀ c ∈ hval f, c ≠ 32 ∧ c ≠ 9) :
    sval f = hval f := sval_eq_hval_of_nb f hf hnb

example : wfFLine ⟨[88], [32, 32], [[9, 99, 108, 111, 115, 101], [32]]⟩ = true ∧
    hval ⟨[88], [32, 32], [[9, 99, 108, 111, 115, 101], [32]]⟩ = [99, 108, 111, 115, 101] := by decide

/-- … and conversely (since `/repo` 6637594): a value the strict decoder returns without blanks is handed over unchanged. -/
theorem strict_value_without_blanks_same (f : FLine) (hf : wfFLine f = true)
    (hnb : ∀ c ∈ sval f, c ≠ 32 ∧ c ≠ 9) : hval f = sval f := hval_eq_sval_of_nb f hf hnb

example : wfFLine ⟨[88], [9], [[32, 9, 51, 9]]⟩ = true ∧ sval ⟨[88], [9], [[32, 9, 51, 9]]⟩ = [51] ∧
    hval ⟨[88], [9], [[32, 9, 51, 9]]⟩ = [51] := by decide

/-- Stage 1 for spelled fields: the head is parsed to `expectedHead` of the handler's reading, consuming exactly the head. -/
theorem head_roundtrip_ows (dn : Bool) (r : OReq) (h : wfOReq dn r = true) (rest : Bytes) :
    parseReqHead dn (encHeadOfO r ++ rest) = .ok (expectedHead dn (seenW r), (encHeadOfO r).length) :=
  parseReqHead_encO dn r h rest

/-- One turn of the keep-alive loop on a request with spelled fields followed by anything. -/
theorem request_roundtrip_ows (cfg : Cfg) (e : End) (r : OReq) (h : wfOReq cfg.disableNorm r = true)
    (hlim : withinLimits cfg (seenW r) = true) (fuel : Nat) (first : Bool) (rest : Bytes) :
    serveLoop cfg e (fuel + 1) first (encReqO r ++ rest) =
      (if mayContinue (expectedHead cfg.disableNorm (seenW r)) then [Ev.continue100] else []) ++
      [.req (expectedSeen cfg.disableNorm (seenW r)), .resp 200 (cfg.disableKeepalive || closes (seenW r))] ++
      (if (cfg.disableKeepalive || closes (seenW r)) = true then [] else serveLoop cfg e fuel false rest) :=
  serveLoop_stepO cfg e r h hlim fuel first rest

/-- `serve_roundtrip` for every spelling of the field lines (header and trailer section): for every list of
well-formed requests with spelled fields, every configuration whose limits they respect, both stream ends,
(1) the handler is handed exactly the requests to be served, in order, each as `expectedSeen` of its reading `seenW`
(values `hval`); (2) the independent strict decoder reads the same stream back as the readings `strictW` (values
`sval`); (3) the two readings are the same request modulo the value canonicalisation `canon` (= `canonVal`): same
method, target, field names, body; field and trailer values equal after collapsing whitespace. -/
theorem serve_roundtrip_ows (cfg : Cfg) (e : End) (rs : List OReq)
    (hw : ∀ r ∈ rs, wfOReq cfg.disableNorm r = true ∧ withinLimits cfg (seenW r) = true) :
    handled (serve cfg e (encAllO rs)) =
      (served cfg.disableKeepalive (rs.map seenW)).map (expectedSeen cfg.disableNorm) ∧
    Spec.Http.decodeAll (encAllO rs) = some (rs.map (fun r => toSpec (strictW r))) ∧
    ∀ r ∈ rs, canonW (seenW r) = canonW (strictW r) :=
  ⟨serve_encO cfg e rs hw, decodeAll_encO rs (fun r hr => (hw r hr).1), fun r hr => canonW_seen_strict r (hw r hr).1⟩

set_option maxRecDepth 100000 in
example : (∀ r ∈ [exOws, exOwsChunked], wfOReq false r = true ∧ withinLimits {} (seenW r) = true) ∧
    (seenW exOws).fields.map (·.2) = [[104], [51], [97, 32, 32, 98], [97, 32, 32, 98, 32, 32, 99]] ∧
    (strictW exOws).fields.map (·.2) = [[104], [51], [97, 32, 32, 98], [97, 32, 98, 32, 99]] ∧
    (expectedSeen false (seenW exOwsChunked)).trailers = [([88, 45, 84], [49, 32, 50])] := by decide +kernel

/-- The canonical spelling of `serve_roundtrip` is one of the spellings. -/
theorem canonical_spelling (k v : Bytes) : encFLine { name := k, raw := 32 :: v, conts := [] } = encField (k, v) :=
  encFLine_canonical k v

/-- Without obs-fold (any optional whitespace, SP / HTAB, around the values; conditions stated on the OWS-trimmed
values) the handler is handed exactly the strict decoder's reading of every request to be served. -/
theorem serve_roundtrip_ows_trimmed (cfg : Cfg) (e : End) (rs : List OReq)
    (hw : ∀ r ∈ rs, noFold r = true ∧ wfOReqS cfg.disableNorm r = true ∧ withinLimits cfg (strictW r) = true) :
    handled (serve cfg e (encAllO rs)) =
      (served cfg.disableKeepalive (rs.map strictW)).map (expectedSeen cfg.disableNorm) ∧
    Spec.Http.decodeAll (encAllO rs) = some (rs.map (fun r => toSpec (strictW r))) :=
  serve_encO_noFold cfg e rs hw

/-- `GET /a`, `Host:⇥h`, `Connection:⇥close`; then `GET /b` -/
def exTabClose : List OReq :=
  [{ method := [71, 69, 84], target := [47, 97],
     fields := [⟨[72, 111, 115, 116], [9, 104], []⟩, ⟨[67, 111, 110, 110, 101, 99, 116, 105, 111, 110], [9, 99, 108, 111, 115, 101], []⟩],
     body := .none },
   { method := [71, 69, 84], target := [47, 98], fields := [], body := .none }]

example : (∀ r ∈ exTabClose, noFold r = true ∧ wfOReqS false r = true ∧ withinLimits {} (strictW r) = true) ∧
    exTabClose.map (fun r => (strictW r).fields.map (·.2)) = [[[104], [99, 108, 111, 115, 101]], []] := by decide +kernel

/-- Handler and strict decoder agree on which requests say `Connection: close` (the value `close` has no blank, so it is
the same in both readings, whatever the spelling). -/
theorem close_readings_agree (dn : Bool) (r : OReq) (h : wfOReq dn r = true) : closes (seenW r) = closes (strictW r) :=
  closes_seen_eq_strict r h

/-- Model refines specification on every stream of well-formed requests with spelled fields: the strict decoder accepts
the stream, and method, target and body of what the handler is handed are, request by request, what the strict decoder
assigns to the requests that are to be served (decided by the strict reading). -/
theorem serve_refines_spec_ows (cfg : Cfg) (e : End) (rs : List OReq)
    (hw : ∀ r ∈ rs, wfOReq cfg.disableNorm r = true ∧ withinLimits cfg (seenW r) = true) :
    Spec.Http.decodeAll (encAllO rs) = some (rs.map (fun r => toSpec (strictW r))) ∧
    (handled (serve cfg e (encAllO rs))).map (fun s => (s.head.method, s.head.uri, s.body)) =
      ((served cfg.disableKeepalive (rs.map strictW)).map toSpec).map (fun q => (q.method, q.target, q.body)) :=
  ⟨decodeAll_encO rs (fun r hr => (hw r hr).1), serve_own_strict' cfg e rs hw⟩

/-- `GET /a`, `Connection: CRLF ␠⇥close`; then `GET /b` -/
def exFoldTabClose : List OReq :=
  [{ method := [71, 69, 84], target := [47, 97],
     fields := [⟨[67, 111, 110, 110, 101, 99, 116, 105, 111, 110], [], [[32, 9, 99, 108, 111, 115, 101]]⟩],
     body := .none },
   { method := [71, 69, 84], target := [47, 98], fields := [], body := .none }]

set_option maxRecDepth 100000 in
example : ∀ r ∈ [exOws, exOwsChunked] ++ exTabClose ++ exFoldTabClose,
    wfOReq false r = true ∧ withinLimits {} (seenW r) = true := by decide +kernel

/-! #### regression: the HTAB witnesses of the finding repaired by `/repo` 4c60fb1

Before the repair hertz stripped SP only: `Connection:⇥close` was the value `⇥close` (the connection stayed open and the
next pipelined request was served), `Content-Length:⇥3` was answered 400, `Expect:⇥100-continue` got no interim response
(found by this proof; the three theorems `serve_refines_spec_ows_fails_at`, `htab_content_length_refused`,
`htab_expect_ignored` stated it of the old model).  On the same streams now, model = real server (replayed): -/

/-- `Connection:⇥close`: the server closes after the first request; only it is handed to the handler, as the strict
decoder says. -/
theorem htab_connection_close_closes :
    (handled (serve {} .eof (encAllO exTabClose))).map (fun s => s.head.uri) = [[47, 97]] ∧
    (serve {} .eof (encAllO exTabClose)).getLast? = some (.resp 200 true) ∧
    (served false (exTabClose.map strictW)).length = 1 := by
  decide +kernel

/-- `GET /a`, `Host: h`, `Connection: Close` (another letter case); then `GET /b` -/
def exCloseCase : List OReq :=
  [{ method := [71, 69, 84], target := [47, 97],
     fields := [⟨[72, 111, 115, 116], [32, 104], []⟩, ⟨[67, 111, 110, 110, 101, 99, 116, 105, 111, 110], [32, 67, 108, 111, 115, 101], []⟩],
     body := .none },
   { method := [71, 69, 84], target := [47, 98], fields := [], body := .none }]

/-- regression (`/repo` 9dcdbe5): the connection option `close` is case-insensitive (RFC 7230 §6.1): after a request with
`Connection: Close` the server closes; only that request is handed to a handler and its response announces the close.
Before the repair the bytes were compared exactly: the connection stayed open and `GET /b` was served behind it. -/
theorem connection_close_any_case_closes :
    (handled (serve {} .eof (encAllO exCloseCase))).map (fun s => s.head.uri) = [[47, 97]] ∧
    (serve {} .eof (encAllO exCloseCase)).getLast? = some (.resp 200 true) ∧
    (served false (exCloseCase.map strictW)).length = 1 := by
  decide +kernel

/-- `POST /a HTTP/1.1`, `Content-Length:⇥3`, body `abc`: handled with body `abc`, as the strict decoder says. -/
theorem htab_content_length_accepted :
    (handled (serve {} .eof
      [80, 79, 83, 84, 32, 47, 97, 32, 72, 84, 84, 80, 47, 49, 46, 49, 13, 10, 67, 111, 110, 116, 101, 110, 116, 45, 76, 101, 110, 103, 116, 104, 58, 9, 51, 13, 10, 13, 10, 97, 98, 99])).map (fun s => (s.head.uri, s.head.cl, s.body)) = [([47, 97], 3, [97, 98, 99])] ∧
    (Spec.Http.decodeAll
      [80, 79, 83, 84, 32, 47, 97, 32, 72, 84, 84, 80, 47, 49, 46, 49, 13, 10, 67, 111, 110, 116, 101, 110, 116, 45, 76, 101, 110, 103, 116, 104, 58, 9, 51, 13, 10, 13, 10, 97, 98, 99]).map (fun l => l.map (fun q => (q.target, q.body))) = some [([47, 97], [97, 98, 99])] := by
  decide +kernel

/-- `POST /e HTTP/1.1`, `Expect:⇥100-continue`, `Content-Length: 1`, body `x`: the interim response is sent, then the
request is handled. -/
theorem htab_expect_continue :
    (serve {} .eof
      [80, 79, 83, 84, 32, 47, 101, 32, 72, 84, 84, 80, 47, 49, 46, 49, 13, 10, 69, 120, 112, 101, 99, 116, 58, 9, 49, 48, 48, 45, 99, 111, 110, 116, 105, 110, 117, 101, 13, 10, 67, 111, 110, 116, 101, 110, 116, 45, 76, 101, 110, 103, 116, 104, 58, 32, 49, 13, 10, 13, 10, 120]).head? = some .continue100 ∧
    (handled (serve {} .eof
      [80, 79, 83, 84, 32, 47, 101, 32, 72, 84, 84, 80, 47, 49, 46, 49, 13, 10, 69, 120, 112, 101, 99, 116, 58, 9, 49, 48, 48, 45, 99, 111, 110, 116, 105, 110, 117, 101, 13, 10, 67, 111, 110, 116, 101, 110, 116, 45, 76, 101, 110, 103, 116, 104, 58, 32, 49, 13, 10, 13, 10, 120])).map (fun s => s.body) = [[120]] := by
  decide +kernel

/-! #### regression: the obs-fold corner "blank first line, continuation line ␠…␠⇥value", repaired by `/repo` 6637594

Before, `normalizeHeaderValue` dropped leading SPs of the compacted value but not a HTAB that followed them: the handler's
value started with the HTAB (`serve_refines_spec_ows_fails_at`, `fold_corner_content_length_refused` stated it of the
previous model).  On the same streams now, model = real server (`replays-Q01/fold_corner.json`): -/

/-- `Connection: CRLF ␠⇥close`: both readings are `close`, the server closes after the first request. -/
theorem fold_tab_connection_close_closes :
    exFoldTabClose.map (fun r => (seenW r).fields.map (·.2)) = [[[99, 108, 111, 115, 101]], []] ∧
    exFoldTabClose.map (fun r => (strictW r).fields.map (·.2)) = [[[99, 108, 111, 115, 101]], []] ∧
    (handled (serve {} .eof (encAllO exFoldTabClose))).map (fun s => s.head.uri) = [[47, 97]] ∧
    (serve {} .eof (encAllO exFoldTabClose)).getLast? = some (.resp 200 true) ∧
    (served false (exFoldTabClose.map strictW)).length = 1 := by
  decide +kernel

/-- `POST /a HTTP/1.1`, `Content-Length: CRLF ␠⇥3`, body `abc`: handled with body `abc`, as the strict decoder says. -/
theorem fold_tab_content_length_accepted :
    (handled (serve {} .eof
      [80, 79, 83, 84, 32, 47, 97, 32, 72, 84, 84, 80, 47, 49, 46, 49, 13, 10, 67, 111, 110, 116, 101, 110, 116, 45, 76, 101, 110, 103, 116, 104, 58, 13, 10, 32, 9, 51, 13, 10, 13, 10, 97, 98, 99])).map (fun s => (s.head.uri, s.head.cl, s.body)) = [([47, 97], 3, [97, 98, 99])] ∧
    (Spec.Http.decodeAll
      [80, 79, 83, 84, 32, 47, 97, 32, 72, 84, 84, 80, 47, 49, 46, 49, 13, 10, 67, 111, 110, 116, 101, 110, 116, 45, 76, 101, 110, 103, 116, 104, 58, 13, 10, 32, 9, 51, 13, 10, 13, 10, 97, 98, 99]).map (fun l => l.map (fun q => (q.target, q.body))) = some [([47, 97], [97, 98, 99])] := by
  decide +kernel

/-! #### empty lines in front of a request line (`Proofs/ReqOwsBlank.lean`) -/

/-- The server loop ignores any number of empty lines (CRLF) in front of a request line: same events as without them. -/
theorem blank_lines_ignored (cfg : Cfg) (e : End) (fuel : Nat) (first : Bool) (k : Nat) (c : UInt8) (X : Bytes)
    (h13 : c ≠ 13) (h10 : c ≠ 10) (hlen : 4 ≤ (c :: X).length) :
    serveLoop cfg e (fuel + 1) first (crlfs k ++ c :: X) = serveLoop cfg e (fuel + 1) first (c :: X) :=
  serveLoop_skip cfg e fuel first k c X h13 h10 hlen

/-- `serve_roundtrip_ows` with any number of empty lines in front of every request (`encAllB`: each request comes
with the number of empty lines that precede it).  The strict decoder does not accept such streams
(`spec_refuses_blank_line`), so this is a statement about the server only. -/
theorem serve_roundtrip_blank_lines (cfg : Cfg) (e : End) (rs : List (Nat × OReq))
    (hw : ∀ p ∈ rs, wfOReq cfg.disableNorm p.2 = true ∧ withinLimits cfg (seenW p.2) = true) :
    handled (serve cfg e (encAllB rs)) =
      (served cfg.disableKeepalive (rs.map (fun p => seenW p.2))).map (expectedSeen cfg.disableNorm) :=
  serve_encB cfg e rs hw

set_option maxRecDepth 100000 in
example : (∀ p ∈ [(2, exOws), (1, exOwsChunked)], wfOReq false p.2 = true ∧ withinLimits {} (seenW p.2) = true) ∧
    (encAllB [(2, exOws), (1, exOwsChunked)]).take 8 = [13, 10, 13, 10, 80, 79, 83, 84] := by decide +kernel

theorem spec_refuses_blank_line (X : Bytes) : Spec.Http.decodeAll (13 :: 10 :: X) = none := decodeAll_blank X

/-! ### trailer sections that differ from their announcement; the announcement in every spelling (X01)

`Spec/Trailers.lean`: `specTrailerView names section` (entry by entry) and `listElems` (RFC 7230 §7 list rule).
`Proofs/Trailers.lean`: `secSeen dn trs` = the section as the reader uses it (names normalised, values `hval`, fields
with a forbidden name skipped), `lastBad dn trs` = the last field of the section has a forbidden name. -/

open Hertz.Spec.Trailers

/-- `ext.ReadTrailer` on EVERY announced-name list and EVERY trailer section of well-formed field lines (any optional
whitespace, obs-fold), followed by anything: refused iff the last field is forbidden; otherwise the handler is handed
`specTrailerView names (secSeen dn trs)` and the reader is left at exactly the byte after the section. -/
theorem trailer_view (cfg : Cfg) (e : End) (names : List Bytes) (trs : List FLine) (rest : Bytes)
    (h : ∀ f ∈ trs, wfFLine f = true) :
    readTrailerReq cfg e names (encFLines trs ++ 13 :: 10 :: rest) =
      if lastBad cfg.disableNorm trs = true then .error .bad
      else .ok (some (specTrailerView names (secSeen cfg.disableNorm trs)), rest) :=
  readTrailerReq_any cfg e names trs rest h

/-- section `a: 1`, `x-u: u`, `A:2`, `Host: h`, `A: 3 CRLF ⇥4` -/
def exSection : List FLine :=
  [⟨[97], [32, 49], []⟩, ⟨[120, 45, 117], [32, 117], []⟩, ⟨[65], [50], []⟩, ⟨[72, 111, 115, 116], [32, 104], []⟩,
   ⟨[65], [32, 51], [[9, 52]]⟩]

set_option maxRecDepth 100000 in
/-- announced `A, A, X-F, B`: the two `A` entries take the first two `A` fields (the third is dropped), `X-F` and `B`
stay empty, `x-u` (not announced) and `Host` (forbidden, not last) are dropped -/
example : (∀ f ∈ exSection, wfFLine f = true) ∧ lastBad false exSection = false ∧
    specTrailerView [[65], [65], [88, 45, 70], [66]] (secSeen false exSection) =
      [([65], [49]), ([65], [50]), ([88, 45, 70], []), ([66], [])] := by decide +kernel

/-- the reader's loop (every field fills the first empty entry of its name) computes the specification's view
(every entry takes the first field of its name not yet taken) -/
theorem trailer_view_exchange (names : List Bytes) (sec : List (Bytes × Bytes)) :
    filledTrailers (sec.foldl (fun t kv => updateTrailer t kv.1 kv.2) (names.map (fun k => (k, none)))) =
      specTrailerView names sec := by
  have := updAll_eq_viewSt sec (names.map (fun k => (k, (none : Option Bytes))))
  unfold updAll at this
  rw [this, viewSt_unfilled]

example : specTrailerView [[65], [66], [65]] [([67], [1]), ([65], [2]), ([65], [3]), ([65], [4])] =
    [([65], [2]), ([66], []), ([65], [3])] := by decide

set_option maxRecDepth 100000 in
/-- A forbidden trailer field is refused only when it is the LAST field of the section (`parseTrailer` overwrites `err`
with every field): section `Host: h`, `A: 1` is accepted (and `Host` dropped), section `A: 1`, `Host: h` is answered
400.  Both streams replayed on the real server (`corpus/C01/x01_trailers.txt`): same. -/
theorem forbidden_trailer_field_order_dependent :
    (readTrailerReq {} .eof [[65]] (encFLines [⟨[72, 111, 115, 116], [32, 104], []⟩, ⟨[65], [32, 49], []⟩] ++ [13, 10])).toOption =
      some (some [([65], [49])], []) ∧
    (match readTrailerReq {} .eof [[65]] (encFLines [⟨[65], [32, 49], []⟩, ⟨[72, 111, 115, 116], [32, 104], []⟩] ++ [13, 10]) with
     | .error .bad => true
     | _ => false) = true := by decide +kernel

/-- `POST /t`, `Trailer: A, A, X-F`, chunked, chunk `3 abc`, trailer section `exSection` -/
def exAnyTrailers : OReq :=
  { method := [80, 79, 83, 84], target := [47, 116],
    fields := [⟨[84, 114, 97, 105, 108, 101, 114], [32, 65, 44, 32, 65, 44, 32, 88, 45, 70], []⟩,
               ⟨[84, 114, 97, 110, 115, 102, 101, 114, 45, 69, 110, 99, 111, 100, 105, 110, 103], [99, 104, 117, 110, 107, 101, 100], []⟩],
    body := .chunked [⟨[51], [97, 98, 99]⟩] [48] exSection }

/-- `serve_roundtrip` for requests whose trailer section is ANY list of well-formed field lines whose last field is not
forbidden (`wfOReqT`; every other condition as in `wfOReq`): the handler is handed exactly the requests to be served,
in order, each with the trailers `specTrailerView announced section` (`expectedSeenT`). -/
theorem serve_roundtrip_any_trailers (cfg : Cfg) (e : End) (rs : List OReq)
    (hw : ∀ r ∈ rs, wfOReqT cfg.disableNorm r = true ∧ withinLimits cfg (seenW r) = true) :
    handled (serve cfg e (encAllO rs)) =
      (servedBy cfg.disableKeepalive (fun r => closes (seenW r)) rs).map (expectedSeenT cfg.disableNorm) :=
  serve_encT cfg e rs hw

set_option maxRecDepth 100000 in
example : (∀ r ∈ [exAnyTrailers, exOws], wfOReqT false r = true ∧ withinLimits {} (seenW r) = true) ∧
    wfOReq false exAnyTrailers = false ∧
    (expectedSeenT false exAnyTrailers).trailers = [([65], [49]), ([65], [50]), ([88, 45, 70], [])] ∧
    (expectedSeenT false exAnyTrailers).body = [97, 98, 99] := by decide +kernel

/-- the requests of `serve_roundtrip_ows` are a special case -/
theorem any_trailers_generalises (dn : Bool) (r : OReq) (h : wfOReq dn r = true) : wfOReqT dn r = true :=
  wfOReqT_of_wfOReq r h

/-- … and the connection stays in sync: after a request with any trailer section, followed by anything, the loop
goes on with exactly the bytes after the section (or closes). -/
theorem serve_any_trailers_in_sync (cfg : Cfg) (e : End) (r : OReq) (h : wfOReqT cfg.disableNorm r = true)
    (hlim : withinLimits cfg (seenW r) = true) (fuel : Nat) (first : Bool) (rest : Bytes) :
    serveLoop cfg e (fuel + 1) first (encReqO r ++ rest) =
      (if mayContinue (expectedHead cfg.disableNorm (seenW r)) then [Ev.continue100] else []) ++
      [.req (expectedSeenT cfg.disableNorm r), .resp 200 (cfg.disableKeepalive || closes (seenW r))] ++
      (if (cfg.disableKeepalive || closes (seenW r)) = true then [] else serveLoop cfg e fuel false rest) :=
  serveLoop_stepT cfg e r h hlim fuel first rest

/-- `Trailer.SetTrailers` (called by `req.parse` on the value of a `Trailer` field) on EVERY value without HTAB:
the names are the elements of the RFC 7230 list (`listElems`: split at commas, optional whitespace stripped, empty
elements ignored — so `a,b`, `a ,b`, `a,,b`, `a, b,` all announce `a`, `b`), normalised, forbidden names dropped; the
declaration is refused (400) exactly when its LAST element is a forbidden name. -/
theorem trailer_decl_spellings (dn : Bool) (v : Bytes) :
    setTrailers dn v =
      (((listElems v).map (normalizeKey dn)).filter (fun k => !isBadTrailer k),
       match ((listElems v).map (normalizeKey dn)).getLast? with
       | some k => isBadTrailer k
       | none => false) :=
  setTrailers_list dn v

/-- `a,b` / `a ,b` / `a,,b` / ` a, b,` / `,a,  b , ,` announce the same two names -/
example : ([[97, 44, 98], [97, 32, 44, 98], [97, 44, 44, 98], [32, 97, 44, 32, 98, 44], [44, 97, 44, 32, 32, 98, 32, 44, 32, 44]].map
    (fun v => setTrailers false v)) = List.replicate 5 ([[65], [66]], false) := by decide +kernel

/-- `x, Host` is refused, `Host, x` announces `x` -/
example : setTrailers false [120, 44, 32, 72, 111, 115, 116] = ([[88]], true) ∧
    setTrailers false [72, 111, 115, 116, 44, 32, 120] = ([[88]], false) := by decide +kernel

/-- FOUND BY THE FIRST VERSION OF THIS PROOF, which needed the hypothesis "no HTAB in the value" (hertz stripped `' '`
only: `Trailer: a,<HTAB>b` announced `A` and `<HTAB>b`, the trailer field `b` was dropped and the handler saw an entry
`<HTAB>b` with the empty value).  Repaired in `/repo` 117944e; regression theorem on the former witness. -/
theorem trailer_decl_htab_repaired :
    setTrailers false [97, 44, 9, 98] = ([[65], [66]], false) ∧ listElems [97, 44, 9, 98] = [[97], [98]] := by
  decide +kernel

/-- `POST /`, `Trailer: a`, `Trailer: b`, chunked, `1 x`, `0`, trailer section `a: 1`, `b: 2`: the two `Trailer` fields
combine (RFC 7230 §3.2.2) and the handler is handed `A: 1`, `B: 2`.  Before 117944e only the LAST `Trailer` field counted
(each `SetTrailers` call started with `ResetSkipNormalize`) and the handler got `B: 2` only; replayed on the real server. -/
theorem trailer_decl_two_fields_combine :
    (handled (serve {} .eof
      [80, 79, 83, 84, 32, 47, 32, 72, 84, 84, 80, 47, 49, 46, 49, 13, 10,
       84, 114, 97, 105, 108, 101, 114, 58, 32, 97, 13, 10, 84, 114, 97, 105, 108, 101, 114, 58, 32, 98, 13, 10,
       84, 114, 97, 110, 115, 102, 101, 114, 45, 69, 110, 99, 111, 100, 105, 110, 103, 58, 32, 99, 104, 117, 110, 107, 101, 100, 13, 10, 13, 10,
       49, 13, 10, 120, 13, 10, 48, 13, 10, 97, 58, 32, 49, 13, 10, 98, 58, 32, 50, 13, 10, 13, 10])).map (fun s => (s.body, s.trailers)) =
      [([120], [([65], [49]), ([66], [50])])] := by
  decide +kernel

/-- These streams are in the specification's language: the independent strict decoder accepts every stream of requests
with ANY well-formed trailer sections and reads it back as the readings `strictW` (trailer section in wire order, names as
sent, values `sval`) — so `trailer_view` / `serve_roundtrip_any_trailers` are statements about streams the strict decoder
accepts, and `expectedSeenT` is `specTrailerView` of the announced names over the strict reading's trailer section (names
normalised, forbidden names skipped, values in the handler's reading, equal to the strict ones modulo `canon`). -/
theorem spec_decodes_any_trailers (dn : Bool) (rs : List OReq) (hw : ∀ r ∈ rs, wfOReqT dn r = true) :
    Spec.Http.decodeAll (encAllO rs) = some (rs.map (fun r => toSpec (strictW r))) :=
  decodeAll_encT rs hw

set_option maxRecDepth 100000 in
example : (toSpec (strictW exAnyTrailers)).trailers =
    [([97], [49]), ([120, 45, 117], [117]), ([65], [50]), ([72, 111, 115, 116], [104]), ([65], [51, 32, 52])] ∧
    (toSpec (strictW exAnyTrailers)).body = [97, 98, 99] := by decide +kernel

/-- Model refines specification on every stream of requests with ANY well-formed trailer sections: the strict decoder
accepts the stream, and method, target and body of what the handler is handed are, request by request, those of the
requests to be served. -/
theorem serve_refines_spec_any_trailers (cfg : Cfg) (e : End) (rs : List OReq)
    (hw : ∀ r ∈ rs, wfOReqT cfg.disableNorm r = true ∧ withinLimits cfg (seenW r) = true) :
    Spec.Http.decodeAll (encAllO rs) = some (rs.map (fun r => toSpec (strictW r))) ∧
    (handled (serve cfg e (encAllO rs))).map (fun s => (s.head.method, s.head.uri, s.body)) =
      (servedBy cfg.disableKeepalive (fun r => closes (seenW r)) rs).map
        (fun r => ((toSpec (strictW r)).method, (toSpec (strictW r)).target, (toSpec (strictW r)).body)) := by
  refine ⟨decodeAll_encT rs (fun r hr => (hw r hr).1), ?_⟩
  rw [serve_encT cfg e rs hw, List.map_map]
  apply List.map_congr_left
  intro r _
  obtain ⟨h1, h2, h3⟩ := expectedSeen_own cfg.disableNorm (seenW r)
  have hb : bodyOf (strictW r).body = bodyOf (seenW r).body := bodyOf_toW sField r.body
  simp only [Function.comp, toSpec, hb]
  exact Prod.ext h1 (Prod.ext h2 h3)

end Hertz.Props.C01
