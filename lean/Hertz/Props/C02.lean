import Hertz.Proofs.Http1
import Hertz.Proofs.PrefixStable
import Hertz.Proofs.PrefixStableResp
/-!
# C02 — message parsing does not depend on how bytes are split into reads

The loop model `Hertz.H1.serve` is a function of the *concatenated* inbound stream; the check runs
the real server on the same bytes under every two-way split, byte-wise delivery and random k-way
splits and compares each run with that single model answer, so any dependence of the
implementation on segmentation is a disagreement.  (The obs-fold defect F2, where a read ending
inside the body corrupted it, was found this way and is fixed in /repo.)

The real server parses the request head from whatever is buffered; on "need more" it reads more bytes
and parses again **from the start**.  That retry scheme is independent of segmentation iff parsing a
prefix either says "need more" or already gives the final answer.  Proved here, for all inputs:

* `header_block_end_stable`, `first_delimiter_stable`: the completeness pre-check and `bytes.IndexByte`
  results do not move when bytes are appended;
* `head_prefix_stable` (**the statement above**): if `parseReqHead dn b` is `ok (head, n)` or `bad`, then
  `parseReqHead dn (b ++ x)` is the same outcome — same head (method, uri, header list, framing, trailer
  names), same consumed count — for every `x`; `head_ok_prefix_stable` adds `n ≤ b.length` (what was consumed
  lies inside the bytes that had been received).  The result type of the model has no "edited buffer"
  component, so there is nothing further to compare;
* `retry_eq_whole`, `retry_eq_whole_segments`: "parse `a`; if need-more parse `a ++ b`" equals "parse `a ++ b`",
  and the same for any number of segments (`retryParse`);
* `needMore_after_precheck_never_ok`: the only way the header scanner itself (after the completeness pre-check
  passed) can ask for more is a line without a colon before the blank line, and then no extension is ever
  accepted — so the in-place edits the real scanner has made to the buffer by that time (key normalisation,
  obs-fold compaction; not part of this model) can never reach a handler;
* `body_prefix_stable`: `continueReadBody` (fixed length / chunked + trailers / no body): if the read
  completes on `s` while the stream merely stalls after `s`, then on every `s ++ x` and under either way the
  stream can end the same head, body, trailers are delivered and exactly `x` more is left;
  `chunked_body_prefix_stable`, `chunk_size_prefix_stable`, `fixed_body_prefix_stable`,
  `trailer_prefix_stable` are the same for the parts, `body_tooLarge_prefix_stable` for the 413 verdict;
* `served_prefix_stable` (loop level): everything the loop has emitted on the bytes received so far, except
  possibly one final error response / hand-over marker, is a prefix of what it emits on any extension.

False as first stated, kept as `…_fails_at` + partial: "every body-reader *error* other than eof/timeout is
prefix stable" — `body_error_prefix_stable_fails_at`: the chunk-size line `5` cut before its `\r` is `bad`
("cannot read '\r' char" is a public 400 error whatever the cause), while `5\r\nhello\r\n0\r\n` is a body.
This is not a segmentation dependence of the server: the body reader is not a retry parser, it blocks on the
connection (C13) and the error only arises when the stream *ends* there (`End`); it means the model's `.bad`
does not tell "malformed" from "cut short", so error stability is stated for `tooLarge` only.

* client side (`RespRead`): `resp_head_prefix_stable` (the response-head parser, which has no pre-check: a `kv`
  answer of the scanner is either stable or its obs-fold look-ahead ran dry, and then the rest has no line feed
  and the next call says "need more"), `client_read_segmentation_invariant` (the `resp.ReadHeader` retry loop
  over any segmentation equals one parse of the concatenation), `client_response_prefix_stable` (a whole framed
  response read to its end is read identically from every extension).

TODO-OPEN: nothing of C02 remains open at the level of the models (request and response side).  Not claimed:
(a) error verdicts of the body readers other than `tooLarge` (see `body_error_prefix_stable_fails_at`);
(b) unframed ("read until close") responses, which by definition depend on what follows;
(c) the in-place buffer edits of the real scanner are not part of the model (`needMore_after_precheck_never_ok`
shows they cannot matter on the request side); (d) the step from the model to the Go code stays the sampled
correspondence check (every two-way split, byte-wise and random k-way delivery).
-/
namespace Hertz.Props.C02
open Hertz Hertz.H1

/-- decidable equality of parser results, for the concrete examples below only -/
local instance decEqExcept {ε α : Type} [DecidableEq ε] [DecidableEq α] : DecidableEq (Except ε α)
  | .ok a, .ok b => if h : a = b then isTrue (by rw [h]) else isFalse (fun h' => h (Except.ok.inj h'))
  | .error a, .error b => if h : a = b then isTrue (by rw [h]) else isFalse (fun h' => h (Except.error.inj h'))
  | .ok _, .error _ => isFalse (fun h => by cases h)
  | .error _, .ok _ => isFalse (fun h => by cases h)

theorem header_block_end_stable (b x : Bytes) (n : Nat) (h : rawHeadersLen b = some n) :
    rawHeadersLen (b ++ x) = some n := rawHeadersLen_append b x n h

theorem first_delimiter_stable (c : UInt8) (b x : Bytes) (n : Nat) (h : indexByte c b = some n) :
    indexByte c (b ++ x) = some n := indexByte_append c b x n h

example : rawHeadersLen [72, 58, 32, 97, 13, 10, 13, 10] = some 8 := by decide

/-! ## request head -/

/-- `GET / HTTP/1.1\r\nA: b\r\n c\r\nHost: a\r\n\r\n` (with an obs-fold continuation line) -/
def exReq : Bytes :=
  [71,69,84,32,47,32,72,84,84,80,47,49,46,49,13,10, 65,58,32,98,13,10, 32,99,13,10, 72,111,115,116,58,32,97,13,10, 13,10]
/-- `GET / HTTP/1.1\r\nA b\r\n\r\n` — a header line without a colon -/
def exNoColon : Bytes := [71,69,84,32,47,32,72,84,84,80,47,49,46,49,13,10, 65,32,98,13,10, 13,10]

/-- **Prefix stability of `req.parse`.** Whatever the parser answers on the bytes received so far — a
complete head with its consumed count, or a rejection — it answers on every extension of those bytes, unless
the answer was "need more". -/
theorem head_prefix_stable (dn : Bool) (b x : Bytes) (r : Except HeadErr (ReqHead × Nat))
    (h : parseReqHead dn b = r) (hr : r ≠ .error .needMore) : parseReqHead dn (b ++ x) = r :=
  parseReqHead_append dn b x r h hr

theorem head_ok_prefix_stable (dn : Bool) (b x : Bytes) (hd : ReqHead) (n : Nat)
    (h : parseReqHead dn b = .ok (hd, n)) : parseReqHead dn (b ++ x) = .ok (hd, n) ∧ n ≤ b.length :=
  ⟨parseReqHead_append dn b x _ h (by simp), parseReqHead_le dn b hd n h⟩

theorem head_bad_prefix_stable (dn : Bool) (b x : Bytes) (h : parseReqHead dn b = .error .bad) :
    parseReqHead dn (b ++ x) = .error .bad := parseReqHead_append dn b x _ h (by simp)

set_option maxRecDepth 100000 in
example : parseReqHead false exReq =
    .ok ({ method := [71,69,84], uri := [47], host := [97], h := [([65], [98,32,99])] }, 37) := by decide +kernel
set_option maxRecDepth 100000 in
example : parseReqHead false [71,69,84,13,10,13,10] = .error .bad := by decide +kernel
set_option maxRecDepth 100000 in
/-- the hypothesis `≠ needMore` excludes something: a proper prefix of a request -/
example : parseReqHead false (exReq.take 30) = .error .needMore := by decide +kernel

/-- **Retrying equals parsing the whole.** The server's scheme "parse what is buffered; on need-more read on
and parse again from the start" gives, for every stream and every split `a ++ b` of it, the answer of one
parse of the whole. -/
theorem retry_eq_whole (dn : Bool) (a b : Bytes) :
    (match parseReqHead dn a with
     | .error .needMore => parseReqHead dn (a ++ b)
     | r => r) = parseReqHead dn (a ++ b) := by
  split
  · rfl
  · rename_i r hr
    exact (parseReqHead_append dn a b _ rfl (fun h => hr h)).symm

/-- the same for any number of reads: `retryParse` takes the segments into the buffer one at a time -/
theorem retry_eq_whole_segments (dn : Bool) (buf : Bytes) (segs : List Bytes) :
    retryParse dn buf segs = parseReqHead dn (buf ++ segs.flatten) := retryParse_eq dn segs buf

set_option maxRecDepth 100000 in
example : retryParse false [] [exReq.take 5, (exReq.drop 5).take 20, exReq.drop 25, [71, 69]] =
    .ok ({ method := [71,69,84], uri := [47], host := [97], h := [([65], [98,32,99])] }, 37) := by decide +kernel

/-- After the completeness pre-check has passed (`rawHeadersLen = some _`), the scanner asks for more bytes only
on a line without a colon, and then no extension is ever accepted.  (So buffer edits made by the real scanner
before that point never reach a handler.) -/
theorem needMore_after_precheck_never_ok (dn : Bool) (b x : Bytes) (hd0 : ReqHead) (m k : Nat)
    (h1 : parseFirstLine b = .ok (hd0, m)) (h2 : rawHeadersLen (b.drop m) = some k)
    (h3 : parseReqHead dn b = .error .needMore) (hd : ReqHead) (n : Nat) :
    parseReqHead dn (b ++ x) ≠ .ok (hd, n) :=
  parseReqHead_needMore_never_ok dn b x hd0 m k h1 h2 h3 hd n

set_option maxRecDepth 100000 in
example : (∃ hd0 m k, parseFirstLine exNoColon = .ok (hd0, m) ∧ rawHeadersLen (exNoColon.drop m) = some k) ∧
    parseReqHead false exNoColon = .error .needMore :=
  ⟨⟨{ method := [71,69,84], uri := [47] }, 16, 7, by decide +kernel, by decide +kernel⟩, by decide +kernel⟩

/-! ## body -/

/-- `3\r\nabc\r\n0\r\nX: y\r\n\r\n` -/
def exChunked : Bytes := [51,13,10,97,98,99,13,10,48,13,10,88,58,32,121,13,10,13,10]

/-- **`req.ContinueReadBody`**: a body read that completes on `s` (with the stream merely stalling after `s`)
gives the same head, body and trailers on every extension `s ++ x` under either way the stream can end, and
leaves exactly `x` more. -/
theorem body_prefix_stable (cfg : Cfg) (e : End) (hd : ReqHead) (s x : Bytes)
    (hd' : ReqHead) (body : Bytes) (tr : List (Bytes × Bytes)) (rest : Bytes)
    (h : continueReadBody cfg .stall hd s = .ok hd' body tr rest) :
    continueReadBody cfg e hd (s ++ x) = .ok hd' body tr (rest ++ x) :=
  continueReadBody_append cfg e hd s x hd' body tr rest h

set_option maxRecDepth 100000 in
example : (match continueReadBody {} .stall { cl := -1, trailer := [[88]] } exChunked with
    | .ok _ body tr rest => body == [97,98,99] && tr == [([88],[121])] && rest == []
    | .err _ => false) = true := by decide +kernel
set_option maxRecDepth 100000 in
example : (match continueReadBody {} .stall { cl := 3 } [97,98,99,100] with
    | .ok _ body _ rest => body == [97,98,99] && rest == [100]
    | .err _ => false) = true := by decide +kernel

theorem chunked_body_prefix_stable (e e' : End) (maxBody fuel fuel' : Nat) (dst s x body rest : Bytes)
    (h : readBodyChunked e maxBody fuel dst s = .ok (body, rest)) (hf : fuel ≤ fuel') :
    readBodyChunked e' maxBody fuel' dst (s ++ x) = .ok (body, rest ++ x) :=
  readBodyChunked_append e e' maxBody x fuel fuel' dst s body rest h hf

theorem chunk_size_prefix_stable (e e' : End) (s x : Bytes) (n : Nat) (rest : Bytes)
    (h : parseChunkSize e s = .ok (n, rest)) : parseChunkSize e' (s ++ x) = .ok (n, rest ++ x) :=
  parseChunkSize_append e e' s x n rest h

theorem fixed_body_prefix_stable (e e' : End) (n : Nat) (s x b rest : Bytes) (h : takeBody e n s = .ok (b, rest)) :
    takeBody e' n (s ++ x) = .ok (b, rest ++ x) := takeBody_append e e' n s x b rest h

theorem trailer_prefix_stable (dn : Bool) (tr : List (Bytes × Option Bytes)) (buf x : Bytes)
    (p : List (Bytes × Option Bytes) × Nat) (h : parseTrailer dn tr buf = .ok p) :
    parseTrailer dn tr (buf ++ x) = .ok p ∧ p.2 ≤ buf.length := parseTrailer_append dn tr buf x p h

theorem body_tooLarge_prefix_stable (e e' : End) (maxBody fuel fuel' : Nat) (dst s x : Bytes)
    (h : readBodyChunked e maxBody fuel dst s = .error .tooLarge) (hf : fuel ≤ fuel') :
    readBodyChunked e' maxBody fuel' dst (s ++ x) = .error .tooLarge :=
  readBodyChunked_tooLarge_append e e' maxBody x fuel fuel' dst s h hf

set_option maxRecDepth 100000 in
example : readBodyChunked .stall 0 20 [] exChunked = .ok ([97,98,99], [88,58,32,121,13,10,13,10]) := by
  decide +kernel
set_option maxRecDepth 100000 in
example : readBodyChunked .stall 2 20 [] exChunked = .error .tooLarge := by decide +kernel
set_option maxRecDepth 100000 in
example : parseTrailer false [([88], none)] [88,58,32,121,13,10,13,10] = .ok ([([88], some [121])], 8) := by
  decide +kernel

/-- the full statement for errors: every verdict of the chunked reader other than "the wire ended" survives
appended bytes -/
def BodyErrorPrefixStable : Prop :=
  ∀ (e : End) (maxBody fuel : Nat) (s x : Bytes) (err : RdErr),
    readBodyChunked e maxBody fuel [] s = .error err →
    err ≠ .eof → err ≠ .timeout → err ≠ .unexpectedEOF → err ≠ .hzTimeout →
    readBodyChunked e maxBody (fuel + x.length) [] (s ++ x) = .error err

set_option maxRecDepth 100000 in
/-- FALSE of the model: `5` (chunk-size line cut before `\r`) is `bad`; `5\r\nhello\r\n0\r\n` is a body. -/
theorem body_error_prefix_stable_fails_at : ¬ BodyErrorPrefixStable := by
  intro h
  have h1 : readBodyChunked .stall 0 2 [] [53] = .error .bad := by decide +kernel
  have h2 := h .stall 0 2 [53] [13,10,104,101,108,108,111,13,10,48,13,10] .bad h1
    (by decide) (by decide) (by decide) (by decide)
  revert h2
  decide +kernel

/-- partial: see `chunked_body_prefix_stable` (every completed read) and `body_tooLarge_prefix_stable`. -/
theorem body_error_prefix_stable_partial (e e' : End) (maxBody fuel : Nat) (s x : Bytes)
    (h : readBodyChunked e maxBody fuel [] s = .error .tooLarge) :
    readBodyChunked e' maxBody (fuel + x.length) [] (s ++ x) = .error .tooLarge :=
  readBodyChunked_tooLarge_append e e' maxBody x fuel _ [] s h (by omega)

/-! ## the loop -/

/-- **Loop level.** Everything the server has emitted on the bytes `s` received so far (while it merely waits
for more) — except possibly one final closing error response (status ≠ 200) or the hand-over marker — is a
prefix of what it emits on every extension `s ++ x`, however that longer stream ends.  Handled requests and
their responses are never revised by later bytes. -/
theorem served_prefix_stable (cfg : Cfg) (e : End) (s x : Bytes) :
    ∃ pre tail more, serve cfg .stall s = pre ++ tail ∧
      (tail = [] ∨ tail = [.unmodelled] ∨ ∃ st, st ≠ 200 ∧ tail = [.resp st true]) ∧
      serve cfg e (s ++ x) = pre ++ more := serve_extension cfg e s x

set_option maxRecDepth 100000 in
/-- one complete request followed by the first bytes of the next: the request is handled, the 408 for the
incomplete one is the replaceable tail -/
example : serve {} .stall (exReq ++ [71, 69, 84, 32]) =
    [.req { head := { method := [71,69,84], uri := [47], host := [97], h := [([65], [98,32,99])] },
            body := [], trailers := [] }, .resp 200 false] ++ [.resp 408 true] := by decide +kernel

/-! ## client side: the response reader -/

/-- `HTTP/1.1 200 OK\r\nContent-Length: 2\r\n\r\nhi` -/
def exResp : Bytes :=
  [72,84,84,80,47,49,46,49,32,50,48,48,32,79,75,13,10, 67,111,110,116,101,110,116,45,76,101,110,103,116,104,58,32,50,13,10,
   13,10, 104,105]

/-- **Prefix stability of the client's `resp.parse`** (which has no completeness pre-check): an answer other
than "need more" on the bytes received so far is the answer on every extension. -/
theorem resp_head_prefix_stable (dn : Bool) (b x : Bytes) (r : Except HeadErr (RespRead.RespHead × Nat))
    (h : RespRead.parseRespHead dn b = r) (hr : r ≠ .error .needMore) : RespRead.parseRespHead dn (b ++ x) = r :=
  RespRead.parseRespHead_append dn b x r h hr

theorem resp_head_ok_prefix_stable (dn : Bool) (b x : Bytes) (hd : RespRead.RespHead) (n : Nat)
    (h : RespRead.parseRespHead dn b = .ok (hd, n)) :
    RespRead.parseRespHead dn (b ++ x) = .ok (hd, n) ∧ n ≤ b.length :=
  ⟨RespRead.parseRespHead_append dn b x _ h (by simp), RespRead.parseRespHead_le dn b hd n h⟩

/-- **The client's `resp.ReadHeader` retry loop does not depend on segmentation**: taking the segments into
the buffer one at a time and parsing again from the start on every "need more" gives the answer of one parse
of the concatenation. -/
theorem client_read_segmentation_invariant (dn : Bool) (buf : Bytes) (segs : List Bytes) :
    RespRead.retryParse dn buf segs = RespRead.parseRespHead dn (buf ++ segs.flatten) :=
  RespRead.retryParse_eq dn segs buf

/-- **Whole response.** A framed response (optional `100 Continue`, head, fixed-length or chunked body,
trailers) read completely from `s` while the stream merely stalls after `s` is read identically from every
extension `s ++ x`, under either way the stream can end, leaving exactly `x` more.  (A response without
framing is "read until close" and is excluded by `Framed`.) -/
theorem client_response_prefix_stable (dn : Bool) (maxBody : Nat) (e : End) (s x : Bytes) (res : RespRead.Result)
    (hf : ∀ hd s1, RespRead.readHeaders dn .stall s = .ok (hd, s1) → RespRead.Framed hd)
    (h : RespRead.readResponse dn maxBody .stall s = .ok res) :
    RespRead.readResponse dn maxBody e (s ++ x) = .ok { res with rest := res.rest ++ x } :=
  RespRead.readResponse_append dn maxBody e s x res hf h

set_option maxRecDepth 100000 in
example : RespRead.parseRespHead false exResp = .ok ({ status := 200, cl := 2, clBytes := [50] }, 38) := by
  decide +kernel
set_option maxRecDepth 100000 in
example : RespRead.retryParse false [] [exResp.take 11, (exResp.drop 11).take 9, exResp.drop 20] =
    .ok ({ status := 200, cl := 2, clBytes := [50] }, 38) := by decide +kernel
set_option maxRecDepth 100000 in
example : RespRead.readResponse false 0 .stall exResp =
      .ok { head := { status := 200, cl := 2, clBytes := [50] }, body := [104,105], trailers := [], rest := [] } ∧
    RespRead.readHeaders false .stall exResp = .ok ({ status := 200, cl := 2, clBytes := [50] }, [104,105]) ∧
    RespRead.Framed { status := 200, cl := 2, clBytes := [50] } :=
  ⟨by decide +kernel, by decide +kernel, Or.inr (by decide)⟩

end Hertz.Props.C02
