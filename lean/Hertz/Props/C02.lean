import Hertz.Proofs.Http1
import Hertz.Proofs.PrefixStable
import Hertz.Proofs.PrefixStableResp
import Hertz.Proofs.ScanEdit
import Hertz.Proofs.ScanEditN
import Hertz.Proofs.Drain
import Hertz.Gen.SkipRest
/-!
# C02 — message parsing does not depend on how bytes are split into reads

The loop model `Hertz.H1.serve` is a function of the *concatenated* inbound stream; the check runs
the real server on the same bytes under every two-way split, byte-wise delivery and random k-way
splits and compares each run with that single model answer, so any dependence of the
implementation on segmentation is a disagreement.  (The obs-fold defect F2, where a read ending
inside the body corrupted it, was found this way and is fixed in /repo.)

The real server parses the request head from whatever is buffered; on "need more" it reads more bytes
and parses again **from the start**.  That retry scheme is independent of segmentation iff parsing a
prefix either says "need more" or already gives the final answer.  Proved here, for all inputs:

* `header_block_end_stable`, `first_delimiter_stable`: the completeness pre-check and `bytes.IndexByte`
  results do not move when bytes are appended;
* `head_prefix_stable` (**the statement above**): if `parseReqHead dn b` is `ok (head, n)` or `bad`, then
  `parseReqHead dn (b ++ x)` is the same outcome — same head (method, uri, header list, framing, trailer
  names), same consumed count — for every `x`; `head_ok_prefix_stable` adds `n ≤ b.length` (what was consumed
  lies inside the bytes that had been received).  The result type of the model has no "edited buffer"
  component, so there is nothing further to compare;
* `retry_eq_whole`, `retry_eq_whole_segments`: "parse `a`; if need-more parse `a ++ b`" equals "parse `a ++ b`",
  and the same for any number of segments (`retryParse`);
* `needMore_after_precheck_never_ok`: the only way the header scanner itself (after the completeness pre-check
  passed) can ask for more is a line without a colon before the blank line, and then no extension is ever
  accepted — so the in-place edits the real scanner has made to the buffer by that time (key normalisation,
  obs-fold compaction; not part of this model) can never reach a handler;
* `body_prefix_stable`: `continueReadBody` (fixed length / chunked + trailers / no body): if the read
  completes on `s` while the stream merely stalls after `s`, then on every `s ++ x` and under either way the
  stream can end the same head, body, trailers are delivered and exactly `x` more is left;
  `chunked_body_prefix_stable`, `chunk_size_prefix_stable`, `fixed_body_prefix_stable`,
  `trailer_prefix_stable` are the same for the parts, `body_tooLarge_prefix_stable` for the 413 verdict;
* `served_prefix_stable` (loop level): everything the loop has emitted on the bytes received so far, except
  possibly one final error response / hand-over marker, is a prefix of what it emits on any extension.

False as first stated, kept as `…_fails_at` + partial: "every body-reader *error* other than eof/timeout is
prefix stable" — `body_error_prefix_stable_fails_at`: the chunk-size line `5` cut before its `\r` is `bad`
("cannot read '\r' char" is a public 400 error whatever the cause), while `5\r\nhello\r\n0\r\n` is a body.
This is not a segmentation dependence of the server: the body reader is not a retry parser, it blocks on the
connection (C13) and the error only arises when the stream *ends* there (`End`); it means the model's `.bad`
does not tell "malformed" from "cut short", so error stability is stated for `tooLarge` only.

* client side (`RespRead`): `resp_head_prefix_stable` (the response-head parser, which has no pre-check: a `kv`
  answer of the scanner is either stable or its obs-fold look-ahead ran dry, and then the rest has no line feed
  and the next call says "need more"), `client_read_segmentation_invariant` (the `resp.ReadHeader` retry loop
  over any segmentation equals one parse of the concatenation), `client_response_prefix_stable` (a whole framed
  response read to its end is read identically from every extension).

TODO-OPEN: nothing of C02 remains open at the level of the models (request and response side).  Not claimed:
(a) error verdicts of the body readers other than `tooLarge` (see `body_error_prefix_stable_fails_at`);
(b) unframed ("read until close") responses, which by definition depend on what follows;
(c) the in-place buffer edits of the real scanner are not part of the model (`needMore_after_precheck_never_ok`
shows they cannot matter on the request side); (d) the step from the model to the Go code stays the sampled
correspondence check (every two-way split, byte-wise and random k-way delivery).
-/
namespace Hertz.Props.C02
open Hertz Hertz.H1

/-- decidable equality of parser results, for the concrete examples below only -/
local instance decEqExcept {ε α : Type} [DecidableEq ε] [DecidableEq α] : DecidableEq (Except ε α)
  | .ok a, .ok b => if h : a = b then isTrue (by rw [h]) else isFalse (fun h' => h (Except.ok.inj h'))
  | .error a, .error b => if h : a = b then isTrue (by rw [h]) else isFalse (fun h' => h (Except.error.inj h'))
  | .ok _, .error _ => isFalse (fun h => by cases h)
  | .error _, .ok _ => isFalse (fun h => by cases h)

theorem header_block_end_stable (b x : Bytes) (n : Nat) (h : rawHeadersLen b = some n) :
    rawHeadersLen (b ++ x) = some n := rawHeadersLen_append b x n h

theorem first_delimiter_stable (c : UInt8) (b x : Bytes) (n : Nat) (h : indexByte c b = some n) :
    indexByte c (b ++ x) = some n := indexByte_append c b x n h

example : rawHeadersLen [72, 58, 32, 97, 13, 10, 13, 10] = some 8 := by decide

/-! ## request head -/

/-- `GET / HTTP/1.1\r\nA: b\r\n c\r\nHost: a\r\n\r\n` (with an obs-fold continuation line) -/
def exReq : Bytes :=
  [71,69,84,32,47,32,72,84,84,80,47,49,46,49,13,10, 65,58,32,98,13,10, 32,99,13,10, 72,111,115,116,58,32,97,13,10, 13,10]
/-- `GET / HTTP/1.1\r\nA b\r\n\r\n` — a header line without a colon -/
def exNoColon : Bytes := [71,69,84,32,47,32,72,84,84,80,47,49,46,49,13,10, 65,32,98,13,10, 13,10]

/-- **Prefix stability of `req.parse`.** Whatever the parser answers on the bytes received so far — a
complete head with its consumed count, or a rejection — it answers on every extension of those bytes, unless
the answer was "need more". -/
theorem head_prefix_stable (dn : Bool) (b x : Bytes) (r : Except HeadErr (ReqHead × Nat))
    (h : parseReqHead dn b = r) (hr : r ≠ .error .needMore) : parseReqHead dn (b ++ x) = r :=
  parseReqHead_append dn b x r h hr

theorem head_ok_prefix_stable (dn : Bool) (b x : Bytes) (hd : ReqHead) (n : Nat)
    (h : parseReqHead dn b = .ok (hd, n)) : parseReqHead dn (b ++ x) = .ok (hd, n) ∧ n ≤ b.length :=
  ⟨parseReqHead_append dn b x _ h (by simp), parseReqHead_le dn b hd n h⟩

theorem head_bad_prefix_stable (dn : Bool) (b x : Bytes) (h : parseReqHead dn b = .error .bad) :
    parseReqHead dn (b ++ x) = .error .bad := parseReqHead_append dn b x _ h (by simp)

set_option maxRecDepth 100000 in
example : parseReqHead false exReq =
    .ok ({ method := [71,69,84], uri := [47], host := [97], h := [([65], [98,32,99])] }, 37) := by decide +kernel
set_option maxRecDepth 100000 in
example : parseReqHead false [71,69,84,13,10,13,10] = .error .bad := by decide +kernel
set_option maxRecDepth 100000 in
/-- the hypothesis `≠ needMore` excludes something: a proper prefix of a request -/
example : parseReqHead false (exReq.take 30) = .error .needMore := by decide +kernel

/-- **Retrying equals parsing the whole.** The server's scheme "parse what is buffered; on need-more read on
and parse again from the start" gives, for every stream and every split `a ++ b` of it, the answer of one
parse of the whole. -/
theorem retry_eq_whole (dn : Bool) (a b : Bytes) :
    (match parseReqHead dn a with
     | .error .needMore => parseReqHead dn (a ++ b)
     | r => r) = parseReqHead dn (a ++ b) := by
  split
  · rfl
  · rename_i r hr
    exact (parseReqHead_append dn a b _ rfl (fun h => hr h)).symm

/-- the same for any number of reads: `retryParse` takes the segments into the buffer one at a time -/
theorem retry_eq_whole_segments (dn : Bool) (buf : Bytes) (segs : List Bytes) :
    retryParse dn buf segs = parseReqHead dn (buf ++ segs.flatten) := retryParse_eq dn segs buf

set_option maxRecDepth 100000 in
example : retryParse false [] [exReq.take 5, (exReq.drop 5).take 20, exReq.drop 25, [71, 69]] =
    .ok ({ method := [71,69,84], uri := [47], host := [97], h := [([65], [98,32,99])] }, 37) := by decide +kernel

/-- After the completeness pre-check has passed (`rawHeadersLen = some _`), the scanner asks for more bytes only
on a line without a colon, and then no extension is ever accepted.  (So buffer edits made by the real scanner
before that point never reach a handler.) -/
theorem needMore_after_precheck_never_ok (dn : Bool) (b x : Bytes) (hd0 : ReqHead) (m k : Nat)
    (h1 : parseFirstLine b = .ok (hd0, m)) (h2 : rawHeadersLen (b.drop m) = some k)
    (h3 : parseReqHead dn b = .error .needMore) (hd : ReqHead) (n : Nat) :
    parseReqHead dn (b ++ x) ≠ .ok (hd, n) :=
  parseReqHead_needMore_never_ok dn b x hd0 m k h1 h2 h3 hd n

set_option maxRecDepth 100000 in
example : (∃ hd0 m k, parseFirstLine exNoColon = .ok (hd0, m) ∧ rawHeadersLen (exNoColon.drop m) = some k) ∧
    parseReqHead false exNoColon = .error .needMore :=
  ⟨⟨{ method := [71,69,84], uri := [47] }, 16, 7, by decide +kernel, by decide +kernel⟩, by decide +kernel⟩

/-! ## body -/

/-- `3\r\nabc\r\n0\r\nX: y\r\n\r\n` -/
def exChunked : Bytes := [51,13,10,97,98,99,13,10,48,13,10,88,58,32,121,13,10,13,10]

/-- **`req.ContinueReadBody`**: a body read that completes on `s` (with the stream merely stalling after `s`)
gives the same head, body and trailers on every extension `s ++ x` under either way the stream can end, and
leaves exactly `x` more. -/
theorem body_prefix_stable (cfg : Cfg) (e : End) (hd : ReqHead) (s x : Bytes)
    (hd' : ReqHead) (body : Bytes) (tr : List (Bytes × Bytes)) (rest : Bytes)
    (h : continueReadBody cfg .stall hd s = .ok hd' body tr rest) :
    continueReadBody cfg e hd (s ++ x) = .ok hd' body tr (rest ++ x) :=
  continueReadBody_append cfg e hd s x hd' body tr rest h

set_option maxRecDepth 100000 in
example : (match continueReadBody {} .stall { cl := -1, trailer := [[88]] } exChunked with
    | .ok _ body tr rest => body == [97,98,99] && tr == [([88],[121])] && rest == []
    | .err _ => false) = true := by decide +kernel
set_option maxRecDepth 100000 in
example : (match continueReadBody {} .stall { cl := 3 } [97,98,99,100] with
    | .ok _ body _ rest => body == [97,98,99] && rest == [100]
    | .err _ => false) = true := by decide +kernel

theorem chunked_body_prefix_stable (e e' : End) (maxBody fuel fuel' : Nat) (dst s x body rest : Bytes)
    (h : readBodyChunked e maxBody fuel dst s = .ok (body, rest)) (hf : fuel ≤ fuel') :
    readBodyChunked e' maxBody fuel' dst (s ++ x) = .ok (body, rest ++ x) :=
  readBodyChunked_append e e' maxBody x fuel fuel' dst s body rest h hf

theorem chunk_size_prefix_stable (e e' : End) (s x : Bytes) (n : Nat) (rest : Bytes)
    (h : parseChunkSize e s = .ok (n, rest)) : parseChunkSize e' (s ++ x) = .ok (n, rest ++ x) :=
  parseChunkSize_append e e' s x n rest h

theorem fixed_body_prefix_stable (e e' : End) (n : Nat) (s x b rest : Bytes) (h : takeBody e n s = .ok (b, rest)) :
    takeBody e' n (s ++ x) = .ok (b, rest ++ x) := takeBody_append e e' n s x b rest h

theorem trailer_prefix_stable (dn : Bool) (tr : List (Bytes × Option Bytes)) (buf x : Bytes)
    (p : List (Bytes × Option Bytes) × Nat) (h : parseTrailer dn tr buf = .ok p) :
    parseTrailer dn tr (buf ++ x) = .ok p ∧ p.2 ≤ buf.length := parseTrailer_append dn tr buf x p h

theorem body_tooLarge_prefix_stable (e e' : End) (maxBody fuel fuel' : Nat) (dst s x : Bytes)
    (h : readBodyChunked e maxBody fuel dst s = .error .tooLarge) (hf : fuel ≤ fuel') :
    readBodyChunked e' maxBody fuel' dst (s ++ x) = .error .tooLarge :=
  readBodyChunked_tooLarge_append e e' maxBody x fuel fuel' dst s h hf

set_option maxRecDepth 100000 in
example : readBodyChunked .stall 0 20 [] exChunked = .ok ([97,98,99], [88,58,32,121,13,10,13,10]) := by
  decide +kernel
set_option maxRecDepth 100000 in
example : readBodyChunked .stall 2 20 [] exChunked = .error .tooLarge := by decide +kernel
set_option maxRecDepth 100000 in
example : parseTrailer false [([88], none)] [88,58,32,121,13,10,13,10] = .ok ([([88], some [121])], 8) := by
  decide +kernel

/-- the full statement for errors: every verdict of the chunked reader other than "the wire ended" survives
appended bytes -/
def BodyErrorPrefixStable : Prop :=
  ∀ (e : End) (maxBody fuel : Nat) (s x : Bytes) (err : RdErr),
    readBodyChunked e maxBody fuel [] s = .error err →
    err ≠ .eof → err ≠ .timeout → err ≠ .unexpectedEOF → err ≠ .hzTimeout →
    readBodyChunked e maxBody (fuel + x.length) [] (s ++ x) = .error err

set_option maxRecDepth 100000 in
/-- FALSE of the model: `5` (chunk-size line cut before `\r`) is `bad`; `5\r\nhello\r\n0\r\n` is a body. -/
theorem body_error_prefix_stable_fails_at : ¬ BodyErrorPrefixStable := by
  intro h
  have h1 : readBodyChunked .stall 0 2 [] [53] = .error .bad := by decide +kernel
  have h2 := h .stall 0 2 [53] [13,10,104,101,108,108,111,13,10,48,13,10] .bad h1
    (by decide) (by decide) (by decide) (by decide)
  revert h2
  decide +kernel

/-- partial: see `chunked_body_prefix_stable` (every completed read) and `body_tooLarge_prefix_stable`. -/
theorem body_error_prefix_stable_partial (e e' : End) (maxBody fuel : Nat) (s x : Bytes)
    (h : readBodyChunked e maxBody fuel [] s = .error .tooLarge) :
    readBodyChunked e' maxBody (fuel + x.length) [] (s ++ x) = .error .tooLarge :=
  readBodyChunked_tooLarge_append e e' maxBody x fuel _ [] s h (by omega)

/-! ## the loop -/

/-- **Loop level.** Everything the server has emitted on the bytes `s` received so far (while it merely waits
for more) — except possibly one final closing error response (status ≠ 200) or the hand-over marker — is a
prefix of what it emits on every extension `s ++ x`, however that longer stream ends.  Handled requests and
their responses are never revised by later bytes. -/
theorem served_prefix_stable (cfg : Cfg) (e : End) (s x : Bytes) :
    ∃ pre tail more, serve cfg .stall s = pre ++ tail ∧
      (tail = [] ∨ tail = [.unmodelled] ∨ ∃ st, st ≠ 200 ∧ tail = [.resp st true]) ∧
      serve cfg e (s ++ x) = pre ++ more := serve_extension cfg e s x

set_option maxRecDepth 100000 in
/-- one complete request followed by the first bytes of the next: the request is handled, the 408 for the
incomplete one is the replaceable tail -/
example : serve {} .stall (exReq ++ [71, 69, 84, 32]) =
    [.req { head := { method := [71,69,84], uri := [47], host := [97], h := [([65], [98,32,99])] },
            body := [], trailers := [] }, .resp 200 false] ++ [.resp 408 true] := by decide +kernel

/-! ## client side: the response reader -/

/-- `HTTP/1.1 200 OK\r\nContent-Length: 2\r\n\r\nhi` -/
def exResp : Bytes :=
  [72,84,84,80,47,49,46,49,32,50,48,48,32,79,75,13,10, 67,111,110,116,101,110,116,45,76,101,110,103,116,104,58,32,50,13,10,
   13,10, 104,105]

/-- **Prefix stability of the client's `resp.parse`** (which has no completeness pre-check): an answer other
than "need more" on the bytes received so far is the answer on every extension. -/
theorem resp_head_prefix_stable (dn : Bool) (b x : Bytes) (r : Except HeadErr (RespRead.RespHead × Nat))
    (h : RespRead.parseRespHead dn b = r) (hr : r ≠ .error .needMore) : RespRead.parseRespHead dn (b ++ x) = r :=
  RespRead.parseRespHead_append dn b x r h hr

theorem resp_head_ok_prefix_stable (dn : Bool) (b x : Bytes) (hd : RespRead.RespHead) (n : Nat)
    (h : RespRead.parseRespHead dn b = .ok (hd, n)) :
    RespRead.parseRespHead dn (b ++ x) = .ok (hd, n) ∧ n ≤ b.length :=
  ⟨RespRead.parseRespHead_append dn b x _ h (by simp), RespRead.parseRespHead_le dn b hd n h⟩

/-- **The client's `resp.ReadHeader` retry loop does not depend on segmentation**: taking the segments into
the buffer one at a time and parsing again from the start on every "need more" gives the answer of one parse
of the concatenation. -/
theorem client_read_segmentation_invariant (dn : Bool) (buf : Bytes) (segs : List Bytes) :
    RespRead.retryParse dn buf segs = RespRead.parseRespHead dn (buf ++ segs.flatten) :=
  RespRead.retryParse_eq dn segs buf

/-- **Whole response.** A framed response (optional `100 Continue`, head, fixed-length or chunked body,
trailers) read completely from `s` while the stream merely stalls after `s` is read identically from every
extension `s ++ x`, under either way the stream can end, leaving exactly `x` more.  (A response without
framing is "read until close" and is excluded by `Framed`.) -/
theorem client_response_prefix_stable (dn : Bool) (maxBody : Nat) (e : End) (s x : Bytes) (res : RespRead.Result)
    (hf : ∀ hd s1, RespRead.readHeaders dn .stall s = .ok (hd, s1) → RespRead.Framed hd)
    (h : RespRead.readResponse dn maxBody .stall s = .ok res) :
    RespRead.readResponse dn maxBody e (s ++ x) = .ok { res with rest := res.rest ++ x } :=
  RespRead.readResponse_append dn maxBody e s x res hf h

set_option maxRecDepth 100000 in
example : RespRead.parseRespHead false exResp = .ok ({ status := 200, cl := 2, clBytes := [50] }, 38) := by
  decide +kernel
set_option maxRecDepth 100000 in
example : RespRead.retryParse false [] [exResp.take 11, (exResp.drop 11).take 9, exResp.drop 20] =
    .ok ({ status := 200, cl := 2, clBytes := [50] }, 38) := by decide +kernel
set_option maxRecDepth 100000 in
example : RespRead.readResponse false 0 .stall exResp =
      .ok { head := { status := 200, cl := 2, clBytes := [50] }, body := [104,105], trailers := [], rest := [] } ∧
    RespRead.readHeaders false .stall exResp = .ok ({ status := 200, cl := 2, clBytes := [50] }, [104,105]) ∧
    RespRead.Framed { status := 200, cl := 2, clBytes := [50] } :=
  ⟨by decide +kernel, by decide +kernel, Or.inr (by decide)⟩

/-! ## X02 — the in-place edits of the header scanner (`Model/Http1/ScanEdit`, `Proofs/ScanEdit`)

`ScanEdit.scanNextE : buffer → (answer, buffer')` is `HeaderScanner.Next` with the writes it performs (key canonicalised
where it lies; an obs-folded value compacted, right aligned in its region, blanks in front); `scanBlock` is the loop
`for s.Next() {}`, `retryScanE` the scheme of `resp.ReadHeader` / `ext.ReadTrailer`: "scan buf₀; on need-more scan
(edit buf₀ ++ more)".  The correspondence check compares `buffer'` with the real buffer bytes (ops `scanblk`, `hdrbuf`).

Proved for all buffers: the answer component is the pure scanner the theorems above are about (`edit_answer_is_scan`,
`edit_block_reading_is_scan`); the edits are confined to the consumed bytes — length kept, everything behind the
consumed bytes and every byte appended later untouched (`edit_step_local`, `edit_prefix_local`,
`edit_appended_untouched`: the statement behind the former defect F2 "body corrupted by header compaction").

**False as first stated** — `rescan_after_edit_eq_whole_fails_at`: "for every segmentation the retry scheme WITH the
edits returns the reading of one scan of the whole block".  Witness `X: a \r\n \r\n` ‖ ` c\r\n\r\n`: the value is
`a   c` (three blanks) in one scan and `a  c` after the cut.  A value whose obs-fold look-ahead ran out of buffered
bytes is compacted all the same; the compaction drops the blanks at the END of the value so far, and when the value
goes on they are missing.  This is a defect of hertz (reproduced on the real client: response head
`HTTP/1.1 200 OK\r\nX: a \r\n \r\n c\r\nContent-Length: 2\r\n\r\nhi`, reads ending at offsets 27..30), found while
stating this theorem; known-finding class `obsfold-compacted-before-complete`, patch
`patches/obsfold-compact-only-complete-values.diff`.  The three former witnesses are regression theorems
(`rescan_note_cut_after_line2`, `rescan_fold_blank_only`, `fold_then_body_untouched`).

Proved for all buffers as well: `edit_idempotent` / `edit_preserves_reading` (scanning the edited buffer again gives
the same fields, stop and consumed count and leaves the buffer alone; one call: `edit_step_idempotent`; the key part:
`key_edit_idempotent`; the two passes of `ext.parseTrailer`: `trailer_second_pass_writes_nothing`).

And the partial statement, for all buffers and all segmentations: `rescan_after_edit_eq_whole_partial` (two reads) and
`rescan_after_edit_eq_whole_segments` (any number of reads): if no stage of the retry compacted a value whose look-ahead
ended at the end of the buffer (`ScanEdit.anyDryFold` / `retryClean`), the retry scheme WITH the edits reads what one scan
of the whole reads.  The excluded region is exactly the known-finding class (the driver names a failing case known only
if `anyDryFold` holds for it).

The header OBJECTS: `resp.parseHeaders` and the loop of `ext.parseTrailer` are folds over the block reading, so the same
holds for them: `resp_headers_edit_preserved`, `resp_headers_rescan_partial`, `trailer_edit_preserved`,
`trailer_rescan_partial`.

For the whole response head (`resp.parse`, first line included): `resp_parse_edit_answer`, `resp_head_rescan_partial`
(`parseFirstLine` looks only at the bytes it consumes, which no edit touches: `respFirstLine_local`), and for the retry
loop of `resp.ReadHeader` over any number of reads: `client_read_with_edits_segmentation_invariant`.

And for `ext.parseTrailer` on the whole peeked buffer (optional `0\r\n` in front, two passes): `trailer_parse_rescan_partial`.

TODO-OPEN (X02): the request side needs no rescan statement (`needMore_after_precheck_never_ok`: nothing is scanned, hence
written, before the completeness pre-check passed — `reqParseE`); a multi-read version of the trailer theorem (like
`client_read_with_edits_segmentation_invariant`) is not stated; `respParseE` / `trailerParseE` / `reqParseE` are
compared with the real readers (outcome and connection buffer) by `hdrbuf`;
`RescanAfterEditEqWhole` without hypothesis becomes provable once the proposed patch is in (then `anyDryFold` is
constantly false).
-/
section X02
open Hertz.H1.ScanEdit

/-- The answer of the editing scanner is the answer of the pure scanner `scanNext` — the function all theorems
above (prefix stability, retry = whole) are about. -/
theorem edit_answer_is_scan (dn : Bool) (B : Bytes) : (scanNextE dn B).1 = scanNext dn B := scanNextE_fst dn B

theorem edit_block_reading_is_scan (dn : Bool) (B : Bytes) :
    (scanBlock dn B).reading = readBlock dn (B.length + 1) B := scanBlockE_reading dn _ B

/-- **One call of `Next`.** Either it hands out no field and has written nothing, or it hands out a field, consumed
`m` bytes, and the buffer afterwards is `m` rewritten bytes followed by the unconsumed rest exactly as it was. -/
theorem edit_step_local (dn : Bool) (B : Bytes) :
    (scanNextE dn B = (scanNext dn B, B) ∧ ∀ k v r m, scanNext dn B ≠ .kv k v r m) ∨
    (∃ k v rest m pre, scanNextE dn B = (.kv k v rest m, pre ++ rest) ∧ scanNext dn B = .kv k v rest m ∧
      pre.length = m ∧ B.drop m = rest ∧ m + rest.length = B.length) := scanNextE_step dn B

/-- **The edits of a scan are local**: the buffer keeps its length, and behind the bytes the scan consumed it is
unchanged — whatever the buffer holds there (body, next message) and however the scan stopped. -/
theorem edit_prefix_local (dn : Bool) (B : Bytes) :
    (scanBlock dn B).buf.length = B.length ∧ (scanBlock dn B).consumed ≤ B.length ∧
      (scanBlock dn B).buf.drop (scanBlock dn B).consumed = B.drop (scanBlock dn B).consumed :=
  scanBlockE_local dn _ B

/-- what the retry loop hands to the parser after a need-more — the edited buffer followed by the bytes read since —
agrees with the stream behind the consumed bytes: the appended bytes are untouched -/
theorem edit_appended_untouched (dn : Bool) (B more : Bytes) :
    ((scanBlock dn B).buf ++ more).drop (scanBlock dn B).consumed = (B ++ more).drop (scanBlock dn B).consumed := by
  obtain ⟨h1, h2, h3⟩ := scanBlockE_local dn (B.length + 1) B
  unfold scanBlock
  rw [List.drop_append_of_le_length (by omega), List.drop_append_of_le_length h2, h3]

/-- **`edit_idempotent` and `edit_preserves_reading` in one**: scanning the buffer a scan has left behind hands out
the same fields, stops the same way after the same number of bytes, and leaves the buffer as it is — for every
buffer, whatever it holds and however the first scan stopped.  (This is also what `ext.parseTrailer` relies on: its
second pass over the section reads what the first, checking pass read.) -/
theorem edit_idempotent (dn : Bool) (B : Bytes) : scanBlock dn (scanBlock dn B).buf = scanBlock dn B := by
  unfold scanBlock
  rw [(scanBlockE_local dn (B.length + 1) B).1]
  exact scanBlockE_idem dn _ B

theorem edit_preserves_reading (dn : Bool) (B : Bytes) :
    (scanBlock dn (editBlock dn B)).reading = (scanBlock dn B).reading ∧ editBlock dn (editBlock dn B) = editBlock dn B := by
  unfold editBlock; rw [edit_idempotent]; exact ⟨rfl, rfl⟩

/-- one call of `Next` on what a call of `Next` has left behind: same answer, nothing new written -/
theorem edit_step_idempotent (dn : Bool) (B : Bytes) : scanNextE dn (scanNextE dn B).2 = scanNextE dn B := by
  rcases scanNextE_step2 dn B with ⟨hs, _⟩ | ⟨k, v, rest, m, pre, hs, _, h0, _, hI⟩
  · rw [hs]; exact hs
  · rw [hs]; exact hI rest h0

/-- `utils.NormalizeHeaderKey` on its own output changes nothing (the key part of the edit) -/
theorem key_edit_idempotent (dn : Bool) (k : Bytes) : normalizeKey dn (normalizeKey dn k) = normalizeKey dn k :=
  normalizeKey_idem dn k

/-- the trailer reader's two passes: the second pass writes nothing the first has not written -/
theorem trailer_second_pass_writes_nothing (dn : Bool) (B : Bytes) : editTrailer dn B = editBlock dn B := by
  unfold editTrailer editBlock
  simp only []
  split
  · rw [edit_idempotent]
  · rfl

set_option maxRecDepth 100000 in
/-- non-vacuity: a block whose scan rewrites key and value; the second scan reads the same and leaves the bytes -/
example : (scanBlock false [88,58,32,97,13,10,32,98,13,10,13,10,97,98,99,100,101,102,103,104]).buf ≠ [88,58,32,97,13,10,32,98,13,10,13,10,97,98,99,100,101,102,103,104] ∧
    scanBlock false (scanBlock false [88,58,32,97,13,10,32,98,13,10,13,10,97,98,99,100,101,102,103,104]).buf =
      scanBlock false [88,58,32,97,13,10,32,98,13,10,13,10,97,98,99,100,101,102,103,104] := by decide +kernel

/-- `X-Note: first\r\n second\r\n` -/
def exNoteA : Bytes := [88,45,78,111,116,101,58,32,102,105,114,115,116,13,10,32,115,101,99,111,110,100,13,10]
/-- `\tthird\r\n\r\nabcdefgh` -/
def exNoteB : Bytes := [9,116,104,105,114,100,13,10,13,10,97,98,99,100,101,102,103,104]
/-- `X-Fold: a\r\n \r\r\n` -/
def exFoldA : Bytes := [88,45,70,111,108,100,58,32,97,13,10,32,13,13,10]
/-- `X: a\r\n b\r\n\r\nabcdefgh` -/
def exFoldBody : Bytes := [88,58,32,97,13,10,32,98,13,10,13,10,97,98,99,100,101,102,103,104]
/-- `X: a \r\n \r\n` -/
def exDryA : Bytes := [88,58,32,97,32,13,10,32,13,10]
/-- ` c\r\n\r\n` -/
def exDryB : Bytes := [32,99,13,10,13,10]

set_option maxRecDepth 100000 in
/-- non-vacuity of `edit_prefix_local` / `edit_step_local`: a scan that rewrites the key and compacts a folded value,
with a body behind the block -/
example : scanBlock false exFoldBody =
    { fields := [([88], [97,32,98])], stop := .fin 12, consumed := 10,
      buf := [88,58,32,32,32,97,32,98,13,10,13,10,97,98,99,100,101,102,103,104] } := by decide +kernel
set_option maxRecDepth 100000 in
example : (scanNextE false [120,45,97,58,32,98,13,10,13,10]).2 = [88,45,65,58,32,98,13,10,13,10] := by decide +kernel

set_option maxRecDepth 100000 in
/-- regression, former witness of 29d098b: `X-Note: first\r\n second\r\n\tthird` cut after line 2 — the first scan
compacts `first second`, the rescan of the edited buffer plus the rest reads what one scan of the whole reads -/
theorem rescan_note_cut_after_line2 :
    (retryScanE false exNoteA [exNoteB]).reading = (scanBlock false (exNoteA ++ exNoteB)).reading ∧
    (scanBlock false exNoteA).stop = .needMore ∧ (scanBlock false exNoteA).buf ≠ exNoteA := by decide +kernel

set_option maxRecDepth 100000 in
/-- regression, former witness of 4b3fd87: `X-Fold: a\r\n \r\r\n` (continuation line of blanks only), then the blank line -/
theorem rescan_fold_blank_only :
    (retryScanE false exFoldA [[13,10]]).reading = (scanBlock false (exFoldA ++ [13,10])).reading ∧
    (retryScanE false exFoldA [[13,10]]).fields = [([88,45,70,111,108,100], [97])] := by decide +kernel

set_option maxRecDepth 100000 in
/-- regression, former witness of 28ce34e (F2): a folded header, the buffer ending inside the body — the body bytes
are where they were -/
theorem fold_then_body_untouched (k : Nat) (hk : 12 ≤ k) :
    ((scanBlock false (exFoldBody.take k)).buf).drop 12 = (exFoldBody.take k).drop 12 := by
  have h20 : ∀ j, j ≤ 20 → ((scanBlock false (exFoldBody.take j)).buf).drop 12 = (exFoldBody.take j).drop 12 ∨ j < 12 := by
    decide +kernel
  by_cases h : k ≤ 20
  · rcases h20 k h with h' | h'
    · exact h'
    · omega
  · have : exFoldBody.take k = exFoldBody.take 20 := by
      rw [List.take_of_length_le (by decide : exFoldBody.length ≤ 20), List.take_of_length_le (by simp [exFoldBody]; omega)]
    rw [this]
    rcases h20 20 (by omega) with h' | h'
    · exact h'
    · omega

/-- the full statement: for every segmentation the retry scheme WITH the edits reads what one scan of the whole reads -/
def RescanAfterEditEqWhole : Prop :=
  ∀ (dn : Bool) (buf : Bytes) (segs : List Bytes),
    (retryScanE dn buf segs).reading = (scanBlock dn (buf ++ segs.flatten)).reading

set_option maxRecDepth 100000 in
/-- FALSE of the code as it stands: `X: a \r\n \r\n` ‖ ` c\r\n\r\n` reads `a  c` after the cut and `a   c` whole
(known finding `obsfold-compacted-before-complete`, replayed on the real scanner and on the real client). -/
theorem rescan_without_needmore_rule_fails_at : ¬ RescanAfterEditEqWhole := by
  intro h
  have h1 := h false exDryA [exDryB]
  revert h1
  decide +kernel

set_option maxRecDepth 100000 in
/-- the witness is inside the class the driver names: the first scan compacted a value whose look-ahead had run dry -/
example : anyDryFold false (exDryA.length + 1) exDryA = true ∧ (scanBlock false exDryA).stop = .needMore ∧
    (retryScanE false exDryA [exDryB]).fields = [([88], [97,32,32,99])] ∧
    (scanBlock false (exDryA ++ exDryB)).fields = [([88], [97,32,32,32,99])] := by decide +kernel

/-- **Partial: rescan after edit = whole, two reads.**  If the scan of what was buffered did not compact a value
whose obs-fold look-ahead ended at the end of the buffer, then scanning the EDITED buffer followed by the bytes read
since gives the reading of one scan of the whole — for every buffer, every continuation, normalising on or off.
The excluded region is exactly the known-finding class `obsfold-compacted-before-complete`. -/
theorem rescan_after_edit_eq_whole_partial (dn : Bool) (buf more : Bytes)
    (h : anyDryFold dn (buf.length + 1) buf = false) :
    (scanBlock dn ((scanBlock dn buf).buf ++ more)).reading = (scanBlock dn (buf ++ more)).reading := by
  rw [edit_block_reading_is_scan, edit_block_reading_is_scan]
  have hl : ((scanBlock dn buf).buf ++ more).length = (buf ++ more).length := by
    simp [(edit_prefix_local dn buf).1]
  rw [hl]
  exact rescan_partial dn _ buf more _ (Nat.le_refl _) (Nat.le_refl _) h

/-- **… and for every segmentation into any number of reads**: the retry scheme WITH the edits
(`retryScanE`: scan; on need-more append the next segment to the edited buffer and scan again) reads what one scan
of the concatenation reads, provided no stage compacted prematurely (`retryClean`). -/
theorem rescan_without_needmore_rule_segments_partial (dn : Bool) : ∀ (segs : List Bytes) (buf : Bytes),
    retryClean dn buf segs = true →
    (retryScanE dn buf segs).reading = (scanBlock dn (buf ++ segs.flatten)).reading
  | [], buf, _ => by simp [retryScanE]
  | seg :: segs, buf, h => by
    simp only [retryScanE, retryClean] at h ⊢
    cases hstop : (scanBlock dn buf).stop with
    | needMore =>
      simp only [hstop, Bool.and_eq_true, Bool.not_eq_true'] at h ⊢
      rw [rescan_without_needmore_rule_segments_partial dn segs _ h.2, List.append_assoc,
        rescan_after_edit_eq_whole_partial dn buf _ h.1]
      simp
    | fin n =>
      simp only [hstop]
      rw [edit_block_reading_is_scan, edit_block_reading_is_scan]
      have hs : (readBlock dn (buf.length + 1) buf).2 ≠ .needMore := by
        rw [← edit_block_reading_is_scan]; simp [Block.reading, hstop]
      exact (readBlock_stable dn _ _ _ buf (by simp) hs).symm
    | invalidName =>
      simp only [hstop]
      rw [edit_block_reading_is_scan, edit_block_reading_is_scan]
      have hs : (readBlock dn (buf.length + 1) buf).2 ≠ .needMore := by
        rw [← edit_block_reading_is_scan]; simp [Block.reading, hstop]
      exact (readBlock_stable dn _ _ _ buf (by simp) hs).symm

set_option maxRecDepth 100000 in
/-- non-vacuity: `x-a: 1\r\nX-No` ‖ `te: first\r\n second\r\n` ‖ `\tthird\r\n\r\nabcdefgh` would compact prematurely at
the second stage; `x-a: 1\r\nX-No` ‖ the rest does not: the first scan hands out `X-A` (key rewritten in the buffer) and
asks for more, the rescan of the edited buffer plus the rest reads both fields -/
example : retryClean false ([120,45,97,58,32,49,13,10] ++ exNoteA.take 4) [exNoteA.drop 4 ++ exNoteB] = true ∧
    (scanBlock false ([120,45,97,58,32,49,13,10] ++ exNoteA.take 4)).stop = .needMore ∧
    (scanBlock false ([120,45,97,58,32,49,13,10] ++ exNoteA.take 4)).buf ≠ [120,45,97,58,32,49,13,10] ++ exNoteA.take 4 ∧
    (retryScanE false ([120,45,97,58,32,49,13,10] ++ exNoteA.take 4) [exNoteA.drop 4 ++ exNoteB]).fields =
      [([88,45,65], [49]),
       ([88,45,78,111,116,101], [102,105,114,115,116,32,115,101,99,111,110,100,32,116,104,105,114,100])] := by
  decide +kernel

set_option maxRecDepth 100000 in
/-- the hypothesis excludes something: the witness of `rescan_after_edit_eq_whole_fails_at` -/
example : retryClean false exDryA [exDryB] = false := by decide +kernel

/-! ### the header objects of the callers

`resp.parseHeaders` and `ext.parseTrailer` run `Next` in a loop and fold the fields into the header object; both loops
are functions of the block reading (`headersLoop_eq_fold`, `parseTrailerLoop_eq_fold`), so what holds for readings holds
for the objects. -/

/-- client, response head: the header object parsed from the EDITED header block is the one parsed from the original -/
theorem resp_headers_edit_preserved (dn : Bool) (hd : RespRead.RespHead) (B : Bytes) :
    RespRead.parseHeaders dn hd (editBlock dn B) = RespRead.parseHeaders dn hd B := by
  have hl : (editBlock dn B).length = B.length := (edit_prefix_local dn B).1
  have hr : readBlock dn (B.length + 1) (editBlock dn B) = readBlock dn (B.length + 1) B := by
    have := (edit_preserves_reading dn B).1
    rw [edit_block_reading_is_scan, edit_block_reading_is_scan, hl] at this
    exact this
  unfold RespRead.parseHeaders
  rw [hl, headersLoop_eq_fold, headersLoop_eq_fold, hr]

/-- client, response head, **rescan after edit with more bytes**: the header object parsed from the edited block
followed by the bytes read since is the one parsed from the whole — unless a value was compacted before it was complete -/
theorem resp_headers_rescan_partial (dn : Bool) (hd : RespRead.RespHead) (B more : Bytes)
    (h : anyDryFold dn (B.length + 1) B = false) :
    RespRead.parseHeaders dn hd (editBlock dn B ++ more) = RespRead.parseHeaders dn hd (B ++ more) := by
  have hl : (editBlock dn B ++ more).length = (B ++ more).length := by simp [(edit_prefix_local dn B).1, editBlock]
  unfold RespRead.parseHeaders
  rw [hl, headersLoop_eq_fold, headersLoop_eq_fold]
  unfold editBlock scanBlock
  rw [rescan_partial dn _ B more _ (Nat.le_refl _) (Nat.le_refl _) h]

/-- trailer section (client and server side; `parseTrailerLoop` is the loop of `ext.parseTrailer`), same two statements -/
theorem trailer_edit_preserved (dn : Bool) (tr : List (Bytes × Option Bytes)) (err : Bool) (hl : Nat) (B : Bytes) :
    parseTrailerLoop dn (B.length + 1) (editBlock dn B) tr err hl = parseTrailerLoop dn (B.length + 1) B tr err hl := by
  have hlen : (editBlock dn B).length = B.length := (edit_prefix_local dn B).1
  have hr : readBlock dn (B.length + 1) (editBlock dn B) = readBlock dn (B.length + 1) B := by
    have := (edit_preserves_reading dn B).1
    rw [edit_block_reading_is_scan, edit_block_reading_is_scan, hlen] at this
    exact this
  rw [parseTrailerLoop_eq_fold, parseTrailerLoop_eq_fold, hr]

theorem trailer_rescan_partial (dn : Bool) (tr : List (Bytes × Option Bytes)) (err : Bool) (hl : Nat) (B more : Bytes)
    (h : anyDryFold dn (B.length + 1) B = false) :
    parseTrailerLoop dn ((B ++ more).length + 1) (editBlock dn B ++ more) tr err hl =
      parseTrailerLoop dn ((B ++ more).length + 1) (B ++ more) tr err hl := by
  rw [parseTrailerLoop_eq_fold, parseTrailerLoop_eq_fold]
  unfold editBlock scanBlock
  rw [rescan_partial dn _ B more _ (Nat.le_refl _) (Nat.le_refl _) h]

set_option maxRecDepth 100000 in
/-- non-vacuity: `x-a: 1\r\nX-No` ‖ `te: first\r\n second\r\n\tthird\r\n\r\n…` as a response header block -/
example : anyDryFold false 13 ([120,45,97,58,32,49,13,10] ++ exNoteA.take 4) = false ∧
    (match RespRead.parseHeaders false { status := 200 }
        (editBlock false ([120,45,97,58,32,49,13,10] ++ exNoteA.take 4) ++ (exNoteA.drop 4 ++ exNoteB)) with
     | .ok (hd, n) => hd.h.length == 3 && n == 42
     | .error _ => false) = true := by decide +kernel

/-- the answer of `resp.parse` with the buffer is the answer of the pure `parseRespHead` -/
theorem resp_parse_edit_answer (dn : Bool) (buf : Bytes) : (respParseE dn buf).1 = RespRead.parseRespHead dn buf := by
  unfold respParseE
  cases hfl : RespRead.parseFirstLine buf with
  | error e => simp [RespRead.parseRespHead, hfl, bind, Except.bind]
  | ok p => rfl

/-- **Client, whole response head (`resp.parse`), rescan after edit.**  `resp.tryRead` parses the peeked buffer; on
need-more the SAME buffer — first line untouched, header block edited — followed by the bytes read since is parsed
again.  That second parse answers what one parse of the concatenation answers (status line, every header field,
framing, consumed length, or the error), for every buffer and every continuation, provided the first scan did not
compact a value before it was complete. -/
theorem resp_head_rescan_partial (dn : Bool) (buf more : Bytes)
    (h : ∀ hd0 m, RespRead.parseFirstLine buf = .ok (hd0, m) →
      anyDryFold dn ((buf.drop m).length + 1) (buf.drop m) = false) :
    RespRead.parseRespHead dn ((respParseE dn buf).2 ++ more) = RespRead.parseRespHead dn (buf ++ more) := by
  unfold respParseE
  cases hfl : RespRead.parseFirstLine buf with
  | error e => rfl
  | ok p =>
    obtain ⟨hd0, m⟩ := p
    simp only []
    have hm : m ≤ buf.length := RespRead.parseFirstLine_le buf hd0 m hfl
    have hel : (editBlock dn (buf.drop m)).length = (buf.drop m).length := (edit_prefix_local dn _).1
    have h1 := respFirstLine_local buf (editBlock dn (buf.drop m) ++ more) hd0 m hfl
      (by simp [hel]; omega)
    have h2 := RespRead.parseFirstLine_append buf more _ hfl (by simp)
    have hd1 : (buf.take m ++ (editBlock dn (buf.drop m) ++ more)).drop m = editBlock dn (buf.drop m) ++ more :=
      List.drop_left' (by simp; omega)
    have hd2 : (buf ++ more).drop m = buf.drop m ++ more := List.drop_append_of_le_length hm
    unfold RespRead.parseRespHead
    rw [List.append_assoc, h1, h2]
    simp only [bind, Except.bind, hd1, hd2]
    rw [resp_headers_rescan_partial dn hd0 (buf.drop m) more (h hd0 m hfl)]

set_option maxRecDepth 100000 in
/-- non-vacuity: `HTTP/1.1 200 OK\r\nx-a: 1\r\nX-No` ‖ `te: first\r\n second\r\n\tthird\r\n\r\n…`: need-more with the key
`x-a` rewritten in the buffer, then the whole head -/
example :
    let buf : Bytes := [72,84,84,80,47,49,46,49,32,50,48,48,32,79,75,13,10] ++ [120,45,97,58,32,49,13,10] ++ exNoteA.take 4
    (respParseE false buf).1 = .error .needMore ∧ (respParseE false buf).2 ≠ buf ∧
    (match RespRead.parseRespHead false ((respParseE false buf).2 ++ (exNoteA.drop 4 ++ exNoteB)) with
     | .ok (hd, n) => hd.status == 200 && hd.h.length == 3 && n == 59
     | .error _ => false) = true := by decide +kernel

/-- **`resp.ReadHeader` over any number of reads, WITH the edits** — the counterpart of
`client_read_segmentation_invariant` for the real buffer: the retry loop that parses the edited buffer plus each new
read answers what one parse of the concatenation answers, provided no stage compacted a value before it was complete. -/
theorem client_read_without_needmore_rule_partial (dn : Bool) : ∀ (segs : List Bytes) (buf : Bytes),
    respRetryClean dn buf segs = true →
    respRetryE dn buf segs = RespRead.parseRespHead dn (buf ++ segs.flatten)
  | [], buf, _ => by simp [respRetryE, resp_parse_edit_answer]
  | seg :: segs, buf, h => by
    simp only [respRetryE, respRetryClean] at h ⊢
    have ha := resp_parse_edit_answer dn buf
    cases hr : (respParseE dn buf).1 with
    | error e =>
      cases e with
      | needMore =>
        simp only [hr, Bool.and_eq_true] at h ⊢
        rw [client_read_without_needmore_rule_partial dn segs _ h.2, List.append_assoc]
        have hc : ∀ hd0 m, RespRead.parseFirstLine buf = .ok (hd0, m) →
            anyDryFold dn ((buf.drop m).length + 1) (buf.drop m) = false := by
          intro hd0 m hfl
          have := h.1
          simp only [respStageClean, hfl, Bool.not_eq_true'] at this
          exact this
        rw [resp_head_rescan_partial dn buf _ hc]
        simp
      | bad =>
        simp only [hr]
        rw [ha] at hr
        exact (RespRead.parseRespHead_append dn buf _ _ hr (by simp)).symm
    | ok p =>
      simp only [hr]
      rw [ha] at hr
      exact (RespRead.parseRespHead_append dn buf _ _ hr (by simp)).symm

set_option maxRecDepth 100000 in
/-- non-vacuity: three reads; the first ends inside the name `X-Note` (the key `x-a` in front of it is rewritten in
the buffer, need-more), the second inside the first line of `X-Note` (need-more again), the third brings the rest -/
example :
    let buf : Bytes := [72,84,84,80,47,49,46,49,32,50,48,48,32,79,75,13,10] ++ [120,45,97,58,32,49,13,10] ++ exNoteA.take 4
    respRetryClean false buf [(exNoteA.drop 4).take 5, exNoteA.drop 9 ++ exNoteB] = true ∧
    (match respRetryE false buf [(exNoteA.drop 4).take 5, exNoteA.drop 9 ++ exNoteB] with
     | .ok (hd, n) => hd.status == 200 && hd.h.length == 3 && n == 59
     | .error _ => false) = true := by decide +kernel

/-- **`ext.parseTrailer` on the whole peeked buffer (client and server side), rescan after edit.**  With the optional
repeated `0\r\n` line in front, the two passes of one call, and the retry of `ext.ReadTrailer`: parsing the EDITED buffer
followed by the bytes read since answers what one parse of the concatenation answers — the filled trailer values,
the consumed length, or the error — provided the scan of the section did not compact a value before it was complete. -/
theorem trailer_parse_rescan_partial (dn : Bool) (tr : List (Bytes × Option Bytes)) (buf more : Bytes)
    (hc : anyDryFold dn ((trailerSection buf).length + 1) (trailerSection buf) = false) :
    parseTrailer dn tr ((trailerParseE dn tr buf).2 ++ more) = parseTrailer dn tr (buf ++ more) :=
  trailerParse_rescan dn tr buf more hc

set_option maxRecDepth 100000 in
/-- non-vacuity: `0\r\nx-a: 1\r\nX-No` ‖ `te: first\r\n second\r\n\tthird\r\n\r\n` with the trailer `X-A` announced -/
example :
    let buf : Bytes := [48,13,10] ++ [120,45,97,58,32,49,13,10] ++ exNoteA.take 4
    anyDryFold false ((trailerSection buf).length + 1) (trailerSection buf) = false ∧
    (match (trailerParseE false [([88,45,65], none)] buf).1 with | .error .needMore => true | _ => false) = true ∧
    (trailerParseE false [([88,45,65], none)] buf).2 ≠ buf ∧
    (match parseTrailer false [([88,45,65], none)]
        ((trailerParseE false [([88,45,65], none)] buf).2 ++ (exNoteA.drop 4 ++ exNoteB.take 10)) with
     | .ok (t, n) => t == [([88,45,65], some [49])] && n == 45
     | .error _ => false) = true := by decide +kernel

end X02

/-! ## X02b — the scanner as it stands after /repo c627e0d (`scanNextN`, `scanBlockN`, `respParseN`, `trailerParseN`)

c627e0d: a folded value whose look-ahead ran out of buffered bytes is no longer handed out and compacted; `Next` answers
need-more (the key is rewritten by then, `HLen` advanced).  The functions of section X02 without the suffix `N` are the scanner
WITHOUT that rule; their theorems stay (`rescan_without_needmore_rule_fails_at`: without the rule the retry scheme depends on
the segmentation — the former defect; the `_partial` theorems: what held before).  With the rule every hypothesis goes. -/
section X02b
open Hertz.H1.ScanEdit

/-- **Rescan after edit = whole (two reads), unconditionally.**  What the scanner left in the buffer, followed by the
bytes read since, reads (fields, stop, header length) as one scan of the whole — for every buffer and continuation. -/
theorem rescan_after_edit_eq_whole (dn : Bool) (buf more : Bytes) :
    readBlock dn ((buf ++ more).length + 1) (editBlockN dn buf ++ more) =
      readBlock dn ((buf ++ more).length + 1) (buf ++ more) :=
  rescanN dn _ buf more _ (Nat.le_refl _) (Nat.le_refl _)

/-- **… for every segmentation into any number of reads.** -/
theorem rescan_after_edit_eq_whole_segments (dn : Bool) : ∀ (segs : List Bytes) (buf : Bytes),
    retryReadN dn buf segs = readBlock dn ((buf ++ segs.flatten).length + 1) (buf ++ segs.flatten)
  | [], buf => by simp [retryReadN]
  | seg :: segs, buf => by
    simp only [retryReadN]
    cases hstop : (readBlock dn (buf.length + 1) buf).2 with
    | needMore =>
      simp only []
      rw [rescan_after_edit_eq_whole_segments dn segs _, List.append_assoc]
      have hl : (editBlockN dn buf ++ (seg ++ segs.flatten)).length = (buf ++ (seg ++ segs.flatten)).length := by
        simp [editBlockN_len]
      rw [hl, rescan_after_edit_eq_whole]
      simp
    | fin n =>
      simp only []
      exact (readBlock_stable dn _ _ _ buf (by simp) (by rw [hstop]; simp)).symm
    | invalidName =>
      simp only []
      exact (readBlock_stable dn _ _ _ buf (by simp) (by rw [hstop]; simp)).symm

/-- client, `resp.parseHeaders`: the header object from the edited block plus more bytes is the one from the whole -/
theorem resp_headers_rescan (dn : Bool) (hd : RespRead.RespHead) (B more : Bytes) :
    RespRead.parseHeaders dn hd (editBlockN dn B ++ more) = RespRead.parseHeaders dn hd (B ++ more) := by
  have hl : (editBlockN dn B ++ more).length = (B ++ more).length := by simp [editBlockN_len]
  unfold RespRead.parseHeaders
  rw [hl, headersLoop_eq_fold, headersLoop_eq_fold, rescan_after_edit_eq_whole]

/-- trailer section (loop of `ext.parseTrailer`, client and server side) -/
theorem trailer_rescan (dn : Bool) (tr : List (Bytes × Option Bytes)) (err : Bool) (hl : Nat) (B more : Bytes) :
    parseTrailerLoop dn ((B ++ more).length + 1) (editBlockN dn B ++ more) tr err hl =
      parseTrailerLoop dn ((B ++ more).length + 1) (B ++ more) tr err hl := by
  rw [parseTrailerLoop_eq_fold, parseTrailerLoop_eq_fold, rescan_after_edit_eq_whole]

/-- the answer of `resp.parse` is the pure parser's (a block that ends inside a fold is need-more with and without the rule) -/
theorem resp_parse_answer (dn : Bool) (buf : Bytes) : (respParseN dn buf).1 = RespRead.parseRespHead dn buf := by
  unfold respParseN
  cases hfl : RespRead.parseFirstLine buf with
  | error e => simp [RespRead.parseRespHead, hfl, bind, Except.bind]
  | ok p => rfl

/-- **Client, whole response head, rescan after edit — unconditionally.** -/
theorem resp_head_rescan (dn : Bool) (buf more : Bytes) :
    RespRead.parseRespHead dn ((respParseN dn buf).2 ++ more) = RespRead.parseRespHead dn (buf ++ more) := by
  unfold respParseN
  cases hfl : RespRead.parseFirstLine buf with
  | error e => rfl
  | ok p =>
    obtain ⟨hd0, m⟩ := p
    simp only []
    have hm : m ≤ buf.length := RespRead.parseFirstLine_le buf hd0 m hfl
    have hel : (editBlockN dn (buf.drop m)).length = (buf.drop m).length := editBlockN_len dn _
    have h1 := respFirstLine_local buf (editBlockN dn (buf.drop m) ++ more) hd0 m hfl
      (by simp [hel]; omega)
    have h2 := RespRead.parseFirstLine_append buf more _ hfl (by simp)
    have hd1 : (buf.take m ++ (editBlockN dn (buf.drop m) ++ more)).drop m = editBlockN dn (buf.drop m) ++ more :=
      List.drop_left' (by simp; omega)
    have hd2 : (buf ++ more).drop m = buf.drop m ++ more := List.drop_append_of_le_length hm
    unfold RespRead.parseRespHead
    rw [List.append_assoc, h1, h2]
    simp only [bind, Except.bind, hd1, hd2]
    rw [resp_headers_rescan dn hd0 (buf.drop m) more]

/-- **`resp.ReadHeader` over any number of reads, WITH the edits, unconditionally**: the real retry loop on the real,
edited buffer answers what one parse of the concatenation answers. -/
theorem client_read_with_edits_segmentation_invariant (dn : Bool) : ∀ (segs : List Bytes) (buf : Bytes),
    respRetryN dn buf segs = RespRead.parseRespHead dn (buf ++ segs.flatten)
  | [], buf => by simp [respRetryN, resp_parse_answer]
  | seg :: segs, buf => by
    simp only [respRetryN]
    have ha := resp_parse_answer dn buf
    cases hr : (respParseN dn buf).1 with
    | error e =>
      cases e with
      | needMore =>
        simp only []
        rw [client_read_with_edits_segmentation_invariant dn segs _, List.append_assoc, resp_head_rescan]
        simp
      | bad =>
        simp only []
        rw [ha] at hr
        exact (RespRead.parseRespHead_append dn buf _ _ hr (by simp)).symm
    | ok p =>
      simp only []
      rw [ha] at hr
      exact (RespRead.parseRespHead_append dn buf _ _ hr (by simp)).symm

set_option maxRecDepth 100000 in
/-- regression on the former witnesses of the defect c627e0d repaired: `X: a \r\n \r\n` ‖ ` c\r\n\r\n` (now need-more
without a field, key rewritten only, then `a   c` as in one scan), `X: a\r\n b \r\r\n` ‖ ` c\r\n\r\n`, `X: a\r\n\t\r\t\r\n` ‖ ` c\r\n\r\n` -/
theorem rescan_after_edit_eq_whole_repaired :
    ((scanBlockN false exDryA).fields = [] ∧ (scanBlockN false exDryA).stop = .needMore ∧
      (scanBlockN false exDryA).touched = 3 ∧ (scanBlockN false exDryA).buf = exDryA ∧
      (retryScanN false exDryA [exDryB]).reading = (scanBlockN false (exDryA ++ exDryB)).reading ∧
      (retryScanN false exDryA [exDryB]).fields = [([88], [97,32,32,32,99])]) ∧
    (retryScanN false [88,58,32,97,13,10,32,98,32,13,13,10] [exDryB]).reading =
      (scanBlockN false ([88,58,32,97,13,10,32,98,32,13,13,10] ++ exDryB)).reading ∧
    (retryScanN false [88,58,32,97,13,10,9,13,9,13,10] [exDryB]).reading =
      (scanBlockN false ([88,58,32,97,13,10,9,13,9,13,10] ++ exDryB)).reading := by decide +kernel

set_option maxRecDepth 100000 in
/-- non-vacuity of the unconditional theorems: a first read that ends inside a fold (`x-a: 1\r\nX-Note: first\r\n second\r\n`) —
`X-A` handed out and rewritten, `X-Note` NOT handed out (need-more, key only), then the rest -/
example :
    let buf : Bytes := [72,84,84,80,47,49,46,49,32,50,48,48,32,79,75,13,10] ++ [120,45,97,58,32,49,13,10] ++ exNoteA
    (scanBlockN false ([120,45,97,58,32,49,13,10] ++ exNoteA)).fields = [([88,45,65], [49])] ∧
    (scanBlockN false ([120,45,97,58,32,49,13,10] ++ exNoteA)).stop = .needMore ∧
    (match respRetryN false buf [exNoteB] with
     | .ok (hd, n) => hd.status == 200 && hd.h.length == 3 && n == 59
     | .error _ => false) = true := by decide +kernel

end X02b

/-! ## streaming mode: the drain of an unread chunk (`Model/Http1/Drain.lean`, `/repo` 6bc653e)

After the handler of a streamed chunked upload returned, `bodyStream.skipRest` skips what the handler left unread.
`skipChunkLeft` does it piece by piece as the bytes arrive. -/
section Drain
open Hertz.H1.Drain

/-- **the drain is independent of segmentation**: however the bytes of the connection are cut into reads (any number
of segments, empty ones included), skipping `n` bytes of chunk payload leaves exactly what follows the first `n` bytes
of the stream — and it fails only when fewer than `n` bytes ever arrive (the peer is gone). -/
theorem drain_segmentation_independent (buf : Bytes) (segs : List Bytes) (n : Nat) :
    (n ≤ (buf ++ segs.flatten).length →
      ∃ rd', skipLeft n ⟨buf, segs⟩ n = some rd' ∧ rd'.all = (buf ++ segs.flatten).drop n) ∧
    ((buf ++ segs.flatten).length < n → skipLeft n ⟨buf, segs⟩ n = none) :=
  skipLeft_spec n ⟨buf, segs⟩ n (Nat.le_refl n)

/-- … in particular two deliveries of the same bytes give the same rest -/
theorem drain_same_for_two_segmentations (b1 b2 : Bytes) (s1 s2 : List Bytes) (n : Nat)
    (hsame : b1 ++ s1.flatten = b2 ++ s2.flatten) (hn : n ≤ (b1 ++ s1.flatten).length) :
    ∃ r1 r2, skipLeft n ⟨b1, s1⟩ n = some r1 ∧ skipLeft n ⟨b2, s2⟩ n = some r2 ∧ r1.all = r2.all := by
  obtain ⟨r1, h1, e1⟩ := (drain_segmentation_independent b1 s1 n).1 hn
  obtain ⟨r2, h2, e2⟩ := (drain_segmentation_independent b2 s2 n).1 (by rw [← hsame]; exact hn)
  exact ⟨r1, r2, h1, h2, by rw [e1, e2, hsame]⟩

/-- non-vacuity, and what was wrong: the chunk `world` arriving as `wor` | `ld\r\n…`: the piecewise drain leaves `\r\n`,
the former single `reader.Skip(5)` failed ("link buffer skip[5] not enough": the connection was closed and the
pipelined request behind the upload lost, while the same bytes delivered at once were served — found by the
segmentation cases of this check in streaming mode, reproduced on the real server, repaired in 6bc653e). -/
theorem drain_whole_skip_fails_at :
    (skipLeft 5 ⟨[119, 111, 114], [[108, 100, 13, 10]]⟩ 5).map Rd.all = some [13, 10] ∧
    skipWhole ⟨[119, 111, 114], [[108, 100, 13, 10]]⟩ 5 = none ∧
    skipWhole ⟨[119, 111, 114, 108, 100, 13, 10], []⟩ 5 = some ⟨[13, 10], []⟩ := by decide

/-- the reader calls of `skipChunkLeft` / `skipRest` in the current source are the ones of the model: no `Skip` of a
declared chunk size -/
theorem drain_calls_match_source :
    Hertz.Gen.SkipRest.calls =
      [("skipChunkLeft", "rs.reader.Len()"), ("skipChunkLeft", "rs.reader.Peek(1)"), ("skipChunkLeft", "rs.reader.Len()"),
       ("skipChunkLeft", "rs.reader.Skip(skip)"), ("skipChunkLeft", "rs.reader.Release()"),
       ("skipRest", "rs.skipChunkLeft()"), ("skipRest", "utils.SkipCRLF(rs.reader)"),
       ("skipRest", "utils.ParseChunkSize(rs.reader)"), ("skipRest", "SkipTrailer(rs.reader)"),
       ("skipRest", "rs.skipChunkLeft()"), ("skipRest", "rs.reader.Peek(strCRLFLen)"),
       ("skipRest", "rs.reader.Skip(strCRLFLen)"), ("skipRest", "rs.reader.Release()"), ("skipRest", "rs.reader.Len()"),
       ("skipRest", "rs.reader.Peek(1)"), ("skipRest", "rs.reader.Len()"), ("skipRest", "rs.reader.Skip(skip)"),
       ("skipRest", "rs.reader.Release()")] := by decide

end Drain

end Hertz.Props.C02
