import Hertz.Proofs.Http1
/-!
# C02 — message parsing does not depend on how bytes are split into reads

The loop model `Hertz.H1.serve` is a function of the *concatenated* inbound stream; the check runs
the real server on the same bytes under every two-way split, byte-wise delivery and random k-way
splits and compares each run with that single model answer, so any dependence of the
implementation on segmentation is a disagreement.  (The obs-fold defect F2, where a read ending
inside the body corrupted it, was found this way and is fixed in /repo.)

Proved here (the facts that make "retry with more bytes" sound on the request side):
* `header_block_end_stable`: once `ext.ReadRawHeaders` has seen the blank line, appending bytes never
  moves it — the completeness pre-check that `req.parse` runs before scanning is monotone;
* `first_delimiter_stable`: `bytes.IndexByte` results (line ends, colons) inside the received prefix do
  not change when more bytes arrive.

TODO-OPEN: `head_prefix_stable` (`parseReqHead b = ok/bad → parseReqHead (b ++ x)` is the same);
`client_read_segmentation_invariant`.  Both are exercised per case by the correspondence.
-/
namespace Hertz.Props.C02
open Hertz Hertz.H1

theorem header_block_end_stable (b x : Bytes) (n : Nat) (h : rawHeadersLen b = some n) :
    rawHeadersLen (b ++ x) = some n := rawHeadersLen_append b x n h

theorem first_delimiter_stable (c : UInt8) (b x : Bytes) (n : Nat) (h : indexByte c b = some n) :
    indexByte c (b ++ x) = some n := indexByte_append c b x n h

example : rawHeadersLen [72, 58, 32, 97, 13, 10, 13, 10] = some 8 := by decide

end Hertz.Props.C02
