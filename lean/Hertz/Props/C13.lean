import Hertz.Proofs.Conn
/-!
# C13 — the buffered connection behaves as a lossless FIFO byte stream

Property theorems only; lemmas live in `Hertz/Proofs/Conn.lean`.  Every statement is about the model
`Hertz/Model/Conn.lean` of `pkg/network/standard/{connection,buffer}.go` and `pkg/network/writer.go`,
which the correspondence check (`bin/check C13`) holds to the Go code, and about the constants and
branch conditions in `Hertz/Gen/Conn.lean`, regenerated from the Go source on every run.

All statements quantify over *every* initial buffer size, *every* wire script (any fragmentation,
zero-length reads, errors with or without data at any point, EOF after the script) and *every*
operation sequence; there is no bound on sizes or lengths.
-/
namespace Hertz.Props.C13
open Hertz Hertz.Conn Hertz.Spec.Fifo

/-! ## reader -/

/-- No operation sequence makes the reader panic (nil node, slice out of range) or spin in `fill`:
the run of the model always returns. -/
theorem never_faults (size : Nat) (w : Wire) (ops : List Op) :
    ∃ r, run (Reader.new size) w ops = .ok r := by
  obtain ⟨outs, s', w', h, _⟩ := run_spec (Reader.new size) w ops (Inv_new size)
  exact ⟨_, h⟩

/-- Refinement: every trace of the reader is accepted by the plain byte queue `Spec.Fifo`
(observation = the bytes themselves): each returned slice is exactly the next bytes the peer sent
that were not yet consumed, each consuming operation removes exactly what it returned — for every
operation sequence and every fragmentation. -/
theorem refines_fifo (size : Nat) (w : Wire) (ops : List Op) (outs : List Out) (s' : Reader) (w' : Wire)
    (h : run (Reader.new size) w ops = .ok (outs, s', w')) :
    acceptsBytes id (wireBytes w) (ops.zip (outs.map (Obs.ofOut id))) = true := by
  obtain ⟨outs', s'', w'', h', _, _, hacc, _⟩ := run_spec (Reader.new size) w ops (Inv_new size)
  rw [h] at h'; cases h'
  rw [← stream_new size w]; exact hacc

/-- Nothing lost, nothing duplicated: after any run, what is still buffered followed by what is
still on the wire is the sent stream minus exactly the bytes the operations consumed. -/
theorem lossless (size : Nat) (w : Wire) (ops : List Op) (outs : List Out) (s' : Reader) (w' : Wire)
    (h : run (Reader.new size) w ops = .ok (outs, s', w')) :
    s'.unread ++ wireBytes w' = (wireBytes w).drop (totalConsumed ops outs) ∧
    totalConsumed ops outs ≤ (wireBytes w).length := by
  obtain ⟨outs', s'', w'', h', _, _, _, hrest, hle, _⟩ := run_spec (Reader.new size) w ops (Inv_new size)
  rw [h] at h'; cases h'
  rw [stream_new] at hrest hle; exact ⟨hrest, hle⟩

/-- `Len()` always equals the number of buffered-but-unconsumed bytes: in the state reached by any
operation sequence, and as reported by the last operation of the sequence. -/
theorem len_is_buffered (size : Nat) (w : Wire) (ops : List Op) (outs : List Out) (s' : Reader) (w' : Wire)
    (h : run (Reader.new size) w ops = .ok (outs, s', w')) :
    s'.len = s'.unread.length ∧ ∀ o ∈ outs.getLast?, o.len = s'.unread.length := by
  obtain ⟨outs', s'', w'', h', hI, _, _, _, _, hlast⟩ := run_spec (Reader.new size) w ops (Inv_new size)
  rw [h] at h'; cases h'
  exact ⟨hI.1, hlast⟩

/-- One operation from any consistent state (in particular any reachable one): it returns, keeps the
bookkeeping consistent, reports `Len()` = buffered bytes, returns a prefix of the unconsumed stream
and removes exactly `consumed` bytes from its front. -/
theorem step_is_fifo (s : Reader) (w : Wire) (op : Op) (hI : Inv s) :
    ∃ o s' w', step s w op = .ok (o, s', w') ∧ StepOK s w op o s' w' :=
  step_spec s w op hI

/-- `Peek(n)`: without error it returns exactly `n` bytes; with an error fewer than `n`; in both
cases a prefix of what is buffered afterwards, and buffering only ever appends. -/
theorem peek_rules (s : Reader) (w : Wire) (n : Nat) (hI : Inv s) :
    ∃ p e s' w', peek s w n = .ok (p, e, s', w') ∧ Inv s' ∧ stream s' w' = stream s w ∧
      p = s'.unread.take p.length ∧ p.length ≤ s'.len ∧ (e = none → p.length = n) ∧ (e.isSome → p.length < n) ∧
      (∃ bs, s'.unread = s.unread ++ bs) :=
  peek_spec s w n hI

/-- `Skip(n)` succeeds iff `n ≤ Len()`; on success exactly `n` bytes leave the front of the buffer,
on failure nothing changes. -/
theorem skip_rules (s : Reader) (n : Nat) (hI : Inv s) :
    ∃ e s', skip s n = .ok (e, s') ∧ Inv s' ∧
      (n ≤ s.len → e = none ∧ s'.unread = s.unread.drop n ∧ s'.len = s.len - n) ∧
      (s.len < n → e = some errSkip ∧ s' = s) :=
  skip_spec s n hI

/-- `Release()` changes neither the buffered bytes nor `Len()`. -/
theorem release_keeps_data (s : Reader) (hI : Inv s) :
    Inv (release s) ∧ (release s).unread = s.unread ∧ (release s).len = s.len :=
  release_spec s hI

/-- A slice returned by `Peek` stays unchanged until the next release: no operation other than
`Release` / `Read` frees, resets or overwrites a memory block — every node block (by identity) is
still part of the chain afterwards with its old bytes as a prefix of its new bytes, and every
cached cross-node copy is still held. -/
theorem peek_stable_until_release (s : Reader) (w : Wire) (op : Op) (o : Out) (s' : Reader) (w' : Wire)
    (hk : op.keeps = true) (h : step s w op = .ok (o, s', w')) :
    Extends s.nodes s'.nodes ∧ s.caches <+: s'.caches :=
  step_stable s w op o s' w' hk h

/-
TODO-OPEN (stated, not yet proved; nothing above depends on it)

1. Acceptance by the control acceptor for whole runs:

     theorem refines_fifo_ctl (size : Nat) (w : Wire) (ops : List Op) (outs : List Out) (s' : Reader) (w' : Wire)
         (h : run (Reader.new size) w ops = .ok (outs, s', w')) :
         acceptsCtl (Ctl.init w) (ops.zip (outs.map (Obs.ofOut id))) = true

   i.e. the `Len()` / size / error-justification rules of `Spec/Fifo.lean` (an operation satisfiable
   from the buffer neither touches the wire nor fails; a wire error is reported only by an operation
   that demanded more bytes than the peer sent in front of that error, and in script order) hold of
   every model trace.  Proved so far are the per-operation ingredients: `len_is_buffered`,
   `peek_rules` (no error ⇒ exactly n bytes, error ⇒ fewer), `skip_rules` (fails iff n > Len, and
   then changes nothing), `release_keeps_data`.  Missing: an invariant relating the stashed error
   `c.err` and the unread part of the wire script to `Ctl.marks` (position of every unreported
   error), and a lemma on `fillLoop` saying it stops at the first error event.  The acceptor is
   nevertheless evaluated on every implementation trace by the driver (zero rejections).

2. `peek_in_block`: the slice returned by `peek` is `(nd.data.drop nd.off).take k` for a node `nd` of
   the resulting chain, or a fresh copy registered in `caches` / not shared with any block.  Together
   with `peek_stable_until_release` this is the pointer-level form of "stays unchanged"; the
   model returns bytes, not references, so the statement needs a `Ref` result added to `peek`.
-/

/-! ## writer -/

/-- `Flush` on `standard.Conn`: the bytes handed to the peer followed by what is still pending are
exactly what was pending (in order); when `Flush` returns nil the peer has received everything and
nothing is pending. -/
theorem flush_sends_all (s : Writer) (sc : WScript) (hI : WInv s) :
    (wflush s sc).2.1 ++ (wflush s sc).2.2.1.pending = s.pending ∧
    ((wflush s sc).1 = false → (wflush s sc).2.1 = s.pending ∧ (wflush s sc).2.2.1.pending = []) :=
  ⟨(wflush_spec s sc hI).1, (wflush_spec s sc hI).2.1⟩

/-- Every sequence of `Malloc` / `WriteBinary` / `Flush` on a fresh `standard.Conn`, under any
pattern of failing `Write` calls: never panics (`node.buf[:node.malloc]` stays within capacity) and is
accepted by the writer spec — the peer receives exactly the concatenation of what was written, in
order, by the time a `Flush` returns nil; a failed `Flush` sends a prefix and keeps the rest. -/
theorem writer_refines (sc : WScript) (ops : List WOp) :
    ∃ outs s' sc', wrun Writer.new sc ops = .ok (outs, s', sc') ∧
      acceptsW id true [] (ops.zip (List.zipWith WOut.toObs ops outs)) = true := by
  obtain ⟨outs, s', sc', h, _, _, hacc⟩ := wrun_spec Writer.new sc ops WInv_new
  rw [pending_new] at hacc
  exact ⟨outs, s', sc', h, hacc⟩

/-- The same for `network.NewWriter` (`networkWriter`), whose failed `Flush` drops what was not sent. -/
theorem netwriter_refines (sc : WScript) (ops : List WOp) :
    acceptsW id false [] (ops.zip (List.zipWith WOut.toObs ops (nwRun {} sc ops).1)) = true :=
  nwRun_spec {} sc ops

/-! ## tie to the source -/

/-- The constants of the model are those of the current Go source, and each of the 19 modelled
functions still has exactly the branch conditions (source text, in order) the model mirrors
(`ModelMatchesGen` in `Proofs/Conn.lean` spells them out; `Gen/Conn.lean` is regenerated per run). -/
theorem model_matches_source : ModelMatchesGen := model_matches_gen

/-- non-vacuity: the statement pins, e.g., the allocation condition of `fill` and `mallocMax` -/
example : Gen.Conn.condsFill.contains "if left < i-c.Len() || node.readOnly" = true ∧ Gen.Conn.mallocMax = 524288 := by
  decide

/-! ## non-vacuity: concrete runs -/

/-- a wire delivering `[1,2,3]`, then `[4]` together with EOF; the run exercises a peek that needs a
second wire read, a stashed error, a short peek that surfaces it, and a failing skip -/
example :
    (run (Reader.new 0) [.data [1, 2, 3] none, .data [4] (some errEOF)]
        [.peek 2, .skip 1, .readByte, .peek 2, .peek 5, .skip 3, .readBinary 2, .release, .len]).toOption.map (·.1)
      = some [⟨[1, 2], none, 3⟩, ⟨[], none, 2⟩, ⟨[2], none, 1⟩, ⟨[3, 4], none, 2⟩, ⟨[3, 4], some errEOF, 2⟩,
              ⟨[], some errSkip, 2⟩, ⟨[3, 4], none, 0⟩, ⟨[], none, 0⟩, ⟨[], none, 0⟩] := by
  decide +kernel

/-- the hypothesis `Inv` of the step-level theorems holds initially (and, by `step_is_fifo`, forever) -/
example : Inv (Reader.new 8192) := Inv_new 8192

/-- a keeping operation on a reachable state (hypotheses of `peek_stable_until_release`) -/
example : (Op.peek 3).keeps = true ∧
    ∃ r, step (Reader.new 0) [.data [1, 2, 3] none] (.peek 3) = .ok r := ⟨rfl, _, rfl⟩

/-- writer: two small writes, a zero-copy write of 4096 bytes, flush with the second `Write` failing, flush again -/
example :
    (wrun Writer.new [false, true] [.malloc [1, 2], .writeBinary [3], .writeBinary (List.replicate 4096 7), .flush, .flush]).toOption.map
        (fun r => r.1.map (fun o => (o.failed, o.sent.length)))
      = some [(false, 0), (false, 0), (false, 0), (true, 3), (false, 4096)] := by
  decide +kernel

example : WInv Writer.new := WInv_new

end Hertz.Props.C13
