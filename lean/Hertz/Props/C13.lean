import Hertz.Proofs.Conn
import Hertz.Proofs.ConnCtl
import Hertz.Proofs.ConnMemRel
import Hertz.Proofs.ConnMemRefine
/-!
# C13 — the buffered connection behaves as a lossless FIFO byte stream

Property theorems only; lemmas live in `Hertz/Proofs/Conn.lean` and `Hertz/Proofs/ConnCtl.lean`.  Every statement is about the model
`Hertz/Model/Conn.lean` of `pkg/network/standard/{connection,buffer}.go` and `pkg/network/writer.go`,
which the correspondence check (`bin/check C13`) holds to the Go code, and about the constants and
branch conditions in `Hertz/Gen/Conn.lean`, regenerated from the Go source on every run.

All statements quantify over *every* initial buffer size, *every* wire script (any fragmentation,
zero-length reads, errors with or without data at any point, EOF after the script) and *every*
operation sequence; there is no bound on sizes or lengths.
-/
namespace Hertz.Props.C13
open Hertz Hertz.Conn Hertz.Spec.Fifo

/-! ## reader -/

/-- No operation sequence makes the reader panic (nil node, slice out of range) or spin in `fill`:
the run of the model always returns. -/
theorem never_faults (size : Nat) (w : Wire) (ops : List Op) :
    ∃ r, run (Reader.new size) w ops = .ok r := by
  obtain ⟨outs, s', w', h, _⟩ := run_spec (Reader.new size) w ops (Inv_new size)
  exact ⟨_, h⟩

/-- Refinement: every trace of the reader is accepted by the plain byte queue `Spec.Fifo`
(observation = the bytes themselves): each returned slice is exactly the next bytes the peer sent
that were not yet consumed, each consuming operation removes exactly what it returned — for every
operation sequence and every fragmentation. -/
theorem refines_fifo (size : Nat) (w : Wire) (ops : List Op) (outs : List Out) (s' : Reader) (w' : Wire)
    (h : run (Reader.new size) w ops = .ok (outs, s', w')) :
    acceptsBytes id (wireBytes w) (ops.zip (outs.map (Obs.ofOut id))) = true := by
  obtain ⟨outs', s'', w'', h', _, _, hacc, _⟩ := run_spec (Reader.new size) w ops (Inv_new size)
  rw [h] at h'; cases h'
  rw [← stream_new size w]; exact hacc

/-- Nothing lost, nothing duplicated: after any run, what is still buffered followed by what is
still on the wire is the sent stream minus exactly the bytes the operations consumed. -/
theorem lossless (size : Nat) (w : Wire) (ops : List Op) (outs : List Out) (s' : Reader) (w' : Wire)
    (h : run (Reader.new size) w ops = .ok (outs, s', w')) :
    s'.unread ++ wireBytes w' = (wireBytes w).drop (totalConsumed ops outs) ∧
    totalConsumed ops outs ≤ (wireBytes w).length := by
  obtain ⟨outs', s'', w'', h', _, _, _, hrest, hle, _⟩ := run_spec (Reader.new size) w ops (Inv_new size)
  rw [h] at h'; cases h'
  rw [stream_new] at hrest hle; exact ⟨hrest, hle⟩

/-- `Len()` always equals the number of buffered-but-unconsumed bytes: in the state reached by any
operation sequence, and as reported by the last operation of the sequence. -/
theorem len_is_buffered (size : Nat) (w : Wire) (ops : List Op) (outs : List Out) (s' : Reader) (w' : Wire)
    (h : run (Reader.new size) w ops = .ok (outs, s', w')) :
    s'.len = s'.unread.length ∧ ∀ o ∈ outs.getLast?, o.len = s'.unread.length := by
  obtain ⟨outs', s'', w'', h', hI, _, _, _, _, hlast⟩ := run_spec (Reader.new size) w ops (Inv_new size)
  rw [h] at h'; cases h'
  exact ⟨hI.1, hlast⟩

/-- One operation from any consistent state (in particular any reachable one): it returns, keeps the
bookkeeping consistent, reports `Len()` = buffered bytes, returns a prefix of the unconsumed stream
and removes exactly `consumed` bytes from its front. -/
theorem step_is_fifo (s : Reader) (w : Wire) (op : Op) (hI : Inv s) :
    ∃ o s' w', step s w op = .ok (o, s', w') ∧ StepOK s w op o s' w' :=
  step_spec s w op hI

/-- `Peek(n)`: without error it returns exactly `n` bytes; with an error fewer than `n`; in both
cases a prefix of what is buffered afterwards, and buffering only ever appends. -/
theorem peek_rules (s : Reader) (w : Wire) (n : Nat) (hI : Inv s) :
    ∃ p e s' w', peek s w n = .ok (p, e, s', w') ∧ Inv s' ∧ stream s' w' = stream s w ∧
      p = s'.unread.take p.length ∧ p.length ≤ s'.len ∧ (e = none → p.length = n) ∧ (e.isSome → p.length < n) ∧
      (∃ bs, s'.unread = s.unread ++ bs) :=
  peek_spec s w n hI

/-- `Skip(n)` succeeds iff `n ≤ Len()`; on success exactly `n` bytes leave the front of the buffer,
on failure nothing changes. -/
theorem skip_rules (s : Reader) (n : Nat) (hI : Inv s) :
    ∃ e s', skip s n = .ok (e, s') ∧ Inv s' ∧
      (n ≤ s.len → e = none ∧ s'.unread = s.unread.drop n ∧ s'.len = s.len - n) ∧
      (s.len < n → e = some errSkip ∧ s' = s) :=
  skip_spec s n hI

/-- `Release()` changes neither the buffered bytes nor `Len()`. -/
theorem release_keeps_data (s : Reader) (hI : Inv s) :
    Inv (release s) ∧ (release s).unread = s.unread ∧ (release s).len = s.len :=
  release_spec s hI

/-- A slice returned by `Peek` stays unchanged until the next release: no operation other than
`Release` / `Read` frees, resets or overwrites a memory block — every node block (by identity) is
still part of the chain afterwards with its old bytes as a prefix of its new bytes, and every
cached cross-node copy is still held. -/
theorem peek_stable_until_release (s : Reader) (w : Wire) (op : Op) (o : Out) (s' : Reader) (w' : Wire)
    (hk : op.keeps = true) (h : step s w op = .ok (o, s', w')) :
    Extends s.nodes s'.nodes ∧ s.caches <+: s'.caches :=
  step_stable s w op o s' w' hk h

/-- Refinement of the control rules: every trace of the reader is accepted by the control acceptor
`acceptsCtl` of `Spec/Fifo.lean` — `Len()` is the count of buffered-but-unconsumed bytes, an operation
that can be answered from the buffer neither fails nor changes `Len()` except by what it consumes,
`Skip(n)` fails iff `n > Len()`, nothing lying behind an unreported wire error is ever buffered, and
an error is reported only by an operation that demanded more bytes than the peer sent in front of
that error, in script order (`io.EOF` after the script only when everything sent was delivered) —
for every buffer size, wire script and operation sequence. -/
theorem refines_fifo_ctl (size : Nat) (w : Wire) (ops : List Op) (outs : List Out) (s' : Reader) (w' : Wire)
    (h : run (Reader.new size) w ops = .ok (outs, s', w')) :
    acceptsCtl (Ctl.init w) (ops.zip (outs.map (Obs.ofOut id))) = true := by
  obtain ⟨outs', s'', w'', h', hacc⟩ := run_ctl (Reader.new size) w ops (Ctl.init w) (CInv_new size w)
  rw [h] at h'; cases h'
  exact hacc

/-- non-vacuity of `refines_fifo_ctl`: a run with a stashed `io.EOF`, a short peek that surfaces it, a
failing skip and a pass-through `Read` exists … -/
example :
    (run (Reader.new 0) [.data [1, 2, 3] none, .data [4] (some errEOF)]
        [.peek 2, .skip 1, .readByte, .peek 2, .peek 5, .skip 3, .readBinary 2, .release, .read 5000, .len]).toOption.map (·.1)
      = some [⟨[1, 2], none, 3⟩, ⟨[], none, 2⟩, ⟨[2], none, 1⟩, ⟨[3, 4], none, 2⟩, ⟨[3, 4], some errEOF, 2⟩,
              ⟨[], some errSkip, 2⟩, ⟨[3, 4], none, 0⟩, ⟨[], none, 0⟩, ⟨[], some errEOF, 0⟩, ⟨[], none, 0⟩] := by
  decide +kernel

/-- … and the acceptor is not trivially true: it rejects an invented `io.EOF` and a premature error -/
example :
    acceptsCtl (α := Bytes) (Ctl.init [.data [1, 2, 3] none]) [(.peek 2, ⟨0, [], some errEOF, 0⟩)] = false ∧
    acceptsCtl (α := Bytes) (Ctl.init [.data [1, 2, 3] (some 7)]) [(.peek 2, ⟨0, [], some 7, 0⟩)] = false ∧
    acceptsCtl (α := Bytes) (Ctl.init [.data [1, 2, 3] (some 7)]) [(.peek 4, ⟨3, [1, 2, 3], some 7, 3⟩)] = true := by
  decide

/-- One operation from any state tied to a control state (in particular any reachable one): it is
accepted and the tie (`CInv`: `Ctl.len = Len()`, `Ctl.r` = buffered + on the wire, `Ctl.marks` = the
stashed error `c.err` followed by the errors of the unread wire script at their byte positions) is kept. -/
theorem step_is_ctl (s : Reader) (w : Wire) (op : Op) (c : Ctl) (h : CInv s w c) :
    ∃ o s' w' c', step s w op = .ok (o, s', w') ∧ stepCtl c op (Obs.ofOut id o) = some c' ∧ CInv s' w' c' :=
  step_ctl s w op c h

/-- the hypothesis `CInv` holds initially -/
example : CInv (Reader.new 8192) [.data [1, 2] (some errEOF)] (Ctl.init [.data [1, 2] (some errEOF)]) :=
  CInv_new 8192 _

/-- The `fill` loop stops at the first error event of the wire script: ending normally it consumed no
error event; ending with a stashed (or returned) error that error is the first mark of the script and
lies exactly behind the bytes read (or the script is exhausted and the error is `io.EOF`). -/
theorem fill_loop_stops_at_first_error (w : Wire) (need room pos : Nat) :
    ((fillLoop w need room).2.1 = .ok →
        marksOf w pos = marksOf (fillLoop w need room).2.2 (pos + (fillLoop w need room).1.length)) ∧
    (∀ e, (fillLoop w need room).2.1 = .stash e →
        0 < (fillLoop w need room).1.length ∧
        marksOf w pos = (pos + (fillLoop w need room).1.length, e) ::
          marksOf (fillLoop w need room).2.2 (pos + (fillLoop w need room).1.length)) ∧
    (∀ e, (fillLoop w need room).2.1 = .fail e →
        (fillLoop w need room).1.length < need ∧
        (marksOf w pos = (pos + (fillLoop w need room).1.length, e) ::
            marksOf (fillLoop w need room).2.2 (pos + (fillLoop w need room).1.length) ∨
         (e = errEOF ∧ (fillLoop w need room).2.2 = [] ∧ marksOf w pos = []))) :=
  fillLoop_marks w need room pos

/-- non-vacuity: a loop run that ends by stashing the error that came with the second piece of data -/
example : fillLoop [.data [1] none, .data [2, 3] (some 9), .data [4] none] 5 8 = ([1, 2, 3], .stash 9, [.data [4] none]) := by
  decide

/-- Pointer-level form of `Peek`: `peekR` is the model's `peek` that also says where the returned
slice lives (`peekR_proj`: forgetting the reference gives `peek` back).  Every result of `peek` has
such a reference, and it is good in the resulting state: the slice is `buf[off : off+len]` of a
node block (by identity) of the chain, lying inside the written part of that block, or a copy held
in `caches`, or a private copy (`make`), or nil on an error return. -/
theorem peek_in_block (s : Reader) (w : Wire) (n : Nat) (p : Bytes) (e : Option Err) (s' : Reader) (w' : Wire)
    (h : peek s w n = .ok (p, e, s', w')) :
    ∃ ref, peekR s w n = .ok ((p, ref), e, s', w') ∧ RefOK s' p ref := by
  obtain ⟨ref, hr⟩ := peek_peekR s w n p e s' w' h
  exact ⟨ref, hr, peekR_in_block s w n p ref e s' w' hr⟩

/-- non-vacuity of `peek_in_block`: a `Peek(4096)` that straddles two 4 KiB blocks is answered by a copy
in a fresh block (identity 2, the chain being blocks 0 and 1) registered in `caches` -/
example :
    (do let r0 ← run (Reader.new 0) [.data (List.replicate 4096 1) none, .data (List.replicate 4096 2) none] [.peek 4096, .skip 1]
        let r ← peekR r0.2.1 r0.2.2 4096
        pure (r.1.2, r.1.1.length, r.2.2.1.caches, r.2.2.1.nodes.map (fun (nd : Node) => nd.id))).toOption
      = some (Ref.cache 2, 4096, [2], [0, 1]) := by
  decide +kernel

/-- `peekR` projects onto the model's `peek` -/
theorem peekR_refines_peek (s : Reader) (w : Wire) (n : Nat) :
    (peekR s w n).map (fun r => (r.1.1, r.2)) = peek s w n :=
  peekR_proj s w n

/-- A peeked slice stays unchanged until the next release, pointer-level: after any sequence of
operations other than `Release` / `Read`, the reference handed out by `Peek` is still good with the
*same* bytes — the block with that identity is still in the chain (neither freed nor reset) and
`buf[off : off+len]` of it still reads `p`, i.e. no operation wrote into the referenced region; a
cached copy is still held. -/
theorem peeked_slice_unchanged (s : Reader) (w : Wire) (n : Nat) (p : Bytes) (ref : Ref) (e : Option Err)
    (s1 : Reader) (w1 : Wire) (h : peekR s w n = .ok ((p, ref), e, s1, w1))
    (ops : List Op) (outs : List Out) (s2 : Reader) (w2 : Wire)
    (hk : ∀ op ∈ ops, op.keeps = true) (hr : run s1 w1 ops = .ok (outs, s2, w2)) :
    RefOK s2 p ref := by
  have hs := run_stable s1 w1 ops outs s2 w2 hk hr
  exact RefOK_stable s1 s2 p ref hs.1 hs.2 (peekR_in_block s w n p ref e s1 w1 h)

/-- non-vacuity: a peek inside one block (reference = block 0, offset 1 after a skip, length 2), and
a following `Peek` that appends to the same block behind the region -/
example :
    (do let (_, s0) ← skip (← peek (Reader.new 0) [.data [1, 2, 3] none, .data [4] none] 1).2.2.1 1
        let r ← peekR s0 [.data [4] none] 2
        pure r.1).toOption = some ([2, 3], Ref.block 0 1 2) := by
  decide +kernel

/-- Block identities are pairwise distinct in every reachable state (the allocation counter only
grows), and no cached peek copy shares its identity with a node of the chain: "the block `id`" is
well defined. -/
theorem block_ids_distinct (size : Nat) (w : Wire) (ops : List Op) (outs : List Out) (s' : Reader) (w' : Wire)
    (h : run (Reader.new size) w ops = .ok (outs, s', w')) :
    (∀ a ∈ s'.nodes, ∀ b ∈ s'.nodes, a.id = b.id → a = b) ∧ (∀ a ∈ s'.nodes, a.id ∉ s'.caches) :=
  (run_ids _ _ _ _ _ _ h (IdInv_new size)).unique

/-- The whole statement from a fresh connection: after any operation sequence `ops0`, a `Peek` that
returned `buf[off : off+len]` of block `id`, and then any sequence `ops` of operations other than
`Release` / `Read`: the block `id` is still in the chain, and *every* node with that identity (there
is exactly one) still reads `p` at `[off, off+len)`. -/
theorem peeked_block_unchanged (size : Nat) (w : Wire) (ops0 : List Op) (outs0 : List Out) (s : Reader) (w0 : Wire)
    (h0 : run (Reader.new size) w ops0 = .ok (outs0, s, w0))
    (n : Nat) (p : Bytes) (id off len : Nat) (e : Option Err) (s1 : Reader) (w1 : Wire)
    (h : peekR s w0 n = .ok ((p, .block id off len), e, s1, w1))
    (ops : List Op) (outs : List Out) (s2 : Reader) (w2 : Wire)
    (hk : ∀ op ∈ ops, op.keeps = true) (hr : run s1 w1 ops = .ok (outs, s2, w2)) :
    (∃ nd ∈ s2.nodes, nd.id = id) ∧ ∀ nd ∈ s2.nodes, nd.id = id → (nd.data.drop off).take len = p := by
  have hI2 : IdInv s2 :=
    run_ids _ _ _ _ _ _ hr (peek_ids _ _ _ _ _ _ _ (peekR_peek _ _ _ _ _ _ _ _ h) (run_ids _ _ _ _ _ _ h0 (IdInv_new size)))
  have hok := peeked_slice_unchanged s w0 n p _ e s1 w1 h ops outs s2 w2 hk hr
  refine ⟨?_, fun nd hm hid => ((RefOK_block_unique hI2 hok nd hm hid).1).symm⟩
  obtain ⟨nd, hm, hid, _⟩ := hok
  exact ⟨nd, hm, hid⟩

/-- non-vacuity: fresh connection, `Peek(1)`, `Skip(1)`; then `Peek(2)` returns block 0 at offset 1;
then `Peek(3)` (which reads the wire and appends to block 0) and `Len` keep it -/
example :
    (do let r0 ← run (Reader.new 0) [.data [1, 2, 3] none, .data [4] none] [.peek 1, .skip 1]
        let r ← peekR r0.2.1 r0.2.2 2
        let r2 ← run r.2.2.1 r.2.2.2 [.peek 3, .len]
        pure (r.1, r2.2.1.nodes.map (fun (nd : Node) => (nd.id, nd.data)))).toOption
      = some (([2, 3], Ref.block 0 1 2), [(0, [1, 2, 3, 4])]) := by
  decide +kernel

/-
TODO-OPEN

Both statements of the former list are now theorems: `refines_fifo_ctl` (with the invariant
`CInv`/`CI`/`MRel` of `Proofs/ConnCtl.lean` and the loop lemma `fill_loop_stops_at_first_error`), and
`peek_in_block` + `peeked_slice_unchanged` + `block_ids_distinct` + `peeked_block_unchanged` (with
`peekR`, a restatement of `peek` returning a `Ref`, proved to project onto `peek`).

What the pointer-level statements do *not* say (limits of the model, not open proofs):

* The model has no explicit memory: "nobody writes into the region" is expressed as "the written part
  `data = buf[0:malloc]` of the block with that identity is only ever extended at its end by
  non-releasing operations, and the block stays in the chain" (`Extends`).  Writes by the *caller*
  through the returned slice, and reuse of a block by `mcache` after `Release`, are outside the model
  (the correspondence check re-hashes peeked slices after every operation on the real code).
* `Ref.fresh` / `Ref.cache` copies are immutable in the model by construction (nothing refers to them
  but `caches`); the theorem for them is only that a cached copy stays registered until a release.
-/

/-! ## writer -/

/-- `Flush` on `standard.Conn`: the bytes handed to the peer followed by what is still pending are
exactly what was pending (in order); when `Flush` returns nil the peer has received everything and
nothing is pending. -/
theorem flush_sends_all (s : Writer) (sc : WScript) (hI : WInv s) :
    (wflush s sc).2.1 ++ (wflush s sc).2.2.1.pending = s.pending ∧
    ((wflush s sc).1 = false → (wflush s sc).2.1 = s.pending ∧ (wflush s sc).2.2.1.pending = []) :=
  ⟨(wflush_spec s sc hI).1, (wflush_spec s sc hI).2.1⟩

/-- Every sequence of `Malloc` / `WriteBinary` / `Flush` on a fresh `standard.Conn`, under any
pattern of failing `Write` calls: never panics (`node.buf[:node.malloc]` stays within capacity) and is
accepted by the writer spec — the peer receives exactly the concatenation of what was written, in
order, by the time a `Flush` returns nil; a failed `Flush` sends a prefix and keeps the rest. -/
theorem writer_refines (sc : WScript) (ops : List WOp) :
    ∃ outs s' sc', wrun Writer.new sc ops = .ok (outs, s', sc') ∧
      acceptsW id true [] (ops.zip (List.zipWith WOut.toObs ops outs)) = true := by
  obtain ⟨outs, s', sc', h, _, _, hacc⟩ := wrun_spec Writer.new sc ops WInv_new
  rw [pending_new] at hacc
  exact ⟨outs, s', sc', h, hacc⟩

/-- The same for `network.NewWriter` (`networkWriter`), whose failed `Flush` drops what was not sent. -/
theorem netwriter_refines (sc : WScript) (ops : List WOp) :
    acceptsW id false [] (ops.zip (List.zipWith WOut.toObs ops (nwRun {} sc ops).1)) = true :=
  nwRun_spec {} sc ops

/-! ## tie to the source -/

/-- The constants of the model are those of the current Go source, and each of the 19 modelled
functions still has exactly the branch conditions (source text, in order) the model mirrors
(`ModelMatchesGen` in `Proofs/Conn.lean` spells them out; `Gen/Conn.lean` is regenerated per run). -/
theorem model_matches_source : ModelMatchesGen := model_matches_gen

/-- non-vacuity: the statement pins, e.g., the allocation condition of `fill` and `mallocMax` -/
example : Gen.Conn.condsFill.contains "if left < i-c.Len() || node.readOnly" = true ∧ Gen.Conn.mallocMax = 524288 := by
  decide

/-! ## non-vacuity: concrete runs -/

/-- a wire delivering `[1,2,3]`, then `[4]` together with EOF; the run exercises a peek that needs a
second wire read, a stashed error, a short peek that surfaces it, and a failing skip -/
example :
    (run (Reader.new 0) [.data [1, 2, 3] none, .data [4] (some errEOF)]
        [.peek 2, .skip 1, .readByte, .peek 2, .peek 5, .skip 3, .readBinary 2, .release, .len]).toOption.map (·.1)
      = some [⟨[1, 2], none, 3⟩, ⟨[], none, 2⟩, ⟨[2], none, 1⟩, ⟨[3, 4], none, 2⟩, ⟨[3, 4], some errEOF, 2⟩,
              ⟨[], some errSkip, 2⟩, ⟨[3, 4], none, 0⟩, ⟨[], none, 0⟩, ⟨[], none, 0⟩] := by
  decide +kernel

/-- the hypothesis `Inv` of the step-level theorems holds initially (and, by `step_is_fifo`, forever) -/
example : Inv (Reader.new 8192) := Inv_new 8192

/-- a keeping operation on a reachable state (hypotheses of `peek_stable_until_release`) -/
example : (Op.peek 3).keeps = true ∧
    ∃ r, step (Reader.new 0) [.data [1, 2, 3] none] (.peek 3) = .ok r := ⟨rfl, _, rfl⟩

/-- writer: two small writes, a zero-copy write of 4096 bytes, flush with the second `Write` failing, flush again -/
example :
    (wrun Writer.new [false, true] [.malloc [1, 2], .writeBinary [3], .writeBinary (List.replicate 4096 7), .flush, .flush]).toOption.map
        (fun r => r.1.map (fun o => (o.failed, o.sent.length)))
      = some [(false, 0), (false, 0), (false, 0), (true, 3), (false, 4096)] := by
  decide +kernel

example : WInv Writer.new := WInv_new

/-! ## memory level (`Model/ConnMem.lean`): blocks, references, the allocator, the caller

The bytes now live in a heap of memory blocks; nodes hold `(blk, base, cap, malloc, off)`, slices handed to the caller are
references `(blk, lo, hi)`; `mcache.Malloc` may return *any* previously freed block of the same capacity class (every
statement quantifies over the allocator's choices `ch`), the allocator may overwrite free blocks at any time
(`CStep.scribble`), the caller may write into its own buffers and into slices reserved by `Malloc` (`CStep.callerWrite`,
`.fillRef`).  Lemmas: `Proofs/ConnMem.lean`, `Proofs/ConnMemInv.lean`, `Proofs/ConnMemSys.lean`, `Proofs/ConnMemRel.lean`. -/

open Hertz.ConnMem

/-- Ownership holds in every state a connection can reach: after any sequence of reader operations (releasing ones
included), writer operations, caller writes and allocator activity, with any allocator choices, the blocks held by the
reader (chain, `caches`, private peek copies), by the writer, by the caller and by the allocator's free list are pairwise
distinct — no live block is ever on the free list, no block is held twice — and a by-reference output node points into
caller memory.  (`LegalAny`: the caller passes only its own buffers to `WriteBinary` and fills only slices it reserved
and has not flushed.) -/
theorem ownership_invariant (size : Nat) (wire : Wire) (sc : WScript) (steps : List CStep)
    (hl : LegalAny (MConn.new size) wire sc steps) (outs : List COut) (c' : MConn) (w' : Wire) (sc' : WScript)
    (h : crun (MConn.new size) wire sc steps = .ok (outs, c', w', sc')) : Good c' :=
  crun_good _ _ _ _ (Good_new size) hl _ _ _ _ h

/-- non-vacuity: a run with a peek, a release and a flush, all legal -/
example : LegalAny (MConn.new 0) [.data [1, 2, 3] none] [] [.rd (.peek 2) 0 0, .rd .release 0 0, .reserve 4 0, .flush] :=
  ⟨trivial, fun _ _ _ _ _ => ⟨trivial, fun _ _ _ _ _ => ⟨trivial, fun _ _ _ _ _ => ⟨trivial, fun _ _ _ _ _ => trivial⟩⟩⟩⟩

/-- Between a `Peek` and the next `Release` / `Read`, NO step of the system writes into the referenced region: after the
`Peek` that returned the slice `ref = (blk, lo, hi)`, any sequence of non-releasing reader operations (`fill`s, further
`Peek`s — which may allocate, recycling any freed block —, `Skip`, `ReadByte`, `ReadBinary`, `Len`), writer operations
(`Malloc`, `WriteBinary`, `Flush` — which frees blocks), caller writes into its own memory and allocator scribbling over
free memory leaves `heap[blk][lo:hi]` exactly as it was — for every allocator choice.  `Good c` holds in every reachable
state (`ownership_invariant`). -/
theorem peeked_ref_stable_mem (c : MConn) (hG : Good c) (wire : Wire) (sc : WScript) (n ch1 ch2 : Nat)
    (o : COut) (c1 : MConn) (w1 : Wire) (sc1 : WScript)
    (h : cstep c wire sc (.rd (.peek n) ch1 ch2) = .ok (o, c1, w1, sc1)) (ref : ConnMem.Ref) (href : o.ref = some ref)
    (steps : List CStep) (outs : List COut) (c2 : MConn) (w2 : Wire) (sc2 : WScript)
    (hl : Legal c1 w1 sc1 steps) (hr : crun c1 w1 sc1 steps = .ok (outs, c2, w2, sc2)) :
    c2.mem.heap.read ref = c1.mem.heap.read ref := by
  have hG1 := (cstep_ok c wire sc _ hG (show CStep.legal c (.rd (.peek n) ch1 ch2) from rfl) o c1 w1 sc1 h).1
  have hF := (crun_ok c1 w1 sc1 steps hG1 hl outs c2 w2 sc2 hr).2
  -- the reference lies in protected cells of `c1`
  have hP : ∀ k, ref.lo ≤ k → k < ref.hi → ProtR c1.r ref.blk k := by
    simp only [cstep, mstep] at h
    cases hp : mpeek c.mem c.r wire n ch1 ch2 with
    | error f => simp [hp, bind, Except.bind] at h
    | ok r =>
      obtain ⟨p, e, m1, r1, w1'⟩ := r
      obtain ⟨pb, pr⟩ := p
      have hpr := fun rf => mpeek_ref_prot c.mem c.r wire n ch1 ch2 pb rf e m1 r1 w1'
      simp only [hp, bind, Except.bind, pure, Except.pure] at h; cases h
      simp only at href; subst href
      exact hpr ref hp
  exact slice_congr _ _ _ _ (fun k h1 h2 => (hF ref.blk k (hP k h1 h2)).2)

/-- non-vacuity: a peek on a fresh connection; then a further peek that reads the wire into the same block, a reserve and
a scribble are legal, and the run exists -/
example :
    (do let (o, c1, w1, s1) ← cstep (MConn.new 0) [.data [1, 2, 3] none, .data [4] none] [] (.rd (.peek 2) 0 0)
        let (_, c2, _, _) ← crun c1 w1 s1 [.rd (.peek 4) 0 0, .reserve 8 0, .scribble 9, .rd (.skip 1) 0 0]
        pure (o.ref, o.ref.map c1.mem.heap.read, o.ref.map c2.mem.heap.read)).toOption
      = some (some ⟨0, 0, 2⟩, some [1, 2], some [1, 2]) := by
  decide +kernel

example : Good (MConn.new 8192) := Good_new 8192

/-- The same from a fresh connection: `c` is any state reached by any legal history (releasing operations included). -/
theorem peeked_ref_stable_from_new (size : Nat) (wire0 : Wire) (sc0 : WScript) (steps0 : List CStep)
    (hl0 : LegalAny (MConn.new size) wire0 sc0 steps0) (outs0 : List COut) (c : MConn) (wire : Wire) (sc : WScript)
    (h0 : crun (MConn.new size) wire0 sc0 steps0 = .ok (outs0, c, wire, sc)) (n ch1 ch2 : Nat)
    (o : COut) (c1 : MConn) (w1 : Wire) (sc1 : WScript)
    (h : cstep c wire sc (.rd (.peek n) ch1 ch2) = .ok (o, c1, w1, sc1)) (ref : ConnMem.Ref) (href : o.ref = some ref)
    (steps : List CStep) (outs : List COut) (c2 : MConn) (w2 : Wire) (sc2 : WScript)
    (hl : Legal c1 w1 sc1 steps) (hr : crun c1 w1 sc1 steps = .ok (outs, c2, w2, sc2)) :
    c2.mem.heap.read ref = c1.mem.heap.read ref :=
  peeked_ref_stable_mem c (ownership_invariant size wire0 sc0 steps0 hl0 outs0 c wire sc h0) wire sc n ch1 ch2 o c1 w1 sc1 h
    ref href steps outs c2 w2 sc2 hl hr

/-- The reader's non-releasing operations and the allocator never write into a block of the writer or of the caller:
reserved slices and buffers handed to `WriteBinary` keep their contents across them (so "the memory `Flush` sends" of
`reserved_ref_stable_until_flush` is only ever changed by the caller itself). -/
theorem writer_memory_untouched_by_reader (c : MConn) (wire : Wire) (sc : WScript) (st : CStep) (hG : Good c)
    (hst : (∃ op ch1 ch2, st = .rd op ch1 ch2 ∧ op.keeps = true) ∨ (∃ pat, st = .scribble pat))
    (o : COut) (c' : MConn) (w' : Wire) (sc' : WScript) (h : cstep c wire sc st = .ok (o, c', w', sc')) :
    ∀ b ∈ c.wr.own ++ c.caller, c'.mem.heap.get b = c.mem.heap.get b :=
  writer_memory_untouched c wire sc st hG hst o c' w' sc' h

/-- non-vacuity: a peek step on a good state -/
example : (∃ op ch1 ch2, CStep.rd (.peek 3) 0 0 = .rd op ch1 ch2 ∧ op.keeps = true) ∨ (∃ pat, CStep.rd (.peek 3) 0 0 = .scribble pat) :=
  Or.inl ⟨_, _, _, rfl, rfl⟩

/-- The boundary of the contract: after `Release` the same region CAN be overwritten.  `Peek(3)` returns block 0 `[0:3]`
reading `[1,2,3]`; after `Skip(3)`, `Release` (which resets the only node) and the next `Peek(3)` the region reads `[4,5,6]`. -/
theorem released_block_may_be_reused :
    (do let (o, c1, w1, s1) ← cstep (MConn.new 0) [.data [1, 2, 3] none, .data [4, 5, 6] none] [] (.rd (.peek 3) 0 0)
        let (_, c2, _, _) ← crun c1 w1 s1 [.rd (.skip 3) 0 0, .rd .release 0 0, .rd (.peek 3) 0 0]
        pure (o.ref, o.ref.map c1.mem.heap.read, o.ref.map c2.mem.heap.read)).toOption
      = some (some ⟨0, 0, 3⟩, some [1, 2, 3], some [4, 5, 6]) := by
  decide +kernel

/-- … and through `mcache`: a 4 KiB head node freed by `Release` comes back as the new tail node when the allocator
chooses so (`ch = 0`: the freed block; `ch = 1`: a fresh one), and the next `fill` stores new bytes over the slice
peeked before the `Release`. -/
theorem released_block_may_be_reused_by_mcache :
    (fun ch =>
      (do let wire : Wire := [.data (List.replicate 4096 1) none, .data (List.replicate 4096 2) none, .data (List.replicate 4096 3) none]
          let (o, c1, w1, s1) ← cstep (MConn.new 0) wire [] (.rd (.peek 4096) 0 0)
          let (_, c2, _, _) ← crun c1 w1 s1 [.rd (.peek 4097) 0 0, .rd (.skip 4097) 0 0, .rd .release 0 0, .rd (.peek 4096) ch 0]
          pure (o.ref, (o.ref.map c1.mem.heap.read).map (List.take 2), (o.ref.map c2.mem.heap.read).map (List.take 2))).toOption) 0
      = some (some ⟨0, 0, 4096⟩, some [1, 1], some [3, 3]) := by
  decide +kernel

/-- A `Flush` that returns nil handed the peer, for every node of the output chain in order, the cells the node refers to
*as they are when `Flush` runs* (the model reads the heap at that moment, as the `Write` call does). -/
theorem flush_sends_memory_at_flush_time (m : Mem) (s : MWriter) (sc : WScript) (hok : (mwFlush m s sc).1 = false) :
    (mwFlush m s sc).2.1 = s.pendingRefs.flatMap m.heap.read :=
  (mwFlush_spec m s sc hok).1

/-- `WriteBinary(b)` with `len(b) ≥ block4k` keeps a REFERENCE to `b`: whatever the memory holds when the next
successful `Flush` runs (`h'` is arbitrary: the caller may have rewritten `b` in between), the peer gets what was pending
before, followed by the contents of `b` AT FLUSH TIME. -/
theorem write_by_reference_contract (m : Mem) (s : MWriter) (r : ConnMem.Ref) (ch : Nat) (hbig : block4k ≤ r.len) :
    ∃ m1 s1, mwWriteBinary m s r ch = .ok (r.len, m1, s1) ∧
      ∀ (h' : Heap) (sc : WScript), (mwFlush { m1 with heap := h' } s1 sc).1 = false →
        (mwFlush { m1 with heap := h' } s1 sc).2.1 = s.pendingRefs.flatMap h'.read ++ h'.read r := by
  obtain ⟨m1, s1, h1, h2⟩ := mwWriteBinary_big m s r ch hbig
  refine ⟨m1, s1, h1, fun h' sc hok => ?_⟩
  rw [(mwFlush_spec _ s1 sc hok).1, h2]; simp

/-- witness: the caller reuses a 4096-byte buffer between `WriteBinary` and `Flush` — the wire carries the NEW byte … -/
theorem write_by_reference_mutation_reaches_wire :
    (do let (o, c1, _, _) ← cstep (MConn.new 0) [] [] (.newBuf (List.replicate 4096 7))
        let r := o.ref.getD ⟨0, 0, 0⟩
        let (outs, _, _, _) ← crun c1 [] [] [.writeBinary r 0, .callerWrite r.blk 0 [9], .flush]
        pure (outs.map (fun (o : COut) => o.sent.take 2))).toOption = some [[], [], [9, 7]] := by
  decide +kernel

/-- … while below the threshold the bytes were copied at the call: the wire carries the contents at CALL time. -/
theorem small_write_is_copied :
    (do let (o, c1, _, _) ← cstep (MConn.new 0) [] [] (.newBuf [7, 7, 7])
        let r := o.ref.getD ⟨0, 0, 0⟩
        let (outs, _, _, _) ← crun c1 [] [] [.writeBinary r 0, .callerWrite r.blk 0 [9], .flush]
        pure (outs.map (fun (o : COut) => o.sent))).toOption = some [[], [], [7, 7, 7]] := by
  decide +kernel

/-- The copy half of the contract, for every state: `WriteBinary(b)` with `0 < len(b) < block4k` copies — the destination
`d` is a slice of the output chain (hence what `Flush` sends, see `reserved_ref_stable_until_flush`), lies in a block of the
writer or (never, in fact) the caller's, and right after the call holds the contents `b` had AT CALL TIME; the chain holds no
reference to `b`.  Hypotheses besides `Good` (true in every reachable state, `ownership_invariant`): `b` is a valid slice
of a caller block, and three length facts — the tail node fits its block, `off ≤ malloc`, free blocks are as long as their
recorded capacity — that hold in every reachable state but are assumed here (see TODO-OPEN). -/
theorem write_copy_contract (c : MConn) (hG : Good c) (r : ConnMem.Ref) (ch n : Nat) (m1 : Mem) (wr1 : MWriter)
    (hr : r.blk ∈ c.caller) (hpos : 0 < r.len) (hs : r.len < block4k) (hv : r.hi ≤ (c.mem.heap.get r.blk).length)
    (hfit : c.wr.w.base + c.wr.w.cap ≤ (c.mem.heap.get c.wr.w.blk).length) (hoff : c.wr.w.off ≤ c.wr.w.malloc)
    (hfree : ∀ e ∈ c.mem.free, (c.mem.heap.get e.1).length = e.2)
    (h : mwWriteBinary c.mem c.wr r ch = .ok (n, m1, wr1)) :
    ∃ d, Covered wr1 d ∧ d.len = r.len ∧ d.blk ∈ wr1.own ++ c.caller ∧ m1.heap.read d = c.mem.heap.read r :=
  mwWriteBinary_small_copy c hG r ch n m1 wr1 hr hpos hs hv hfit hoff hfree h

/-- non-vacuity: all hypotheses of `write_copy_contract` hold in the state after the caller made a 3-byte buffer -/
example : ∀ o c w sc, cstep (MConn.new 0) [] [] (.newBuf [7, 7, 7]) = .ok (o, c, w, sc) →
    Good c ∧ 2 ∈ c.caller ∧ 3 ≤ (c.mem.heap.get 2).length ∧
    c.wr.w.base + c.wr.w.cap ≤ (c.mem.heap.get c.wr.w.blk).length ∧ c.wr.w.off ≤ c.wr.w.malloc ∧
    (∀ e ∈ c.mem.free, (c.mem.heap.get e.1).length = e.2) := by
  intro o c w sc h
  have hG := (cstep_ok _ _ _ (.newBuf [7, 7, 7]) (Good_new 0) trivial o c w sc h).1
  simp only [cstep, pure, Except.pure] at h; cases h
  exact ⟨hG, by decide +kernel, by decide +kernel, by decide +kernel, by decide +kernel, by decide +kernel⟩

/-- `off ≤ malloc` holds for the tail node of the output chain in every state a connection reaches (any steps, legal or
not): this discharges the hypothesis `hoff` of `write_copy_contract` and of `reserved_ref_stable_until_flush`. -/
theorem tail_off_le_malloc (size : Nat) (wire : Wire) (sc : WScript) (steps : List CStep)
    (outs : List COut) (c' : MConn) (w' : Wire) (sc' : WScript)
    (h : crun (MConn.new size) wire sc steps = .ok (outs, c', w', sc')) : c'.wr.w.off ≤ c'.wr.w.malloc :=
  crun_woff _ _ _ _ (Nat.le_refl 0) _ _ _ _ h

/-- non-vacuity: such a run, ending in a flushed, non-recyclable tail node with `off = malloc = 4096` -/
example :
    (do let (o, c1, _, _) ← cstep (MConn.new 0) [] [] (.newBuf (List.replicate 4096 7))
        let (_, c2, _, _) ← crun c1 [] [] [.writeBinary (o.ref.getD ⟨0, 0, 0⟩) 0, .flush]
        pure (c2.wr.w.off, c2.wr.w.malloc)).toOption = some (4096, 4096) := by
  decide +kernel

/-- A slice reserved by `Malloc` stays the memory `Flush` sends: the reservation lies in the unsent part of a node of
the output chain (`Covered`), later `Malloc` / `WriteBinary` calls (any sizes, any allocator choices) keep it there, and a
successful `Flush` hands the peer the cells of the reservation as they are at flush time (so a caller that fills the
slice after further writes, but before `Flush`, gets its bytes onto the wire). -/
theorem reserved_ref_stable_until_flush :
    (∀ (m : Mem) (s : MWriter) (n ch : Nat) (d : ConnMem.Ref) (m1 : Mem) (s1 : MWriter), s.w.off ≤ s.w.malloc →
        mwReserve m s n ch = .ok (some d, m1, s1) → Covered s1 d ∧ d.len = n) ∧
    (∀ (m : Mem) (s : MWriter) (n ch : Nat) (o : Option ConnMem.Ref) (m1 : Mem) (s1 : MWriter) (d : ConnMem.Ref),
        Covered s d → mwReserve m s n ch = .ok (o, m1, s1) → Covered s1 d) ∧
    (∀ (m : Mem) (s : MWriter) (r : ConnMem.Ref) (ch n : Nat) (m1 : Mem) (s1 : MWriter) (d : ConnMem.Ref),
        Covered s d → mwWriteBinary m s r ch = .ok (n, m1, s1) → Covered s1 d) ∧
    (∀ (m : Mem) (s : MWriter) (sc : WScript) (d : ConnMem.Ref), Covered s d → (mwFlush m s sc).1 = false →
        ∃ a b, (mwFlush m s sc).2.1 = a ++ m.heap.read d ++ b) :=
  ⟨fun m s n ch d m1 s1 ho h => mwReserve_covered m s n ch d m1 s1 ho h,
   fun m s n ch o m1 s1 d hc h => mwReserve_keeps m s n ch o m1 s1 d hc h,
   fun m s r ch n m1 s1 d hc h => mwWriteBinary_keeps m s r ch n m1 s1 d hc h,
   fun m s sc d hc hok => by rw [(mwFlush_spec m s sc hok).1]; exact covered_sent s d m.heap hc⟩

/-- non-vacuity: reserve 2 bytes, write more, fill the reservation late, flush: the late bytes are on the wire -/
example :
    (do let (o, c1, _, _) ← cstep (MConn.new 0) [] [] (.reserve 2 0)
        let r := o.ref.getD ⟨0, 0, 0⟩
        let (o2, c2, _, _) ← cstep c1 [] [] (.newBuf [5, 5, 5])
        let (outs, _, _, _) ← crun c2 [] [] [.writeBinary (o2.ref.getD ⟨0, 0, 0⟩) 0, .fillRef r [8, 9], .flush]
        pure (outs.map (fun (o : COut) => o.sent))).toOption = some [[], [], [8, 9, 5, 5, 5]] := by
  decide +kernel

/-- After a `Flush` that returned nil the writer reads nothing any more through the references it still holds: whatever
the memory holds later (`h'` arbitrary), nothing of it is pending — the caller may reuse its buffers. -/
theorem flush_clears_references (m : Mem) (s : MWriter) (sc : WScript) (hok : (mwFlush m s sc).1 = false) (h' : Heap) :
    (mwFlush m s sc).2.2.2.1.pendingRefs.flatMap h'.read = [] :=
  mwFlush_clears m s sc hok h'

/-- non-vacuity: a successful flush of a by-reference node -/
example :
    (do let (o, c1, _, _) ← cstep (MConn.new 0) [] [] (.newBuf (List.replicate 4096 7))
        let (outs, c2, _, _) ← crun c1 [] [] [.writeBinary (o.ref.getD ⟨0, 0, 0⟩) 0, .flush]
        pure (outs.map (fun (o : COut) => (o.failed, o.sent.length)), c2.wr.pendingRefs.map ConnMem.Ref.len)).toOption
      = some ([(false, 0), (false, 4096)], [0]) := by
  decide +kernel

/-
TODO-OPEN (memory level)

* `mem_refines_list_model` — erasing the heap (`MReader.view`, `MWriter.view`: a node's `data` is
  `heap[blk][base : base+malloc]`, logical ids kept) commutes with every operation, so that every run of `mstep` projects
  onto the run of `step` of `Model/Conn.lean` for every allocator choice — is NOT proved.  It is checked per case: the driver
  (`Driver/C13m.lean`) runs both models on every `c13m` case and compares all reader outputs (token `!MODEL-REFINE` on a
  difference), and re-reads every protected reference and every peek result from the model heap (`!MODEL-STALE`).
  What is proved instead, directly on the memory model: `ownership_invariant`, `peeked_ref_stable_mem` and the writer
  contract theorems above.
* the length bookkeeping "a block is as long as the capacity recorded for it, `off ≤ malloc ≤ cap`" is not proved as an
  invariant of reachable states (block lengths never change: `splice_length`; groundwork `LInv`, `alloc_len` in
  `Proofs/ConnMemRefine.lean`).  It appears as hypotheses `hfit`, `hfree` of `write_copy_contract` (`hoff` there and in
  `reserved_ref_stable_until_flush` IS discharged for reachable states: `tail_off_le_malloc`); the driver's per-case
  contract acceptor covers the same ground on the real code.
-/

end Hertz.Props.C13
