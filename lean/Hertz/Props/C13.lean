import Hertz.Proofs.Conn
import Hertz.Proofs.ConnCtl
/-!
# C13 — the buffered connection behaves as a lossless FIFO byte stream

Property theorems only; lemmas live in `Hertz/Proofs/Conn.lean` and `Hertz/Proofs/ConnCtl.lean`.  Every statement is about the model
`Hertz/Model/Conn.lean` of `pkg/network/standard/{connection,buffer}.go` and `pkg/network/writer.go`,
which the correspondence check (`bin/check C13`) holds to the Go code, and about the constants and
branch conditions in `Hertz/Gen/Conn.lean`, regenerated from the Go source on every run.

All statements quantify over *every* initial buffer size, *every* wire script (any fragmentation,
zero-length reads, errors with or without data at any point, EOF after the script) and *every*
operation sequence; there is no bound on sizes or lengths.
-/
namespace Hertz.Props.C13
open Hertz Hertz.Conn Hertz.Spec.Fifo

/-! ## reader -/

/-- No operation sequence makes the reader panic (nil node, slice out of range) or spin in `fill`:
the run of the model always returns. -/
theorem never_faults (size : Nat) (w : Wire) (ops : List Op) :
    ∃ r, run (Reader.new size) w ops = .ok r := by
  obtain ⟨outs, s', w', h, _⟩ := run_spec (Reader.new size) w ops (Inv_new size)
  exact ⟨_, h⟩

/-- Refinement: every trace of the reader is accepted by the plain byte queue `Spec.Fifo`
(observation = the bytes themselves): each returned slice is exactly the next bytes the peer sent
that were not yet consumed, each consuming operation removes exactly what it returned — for every
operation sequence and every fragmentation. -/
theorem refines_fifo (size : Nat) (w : Wire) (ops : List Op) (outs : List Out) (s' : Reader) (w' : Wire)
    (h : run (Reader.new size) w ops = .ok (outs, s', w')) :
    acceptsBytes id (wireBytes w) (ops.zip (outs.map (Obs.ofOut id))) = true := by
  obtain ⟨outs', s'', w'', h', _, _, hacc, _⟩ := run_spec (Reader.new size) w ops (Inv_new size)
  rw [h] at h'; cases h'
  rw [← stream_new size w]; exact hacc

/-- Nothing lost, nothing duplicated: after any run, what is still buffered followed by what is
still on the wire is the sent stream minus exactly the bytes the operations consumed. -/
theorem lossless (size : Nat) (w : Wire) (ops : List Op) (outs : List Out) (s' : Reader) (w' : Wire)
    (h : run (Reader.new size) w ops = .ok (outs, s', w')) :
    s'.unread ++ wireBytes w' = (wireBytes w).drop (totalConsumed ops outs) ∧
    totalConsumed ops outs ≤ (wireBytes w).length := by
  obtain ⟨outs', s'', w'', h', _, _, _, hrest, hle, _⟩ := run_spec (Reader.new size) w ops (Inv_new size)
  rw [h] at h'; cases h'
  rw [stream_new] at hrest hle; exact ⟨hrest, hle⟩

/-- `Len()` always equals the number of buffered-but-unconsumed bytes: in the state reached by any
operation sequence, and as reported by the last operation of the sequence. -/
theorem len_is_buffered (size : Nat) (w : Wire) (ops : List Op) (outs : List Out) (s' : Reader) (w' : Wire)
    (h : run (Reader.new size) w ops = .ok (outs, s', w')) :
    s'.len = s'.unread.length ∧ ∀ o ∈ outs.getLast?, o.len = s'.unread.length := by
  obtain ⟨outs', s'', w'', h', hI, _, _, _, _, hlast⟩ := run_spec (Reader.new size) w ops (Inv_new size)
  rw [h] at h'; cases h'
  exact ⟨hI.1, hlast⟩

/-- One operation from any consistent state (in particular any reachable one): it returns, keeps the
bookkeeping consistent, reports `Len()` = buffered bytes, returns a prefix of the unconsumed stream
and removes exactly `consumed` bytes from its front. -/
theorem step_is_fifo (s : Reader) (w : Wire) (op : Op) (hI : Inv s) :
    ∃ o s' w', step s w op = .ok (o, s', w') ∧ StepOK s w op o s' w' :=
  step_spec s w op hI

/-- `Peek(n)`: without error it returns exactly `n` bytes; with an error fewer than `n`; in both
cases a prefix of what is buffered afterwards, and buffering only ever appends. -/
theorem peek_rules (s : Reader) (w : Wire) (n : Nat) (hI : Inv s) :
    ∃ p e s' w', peek s w n = .ok (p, e, s', w') ∧ Inv s' ∧ stream s' w' = stream s w ∧
      p = s'.unread.take p.length ∧ p.length ≤ s'.len ∧ (e = none → p.length = n) ∧ (e.isSome → p.length < n) ∧
      (∃ bs, s'.unread = s.unread ++ bs) :=
  peek_spec s w n hI

/-- `Skip(n)` succeeds iff `n ≤ Len()`; on success exactly `n` bytes leave the front of the buffer,
on failure nothing changes. -/
theorem skip_rules (s : Reader) (n : Nat) (hI : Inv s) :
    ∃ e s', skip s n = .ok (e, s') ∧ Inv s' ∧
      (n ≤ s.len → e = none ∧ s'.unread = s.unread.drop n ∧ s'.len = s.len - n) ∧
      (s.len < n → e = some errSkip ∧ s' = s) :=
  skip_spec s n hI

/-- `Release()` changes neither the buffered bytes nor `Len()`. -/
theorem release_keeps_data (s : Reader) (hI : Inv s) :
    Inv (release s) ∧ (release s).unread = s.unread ∧ (release s).len = s.len :=
  release_spec s hI

/-- A slice returned by `Peek` stays unchanged until the next release: no operation other than
`Release` / `Read` frees, resets or overwrites a memory block — every node block (by identity) is
still part of the chain afterwards with its old bytes as a prefix of its new bytes, and every
cached cross-node copy is still held. -/
theorem peek_stable_until_release (s : Reader) (w : Wire) (op : Op) (o : Out) (s' : Reader) (w' : Wire)
    (hk : op.keeps = true) (h : step s w op = .ok (o, s', w')) :
    Extends s.nodes s'.nodes ∧ s.caches <+: s'.caches :=
  step_stable s w op o s' w' hk h

/-- Refinement of the control rules: every trace of the reader is accepted by the control acceptor
`acceptsCtl` of `Spec/Fifo.lean` — `Len()` is the count of buffered-but-unconsumed bytes, an operation
that can be answered from the buffer neither fails nor changes `Len()` except by what it consumes,
`Skip(n)` fails iff `n > Len()`, nothing lying behind an unreported wire error is ever buffered, and
an error is reported only by an operation that demanded more bytes than the peer sent in front of
that error, in script order (`io.EOF` after the script only when everything sent was delivered) —
for every buffer size, wire script and operation sequence. -/
theorem refines_fifo_ctl (size : Nat) (w : Wire) (ops : List Op) (outs : List Out) (s' : Reader) (w' : Wire)
    (h : run (Reader.new size) w ops = .ok (outs, s', w')) :
    acceptsCtl (Ctl.init w) (ops.zip (outs.map (Obs.ofOut id))) = true := by
  obtain ⟨outs', s'', w'', h', hacc⟩ := run_ctl (Reader.new size) w ops (Ctl.init w) (CInv_new size w)
  rw [h] at h'; cases h'
  exact hacc

/-- non-vacuity of `refines_fifo_ctl`: a run with a stashed `io.EOF`, a short peek that surfaces it, a
failing skip and a pass-through `Read` exists … -/
example :
    (run (Reader.new 0) [.data [1, 2, 3] none, .data [4] (some errEOF)]
        [.peek 2, .skip 1, .readByte, .peek 2, .peek 5, .skip 3, .readBinary 2, .release, .read 5000, .len]).toOption.map (·.1)
      = some [⟨[1, 2], none, 3⟩, ⟨[], none, 2⟩, ⟨[2], none, 1⟩, ⟨[3, 4], none, 2⟩, ⟨[3, 4], some errEOF, 2⟩,
              ⟨[], some errSkip, 2⟩, ⟨[3, 4], none, 0⟩, ⟨[], none, 0⟩, ⟨[], some errEOF, 0⟩, ⟨[], none, 0⟩] := by
  decide +kernel

/-- … and the acceptor is not trivially true: it rejects an invented `io.EOF` and a premature error -/
example :
    acceptsCtl (α := Bytes) (Ctl.init [.data [1, 2, 3] none]) [(.peek 2, ⟨0, [], some errEOF, 0⟩)] = false ∧
    acceptsCtl (α := Bytes) (Ctl.init [.data [1, 2, 3] (some 7)]) [(.peek 2, ⟨0, [], some 7, 0⟩)] = false ∧
    acceptsCtl (α := Bytes) (Ctl.init [.data [1, 2, 3] (some 7)]) [(.peek 4, ⟨3, [1, 2, 3], some 7, 3⟩)] = true := by
  decide

/-- One operation from any state tied to a control state (in particular any reachable one): it is
accepted and the tie (`CInv`: `Ctl.len = Len()`, `Ctl.r` = buffered + on the wire, `Ctl.marks` = the
stashed error `c.err` followed by the errors of the unread wire script at their byte positions) is kept. -/
theorem step_is_ctl (s : Reader) (w : Wire) (op : Op) (c : Ctl) (h : CInv s w c) :
    ∃ o s' w' c', step s w op = .ok (o, s', w') ∧ stepCtl c op (Obs.ofOut id o) = some c' ∧ CInv s' w' c' :=
  step_ctl s w op c h

/-- the hypothesis `CInv` holds initially -/
example : CInv (Reader.new 8192) [.data [1, 2] (some errEOF)] (Ctl.init [.data [1, 2] (some errEOF)]) :=
  CInv_new 8192 _

/-- The `fill` loop stops at the first error event of the wire script: ending normally it consumed no
error event; ending with a stashed (or returned) error that error is the first mark of the script and
lies exactly behind the bytes read (or the script is exhausted and the error is `io.EOF`). -/
theorem fill_loop_stops_at_first_error (w : Wire) (need room pos : Nat) :
    ((fillLoop w need room).2.1 = .ok →
        marksOf w pos = marksOf (fillLoop w need room).2.2 (pos + (fillLoop w need room).1.length)) ∧
    (∀ e, (fillLoop w need room).2.1 = .stash e →
        0 < (fillLoop w need room).1.length ∧
        marksOf w pos = (pos + (fillLoop w need room).1.length, e) ::
          marksOf (fillLoop w need room).2.2 (pos + (fillLoop w need room).1.length)) ∧
    (∀ e, (fillLoop w need room).2.1 = .fail e →
        (fillLoop w need room).1.length < need ∧
        (marksOf w pos = (pos + (fillLoop w need room).1.length, e) ::
            marksOf (fillLoop w need room).2.2 (pos + (fillLoop w need room).1.length) ∨
         (e = errEOF ∧ (fillLoop w need room).2.2 = [] ∧ marksOf w pos = []))) :=
  fillLoop_marks w need room pos

/-- non-vacuity: a loop run that ends by stashing the error that came with the second piece of data -/
example : fillLoop [.data [1] none, .data [2, 3] (some 9), .data [4] none] 5 8 = ([1, 2, 3], .stash 9, [.data [4] none]) := by
  decide

/-- Pointer-level form of `Peek`: `peekR` is the model's `peek` that also says where the returned
slice lives (`peekR_proj`: forgetting the reference gives `peek` back).  Every result of `peek` has
such a reference, and it is good in the resulting state: the slice is `buf[off : off+len]` of a
node block (by identity) of the chain, lying inside the written part of that block, or a copy held
in `caches`, or a private copy (`make`), or nil on an error return. -/
theorem peek_in_block (s : Reader) (w : Wire) (n : Nat) (p : Bytes) (e : Option Err) (s' : Reader) (w' : Wire)
    (h : peek s w n = .ok (p, e, s', w')) :
    ∃ ref, peekR s w n = .ok ((p, ref), e, s', w') ∧ RefOK s' p ref := by
  obtain ⟨ref, hr⟩ := peek_peekR s w n p e s' w' h
  exact ⟨ref, hr, peekR_in_block s w n p ref e s' w' hr⟩

/-- non-vacuity of `peek_in_block`: a `Peek(4096)` that straddles two 4 KiB blocks is answered by a copy
in a fresh block (identity 2, the chain being blocks 0 and 1) registered in `caches` -/
example :
    (do let r0 ← run (Reader.new 0) [.data (List.replicate 4096 1) none, .data (List.replicate 4096 2) none] [.peek 4096, .skip 1]
        let r ← peekR r0.2.1 r0.2.2 4096
        pure (r.1.2, r.1.1.length, r.2.2.1.caches, r.2.2.1.nodes.map (fun (nd : Node) => nd.id))).toOption
      = some (Ref.cache 2, 4096, [2], [0, 1]) := by
  decide +kernel

/-- `peekR` projects onto the model's `peek` -/
theorem peekR_refines_peek (s : Reader) (w : Wire) (n : Nat) :
    (peekR s w n).map (fun r => (r.1.1, r.2)) = peek s w n :=
  peekR_proj s w n

/-- A peeked slice stays unchanged until the next release, pointer-level: after any sequence of
operations other than `Release` / `Read`, the reference handed out by `Peek` is still good with the
*same* bytes — the block with that identity is still in the chain (neither freed nor reset) and
`buf[off : off+len]` of it still reads `p`, i.e. no operation wrote into the referenced region; a
cached copy is still held. -/
theorem peeked_slice_unchanged (s : Reader) (w : Wire) (n : Nat) (p : Bytes) (ref : Ref) (e : Option Err)
    (s1 : Reader) (w1 : Wire) (h : peekR s w n = .ok ((p, ref), e, s1, w1))
    (ops : List Op) (outs : List Out) (s2 : Reader) (w2 : Wire)
    (hk : ∀ op ∈ ops, op.keeps = true) (hr : run s1 w1 ops = .ok (outs, s2, w2)) :
    RefOK s2 p ref := by
  have hs := run_stable s1 w1 ops outs s2 w2 hk hr
  exact RefOK_stable s1 s2 p ref hs.1 hs.2 (peekR_in_block s w n p ref e s1 w1 h)

/-- non-vacuity: a peek inside one block (reference = block 0, offset 1 after a skip, length 2), and
a following `Peek` that appends to the same block behind the region -/
example :
    (do let (_, s0) ← skip (← peek (Reader.new 0) [.data [1, 2, 3] none, .data [4] none] 1).2.2.1 1
        let r ← peekR s0 [.data [4] none] 2
        pure r.1).toOption = some ([2, 3], Ref.block 0 1 2) := by
  decide +kernel

/-- Block identities are pairwise distinct in every reachable state (the allocation counter only
grows), and no cached peek copy shares its identity with a node of the chain: "the block `id`" is
well defined. -/
theorem block_ids_distinct (size : Nat) (w : Wire) (ops : List Op) (outs : List Out) (s' : Reader) (w' : Wire)
    (h : run (Reader.new size) w ops = .ok (outs, s', w')) :
    (∀ a ∈ s'.nodes, ∀ b ∈ s'.nodes, a.id = b.id → a = b) ∧ (∀ a ∈ s'.nodes, a.id ∉ s'.caches) :=
  (run_ids _ _ _ _ _ _ h (IdInv_new size)).unique

/-- The whole statement from a fresh connection: after any operation sequence `ops0`, a `Peek` that
returned `buf[off : off+len]` of block `id`, and then any sequence `ops` of operations other than
`Release` / `Read`: the block `id` is still in the chain, and *every* node with that identity (there
is exactly one) still reads `p` at `[off, off+len)`. -/
theorem peeked_block_unchanged (size : Nat) (w : Wire) (ops0 : List Op) (outs0 : List Out) (s : Reader) (w0 : Wire)
    (h0 : run (Reader.new size) w ops0 = .ok (outs0, s, w0))
    (n : Nat) (p : Bytes) (id off len : Nat) (e : Option Err) (s1 : Reader) (w1 : Wire)
    (h : peekR s w0 n = .ok ((p, .block id off len), e, s1, w1))
    (ops : List Op) (outs : List Out) (s2 : Reader) (w2 : Wire)
    (hk : ∀ op ∈ ops, op.keeps = true) (hr : run s1 w1 ops = .ok (outs, s2, w2)) :
    (∃ nd ∈ s2.nodes, nd.id = id) ∧ ∀ nd ∈ s2.nodes, nd.id = id → (nd.data.drop off).take len = p := by
  have hI2 : IdInv s2 :=
    run_ids _ _ _ _ _ _ hr (peek_ids _ _ _ _ _ _ _ (peekR_peek _ _ _ _ _ _ _ _ h) (run_ids _ _ _ _ _ _ h0 (IdInv_new size)))
  have hok := peeked_slice_unchanged s w0 n p _ e s1 w1 h ops outs s2 w2 hk hr
  refine ⟨?_, fun nd hm hid => ((RefOK_block_unique hI2 hok nd hm hid).1).symm⟩
  obtain ⟨nd, hm, hid, _⟩ := hok
  exact ⟨nd, hm, hid⟩

/-- non-vacuity: fresh connection, `Peek(1)`, `Skip(1)`; then `Peek(2)` returns block 0 at offset 1;
then `Peek(3)` (which reads the wire and appends to block 0) and `Len` keep it -/
example :
    (do let r0 ← run (Reader.new 0) [.data [1, 2, 3] none, .data [4] none] [.peek 1, .skip 1]
        let r ← peekR r0.2.1 r0.2.2 2
        let r2 ← run r.2.2.1 r.2.2.2 [.peek 3, .len]
        pure (r.1, r2.2.1.nodes.map (fun (nd : Node) => (nd.id, nd.data)))).toOption
      = some (([2, 3], Ref.block 0 1 2), [(0, [1, 2, 3, 4])]) := by
  decide +kernel

/-
TODO-OPEN

Both statements of the former list are now theorems: `refines_fifo_ctl` (with the invariant
`CInv`/`CI`/`MRel` of `Proofs/ConnCtl.lean` and the loop lemma `fill_loop_stops_at_first_error`), and
`peek_in_block` + `peeked_slice_unchanged` + `block_ids_distinct` + `peeked_block_unchanged` (with
`peekR`, a restatement of `peek` returning a `Ref`, proved to project onto `peek`).

What the pointer-level statements do *not* say (limits of the model, not open proofs):

* The model has no explicit memory: "nobody writes into the region" is expressed as "the written part
  `data = buf[0:malloc]` of the block with that identity is only ever extended at its end by
  non-releasing operations, and the block stays in the chain" (`Extends`).  Writes by the *caller*
  through the returned slice, and reuse of a block by `mcache` after `Release`, are outside the model
  (the correspondence check re-hashes peeked slices after every operation on the real code).
* `Ref.fresh` / `Ref.cache` copies are immutable in the model by construction (nothing refers to them
  but `caches`); the theorem for them is only that a cached copy stays registered until a release.
-/

/-! ## writer -/

/-- `Flush` on `standard.Conn`: the bytes handed to the peer followed by what is still pending are
exactly what was pending (in order); when `Flush` returns nil the peer has received everything and
nothing is pending. -/
theorem flush_sends_all (s : Writer) (sc : WScript) (hI : WInv s) :
    (wflush s sc).2.1 ++ (wflush s sc).2.2.1.pending = s.pending ∧
    ((wflush s sc).1 = false → (wflush s sc).2.1 = s.pending ∧ (wflush s sc).2.2.1.pending = []) :=
  ⟨(wflush_spec s sc hI).1, (wflush_spec s sc hI).2.1⟩

/-- Every sequence of `Malloc` / `WriteBinary` / `Flush` on a fresh `standard.Conn`, under any
pattern of failing `Write` calls: never panics (`node.buf[:node.malloc]` stays within capacity) and is
accepted by the writer spec — the peer receives exactly the concatenation of what was written, in
order, by the time a `Flush` returns nil; a failed `Flush` sends a prefix and keeps the rest. -/
theorem writer_refines (sc : WScript) (ops : List WOp) :
    ∃ outs s' sc', wrun Writer.new sc ops = .ok (outs, s', sc') ∧
      acceptsW id true [] (ops.zip (List.zipWith WOut.toObs ops outs)) = true := by
  obtain ⟨outs, s', sc', h, _, _, hacc⟩ := wrun_spec Writer.new sc ops WInv_new
  rw [pending_new] at hacc
  exact ⟨outs, s', sc', h, hacc⟩

/-- The same for `network.NewWriter` (`networkWriter`), whose failed `Flush` drops what was not sent. -/
theorem netwriter_refines (sc : WScript) (ops : List WOp) :
    acceptsW id false [] (ops.zip (List.zipWith WOut.toObs ops (nwRun {} sc ops).1)) = true :=
  nwRun_spec {} sc ops

/-! ## tie to the source -/

/-- The constants of the model are those of the current Go source, and each of the 19 modelled
functions still has exactly the branch conditions (source text, in order) the model mirrors
(`ModelMatchesGen` in `Proofs/Conn.lean` spells them out; `Gen/Conn.lean` is regenerated per run). -/
theorem model_matches_source : ModelMatchesGen := model_matches_gen

/-- non-vacuity: the statement pins, e.g., the allocation condition of `fill` and `mallocMax` -/
example : Gen.Conn.condsFill.contains "if left < i-c.Len() || node.readOnly" = true ∧ Gen.Conn.mallocMax = 524288 := by
  decide

/-! ## non-vacuity: concrete runs -/

/-- a wire delivering `[1,2,3]`, then `[4]` together with EOF; the run exercises a peek that needs a
second wire read, a stashed error, a short peek that surfaces it, and a failing skip -/
example :
    (run (Reader.new 0) [.data [1, 2, 3] none, .data [4] (some errEOF)]
        [.peek 2, .skip 1, .readByte, .peek 2, .peek 5, .skip 3, .readBinary 2, .release, .len]).toOption.map (·.1)
      = some [⟨[1, 2], none, 3⟩, ⟨[], none, 2⟩, ⟨[2], none, 1⟩, ⟨[3, 4], none, 2⟩, ⟨[3, 4], some errEOF, 2⟩,
              ⟨[], some errSkip, 2⟩, ⟨[3, 4], none, 0⟩, ⟨[], none, 0⟩, ⟨[], none, 0⟩] := by
  decide +kernel

/-- the hypothesis `Inv` of the step-level theorems holds initially (and, by `step_is_fifo`, forever) -/
example : Inv (Reader.new 8192) := Inv_new 8192

/-- a keeping operation on a reachable state (hypotheses of `peek_stable_until_release`) -/
example : (Op.peek 3).keeps = true ∧
    ∃ r, step (Reader.new 0) [.data [1, 2, 3] none] (.peek 3) = .ok r := ⟨rfl, _, rfl⟩

/-- writer: two small writes, a zero-copy write of 4096 bytes, flush with the second `Write` failing, flush again -/
example :
    (wrun Writer.new [false, true] [.malloc [1, 2], .writeBinary [3], .writeBinary (List.replicate 4096 7), .flush, .flush]).toOption.map
        (fun r => r.1.map (fun o => (o.failed, o.sent.length)))
      = some [(false, 0), (false, 0), (false, 0), (true, 3), (false, 4096)] := by
  decide +kernel

example : WInv Writer.new := WInv_new

end Hertz.Props.C13
