import Hertz.Proofs.Resp
/-!
# C04 — every response put on the wire is one well-formed, correctly framed message

`H1.Resp.frame` models `resp.Write` / `writeBodyStream` / `ResponseHeader.SetContentLength` /
`MustSkipContentLength` / `Response.MustSkipBody` / `ext.WriteBodyFixedSize` / `ext.WriteBodyChunked` /
`ext.WriteChunk` / `bytesconv.WriteHexInt` and the hijacked `chunkedBodyWriter`; the header block is the
C05 model (`HW.RespHdr.bytes`, proved to read back as exactly the fields set).  The check runs handler
programs (status × body mode × sizes × method × keep-alive/close × HTTP/1.0/1.1 × sequences) on the real
server, decodes the real bytes with the strict reader `Spec.Resp.decodeOne` *and* with `net/http`, and
compares with the model's framing and body bytes.

Proved for all inputs:
* `chunk_size_roundtrip`: a hex chunk size written by `WriteHexInt` reads back as the same number;
* `streamed_body_decodes`: for a body stream of unknown length — any sequence of reads, any trailer —
  the strict chunk reader returns exactly the concatenation of the reads, the trailer fields, and the
  bytes that follow (so the next response starts exactly where this one ends);
* `writer_body_decodes`: the same for the hijacked chunked writer under **every** write/flush pattern,
  empty writes included (true since the fix of the empty-write defect; the old failing pattern is a
  regression example below);
* `bodiless_carry_no_body`: HEAD, 1xx, 204, 304 never put body bytes on the wire (hijacked writer
  excluded, as documented);
* `content_length_matches`: with `Content-Length: n` framing and no writer error, the body on the
  wire has exactly `n` bytes (or none for HEAD).

TODO-OPEN: the single statement `decodeOne isHead (head ++ wire ++ rest) = (status, fields, body, rest)`
joining the C05 head theorem with the framing theorems above (needs the decimal `AppendUint` round
trip and the invariant that no generic field is named Content-Length/Transfer-Encoding); decided per
explored case by the spec step.
-/
namespace Hertz.Props.C04
open Hertz Hertz.H1.Resp Hertz.Spec.Resp

theorem chunk_size_roundtrip (n : Nat) (h : n < 16 ^ 16) : parseHex (writeHexInt n) = some n :=
  parseHex_writeHexInt n h

theorem flatten_filter_nonempty (l : List Bytes) : (l.filter (fun r => !r.isEmpty)).flatten = l.flatten := by
  induction l with
  | nil => rfl
  | cons a t ih =>
    cases a with
    | nil => simpa using ih
    | cons x xs => simp [ih]

theorem streamed_body_decodes (reads : List Bytes) (tr : List (Bytes × Bytes)) (rest : Bytes)
    (h : ∀ r ∈ reads, r.length < 16 ^ 16) :
    chunks (reads.length + 1) (chunkedWire reads tr ++ rest) [] = some (reads.flatten, HW.kept tr, rest) := by
  unfold chunkedWire
  have := chunks_encode (reads.filter (fun r => !r.isEmpty)) tr rest [] (reads.length + 1)
    (by
      intro c hc
      simp only [List.mem_filter] at hc
      exact ⟨by intro e; simp [e] at hc, h c hc.1⟩)
    (Nat.lt_succ_of_le (List.length_filter_le _ _))
  rw [this, flatten_filter_nonempty]
  rfl

/-- bytes written through the hijacked writer, in order -/
def written (script : List WOp) : Bytes :=
  (script.filterMap (fun o => match o with | .write b => some b | .flush => none)).flatten

theorem written_eq (script : List WOp) :
    (script.filterMap (fun o => match o with | .write b => if b.isEmpty then none else some b | .flush => none)).flatten
      = written script := by
  induction script with
  | nil => rfl
  | cons o t ih =>
    cases o with
    | flush => simpa [written] using ih
    | write b =>
      cases b with
      | nil => simpa [written] using ih
      | cons x xs => simp [written] at ih ⊢; rw [ih]

/-- the chunks the hijacked writer emits: one per non-empty write -/
def wchunks (script : List WOp) : List Bytes :=
  script.filterMap (fun o => match o with | .write b => if b.isEmpty then none else some b | .flush => none)

theorem writer_body_decodes (script : List WOp) (tr : List (Bytes × Bytes)) (rest : Bytes)
    (h : ∀ o ∈ script, ∀ b, o = .write b → b.length < 16 ^ 16) :
    chunks (script.length + 1) (writerWire script tr ++ rest) [] = some (written script, HW.kept tr, rest) := by
  have hw : writerWire script tr = encodeChunks (wchunks script) ++ writeChunk [] ++ trailerBlock tr := rfl
  rw [hw]
  have := chunks_encode (wchunks script) tr rest [] (script.length + 1)
    (by
      intro c hc
      simp only [wchunks, List.mem_filterMap] at hc
      obtain ⟨o, ho, hoc⟩ := hc
      cases o with
      | flush => simp at hoc
      | write b =>
        have hoc' : (if b.isEmpty then none else some b) = some c := hoc
        by_cases hb : b.isEmpty = true
        · rw [if_pos hb] at hoc'; exact absurd hoc' (by simp)
        · rw [if_neg hb] at hoc'
          have e : b = c := by simpa using hoc'
          subst e
          exact ⟨by intro e; apply hb; simp [e], h _ ho b rfl⟩)
    (Nat.lt_succ_of_le (List.length_filterMap_le _ _))
  rw [this]
  simp only [wchunks, written_eq, List.nil_append]

theorem bodiless_carry_no_body (p : Prog) (isHead : Bool)
    (hw : ∀ s, p.body ≠ .writer s) (h : isHead = true ∨ noBodyStatus p.status = true) :
    (frame p isHead).wire = [] := by
  unfold frame
  rw [mustSkipCL_eq]
  have hs : (!(isHead || noBodyStatus p.status)) = false := by
    rcases h with h | h <;> simp [h]
  cases hb : p.body with
  | bytes b => simp [hs]
  | stream d reads => simp only; split <;> (try split) <;> simp [hs]
  | limited l reads => simp only; split <;> simp [hs]
  | writer s => exact absurd hb (hw s)

theorem content_length_matches (p : Prog) (isHead : Bool) (n : Nat)
    (hf : (frame p isHead).framing = .cl n) (hok : (frame p isHead).failed = false) :
    (frame p isHead).wire.length = n ∨ (frame p isHead).wire = [] := by
  unfold frame at hf hok ⊢
  cases hb : p.body with
  | bytes b =>
    simp only [hb] at hf hok ⊢
    split
    · left
      split at hf
      · simpa using hf
      · simp at hf
    · right; rfl
  | stream d reads =>
    simp only [hb] at hf hok ⊢
    by_cases h1 : mustSkipCL p.status = true
    · simp [h1] at hf
    · have hm : mustSkipCL p.status = false := by simpa using h1
      by_cases h2 : d ≥ 0
      · simp only [hm, h2, Bool.false_eq_true, if_false, if_true, H1.Resp.Framing.cl.injEq] at hf hok ⊢
        subst hf
        cases isHead <;> simp_all
      · simp [hm, h2] at hf
  | limited l reads =>
    simp only [hb] at hf hok ⊢
    by_cases h1 : mustSkipCL p.status = true
    · simp [h1] at hf
    · have hm : mustSkipCL p.status = false := by simpa using h1
      simp only [hm, Bool.false_eq_true, if_false, H1.Resp.Framing.cl.injEq] at hf hok ⊢
      subst hf
      cases isHead <;> simp_all
  | writer s =>
    simp only [hb] at hf
    split at hf <;> simp at hf

/-- regression (old defect F13): `Write("ab"); Write(""); Write("cd")` decodes to `abcd`, one terminator. -/
example : chunks 4 (writerWire [.write [97, 98], .write [], .write [99, 100]] []) [] = some ([97, 98, 99, 100], [], []) := by
  decide +kernel

example : (frame { status := 204, body := .bytes [120] } false).wire = [] ∧
    (frame { status := 200, body := .bytes [120] } true).framing = .cl 1 := by decide

end Hertz.Props.C04
