import Hertz.Proofs.Resp
import Hertz.Proofs.RespMessage
import Hertz.Proofs.RespSeq
/-!
# C04 — every response put on the wire is one well-formed, correctly framed message

`H1.Resp.frame` models `resp.Write` / `writeBodyStream` / `ResponseHeader.SetContentLength` /
`MustSkipContentLength` / `Response.MustSkipBody` / `ext.WriteBodyFixedSize` / `ext.WriteBodyChunked` /
`ext.WriteChunk` / `bytesconv.WriteHexInt` and the hijacked `chunkedBodyWriter`; the header block is the
C05 model (`HW.RespHdr.bytes`, proved to read back as exactly the fields set).  The check runs handler
programs (status × body mode × sizes × method × keep-alive/close × HTTP/1.0/1.1 × sequences) on the real
server, decodes the real bytes with the strict reader `Spec.Resp.decodeOne` *and* with `net/http`, and
compares with the model's framing and body bytes.  Since round Q11 the check also compares the **whole
message**: the harness dumps, per handler invocation, the response header state the writer starts from
(all fields `ResponseHeader.AppendBytes` reads + the reason text; at the end of the handler, or immediately
before the first `Write` of a hijacked chunked writer), the driver builds `r : HW.RespHdr` from the dump,
applies the `Connection` edit `Server.Serve` makes after the handler (`close` / HTTP/1.0 `keep-alive`),
takes the `Date` value from the response itself, computes `message r prog isHead`
(`Model/Http1/RespMsg.lean`, the very definition `response_decodes` is about) for every response of the
connection and requires the concatenation to be **equal** to the bytes the real server wrote (a prefix of
them when the model says a body stream fails mid-message).  Handler programs now also set
`Content-Length` / `Transfer-Encoding` themselves through `Header.Set`, before or after the body; the
driver follows them with `setLengthHeader` / `withFraming` and cross-checks the framing fields it predicts
(`contentLength`, `contentLengthBytes`, `Transfer-Encoding` in the generic fields) against each dump.

Proved for all inputs:
* `chunk_size_roundtrip`: a hex chunk size written by `WriteHexInt` reads back as the same number;
* `streamed_body_decodes`: for a body stream of unknown length — any sequence of reads, any trailer —
  the strict chunk reader returns exactly the concatenation of the reads, the trailer fields, and the
  bytes that follow (so the next response starts exactly where this one ends);
* `writer_body_decodes`: the same for the hijacked chunked writer under **every** write/flush pattern,
  empty writes included (true since the fix of the empty-write defect; the old failing pattern is a
  regression example below);
* `bodiless_carry_no_body`: HEAD, 1xx, 204, 304 never put body bytes on the wire (hijacked writer
  excluded, as documented);
* `content_length_matches`: with `Content-Length: n` framing and no writer error, the body on the
  wire has exactly `n` bytes (or none for HEAD);
* `appendUint_roundtrip`: the decimal `AppendUint` writes (Content-Length value) reads back as the same number;
* `head_decodes`: header block + anything: the strict reader gets the status, exactly the kept fields and the
  writer's framing (C05's head theorem joined with the framing fields `SetContentLength` writes);
* `fixed_length_message`, `declared_stream_message`, `chunked_message`, `writer_message`, `bodiless_message`:
  the whole message per body kind, with the decoded message spelled out;
* **`response_decodes`** — the single end-to-end statement: for every header state satisfying `HeadOK`, every
  status 100..999, every body kind (bytes / stream of declared length / `io.LimitedReader` / unknown length /
  hijacked writer), HEAD or not, every trailer, and every `rest`:
  `decodeOne isHead (message r p isHead ++ rest) = some (expected r p isHead, rest)` — exactly one message,
  correctly framed, nothing left over, nothing swallowed; `two_responses_decode` for a pipeline;
* `response_decodes_any_state`: the same for every header state the setters can produce (`HeadInv`:
  Content-Length already set by `SetBodyStream`/`Header.Set`, `Transfer-Encoding: chunked` already in the
  generic fields), and `set_content_length_keeps_invariant`;
* where it is false: `response_decodes_fails_at_writer_on_head` (hijacked writer answering HEAD: the
  documented exclusion, now a theorem with the leftover bytes), `status_out_of_range_fails_at`
  (`SetStatusCode(1000)`/`(99)` written verbatim), `length_set_after_chunked_stream_fails_at`
  (finding: `SetBodyStream(r,-1)` + `Header.Set("Content-Length","5")` puts both framing headers on the
  wire with an unchunked body) — each replayed on the real server, bytes quoted in the statement.
  The third is repaired in /repo (db53447); the theorem stays as a statement about the header state
  `rBoth`, which the setters can no longer produce;
* `set_length_header_keeps_invariant`: the repaired setter (`setLengthHeader` = `setSpecialHeader` for
  `Content-Length`) maps every `HeadInv` state and every value `ParseContentLength` accepts to a `HeadInv`
  state declaring exactly that number; `set_length_header_ignores_unparseable`: any other value changes nothing;
* `length_header_after_chunked_stream_repaired`: the regression statement — the state after
  `SetBodyStream(r,-1)` + `Header.Set("Content-Length","5")` is inside the invariant, the message equals the
  bytes the repaired server writes (replayed), and decodes to the body with the rest untouched.

TODO-OPEN (what remains outside the theorems):
* (closed in round Q11) `message`/`withFraming` are now model definitions (`Model/Http1/RespMsg.lean`) and
  part of the correspondence check, see above: every explored case compares `message` byte for byte with
  the real output.  What the driver adds around `message` and is therefore still a per-case check, not a
  theorem: the construction of `r` from the dump (incl. "Content-Type line only if
  `ContentLength() != 0` or explicitly set", as in C05), the `Connection` edit of `Serve`, the effective
  program (`effProg`: a `Content-Length` set after `SetBodyStream` replaces the declared length), the `Date`;
* model limitation found while doing this (not a server defect): for a body stream whose length the header
  already declares, `writeBodyStream` makes no `SetContentLength` call, `message` re-applies
  `withFraming (.cl n)`; the two agree unless the handler wrote a non-canonical decimal
  (`Header.Set("Content-Length","05")` after `SetBodyStream`: real `Content-Length: 05`, model `5`; both
  well-formed, same framing).  The generator only emits canonical decimals after a stream;
* (closed by X04, section "the connection after a response" at the end of this file) a body stream that delivers
  fewer bytes than declared (`failed = true`): `short_stream_closes`, `short_stream_undecodable`,
  `short_stream_is_detected`; the `Connection` decision: `close_decision_cases`, `close_decision_announced`,
  `close_decision_keep_alive_1_0`, `close_decision_announced_fails_at_early_header`; sequencing:
  `responses_decode_in_sequence(_any_state)`, `answered_up_to_first_close`, `wire_is_concatenation`,
  `no_response_after_close(_wire)`.  The model of the loop
  is `Model/Http1/RespSeq.lean`, the client is `Spec/RespSeq.lean`; op `respq` compares the whole wire of
  pipelined connections with `RespSeq.wire 4096` byte for byte;
* still open after X04: the sequencing theorems assume `Good` / `GoodInv` exchanges — `HeadOK` resp. `HeadInv` header
  states (`responses_decode_in_sequence_any_state`; the short-stream theorems are stated for `HeadOK`), no generic field that reads
  `Connection: close` in any letter case (`Header.Set("Connection", "upgrade")` is inside the hypotheses;
  `Header.Set("Connection", "Close")` is exactly the excluded region and the known-finding class
  `connection-close-case`, repaired in /repo 9dcdbe5: `close_decision_announced_fails_at_close_case` is about a header state the setters no longer produce), the header's close flag equal to
  `Response.ConnectionClose()`; what a hijack handler itself writes after `Serve` hands the connection over is
  outside the model; `flushedBody` describes `standard.Conn.ReadFrom` (netpoll's writer has no `ReadFrom`: there
  `copyBuffer` flushes after every read — the theorems hold for every `cap`, the per-case comparison is for the
  standard transport); the request side of the decision (`ReqConn` from the request bytes) is C01's parser;
* header states outside `HeadInv` (generic field literally named Content-Length through `AddArgBytes`, a
  Content-Length that does not parse) are not covered.
-/
namespace Hertz.Props.C04
open Hertz Hertz.H1.Resp Hertz.Spec.Resp

theorem chunk_size_roundtrip (n : Nat) (h : n < 16 ^ 16) : parseHex (writeHexInt n) = some n :=
  parseHex_writeHexInt n h

theorem flatten_filter_nonempty (l : List Bytes) : (l.filter (fun r => !r.isEmpty)).flatten = l.flatten := by
  induction l with
  | nil => rfl
  | cons a t ih =>
    cases a with
    | nil => simpa using ih
    | cons x xs => simp [ih]

theorem streamed_body_decodes (reads : List Bytes) (tr : List (Bytes × Bytes)) (rest : Bytes)
    (h : ∀ r ∈ reads, r.length < 16 ^ 16) :
    chunks (reads.length + 1) (chunkedWire reads tr ++ rest) [] = some (reads.flatten, HW.kept tr, rest) := by
  unfold chunkedWire
  have := chunks_encode (reads.filter (fun r => !r.isEmpty)) tr rest [] (reads.length + 1)
    (by
      intro c hc
      simp only [List.mem_filter] at hc
      exact ⟨by intro e; simp [e] at hc, h c hc.1⟩)
    (Nat.lt_succ_of_le (List.length_filter_le _ _))
  rw [this, flatten_filter_nonempty]
  rfl

/-- bytes written through the hijacked writer, in order -/
def written (script : List WOp) : Bytes :=
  (script.filterMap (fun o => match o with | .write b => some b | .flush => none)).flatten

theorem written_eq (script : List WOp) :
    (script.filterMap (fun o => match o with | .write b => if b.isEmpty then none else some b | .flush => none)).flatten
      = written script := by
  induction script with
  | nil => rfl
  | cons o t ih =>
    cases o with
    | flush => simpa [written] using ih
    | write b =>
      cases b with
      | nil => simpa [written] using ih
      | cons x xs => simp [written] at ih ⊢; rw [ih]

/-- the chunks the hijacked writer emits: one per non-empty write -/
def wchunks (script : List WOp) : List Bytes :=
  script.filterMap (fun o => match o with | .write b => if b.isEmpty then none else some b | .flush => none)

theorem writer_body_decodes (script : List WOp) (tr : List (Bytes × Bytes)) (rest : Bytes)
    (h : ∀ o ∈ script, ∀ b, o = .write b → b.length < 16 ^ 16) :
    chunks (script.length + 1) (writerWire script tr ++ rest) [] = some (written script, HW.kept tr, rest) := by
  have hw : writerWire script tr = encodeChunks (wchunks script) ++ writeChunk [] ++ trailerBlock tr := rfl
  rw [hw]
  have := chunks_encode (wchunks script) tr rest [] (script.length + 1)
    (by
      intro c hc
      simp only [wchunks, List.mem_filterMap] at hc
      obtain ⟨o, ho, hoc⟩ := hc
      cases o with
      | flush => simp at hoc
      | write b =>
        have hoc' : (if b.isEmpty then none else some b) = some c := hoc
        by_cases hb : b.isEmpty = true
        · rw [if_pos hb] at hoc'; exact absurd hoc' (by simp)
        · rw [if_neg hb] at hoc'
          have e : b = c := by simpa using hoc'
          subst e
          exact ⟨by intro e; apply hb; simp [e], h _ ho b rfl⟩)
    (Nat.lt_succ_of_le (List.length_filterMap_le _ _))
  rw [this]
  simp only [wchunks, written_eq, List.nil_append]

theorem bodiless_carry_no_body (p : Prog) (isHead : Bool)
    (hw : ∀ s, p.body ≠ .writer s) (h : isHead = true ∨ noBodyStatus p.status = true) :
    (frame p isHead).wire = [] := by
  unfold frame
  rw [mustSkipCL_eq]
  have hs : (!(isHead || noBodyStatus p.status)) = false := by
    rcases h with h | h <;> simp [h]
  cases hb : p.body with
  | bytes b => simp [hs]
  | stream d reads => simp only; split <;> (try split) <;> simp [hs]
  | limited l reads => simp only; split <;> simp [hs]
  | writer s => exact absurd hb (hw s)

theorem content_length_matches (p : Prog) (isHead : Bool) (n : Nat)
    (hf : (frame p isHead).framing = .cl n) (hok : (frame p isHead).failed = false) :
    (frame p isHead).wire.length = n ∨ (frame p isHead).wire = [] := by
  unfold frame at hf hok ⊢
  cases hb : p.body with
  | bytes b =>
    simp only [hb] at hf hok ⊢
    split
    · left
      split at hf
      · simpa using hf
      · simp at hf
    · right; rfl
  | stream d reads =>
    simp only [hb] at hf hok ⊢
    by_cases h1 : mustSkipCL p.status = true
    · simp [h1] at hf
    · have hm : mustSkipCL p.status = false := by simpa using h1
      by_cases h2 : d ≥ 0
      · simp only [hm, h2, Bool.false_eq_true, if_false, if_true, H1.Resp.Framing.cl.injEq] at hf hok ⊢
        subst hf
        cases isHead <;> simp_all
      · simp [hm, h2] at hf
  | limited l reads =>
    simp only [hb] at hf hok ⊢
    by_cases h1 : mustSkipCL p.status = true
    · simp [h1] at hf
    · have hm : mustSkipCL p.status = false := by simpa using h1
      simp only [hm, Bool.false_eq_true, if_false, H1.Resp.Framing.cl.injEq] at hf hok ⊢
      subst hf
      cases isHead <;> simp_all
  | writer s =>
    simp only [hb] at hf
    split at hf <;> simp at hf

/-- regression (old defect F13): `Write("ab"); Write(""); Write("cd")` decodes to `abcd`, one terminator. -/
example : chunks 4 (writerWire [.write [97, 98], .write [], .write [99, 100]] []) [] = some ([97, 98, 99, 100], [], []) := by
  decide +kernel

example : (frame { status := 204, body := .bytes [120] } false).wire = [] ∧
    (frame { status := 200, body := .bytes [120] } true).framing = .cl 1 := by decide

/-! ## The whole message (head + body) through the strict reader

`message r p isHead` is everything the writer puts on the wire for one response: the header block of
the C05 model for the header state `withFraming r framing` (= `r` after the `SetContentLength` call
`resp.Write` / `writeBodyStream` / the hijacked writer make for the framing `frame` decides) followed by
the body bytes of `frame`.  `expected r p isHead` is the one message a reader must get: the status,
exactly the kept fields, the writer's framing, the handler's payload (nothing for HEAD/1xx/204/304) and
the trailer fields.  Hypotheses, each an explicit predicate:
* `HeadOK r status`: status line `HTTP/1.1 NNN reason` with `100 ≤ NNN ≤ 999` and a reason free of CR/LF;
  no `contentLengthBytes` yet; no generic field called Content-Length / Transfer-Encoding;
* `SizesFit p`: lengths are Go `int`s (`< 2^63`);
* `WriterHasBody p isHead`: the documented exclusion (hijacked writer on a bodiless response);
* `failed = false`: the body stream delivered what was declared (otherwise the writer reports an error
  and the connection is closed). -/

open Hertz.HW in
/-- (a) the decimal `AppendUint` writes reads back as the same number -/
theorem appendUint_roundtrip (n : Nat) (h : n < 2 ^ 63) :
    FS.appendUint (n : Int) = .ok (decimal n) ∧ parseDec (decimal n) = some n :=
  ⟨appendUint_decimal n (Nat.lt_trans h two63_lt), parseDec_decimal n (Nat.lt_trans h two63_lt)⟩

example : FS.appendUint 4096 = .ok [52, 48, 57, 54] ∧ parseDec [52, 48, 57, 54] = some 4096 := by decide

/-- the reader's opinion of the header alone: the status, exactly the kept fields, the writer's framing -/
theorem head_decodes (r : HW.RespHdr) (st : Nat) (f : H1.Resp.Framing) (isHead : Bool) (tail : Bytes)
    (hr : HeadOK r st) (hn : ∀ n, f = .cl n → n < 2 ^ 63) :
    decodeOne isHead ((withFraming r f).bytes ++ tail) =
      bodyOf isHead st (HW.kept (withFraming r f).fields) (toSpec f) tail :=
  decode_message r st f isHead tail hr (fun n e => Nat.lt_trans (hn n e) two63_lt)

/-- (b) fixed length: `SetBody`/`AppendBody`/`Write` with a status that may carry a body, not HEAD -/
theorem fixed_length_message (r : HW.RespHdr) (st : Nat) (b : Bytes) (tr : List (Bytes × Bytes)) (rest : Bytes)
    (hr : HeadOK r st) (hs : b.length < 2 ^ 63) (hb : noBodyStatus st = false) :
    decodeOne false (message r ⟨st, .bytes b, tr⟩ false ++ rest) =
      some ({ status := st, fields := HW.kept (withFraming r (.cl b.length)).fields, framing := .cl b.length,
              raw := b, body := b, trailers := [] }, rest) := by
  rw [message_with_body r ⟨st, .bytes b, tr⟩ rest hr hs (by simp [frame]) hb]
  simp [expected, payload, frame, mustSkipCL_eq, hb, toSpec]

/-- (b') body stream of declared length that delivers it -/
theorem declared_stream_message (r : HW.RespHdr) (st n : Nat) (reads : List Bytes) (tr : List (Bytes × Bytes))
    (rest : Bytes) (hr : HeadOK r st) (hn : n < 2 ^ 63) (hs : ∀ x ∈ reads, x.length < 2 ^ 63)
    (hlen : (takeStream n reads).length = n) (hb : noBodyStatus st = false) :
    decodeOne false (message r ⟨st, .stream n reads, tr⟩ false ++ rest) =
      some ({ status := st, fields := HW.kept (withFraming r (.cl n)).fields, framing := .cl n,
              raw := takeStream n reads, body := takeStream n reads, trailers := [] }, rest) := by
  rw [message_with_body r ⟨st, .stream n reads, tr⟩ rest hr ⟨by show ((n : Nat) : Int) < 2 ^ 63; omega, hs⟩
    (by simp [frame, mustSkipCL_eq, hb, hlen]) hb]
  simp [expected, payload, frame, mustSkipCL_eq, hb, toSpec]

/-- (c) unknown length: chunked, any sequence of reads, any trailer -/
theorem chunked_message (r : HW.RespHdr) (st : Nat) (reads : List Bytes) (tr : List (Bytes × Bytes)) (rest : Bytes)
    (hr : HeadOK r st) (hs : ∀ x ∈ reads, x.length < 2 ^ 63) (hb : noBodyStatus st = false) :
    decodeOne false (message r ⟨st, .stream (-1) reads, tr⟩ false ++ rest) =
      some ({ status := st, fields := HW.kept (withFraming r .chunked).fields, framing := .chunked,
              raw := chunkedWire reads tr, body := reads.flatten, trailers := HW.kept tr }, rest) := by
  rw [message_with_body r ⟨st, .stream (-1) reads, tr⟩ rest hr ⟨by decide, hs⟩ (by simp [frame, mustSkipCL_eq, hb]) hb]
  simp [expected, payload, frame, mustSkipCL_eq, hb, toSpec]

/-- (c') the hijacked chunked writer, every write/flush pattern -/
theorem writer_message (r : HW.RespHdr) (st : Nat) (script : List WOp) (tr : List (Bytes × Bytes)) (rest : Bytes)
    (hr : HeadOK r st) (hs : ∀ o ∈ script, ∀ b, o = .write b → b.length < 2 ^ 63) (hb : noBodyStatus st = false) :
    decodeOne false (message r ⟨st, .writer script, tr⟩ false ++ rest) =
      some ({ status := st, fields := HW.kept (withFraming r .chunked).fields, framing := .chunked,
              raw := writerWire script tr, body := writtenBytes script, trailers := HW.kept tr }, rest) := by
  rw [message_with_body r ⟨st, .writer script, tr⟩ rest hr hs (by simp [frame]) hb]
  simp [expected, payload, frame, mustSkipCL_eq, hb, toSpec]

/-- `writtenBytes` of the lemma file is `written` above -/
theorem writtenBytes_eq_written (script : List WOp) : writtenBytes script = written script := rfl

/-- (d) HEAD, 1xx, 204, 304: the header block is the whole message, whatever the handler set as body -/
theorem bodiless_message (r : HW.RespHdr) (p : Prog) (isHead : Bool) (rest : Bytes)
    (hr : HeadOK r p.status) (hs : SizesFit p) (hw : WriterHasBody p isHead)
    (hb : isHead = true ∨ noBodyStatus p.status = true) :
    decodeOne isHead (message r p isHead ++ rest) =
      some ({ status := p.status, fields := HW.kept (withFraming r (frame p isHead).framing).fields,
              framing := toSpec (frame p isHead).framing, raw := [], body := [], trailers := [] }, rest) := by
  have hb' : (isHead || noBodyStatus p.status) = true := by rcases hb with h | h <;> simp [h]
  rw [message_bodiless r p isHead rest hr hs hw hb']
  simp [expected, payload, hb', frame_wire_bodiless p isHead hw hb']

/-- (e) **every response is exactly one message**: for every header state, status, body kind, HEAD or
not, and whatever follows on the connection, the strict reader returns the status, exactly the kept
fields, the writer's framing, the handler's payload, the trailer fields — and `rest` untouched. -/
theorem response_decodes (r : HW.RespHdr) (p : Prog) (isHead : Bool) (rest : Bytes)
    (hr : HeadOK r p.status) (hs : SizesFit p) (hw : WriterHasBody p isHead)
    (hok : (frame p isHead).failed = false) :
    decodeOne isHead (message r p isHead ++ rest) = some (expected r p isHead, rest) :=
  message_decodes r p isHead rest hr hs hw hok

/-- consequence: a sequence of responses on one connection is read back one by one -/
theorem two_responses_decode (r1 r2 : HW.RespHdr) (p1 p2 : Prog) (h1 h2 : Bool) (rest : Bytes)
    (hr1 : HeadOK r1 p1.status) (hs1 : SizesFit p1) (hw1 : WriterHasBody p1 h1) (hok1 : (frame p1 h1).failed = false)
    (hr2 : HeadOK r2 p2.status) (hs2 : SizesFit p2) (hw2 : WriterHasBody p2 h2) (hok2 : (frame p2 h2).failed = false) :
    decodeOne h1 (message r1 p1 h1 ++ (message r2 p2 h2 ++ rest)) = some (expected r1 p1 h1, message r2 p2 h2 ++ rest) ∧
    decodeOne h2 (message r2 p2 h2 ++ rest) = some (expected r2 p2 h2, rest) :=
  ⟨message_decodes r1 p1 h1 _ hr1 hs1 hw1 hok1, message_decodes r2 p2 h2 rest hr2 hs2 hw2 hok2⟩

/-! ### non-vacuity: a concrete header state and what goes on the wire -/

/-- `HTTP/1.1 200 OK`, `Server: h`, `X-A: 1` and a hostile field `X\r\nB: 2` (dropped by `appendHeaderLine`) -/
def r0 : HW.RespHdr :=
  { statusLine := statusLineOf 200 [79, 75], server := [104], date := none, contentType := [], contentLength := 0,
    contentEncoding := [], clBytes := [], h := [([88, 45, 65], [49]), ([88, 13, 10, 66], [50])], trailer := [],
    cookies := [], connClose := false }

theorem r0_ok : HeadOK r0 200 := by
  refine ⟨by decide, by decide, ⟨[79, 75], by unfold NoCRLF; decide, rfl⟩, rfl, ?_⟩
  rw [sCL_eq, sTE_eq]
  decide

/-- `SetBodyString("hi")` -/
example : message r0 ⟨200, .bytes [104, 105], []⟩ false =
    -- HTTP/1.1 200 OK\r\nServer: h\r\nContent-Length: 2\r\nX-A: 1\r\n\r\nhi
    [72, 84, 84, 80, 47, 49, 46, 49, 32, 50, 48, 48, 32, 79, 75, 13, 10, 83, 101, 114, 118, 101, 114, 58, 32, 104, 13, 10,
     67, 111, 110, 116, 101, 110, 116, 45, 76, 101, 110, 103, 116, 104, 58, 32, 50, 13, 10, 88, 45, 65, 58, 32, 49, 13, 10,
     13, 10, 104, 105] := by decide +kernel

example (rest : Bytes) : decodeOne false (message r0 ⟨200, .bytes [104, 105], []⟩ false ++ rest) =
    some ({ status := 200, fields := [([83, 101, 114, 118, 101, 114], [104]),
              ([67, 111, 110, 116, 101, 110, 116, 45, 76, 101, 110, 103, 116, 104], [50]), ([88, 45, 65], [49])],
            framing := .cl 2, raw := [104, 105], body := [104, 105], trailers := [] }, rest) := by
  rw [fixed_length_message r0 200 [104, 105] [] rest r0_ok (by decide) (by decide)]
  have : HW.kept (withFraming r0 (.cl 2)).fields = [([83, 101, 114, 118, 101, 114], [104]),
      ([67, 111, 110, 116, 101, 110, 116, 45, 76, 101, 110, 103, 116, 104], [50]), ([88, 45, 65], [49])] := by
    decide +kernel
  simp [this]

/-- body stream of unknown length read as "a", "", "bc", with a trailer, on a HEAD request and not -/
example (rest : Bytes) :
    decodeOne false (message r0 ⟨200, .stream (-1) [[97], [], [98, 99]], [([88, 45, 84], [118])]⟩ false ++ rest) =
      some (expected r0 ⟨200, .stream (-1) [[97], [], [98, 99]], [([88, 45, 84], [118])]⟩ false, rest) ∧
    (expected r0 ⟨200, .stream (-1) [[97], [], [98, 99]], [([88, 45, 84], [118])]⟩ false).body = [97, 98, 99] ∧
    (expected r0 ⟨200, .stream (-1) [[97], [], [98, 99]], [([88, 45, 84], [118])]⟩ false).trailers = [([88, 45, 84], [118])] ∧
    (expected r0 ⟨200, .stream (-1) [[97], [], [98, 99]], [([88, 45, 84], [118])]⟩ true).body = [] :=
  ⟨response_decodes r0 _ false rest r0_ok (by simp [SizesFit]) (by intro s h; cases h) (by decide),
   by decide +kernel, by decide +kernel, by decide +kernel⟩

/-- 304 with a body set by the handler, and a HEAD answer -/
example (rest : Bytes) :
    decodeOne false (message { r0 with statusLine := statusLineOf 304 [78] } ⟨304, .bytes [120], []⟩ false ++ rest) =
      some (expected { r0 with statusLine := statusLineOf 304 [78] } ⟨304, .bytes [120], []⟩ false, rest) :=
  response_decodes _ _ false rest
    ⟨by decide, by decide, ⟨[78], by unfold NoCRLF; decide, rfl⟩, rfl, r0_ok.2.2.2.2⟩ (by simp [SizesFit]) (by intro s h; cases h) (by decide)

/-! ### the joined model against bytes the real server wrote

The three byte strings below are the output of the real `Engine.Serve` for the harness programs
`respw M:GET:1.1:0 B:6869`, `respw M:GET:1.1:0 BS:-1:61,,6263 TR:582d54:76` and
`respw M:HEAD:1.1:0 CW:w6869` (replayed with `bin/check C04 quick --replay`), header state as the
engine leaves it (`Server: hertz`, the date, the default content type). -/

def rReal : HW.RespHdr :=
  { statusLine := statusLineOf 200 [79, 75], server := [104, 101, 114, 116, 122],
    date := some [84, 117, 101, 44, 32, 50, 57, 32, 83, 101, 112, 32, 50, 48, 50, 54, 32, 48, 57, 58, 53, 52, 58, 49, 51, 32, 71, 77, 84],
    contentType := [116, 101, 120, 116, 47, 112, 108, 97, 105, 110, 59, 32, 99, 104, 97, 114, 115, 101, 116, 61, 117, 116, 102, 45, 56], contentLength := 0,
    contentEncoding := [], clBytes := [], h := [], trailer := [], cookies := [], connClose := false }

theorem rReal_ok : HeadOK rReal 200 :=
  ⟨by decide, by decide, ⟨[79, 75], by unfold NoCRLF; decide, rfl⟩, rfl, by intro kv h; cases h⟩

example : message rReal ⟨200, .bytes [104, 105], []⟩ false =
    [72, 84, 84, 80, 47, 49, 46, 49, 32, 50, 48, 48, 32, 79, 75, 13, 10, 83, 101, 114, 118, 101, 114, 58, 32, 104, 101, 114, 116, 122, 13, 10, 68, 97, 116, 101, 58, 32, 84, 117, 101, 44, 32, 50, 57, 32, 83, 101, 112, 32, 50, 48, 50, 54, 32, 48, 57, 58, 53, 52, 58, 49, 51, 32, 71, 77, 84, 13, 10, 67, 111, 110, 116, 101, 110, 116, 45, 84, 121, 112, 101, 58, 32, 116, 101, 120, 116, 47, 112, 108, 97, 105, 110, 59, 32, 99, 104, 97, 114, 115, 101, 116, 61, 117, 116, 102, 45, 56, 13, 10, 67, 111, 110, 116, 101, 110, 116, 45, 76, 101, 110, 103, 116, 104, 58, 32, 50, 13, 10, 13, 10, 104, 105] := by
  decide +kernel

example : message { rReal with trailer := [[88, 45, 84]] } ⟨200, .stream (-1) [[97], [], [98, 99]], [([88, 45, 84], [118])]⟩ false =
    [72, 84, 84, 80, 47, 49, 46, 49, 32, 50, 48, 48, 32, 79, 75, 13, 10, 83, 101, 114, 118, 101, 114, 58, 32, 104, 101, 114, 116, 122, 13, 10, 68, 97, 116, 101, 58, 32, 84, 117, 101, 44, 32, 50, 57, 32, 83, 101, 112, 32, 50, 48, 50, 54, 32, 48, 57, 58, 53, 52, 58, 49, 51, 32, 71, 77, 84, 13, 10, 67, 111, 110, 116, 101, 110, 116, 45, 84, 121, 112, 101, 58, 32, 116, 101, 120, 116, 47, 112, 108, 97, 105, 110, 59, 32, 99, 104, 97, 114, 115, 101, 116, 61, 117, 116, 102, 45, 56, 13, 10, 84, 114, 97, 110, 115, 102, 101, 114, 45, 69, 110, 99, 111, 100, 105, 110, 103, 58, 32, 99, 104, 117, 110, 107, 101, 100, 13, 10, 84, 114, 97, 105, 108, 101, 114, 58, 32, 88, 45, 84, 13, 10, 13, 10, 49, 13, 10, 97, 13, 10, 50, 13, 10, 98, 99, 13, 10, 48, 13, 10, 88, 45, 84, 58, 32, 118, 13, 10, 13, 10] := by
  decide +kernel

/-- the documented exclusion, as the real server behaves: a hijacked chunked writer answering a HEAD
request sends its chunks (`2\r\nhi\r\n0\r\n\r\n`) after the header block -/
example : message rReal ⟨200, .writer [.write [104, 105]], []⟩ true =
    [72, 84, 84, 80, 47, 49, 46, 49, 32, 50, 48, 48, 32, 79, 75, 13, 10, 83, 101, 114, 118, 101, 114, 58, 32, 104, 101, 114, 116, 122, 13, 10, 68, 97, 116, 101, 58, 32, 84, 117, 101, 44, 32, 50, 57, 32, 83, 101, 112, 32, 50, 48, 50, 54, 32, 48, 57, 58, 53, 52, 58, 49, 51, 32, 71, 77, 84, 13, 10, 67, 111, 110, 116, 101, 110, 116, 45, 84, 121, 112, 101, 58, 32, 116, 101, 120, 116, 47, 112, 108, 97, 105, 110, 59, 32, 99, 104, 97, 114, 115, 101, 116, 61, 117, 116, 102, 45, 56, 13, 10, 84, 114, 97, 110, 115, 102, 101, 114, 45, 69, 110, 99, 111, 100, 105, 110, 103, 58, 32, 99, 104, 117, 110, 107, 101, 100, 13, 10, 13, 10, 50, 13, 10, 104, 105, 13, 10, 48, 13, 10, 13, 10] := by
  decide +kernel

/-! ### any header state the setters can produce

`HeadOK` is the header before anything touched its framing fields.  `HeadInv r status d` is the
invariant the setters keep: no generic field called Content-Length; `contentLengthBytes` empty or a
decimal number; at most one generic field called Transfer-Encoding, spelled exactly so, with value
`chunked`, and never next to a Content-Length; `d` is what such a state declares by itself
(`Declares`).  The writer's `SetContentLength` overrides the declaration; where the writer makes no call
(HEAD or 1xx/204/304 with nothing to announce) the declaration goes out as it is, e.g. the
`Content-Length` a handler set on the answer to a HEAD request. -/

theorem response_decodes_any_state (r : HW.RespHdr) (d : Spec.Resp.Framing) (p : Prog) (isHead : Bool) (rest : Bytes)
    (hr : HeadInv r p.status d) (hs : SizesFit p) (hw : WriterHasBody p isHead)
    (hok : (frame p isHead).failed = false) :
    decodeOne isHead (message r p isHead ++ rest) =
      some ({ expected r p isHead with framing := effFraming d (frame p isHead).framing }, rest) :=
  message_decodes_inv r d p isHead rest hr hs hw hok

/-- `SetContentLength` keeps the invariant (so the theorem applies again to the next `Write` on the same header) -/
theorem set_content_length_keeps_invariant (r : HW.RespHdr) (st : Nat) (d : Spec.Resp.Framing) (f : H1.Resp.Framing)
    (hr : HeadInv r st d) (hn : ∀ n, f = .cl n → n < 2 ^ 63) : HeadInv (withFraming r f) st (effFraming d f) := by
  obtain ⟨h1, h2, h3, hcl, hd⟩ := hr
  obtain ⟨a, b⟩ := declares_withFraming r d f hcl hd (fun n e => Nat.lt_trans (hn n e) two63_lt)
  exact ⟨h1, h2, by rw [withFraming_statusLine]; exact h3, a, b⟩

/-- non-vacuity: `c.Header("Content-Length", "5")` on the answer to a HEAD request (replayed on the real
server: `respw M:HEAD:1.1:0 H:436f6e74656e742d4c656e677468:35`, these bytes) -/
def rDeclared : HW.RespHdr := { rReal with clBytes := [53], contentLength := 5 }

theorem rDeclared_inv : HeadInv rDeclared 200 (.cl 5) :=
  ⟨by decide, by decide, ⟨[79, 75], by unfold NoCRLF; decide, rfl⟩, (by intro kv h; cases h),
   (Declares.cl (r := rDeclared) (by decide) (by decide) (by intro kv h; cases h))⟩

example : message rDeclared ⟨200, .bytes [], []⟩ true =
    [72, 84, 84, 80, 47, 49, 46, 49, 32, 50, 48, 48, 32, 79, 75, 13, 10, 83, 101, 114, 118, 101, 114, 58, 32, 104, 101, 114, 116, 122, 13, 10, 68, 97, 116, 101, 58, 32, 84, 117, 101, 44, 32, 50, 57, 32, 83, 101, 112, 32, 50, 48, 50, 54, 32, 48, 57, 58, 53, 52, 58, 49, 51, 32, 71, 77, 84, 13, 10, 67, 111, 110, 116, 101, 110, 116, 45, 84, 121, 112, 101, 58, 32, 116, 101, 120, 116, 47, 112, 108, 97, 105, 110, 59, 32, 99, 104, 97, 114, 115, 101, 116, 61, 117, 116, 102, 45, 56, 13, 10, 67, 111, 110, 116, 101, 110, 116, 45, 76, 101, 110, 103, 116, 104, 58, 32, 53, 13, 10, 13, 10] := by
  decide +kernel

example (rest : Bytes) : (decodeOne true (message rDeclared ⟨200, .bytes [], []⟩ true ++ rest)).map
      (fun m => (m.1.framing, m.1.body, m.2)) = some (.cl 5, [], rest) := by
  rw [response_decodes_any_state rDeclared (.cl 5) _ true rest rDeclared_inv (by simp [SizesFit])
    (by intro s h; cases h) (by decide)]
  rfl

/-- non-vacuity, chunked declaration overridden: `SetBodyStream(r, -1)` then `SetBody("hi")` -/
example (rest : Bytes) :
    (decodeOne false (message { rReal with h := [([88, 45, 65], [49]), (Gen.Str.strTransferEncoding, Gen.Str.strChunked)] }
        ⟨200, .bytes [104, 105], []⟩ false ++ rest)).map (fun m => (m.1.framing, m.1.body, m.2)) =
      some (.cl 2, [104, 105], rest) := by
  rw [response_decodes_any_state _ .chunked _ false rest
    ⟨by decide, by decide, ⟨[79, 75], by unfold NoCRLF; decide, rfl⟩,
      by unfold NoName; rw [sCL_eq]; decide,
      (Declares.chunked [([88, 45, 65], [49])] [] rfl rfl (by unfold NoName; rw [sTE_eq]; decide) (by intro kv h; cases h))⟩
    (by simp [SizesFit]) (by intro s h; cases h) (by decide)]
  rfl

/-- **Finding** (outside the invariant, real server): `SetBodyStream(r, -1)` followed by
`Header.Set("Content-Length", "5")` — the Content-Length setter stores the value without deleting the
`Transfer-Encoding: chunked` that `SetBodyStream` put into the generic fields, and `writeBodyStream` then
sees `ContentLength() = 5 ≥ 0`, so it makes no `SetContentLength` call and copies the stream unchunked.
The response carries both framing headers and a body that is not chunk-encoded
(`respw M:GET:1.1:0 BS:-1:6162636465 H:436f6e74656e742d4c656e677468:35`, these bytes); the strict
reader rejects it and so does `net/http.ReadResponse`. -/
def rBoth : HW.RespHdr :=
  { rReal with date := some [84, 117, 101, 44, 32, 50, 57, 32, 83, 101, 112, 32, 50, 48, 50, 54, 32, 48, 57, 58, 53, 53, 58, 51, 53, 32, 71, 77, 84], clBytes := [53], contentLength := 5,
               h := [(Gen.Str.strTransferEncoding, Gen.Str.strChunked)] }

theorem length_set_after_chunked_stream_fails_at :
    rBoth.bytes ++ [97, 98, 99, 100, 101] =
      [72, 84, 84, 80, 47, 49, 46, 49, 32, 50, 48, 48, 32, 79, 75, 13, 10, 83, 101, 114, 118, 101, 114, 58, 32, 104, 101, 114, 116, 122, 13, 10, 68, 97, 116, 101, 58, 32, 84, 117, 101, 44, 32, 50, 57, 32, 83, 101, 112, 32, 50, 48, 50, 54, 32, 48, 57, 58, 53, 53, 58, 51, 53, 32, 71, 77, 84, 13, 10, 67, 111, 110, 116, 101, 110, 116, 45, 84, 121, 112, 101, 58, 32, 116, 101, 120, 116, 47, 112, 108, 97, 105, 110, 59, 32, 99, 104, 97, 114, 115, 101, 116, 61, 117, 116, 102, 45, 56, 13, 10, 67, 111, 110, 116, 101, 110, 116, 45, 76, 101, 110, 103, 116, 104, 58, 32, 53, 13, 10, 84, 114, 97, 110, 115, 102, 101, 114, 45, 69, 110, 99, 111, 100, 105, 110, 103, 58, 32, 99, 104, 117, 110, 107, 101, 100, 13, 10, 13, 10, 97, 98, 99, 100, 101] ∧
    decodeOne false (rBoth.bytes ++ [97, 98, 99, 100, 101]) = none := by
  refine ⟨by decide +kernel, ?_⟩
  refine decodeOne_none_of_framing false _ rBoth.statusLine _ _ 200
    (HW.parseHead_block rBoth.statusLine _ [97, 98, 99, 100, 101] (by decide)) (by decide +kernel) ?_
  have : HW.kept rBoth.fields =
      [(Gen.Str.strServer, rBoth.server), (Gen.Str.strDate, [84, 117, 101, 44, 32, 50, 57, 32, 83, 101, 112, 32, 50, 48, 50, 54, 32, 48, 57, 58, 53, 53, 58, 51, 53, 32, 71, 77, 84]),
       (Gen.Str.strContentType, rBoth.contentType), (Gen.Str.strContentLength, [53]),
       (Gen.Str.strTransferEncoding, Gen.Str.strChunked)] := by decide +kernel
  rw [this]
  simp only [framingOf, sCL_eq, sTE_eq]
  decide +kernel

/-! ### the repaired `Content-Length` setter

/repo commit db53447: `ResponseHeader.setSpecialHeader` for `Content-Length` with a value
`protocol.ParseContentLength` accepts now also deletes the generic `Transfer-Encoding` field (as
`SetContentLength(n ≥ 0)` always did); a value that does not parse is ignored.  `setLengthHeader`
(`Model/Http1/RespMsg.lean`) is the model of that setter; the driver follows every
`Header.Set("Content-Length", v)` of a handler program with it and compares the framing fields it
predicts with the header state dumped from the real server. -/

/-- the repaired setter keeps the invariant and makes the header declare the number it was given:
`Header.Set("Content-Length", v)` with `ParseContentLength(v) = n` on any reachable header state -/
theorem set_length_header_keeps_invariant (r : HW.RespHdr) (st : Nat) (d : Spec.Resp.Framing) (v : Bytes) (n : Int)
    (hr : HeadInv r st d) (hp : FS.parseUint v = .ok n) : HeadInv (setLengthHeader r v) st (.cl n.toNat) := by
  obtain ⟨h1, h2, h3, hcl, hd⟩ := hr
  obtain ⟨a, b⟩ := declares_setLengthHeader r d v n hcl hd hp
  exact ⟨h1, h2, by rw [setLengthHeader_statusLine]; exact h3, a, b⟩

/-- a value `ParseContentLength` rejects (empty, a non-digit anywhere, ≥ 2^63) leaves the header untouched -/
theorem set_length_header_ignores_unparseable (r : HW.RespHdr) (v : Bytes) (e : FS.UErr)
    (h : FS.parseUint v = .error e) : setLengthHeader r v = r :=
  setLengthHeader_error r v e h

/-- non-vacuity: `x`, the empty value and `5x` are rejected -/
example : setLengthHeader rReal [120] = rReal ∧ setLengthHeader rReal [] = rReal ∧ setLengthHeader rReal [53, 120] = rReal :=
  ⟨set_length_header_ignores_unparseable _ _ .trailing (by decide +kernel),
   set_length_header_ignores_unparseable _ _ .empty (by decide +kernel),
   set_length_header_ignores_unparseable _ _ .trailing (by decide +kernel)⟩

/-- the engine's default header at the time of the replay below -/
def rNow : HW.RespHdr := { rReal with date := some [84, 117, 101, 44, 32, 50, 57, 32, 83, 101, 112, 32, 50, 48, 50, 54, 32, 49, 50, 58, 51, 54, 58, 52, 48, 32, 71, 77, 84] }

theorem rNow_ok : HeadOK rNow 200 :=
  ⟨by decide, by decide, ⟨[79, 75], by unfold NoCRLF; decide, rfl⟩, rfl, by intro kv h; cases h⟩

/-- `SetBodyStream(r, -1)` (→ `SetContentLength(-1)`) followed by `Header.Set("Content-Length", "5")`, on the
repaired code: the header state the writer starts from -/
def rRepaired : HW.RespHdr := setLengthHeader (withFraming rNow .chunked) [53]

/-- **Regression statement for the repaired finding**: the state reached by `SetBodyStream(r, -1)` then
`Header.Set("Content-Length", "5")` is inside the invariant again and declares `Content-Length: 5`;
`writeBodyStream` reads `ContentLength() = 5` and sends the stream as a fixed-size body, i.e. the program
the writer sees is `.stream 5 …`; the message is byte for byte what the real server writes now for
`respw M:GET:1.1:0 BS:-1:6162636465 H:436f6e74656e742d4c656e677468:35` (replayed, these bytes: one
`Content-Length: 5`, no `Transfer-Encoding`), and the strict reader decodes it to the body `abcde` with the
following bytes untouched.  (Before the repair the state was `rBoth`, see
`length_set_after_chunked_stream_fails_at`.) -/
theorem length_header_after_chunked_stream_repaired (rest : Bytes) :
    HeadInv rRepaired 200 (.cl 5) ∧
    message rRepaired ⟨200, .stream 5 [[97, 98, 99, 100, 101]], []⟩ false =
      [72, 84, 84, 80, 47, 49, 46, 49, 32, 50, 48, 48, 32, 79, 75, 13, 10, 83, 101, 114, 118, 101, 114, 58, 32, 104, 101, 114, 116, 122, 13, 10, 68, 97, 116, 101, 58, 32, 84, 117, 101, 44, 32, 50, 57, 32, 83, 101, 112, 32, 50, 48, 50, 54, 32, 49, 50, 58, 51, 54, 58, 52, 48, 32, 71, 77, 84, 13, 10, 67, 111, 110, 116, 101, 110, 116, 45, 84, 121, 112, 101, 58, 32, 116, 101, 120, 116, 47, 112, 108, 97, 105, 110, 59, 32, 99, 104, 97, 114, 115, 101, 116, 61, 117, 116, 102, 45, 56, 13, 10, 67, 111, 110, 116, 101, 110, 116, 45, 76, 101, 110, 103, 116, 104, 58, 32, 53, 13, 10, 13, 10, 97, 98, 99, 100, 101] ∧
    decodeOne false (message rRepaired ⟨200, .stream 5 [[97, 98, 99, 100, 101]], []⟩ false ++ rest) =
      some ({ status := 200, fields := HW.kept (withFraming rRepaired (.cl 5)).fields, framing := .cl 5,
              raw := [97, 98, 99, 100, 101], body := [97, 98, 99, 100, 101], trailers := [] }, rest) := by
  have hinv : HeadInv rRepaired 200 (.cl 5) :=
    set_length_header_keeps_invariant _ 200 _ [53] 5
      (set_content_length_keeps_invariant rNow 200 .none .chunked rNow_ok.inv (by intro n h; cases h))
      (by decide +kernel)
  refine ⟨hinv, by decide +kernel, ?_⟩
  rw [response_decodes_any_state rRepaired (.cl 5) _ false rest hinv (by simp [SizesFit]) (by intro s h; cases h)
    (by decide)]
  generalize rRepaired = R
  rfl

/-- the repaired state no longer carries the `Transfer-Encoding` field, the old one did -/
example : rRepaired.h = [] ∧ rRepaired.clBytes = [53] ∧ rRepaired.contentLength = 5 ∧
    rBoth.h = [(Gen.Str.strTransferEncoding, Gen.Str.strChunked)] := by decide +kernel

/-! ### where the statement is false: the hypotheses cannot be dropped -/

/-- Without `WriterHasBody` the statement is false: a hijacked chunked writer on a HEAD request
(`respw M:HEAD:1.1:0 CW:w6869`) writes `2\r\nhi\r\n0\r\n\r\n` after the header block; a reader that
knows the request was HEAD takes these 12 bytes for the start of the next response. -/
theorem response_decodes_fails_at_writer_on_head :
    ¬ (∀ (r : HW.RespHdr) (p : Prog) (isHead : Bool) (rest : Bytes), HeadOK r p.status → SizesFit p →
        (frame p isHead).failed = false →
        decodeOne isHead (message r p isHead ++ rest) = some (expected r p isHead, rest)) := by
  intro H
  have h := H rReal ⟨200, .writer [.write [104, 105]], []⟩ true [] rReal_ok (by simp [SizesFit]) (by decide)
  rw [message_bodiless_leftover rReal _ true [] rReal_ok (by simp [SizesFit]) (by decide)] at h
  simp only [Option.some.injEq, Prod.mk.injEq] at h
  exact absurd h.2 (by decide)

/-- what is left over in that case -/
theorem writer_on_head_leftover (rest : Bytes) :
    (decodeOne true (message rReal ⟨200, .writer [.write [104, 105]], []⟩ true ++ rest)).map (·.2) =
      some ([50, 13, 10, 104, 105, 13, 10, 48, 13, 10, 13, 10] ++ rest) := by
  rw [message_bodiless_leftover rReal _ true rest rReal_ok (by simp [SizesFit]) (by decide)]
  rfl

/-- `response_decodes` is the `_partial` statement: the same with the excluding hypothesis spelled out -/
theorem response_decodes_partial (r : HW.RespHdr) (p : Prog) (isHead : Bool) (rest : Bytes)
    (hr : HeadOK r p.status) (hs : SizesFit p)
    (hw : ∀ s, p.body = .writer s → isHead = false ∧ noBodyStatus p.status = false)
    (hok : (frame p isHead).failed = false) :
    decodeOne isHead (message r p isHead ++ rest) = some (expected r p isHead, rest) :=
  message_decodes r p isHead rest hr hs hw hok

/-- `Unknown Status Code` -/
def strUnknownStatus : Bytes := [85, 110, 107, 110, 111, 119, 110, 32, 83, 116, 97, 116, 117, 115, 32, 67, 111, 100, 101]

/-- Without `100 ≤ status ≤ 999` in `HeadOK` it is false as well: `SetStatusCode(1000)` and
`SetStatusCode(99)` are written verbatim (`HTTP/1.1 1000 Unknown Status Code`), which is not a status line
(the strict reader and `net/http.ReadResponse` both reject it). -/
theorem status_out_of_range_fails_at :
    decodeOne false (message { rReal with statusLine := statusLineOf 1000 strUnknownStatus } ⟨1000, .bytes [104, 105], []⟩ false) = none ∧
    decodeOne false (message { rReal with statusLine := statusLineOf 99 strUnknownStatus } ⟨99, .bytes [104, 105], []⟩ false) = none := by
  constructor
  · refine decodeOne_none_of_status false _ (statusLineOf 1000 strUnknownStatus) _ _
      (HW.parseHead_block (statusLineOf 1000 strUnknownStatus) _ [104, 105] (by decide)) (by decide +kernel)
  · refine decodeOne_none_of_status false _ (statusLineOf 99 strUnknownStatus) _ _
      (HW.parseHead_block (statusLineOf 99 strUnknownStatus) _ [104, 105] (by decide)) (by decide +kernel)

/-- the first of these, as the real server writes it (`respw M:GET:1.1:0 ST:1000 B:6869`) -/
example : message { rReal with statusLine := statusLineOf 1000 strUnknownStatus } ⟨1000, .bytes [104, 105], []⟩ false =
    [72, 84, 84, 80, 47, 49, 46, 49, 32, 49, 48, 48, 48, 32, 85, 110, 107, 110, 111, 119, 110, 32, 83, 116, 97, 116, 117, 115, 32, 67, 111, 100, 101, 13, 10, 83, 101, 114, 118, 101, 114, 58, 32, 104, 101, 114, 116, 122, 13, 10, 68, 97, 116, 101, 58, 32, 84, 117, 101, 44, 32, 50, 57, 32, 83, 101, 112, 32, 50, 48, 50, 54, 32, 48, 57, 58, 53, 52, 58, 49, 51, 32, 71, 77, 84, 13, 10, 67, 111, 110, 116, 101, 110, 116, 45, 84, 121, 112, 101, 58, 32, 116, 101, 120, 116, 47, 112, 108, 97, 105, 110, 59, 32, 99, 104, 97, 114, 115, 101, 116, 61, 117, 116, 102, 45, 56, 13, 10, 67, 111, 110, 116, 101, 110, 116, 45, 76, 101, 110, 103, 116, 104, 58, 32, 50, 13, 10, 13, 10, 104, 105] := by
  decide +kernel

/-! ## X04 — the connection after a response: sequencing, short streams, the `Connection` decision

`H1.RespSeq` (Model/Http1/RespSeq.lean) is the write side of `Serve`'s keep-alive loop for a list of exchanges;
`Spec.Resp.decodeSeq` (Spec/RespSeq.lean) is the client reading the connection with the strict reader.  `cap` is
the size of the connection's output buffer (what `standard.Conn.ReadFrom` had flushed of a short stream); every
statement holds for every `cap`. -/
section Seq
open Hertz.H1.RespSeq Hertz.Gen.Str

/-- **each next response starts exactly where the previous one ends**: for every list of exchanges with `HeadOK`
header states (no writer failing), the client reads back exactly the responses of the exchanges `Serve` answered
— all of them up to and including the first one that closes (or hijacks) — and nothing is left over -/
theorem responses_decode_in_sequence (cap : Nat) (xs : List Exch) (hg : ∀ e ∈ xs, Good e ∧ e.early = false)
    (hf : ∀ e ∈ xs, failed e = false) :
    decodeSeq (xs.map (·.isHead)) (wire cap xs) = some ((answered xs).map expMsg, []) :=
  decodeSeq_wire cap xs hg hf

/-- what "answered" means: the exchanges before the first one that ends `Serve`'s loop (close decision, hijack, writer
error), and that one too unless its writer failed; always an initial segment of the request stream -/
theorem answered_up_to_first_close (pre : List Exch) (e : Exch) (es : List Exch) (hp : ∀ x ∈ pre, stops x = false)
    (hs : stops e = true) : answered (pre ++ e :: es) = if failed e then pre else pre ++ [e] :=
  answered_upto pre e es hp hs

theorem answered_is_prefix (xs : List Exch) : answered xs <+: xs := answered_prefix xs

theorem answered_everything_on_keep_alive (xs : List Exch) (h : ∀ x ∈ xs, stops x = false) : answered xs = xs :=
  answered_all xs h

/-- the messages of exchanges that keep the connection stand one behind the other, then the rest of the loop -/
theorem wire_is_concatenation (cap : Nat) (pre es : List Exch) (h : ∀ x ∈ pre, stops x = false) :
    wire cap (pre ++ es) = (pre.map msg).flatten ++ wire cap es :=
  wire_append_go cap pre es h

/-- **a stream shorter than declared is the last thing on the wire**, for every continuation `es` of the request
stream and wherever the exchange stands; what is written of it is the header block and whole buffers of the bytes
delivered (`partialMsg`) -/
theorem short_stream_closes (cap : Nat) (pre : List Exch) (e : Exch) (es : List Exch) (hf : failed e = true) :
    wire cap (pre ++ e :: es) = wire cap (pre ++ [e]) ∧
    ((∀ x ∈ pre, stops x = false) → wire cap (pre ++ e :: es) = (pre.map msg).flatten ++ partialMsg cap e) := by
  have hs : stops e = true := by simp [stops, hf]
  refine ⟨wire_after_stop cap pre e es hs, fun hp => ?_⟩
  rw [wire_after_stop cap pre e es hs, wire_append_go cap pre [e] hp, wire_failed_last cap e hf]

/-- what is written of it cannot be taken for a complete message … -/
theorem short_stream_undecodable (cap : Nat) (e : Exch) (g : Good e) (hf : failed e = true) :
    decodeOne e.isHead (partialMsg cap e) = none :=
  partial_undecodable cap e g hf

/-- … so the client gets an error for that connection, never a body the handler did not produce (seed C04-m5
breaks exactly this: the next response was taken for the rest of the body) -/
theorem short_stream_is_detected (cap : Nat) (pre : List Exch) (e : Exch) (es : List Exch) (g : Good e)
    (hf : failed e = true) (hp : ∀ x ∈ pre, Good x ∧ x.early = false ∧ stops x = false) :
    decodeSeq ((pre ++ e :: es).map (·.isHead)) (wire cap (pre ++ e :: es)) = none :=
  decodeSeq_short cap e es g hf pre hp

/-- **close decision, the rule**: `Serve` closes after an exchange exactly for: server not keeping connections,
request `Connection: close`, HTTP/1.0 request without `Connection: keep-alive`, response marked close (handler, or
`Serve`'s own error answer) -/
theorem close_decision_cases (e : Exch) :
    closes e = true ↔ e.srvClose = true ∨ e.reqConn = .close ∨ (e.http11 = false ∧ e.reqConn ≠ .keepAlive) ∨ e.respClose = true :=
  closes_iff e

/-- **close decision, announced**: the response the client reads carries `Connection: close` exactly when the model
closes (header block not sent early by the hijacked writer) -/
theorem close_decision_announced (e : Exch) (g : Good e) (he : e.early = false) : saysClose (expMsg e) = closes e :=
  saysClose_expMsg e g he

/-- an HTTP/1.0 peer whose connection is kept reads `Connection: keep-alive` -/
theorem close_decision_keep_alive_1_0 (e : Exch) (he : e.early = false) (hc : closes e = false) (hv : e.http11 = false) :
    saysKeepAlive (expMsg e) = true :=
  saysKeepAlive_expMsg e he hc hv

/-- **nothing follows** an exchange after which `Serve` leaves its loop (close decision, writer error, hijack) -/
theorem no_response_after_close (cap : Nat) (pre : List Exch) (e : Exch) (es : List Exch) (h : stops e = true) :
    wire cap (pre ++ e :: es) = wire cap (pre ++ [e]) :=
  wire_after_stop cap pre e es h

theorem no_response_after_close_wire (cap : Nat) (pre : List Exch) (e : Exch) (es : List Exch) (h : closes e = true)
    (hok : failed e = false) (hp : ∀ x ∈ pre, stops x = false) :
    wire cap (pre ++ e :: es) = (pre.map msg).flatten ++ msg e := by
  have hs : stops e = true := by simp [stops, h]
  rw [wire_after_stop cap pre e es hs, wire_append_go cap pre [e] hp]
  simp [wire, hok, h]

/-! ### non-vacuity, and where the announcement is false -/

/-- `GET` HTTP/1.1 answered `200` with body `hi` -/
def xHi : Exch := { http11 := true, reqConn := .absent, isHead := false, r := rReal, p := ⟨200, .bytes [104, 105], []⟩, respClose := false }
/-- `SetBodyStream(r, 5)` whose reader delivers `ab` and then `io.EOF` -/
def xShort : Exch := { xHi with p := ⟨200, .stream 5 [[97, 98]], []⟩ }
/-- an HTTP/1.0 request with `Connection: keep-alive` -/
def xOld : Exch := { xHi with http11 := false, reqConn := .keepAlive }
/-- `ctx.SetConnectionClose()` -/
def xBye : Exch := { xHi with r := { rReal with connClose := true }, respClose := true }

theorem good_of_rReal (e : Exch) (h1 : e.r.h = []) (h2 : e.r.statusLine = rReal.statusLine) (h3 : e.r.clBytes = [])
    (h4 : e.p.status = 200) (hs : SizesFit e.p) (hw : WriterHasBody e.p e.isHead) (hc : e.r.connClose = e.respClose) : Good e :=
  { head := by
      rw [h4]
      exact ⟨by decide, by decide, ⟨[79, 75], by unfold NoCRLF; decide, h2⟩, h3, by intro kv h; rw [h1] at h; cases h⟩
    sizes := hs, writer := hw, noConn := by intro kv h; rw [h1] at h; cases h
    flag := hc }

theorem xHi_good : Good xHi := good_of_rReal _ rfl rfl rfl rfl (by simp [xHi, SizesFit]) (by intro s h; cases h) rfl
theorem xOld_good : Good xOld := good_of_rReal _ rfl rfl rfl rfl (by simp [xOld, xHi, SizesFit]) (by intro s h; cases h) rfl
theorem xBye_good : Good xBye := good_of_rReal _ rfl rfl rfl rfl (by simp [xBye, xHi, SizesFit]) (by intro s h; cases h) rfl
theorem xShort_good : Good xShort :=
  good_of_rReal _ rfl rfl rfl rfl (by simp [xShort, xHi, SizesFit]) (by intro s h; cases h) rfl

example : failed xShort = true ∧ failed xHi = false ∧ closes xBye = true ∧ closes xOld = false := by decide

example : answered [xHi, xOld, xBye, xHi] = [xHi, xOld, xBye] ∧ answered [xHi, xShort, xHi] = [xHi] := by
  constructor
  · exact answered_up_to_first_close [xHi, xOld] xBye [xHi]
      (by intro x hx; simp only [List.mem_cons, List.not_mem_nil, or_false] at hx; rcases hx with rfl | rfl <;> decide) (by decide)
  · exact answered_up_to_first_close [xHi] xShort [xHi]
      (by intro x hx; simp only [List.mem_singleton] at hx; subst hx; decide) (by decide)


/-- three requests, the third asks to close, a fourth is never answered -/
example : decodeSeq [false, false, false, false] (wire 4096 [xHi, xOld, xBye, xHi]) = some ([expMsg xHi, expMsg xOld, expMsg xBye], []) :=
  responses_decode_in_sequence 4096 [xHi, xOld, xBye, xHi]
    (by intro e he; simp only [List.mem_cons, List.not_mem_nil, or_false] at he
        rcases he with rfl | rfl | rfl | rfl
        · exact ⟨xHi_good, rfl⟩
        · exact ⟨xOld_good, rfl⟩
        · exact ⟨xBye_good, rfl⟩
        · exact ⟨xHi_good, rfl⟩)
    (by decide)

/-- replayed on the real server (`respq Q:GET:1.1:- ST:200 B:6869 / Q:GET:1.1:- ST:200 BS:5:6162 / Q:GET:1.1:- ST:200 B:6869`):
the first response, then the header block announcing 5 bytes, and nothing else — the two bytes delivered are still in
the output buffer when `Serve` returns -/
example : wire 4096 [xHi, xShort, xHi] = msg xHi ++ (withFraming rReal (.cl 5)).bytes := by decide +kernel

example : decodeSeq [false, false, false] (wire 4096 [xHi, xShort, xHi]) = none :=
  short_stream_is_detected 4096 [xHi] xShort [xHi] xShort_good (by decide)
    (by intro x hx; simp only [List.mem_singleton] at hx; subst hx; exact ⟨xHi_good, rfl, by decide⟩)

example : saysKeepAlive (expMsg xOld) = true ∧ saysClose (expMsg xBye) = true ∧ saysClose (expMsg xHi) = false :=
  ⟨close_decision_keep_alive_1_0 xOld rfl (by decide) rfl,
   by rw [close_decision_announced xBye xBye_good rfl]; decide,
   by rw [close_decision_announced xHi xHi_good rfl]; decide⟩

/-- the hijacked chunked writer sends the header block with its first `Write`; a `ctx.SetConnectionClose()` after
that closes the connection without the response saying so (`respq Q:GET:1.1:- ST:200 CW:w6869 CC / …`) -/
def xEarly : Exch :=
  { xHi with p := ⟨200, .writer [.write [104, 105]], []⟩, respClose := true, early := true }

theorem close_decision_announced_fails_at_early_header :
    ¬ (∀ e : Exch, HeadOK e.r e.p.status → NoConn e.r.h → saysClose (expMsg e) = closes e) := by
  intro H
  have h := H xEarly rReal_ok (by intro kv h; cases h)
  have h1 : closes xEarly = true := by decide
  have h2 : saysClose (expMsg xEarly) = false :=
    saysClose_expMsg_early xEarly (by intro kv h; cases h) rfl
  rw [h1, h2] at h
  cases h

/-- the same **for every header state the setters can reach** (`HeadInv`: `Content-Length` already set by
`SetBodyStream` / `Header.Set`, `Transfer-Encoding: chunked` already among the generic fields); `d e` is what the header
state of `e` declares by itself, the response read back has the framing `effFraming (d e) (writer's framing)` -/
theorem responses_decode_in_sequence_any_state (cap : Nat) (d : Exch → Spec.Resp.Framing) (xs : List Exch)
    (hg : ∀ e ∈ xs, GoodInv (d e) e ∧ e.early = false) (hf : ∀ e ∈ xs, failed e = false) :
    decodeSeq (xs.map (·.isHead)) (wire cap xs) = some ((answered xs).map (fun e => expMsgInv (d e) e), []) :=
  decodeSeq_wire_inv cap d xs hg hf

/-- `c.Header("Content-Length", "5")` on the answer to a HEAD request, then an ordinary exchange -/
def xDeclared : Exch := { xHi with isHead := true, r := rDeclared, p := ⟨200, .bytes [], []⟩ }

theorem xDeclared_good : GoodInv (.cl 5) xDeclared :=
  { head := rDeclared_inv, sizes := by simp [xDeclared, xHi, SizesFit], writer := by intro s h; cases h
    noConn := by intro kv h; cases h
    flag := rfl }

example : decodeSeq [true, false] (wire 4096 [xDeclared, xHi]) =
    some ([expMsgInv (.cl 5) xDeclared, expMsgInv .none xHi], []) :=
  responses_decode_in_sequence_any_state 4096 (fun e => if e.isHead then .cl 5 else .none) [xDeclared, xHi]
    (by intro e he; simp only [List.mem_cons, List.not_mem_nil, or_false] at he
        rcases he with rfl | rfl
        · exact ⟨xDeclared_good, rfl⟩
        · exact ⟨xHi_good.inv, rfl⟩)
    (by decide)

/-- `Header.Set("Connection", "Close")`: not the bytes `close`, so the value is stored as a generic field and the
close flag stays clear -/
def xCloseCase : Exch := { xHi with r := { rReal with h := [(strConnection, [67, 108, 111, 115, 101])] } }
/-- `Header.Set("Connection", "upgrade")` is inside the hypotheses -/
def xUpgrade : Exch := { xHi with r := { rReal with h := [(strConnection, [117, 112, 103, 114, 97, 100, 101])] } }

theorem xUpgrade_good : Good xUpgrade :=
  { head := ⟨by decide, by decide, ⟨[79, 75], by unfold NoCRLF; decide, rfl⟩, rfl, by
      intro kv h
      simp only [xUpgrade, xHi, List.mem_singleton] at h
      subst h
      exact ⟨sCL_ne_conn, sTE_ne_conn⟩⟩
    sizes := by simp [xUpgrade, xHi, SizesFit], writer := by intro s h; cases h
    noConn := by
      intro kv h
      simp only [xUpgrade, xHi, List.mem_singleton] at h
      subst h
      exact Or.inr (by decide +kernel)
    flag := rfl }

example : saysClose (expMsg xUpgrade) = false := by
  rw [close_decision_announced xUpgrade xUpgrade_good rfl]; decide

/-- **why the hypothesis on the generic fields is there** (the former finding `connection-close-case`, repaired in `/repo`
9dcdbe5): in a header STATE that holds the generic field `Connection: Close` with the close flag clear, the announcement is
false — the response reads `Connection: Close`, which every client takes for the `close` option (RFC 7230 §6.1), while
`Serve` keeps the connection.  Before the repair `Header.Set("Connection", "Close")` produced exactly this state (replayed
on the real server then: `respq Q:GET:1.1:- ST:200 H:436f6e6e656374696f6e:436c6f7365 B:6869 / Q:GET:1.1:- ST:200 B:6869`);
since the repair the setter recognises the option in any letter case and sets the flag, so the state is no longer reachable
through the API (the driver's `respq` cases with `Close` now require the close). -/
theorem close_decision_announced_fails_at_close_case :
    ¬ (∀ e : Exch, HeadOK e.r e.p.status → e.early = false → e.r.connClose = e.respClose →
        saysClose (expMsg e) = closes e) := by
  intro H
  have h := H xCloseCase
    ⟨by decide, by decide, ⟨[79, 75], by unfold NoCRLF; decide, rfl⟩, rfl, by
      intro kv h
      simp only [xCloseCase, xHi, List.mem_singleton] at h
      subst h
      exact ⟨sCL_ne_conn, sTE_ne_conn⟩⟩ rfl rfl
  have h1 : closes xCloseCase = false := by decide
  have h2 : saysClose (expMsg xCloseCase) = true := by
    have hm : ((strConnection, [67, 108, 111, 115, 101]) : Bytes × Bytes) ∈ (expMsg xCloseCase).fields := by
      rw [expMsg_fields]
      have h0 : ((strConnection, [67, 108, 111, 115, 101]) : Bytes × Bytes) ∈
          (withFraming (serveHdr xCloseCase) (frame xCloseCase.p xCloseCase.isHead).framing).fields := by
        rw [fields_split]
        refine List.mem_append_left _ ?_
        simp only [frontFields, List.mem_append]
        exact Or.inl (Or.inl (Or.inr (by decide)))
      have := mem_kept _ _ h0 (by decide +kernel)
      have e : HW.newlineToSpace [67, 108, 111, 115, 101] = [67, 108, 111, 115, 101] := by decide +kernel
      simpa [e] using this
    unfold saysClose
    rw [List.any_eq_true]
    exact ⟨_, hm, by decide⟩
  rw [h1, h2] at h
  cases h

end Seq

end Hertz.Props.C04
