import Hertz.Model.Http1.RespRead
/-!
# C11 — client requests reach the server intact and responses come back intact

Request side: the bytes produced by the real `req.Write` / `ProxyWrite` for requests built through the
client API (method, URL with query, headers, cookies, body as bytes / stream of known or unknown
length / form arguments) are compared with the model `HW.ReqHdr.bytes ++ body encoding` (C05/C04
models) and, in the spec step, decoded by the strict decoder `Spec.Http.decodeOne`, by the Lean model
of hertz's own server-side reader and by `net/http.ReadRequest`: all three must read the same method,
target, Host and body.
Response side: `RespRead.readResponse` models `resp.ReadHeaderAndLimitBody` (first line, header
scanner, `100 Continue` skip, fixed / chunked+trailers / until-close bodies, bodiless statuses, size
limit); it is compared with the real reader over the scripted connection under arbitrary
segmentation (client half of C02), and every conforming response (strict reader `Spec.Resp`) must come
back with the same status, fields and body.

Proved for all inputs:
* `max_size_enforced`: with a positive `MaxResponseBodySize` no accepted response has a longer body;
* `bodiless_status_no_body`: 1xx/204/304 responses never carry a body whatever framing fields they have.

TODO-OPEN: `response_roundtrip` (reader ∘ C04 writer model = identity) and `request_decodes` as Lean
theorems; both are evaluated per explored case by the spec step.
Observed, outside the property (C05 covers CR/LF only): NUL and other control bytes in header values
set by the application are written verbatim; net/http refuses such a request.
-/
namespace Hertz.Props.C11
open Hertz Hertz.H1 Hertz.H1.RespRead

theorem chunked_le (e : End) (maxBody : Nat) (hm : 0 < maxBody) : ∀ (fuel : Nat) (dst s b r : Bytes),
    dst.length ≤ maxBody → readBodyChunked e maxBody fuel dst s = .ok (b, r) → b.length ≤ maxBody
  | 0, _, _, _, _, _, h => by simp [readBodyChunked] at h
  | fuel + 1, dst, s, b, r, hd, h => by
    unfold readBodyChunked at h
    cases hp : parseChunkSize e s with
    | error x => simp [hp, bind, Except.bind] at h
    | ok pr =>
      obtain ⟨size, rest⟩ := pr
      simp only [hp, bind, Except.bind] at h
      by_cases hz : size = 0
      · simp only [hz, if_true, Except.ok.injEq, Prod.mk.injEq] at h
        rw [← h.1]; exact hd
      · simp only [hz, if_false] at h
        by_cases hl : maxBody > 0 ∧ dst.length + size > maxBody
        · simp [hl] at h
        · simp only [hl, if_false] at h
          cases ht : takeBody e (size + 2) rest with
          | error x => simp [ht] at h
          | ok cr =>
            obtain ⟨chunk, rest'⟩ := cr
            simp only [ht] at h
            split at h
            · simp at h
            · have hle : (dst ++ chunk.take size).length ≤ maxBody := by
                simp only [List.length_append, List.length_take]
                have : ¬ (dst.length + size > maxBody) := fun hc => hl ⟨hm, hc⟩
                omega
              exact chunked_le e maxBody hm fuel _ _ b r hle h

theorem takeBody_len (e : End) (n : Nat) (s b r : Bytes) (h : takeBody e n s = .ok (b, r)) : b.length = n := by
  unfold takeBody takeN at h
  by_cases hl : s.length ≥ n
  · simp only [hl, if_true, Except.ok.injEq, Prod.mk.injEq] at h
    rw [← h.1]; simp; omega
  · simp only [hl, if_false] at h
    cases e <;> simp [endErr] at h

theorem readIdentity_len (m : Nat) (s b r : Bytes) (hm : 0 < m) (h : readIdentity m s = .ok (b, r)) : b.length ≤ m := by
  unfold readIdentity at h
  by_cases hl : m > 0 ∧ s.length > m
  · simp [hl] at h
  · simp only [hl, if_false, Except.ok.injEq, Prod.mk.injEq] at h
    rw [← h.1]
    have : ¬ (s.length > m) := fun hc => hl ⟨hm, hc⟩
    omega

theorem bodyPart_max (dn : Bool) (maxBody : Nat) (e : End) (hd : RespHead) (s1 : Bytes) (r : Result)
    (hm : 0 < maxBody) (h : readBodyPart dn maxBody e hd s1 = .ok r) : r.body.length ≤ maxBody := by
  unfold readBodyPart at h
  simp only at h
  split at h
  · simp only [Except.ok.injEq] at h; rw [← h]; simp
  · split at h
    · split at h
      · simp at h
      · rename_i hlim
        cases ht : takeBody e hd.cl.toNat s1 with
        | error x => simp [ht] at h
        | ok br =>
          obtain ⟨b, rest⟩ := br
          simp only [ht, Except.ok.injEq] at h
          rw [← h]
          simp only
          have hb : b.length = hd.cl.toNat := takeBody_len e _ _ _ _ ht
          have : ¬ (hd.cl.toNat > maxBody) := fun hc => hlim ⟨hm, hc⟩
          omega
    · split at h
      · cases hc : readBodyChunked e maxBody (s1.length + 1) [] s1 with
        | error x => simp [hc] at h
        | ok br =>
          obtain ⟨body, rest⟩ := br
          have hle := chunked_le e maxBody hm _ [] s1 body rest (by simp) hc
          simp only [hc] at h
          split at h
          · simp at h
          · simp only [Except.ok.injEq] at h; rw [← h]; exact hle
          · simp only [Except.ok.injEq] at h; rw [← h]; exact hle
      · cases hi : readIdentity maxBody s1 with
        | error x => simp [hi] at h
        | ok br =>
          obtain ⟨b, rest⟩ := br
          simp only [hi, Except.ok.injEq] at h
          rw [← h]
          exact readIdentity_len maxBody s1 b rest hm hi

theorem max_size_enforced (dn : Bool) (maxBody : Nat) (e : End) (s : Bytes) (r : Result)
    (hm : 0 < maxBody) (h : readResponse dn maxBody e s = .ok r) : r.body.length ≤ maxBody := by
  unfold readResponse at h
  split at h
  · simp at h
  · exact bodyPart_max dn maxBody e _ _ r hm h

theorem bodyPart_bodiless (dn : Bool) (maxBody : Nat) (e : End) (hd : RespHead) (s1 : Bytes) (r : Result)
    (h : readBodyPart dn maxBody e hd s1 = .ok r) (hs : mustSkipCL r.head.status = true) : r.body = [] := by
  have key : ∀ n, (RespRead.setContentLength hd n).status = hd.status := by
    intro n; unfold RespRead.setContentLength; split <;> rfl
  have key2 : ∀ n, (RespRead.setContentLength { hd with trailer := [] } n).status = hd.status := by
    intro n; unfold RespRead.setContentLength; split <;> rfl
  unfold readBodyPart at h
  simp only at h
  split at h
  · simp only [Except.ok.injEq] at h; rw [← h]
  · rename_i hns
    exfalso
    split at h
    · split at h
      · simp at h
      · split at h
        · simp only [Except.ok.injEq] at h; rw [← h] at hs; simp only [key] at hs; exact hns hs
        · simp at h
    · split at h
      · split at h
        · simp at h
        · split at h
          · simp at h
          · simp only [Except.ok.injEq] at h; rw [← h] at hs; simp only [key] at hs; exact hns hs
          · simp only [Except.ok.injEq] at h; rw [← h] at hs; simp only [key2] at hs; exact hns hs
      · split at h
        · simp at h
        · simp only [Except.ok.injEq] at h; rw [← h] at hs; simp only [key] at hs; exact hns hs

theorem bodiless_status_no_body (dn : Bool) (maxBody : Nat) (e : End) (s : Bytes) (r : Result)
    (h : readResponse dn maxBody e s = .ok r) (hs : mustSkipCL r.head.status = true) : r.body = [] := by
  unfold readResponse at h
  split at h
  · simp at h
  · exact bodyPart_bodiless dn maxBody e _ _ r h hs

/-- non-vacuity: a 5-byte body is refused under a 4-byte limit and accepted under a 5-byte limit. -/
example :
    (match readResponse false 4 .eof [72,84,84,80,47,49,46,49,32,50,48,48,32,79,75,13,10,67,111,110,116,101,110,116,45,76,101,110,103,116,104,58,32,53,13,10,13,10,1,2,3,4,5] with
     | .error .tooLarge => true | _ => false) = true ∧
    (match readResponse false 5 .eof [72,84,84,80,47,49,46,49,32,50,48,48,32,79,75,13,10,67,111,110,116,101,110,116,45,76,101,110,103,116,104,58,32,53,13,10,13,10,1,2,3,4,5] with
     | .ok r => r.body == [1,2,3,4,5] | _ => false) = true := by decide +kernel

end Hertz.Props.C11
