import Hertz.Model.Http1.RespRead
import Hertz.Proofs.RespRoundtrip
import Hertz.Proofs.RespTrailers
import Hertz.Proofs.RespBodiless
import Hertz.Proofs.ReqDecodes
import Hertz.Proofs.Exchange
import Hertz.Proofs.RespStream
import Hertz.Proofs.RespInterim
import Hertz.Model.Multipart
import Hertz.Spec.Multipart
import Hertz.Proofs.Multipart
/-!
# C11 — client requests reach the server intact and responses come back intact

Request side: the bytes produced by the real `req.Write` / `ProxyWrite` for requests built through the
client API (method, URL with query, headers, cookies, body as bytes / stream of known or unknown
length / form arguments) are compared with the model `HW.ReqHdr.bytes ++ body encoding` (C05/C04
models) and, in the spec step, decoded by the strict decoder `Spec.Http.decodeOne`, by the Lean model
of hertz's own server-side reader and by `net/http.ReadRequest`: all three must read the same method,
target, Host and body.
Response side: `RespRead.readResponse` models `resp.ReadHeaderAndLimitBody` (first line, header
scanner, `100 Continue` skip, fixed / chunked+trailers / until-close bodies, bodiless statuses, size
limit); it is compared with the real reader over the scripted connection under arbitrary
segmentation (client half of C02), and every conforming response (strict reader `Spec.Resp`) must come
back with the same status, fields and body.

Proved for all inputs:
* `max_size_enforced`: with a positive `MaxResponseBodySize` no accepted response has a longer body;
* `bodiless_status_no_body`: 1xx/204/304 responses never carry a body whatever framing fields they have;
* `response_roundtrip` (reader ∘ writer = identity): for every well-formed response `r` (`RT.wfResp`:
  status that may carry a body and fits an `int`, reason/values free of CR/LF and of blanks (SP, HTAB:
  the optional whitespace the reader trims since /repo 4c60fb1) at either end, generic fields with non-empty valid names in normalised form that are none of the eight names
  the reader keeps in dedicated fields, body by `Content-Length` or chunked with pieces below `16^15`
  bytes) and every `rest`, with the size limit off or not below the body length, under either end
  behaviour, `readResponse (respWire r ++ rest)` is `r`'s status, dedicated fields, generic fields in
  order (after the server's `Date` line), cookies, `Connection: close` flag and body, no trailers,
  and leaves exactly `rest`.  `respWire` = C05 header model (`HW.RespHdr.bytes` after
  `SetContentLength`) ++ C04 body model (`Resp.frame … .wire`).  Stages: `response_body_chunked`
  (chunk reader ∘ chunk encoder, any accumulated prefix), `response_head_roundtrip` (status line and
  ANY well-formed field list through `ReadHeaders`: the scanner sees exactly the fields written and
  stops at the end of the head);
* `chunk_size_limit_tight`: a chunk of `16^15` bytes or more is written with 16 hex digits, which
  `ReadHexInt` (`maxHexIntChars` = 15) refuses - so the bound in `wfResp` cannot be relaxed
  (not reachable in practice: 2^60 bytes);
* `request_decodes`: for every well-formed request (`ReqDecodes.WfRequest`: token method, visible
  target, token names, clean trimmed values, framing fields consistent with the body: none /
  `Content-Length` = decimal length / `Transfer-Encoding: chunked` with pieces below `16^15` bytes and
  well-formed trailer fields) the request writer model's bytes followed by any `rest` decode, with the
  strict decoder `Spec.Http.decodeOne`, to the same method, target, fields (all of them, in order),
  body and trailers, leaving exactly `rest`;
* `response_roundtrip_trailers`: the same for a streamed (chunked) response that sets trailer fields
  (`RT.wfRespT`: every trailer field well-formed, its name kept by `SetTrailers` - no comma, not one
  of the forbidden trailer names; a name MAY start with `0`, see `exTrailers0`): the `Trailer:`
  declaration is read back as exactly the names, the trailer section as exactly the fields, in order,
  duplicates included;
* `response_head_roundtrip_framed`: `ReadHeaders` on the head `resp.Write` produces for ANY status but
  the interim 100 and each framing the writer can decide (`Content-Length: n`, `chunked`, none) returns
  the head `RT.WResp.seenHeadFor` spells out and stops at its end; `response_wire_nonHEAD` says that the
  wire used here (`RT.respWireH r isHead` = C05 header model on `hdrFor (frame …).framing` ++ `frame …
  .wire`) is `respWire` of the theorems above when the request was not HEAD;
* `response_roundtrip_bodiless`: statuses that forbid a body (1xx other than 100, 204, 304;
  `RT.wfBodiless`), whatever body the handler set, HEAD request or not: the reader returns the head
  (`cl = -2`, no framing field), an empty body, no trailers, and leaves exactly `rest`;
  `response_roundtrip_bodiless_declared`: the same when the head still announces `Content-Length: n` or
  `chunked` (status changed to 204 after `SetBodyStream`): the announcement is ignored, nothing consumed;
* `response_head_HEAD`, `response_roundtrip_HEAD`: the answer to a HEAD request (`RT.wfRespH`: any status
  but 100, body length below 2^63): the head carries the framing of the body that was not sent
  (`headFraming`: `Content-Length` of a non-empty byte body, `chunked` for a stream, nothing for an empty
  body - then the reader notes "identity until close"), no body byte is on the wire, `ReadHeaders`
  stops exactly at the end of the head; with the client's `SkipBody` flag (`RT.readResponseSkip true`;
  `skipbody_off_is_readResponse`: with the flag off it IS the model function) the result is the head, an
  empty body and `rest`;
* `response_roundtrip_until_close`: a response framed by closing the connection (head without
  `Content-Length`/`Transfer-Encoding`, status that may carry a body, `RT.wfRespC`), under either end
  behaviour (`readBodyIdentity` stops at the first read error, EOF or time-out): the body is every byte
  after the head, `rest` is empty, the head is that of the `Content-Length` case with `Connection: close`.

Sequences of exchanges over keep-alive connections (`Model/Http1/Exchange.lean`: `HostClient.Do` for one caller, the
connection carrying its unread bytes with it; compared with the real `client.Client` by the harness op `c11seq`):
* `failed_exchange_closes_connection`: whenever an exchange does not return a response (header or body read error,
  `ErrBodyTooLarge`, time-out, `ErrBadPoolConn`) no connection goes back to the idle pool - so nothing a refused
  response left unread can be taken for the next response;
* `exchange_returns_own_response`: with no unread bytes on the pooled connection, what an exchange returns is what
  the client returns for THIS exchange's response bytes on a new connection (`Exchange.alone`), provided the request
  may be repeated or the pooled connection is alive and an answer arrives; and if those bytes are one message
  (`SelfDelimited`) the pool is again free of unread bytes;
* `sequence_returns_own_responses`: hence, by induction, for every sequence of repeatable requests answered with one
  message each, from any state without unread bytes, the outcomes are those of the exchanges taken alone - whatever
  the earlier exchanges were (refused for size, failed, closed by the peer).
  Since /repo 19d2b4c these hold with `resp.SkipBody` set by the application for any of the requests (`Req.appSkip`,
  arbitrary in all three statements): `SelfDelimited` speaks of the bytes as read WITHOUT that flag, i.e. the server
  sent one complete message; the body the application did not want is never the front of a later response because
* `skipped_body_closes_connection`: a response whose body was skipped at the application's wish although it has one
  (not HEAD, status that may carry a body, `Content-Length` other than 0) never takes its connection back to the pool.
  (Before the repair `attempt` released it; the statement was false, see corpus/C11/seq-response-reuse-after-head.txt.)
  `retryable` now means idempotent method AND body not a stream (/repo 3183d35).
* `skip_flag_restored`: after ANY `Do` - one pass or two, response returned or not, HEAD or not - `resp.SkipBody` is
  what `Do` found (`Exchange.skipAfterDo`, the passes of `doNonNilReqResp` one after the other, each saving the flag,
  marking it for HEAD and giving the saved value back on every way out; /repo 07a471c.  With the restore only on the
  path that returns a response the statement was false: corpus/C11/seq-head-retried-then-get.txt);
* `response_object_keeps_application_flag`: hence, for one Response object passed to a whole sequence of calls, every
  call finds exactly what the application has set so far, never a mark of the client.

TODO-OPEN (not proved as theorems; evaluated per explored case by the spec step):
* the `SkipBody` flag of the client (`RT.readResponseSkip true`, three lines restating the first `if` of
  `ReadRespBody`) is a definition of the proof file: the harness op `respread` never sets the flag, so
  this branch is not part of the correspondence check (`response_head_HEAD`, about the model function
  `readHeaders`, is);
* field names that are not in `normalizeKey` form when normalisation is on (the reader returns the
  normalised name), values with SP/HTAB at the ends (the reader trims them): excluded by `wfResp`;
* the hijacked chunked writer (`Resp.writerWire`) as a body source of `WResp` (its wire equals
  `chunkedWire` of the non-empty writes; C04 `writer_body_decodes` covers the strict reader).
* X11 (streaming mode / interim responses / multipart writer, theorems at the end of this file): `101` with
  `Connection: Upgrade` (the connection is handed to the application) and the automatic switch to streaming for
  `text/event-stream` responses of unknown length are not modelled; the second stage of `req.handleMultipart`
  (`ReadForm` + `MarshalMultipartForm`, map order) is `mime/multipart`'s; `MultipartRT.Clean.content` is stated with the
  decoder's own first-occurrence function (implied by "no CR in the boundary and `CRLF--boundary` not a substring of the
  content", not proved); the prefetched length over the limit and drain-or-close of a chunked rest are parameters of the
  model checked for admissibility per case, not predicted.
Observed, outside the property (C05 covers CR/LF only): NUL and other control bytes in header values
set by the application are written verbatim; net/http refuses such a request.
-/
namespace Hertz.Props.C11
open Hertz Hertz.H1 Hertz.H1.RespRead

theorem chunked_le (e : End) (maxBody : Nat) (hm : 0 < maxBody) : ∀ (fuel : Nat) (dst s b r : Bytes),
    dst.length ≤ maxBody → readBodyChunked e maxBody fuel dst s = .ok (b, r) → b.length ≤ maxBody
  | 0, _, _, _, _, _, h => by simp [readBodyChunked] at h
  | fuel + 1, dst, s, b, r, hd, h => by
    unfold readBodyChunked at h
    cases hp : parseChunkSize e s with
    | error x => simp [hp, bind, Except.bind] at h
    | ok pr =>
      obtain ⟨size, rest⟩ := pr
      simp only [hp, bind, Except.bind] at h
      by_cases hz : size = 0
      · simp only [hz, if_true, Except.ok.injEq, Prod.mk.injEq] at h
        rw [← h.1]; exact hd
      · simp only [hz, if_false] at h
        by_cases hl : maxBody > 0 ∧ dst.length + size > maxBody
        · simp [hl] at h
        · simp only [hl, if_false] at h
          cases ht : takeBody e (size + 2) rest with
          | error x => simp [ht] at h
          | ok cr =>
            obtain ⟨chunk, rest'⟩ := cr
            simp only [ht] at h
            split at h
            · simp at h
            · have hle : (dst ++ chunk.take size).length ≤ maxBody := by
                simp only [List.length_append, List.length_take]
                have : ¬ (dst.length + size > maxBody) := fun hc => hl ⟨hm, hc⟩
                omega
              exact chunked_le e maxBody hm fuel _ _ b r hle h

theorem takeBody_len (e : End) (n : Nat) (s b r : Bytes) (h : takeBody e n s = .ok (b, r)) : b.length = n := by
  unfold takeBody takeN at h
  by_cases hl : s.length ≥ n
  · simp only [hl, if_true, Except.ok.injEq, Prod.mk.injEq] at h
    rw [← h.1]; simp; omega
  · simp only [hl, if_false] at h
    cases e <;> simp [endErr] at h

theorem readIdentity_len (m : Nat) (s b r : Bytes) (hm : 0 < m) (h : readIdentity m s = .ok (b, r)) : b.length ≤ m := by
  unfold readIdentity at h
  by_cases hl : m > 0 ∧ s.length > m
  · simp [hl] at h
  · simp only [hl, if_false, Except.ok.injEq, Prod.mk.injEq] at h
    rw [← h.1]
    have : ¬ (s.length > m) := fun hc => hl ⟨hm, hc⟩
    omega

theorem bodyPart_max (dn : Bool) (maxBody : Nat) (e : End) (hd : RespHead) (s1 : Bytes) (r : Result)
    (hm : 0 < maxBody) (h : readBodyPart dn maxBody e hd s1 = .ok r) : r.body.length ≤ maxBody := by
  unfold readBodyPart at h
  simp only at h
  split at h
  · simp only [Except.ok.injEq] at h; rw [← h]; simp
  · split at h
    · split at h
      · simp at h
      · rename_i hlim
        cases ht : takeBody e hd.cl.toNat s1 with
        | error x => simp [ht] at h
        | ok br =>
          obtain ⟨b, rest⟩ := br
          simp only [ht, Except.ok.injEq] at h
          rw [← h]
          simp only
          have hb : b.length = hd.cl.toNat := takeBody_len e _ _ _ _ ht
          have : ¬ (hd.cl.toNat > maxBody) := fun hc => hlim ⟨hm, hc⟩
          omega
    · split at h
      · cases hc : readBodyChunked e maxBody (s1.length + 1) [] s1 with
        | error x => simp [hc] at h
        | ok br =>
          obtain ⟨body, rest⟩ := br
          have hle := chunked_le e maxBody hm _ [] s1 body rest (by simp) hc
          simp only [hc] at h
          split at h
          · simp at h
          · simp only [Except.ok.injEq] at h; rw [← h]; exact hle
          · simp only [Except.ok.injEq] at h; rw [← h]; exact hle
      · cases hi : readIdentity maxBody s1 with
        | error x => simp [hi] at h
        | ok br =>
          obtain ⟨b, rest⟩ := br
          simp only [hi, Except.ok.injEq] at h
          rw [← h]
          exact readIdentity_len maxBody s1 b rest hm hi

theorem max_size_enforced (dn : Bool) (maxBody : Nat) (e : End) (s : Bytes) (r : Result)
    (hm : 0 < maxBody) (h : readResponse dn maxBody e s = .ok r) : r.body.length ≤ maxBody := by
  unfold readResponse at h
  split at h
  · simp at h
  · exact bodyPart_max dn maxBody e _ _ r hm h

theorem bodyPart_bodiless (dn : Bool) (maxBody : Nat) (e : End) (hd : RespHead) (s1 : Bytes) (r : Result)
    (h : readBodyPart dn maxBody e hd s1 = .ok r) (hs : mustSkipCL r.head.status = true) : r.body = [] := by
  have key : ∀ n, (RespRead.setContentLength hd n).status = hd.status := by
    intro n; unfold RespRead.setContentLength; split <;> rfl
  have key2 : ∀ n, (RespRead.setContentLength { hd with trailer := [] } n).status = hd.status := by
    intro n; unfold RespRead.setContentLength; split <;> rfl
  unfold readBodyPart at h
  simp only at h
  split at h
  · simp only [Except.ok.injEq] at h; rw [← h]
  · rename_i hns
    exfalso
    split at h
    · split at h
      · simp at h
      · split at h
        · simp only [Except.ok.injEq] at h; rw [← h] at hs; simp only [key] at hs; exact hns hs
        · simp at h
    · split at h
      · split at h
        · simp at h
        · split at h
          · simp at h
          · simp only [Except.ok.injEq] at h; rw [← h] at hs; simp only [key] at hs; exact hns hs
          · simp only [Except.ok.injEq] at h; rw [← h] at hs; simp only [key2] at hs; exact hns hs
      · split at h
        · simp at h
        · simp only [Except.ok.injEq] at h; rw [← h] at hs; simp only [key] at hs; exact hns hs

theorem bodiless_status_no_body (dn : Bool) (maxBody : Nat) (e : End) (s : Bytes) (r : Result)
    (h : readResponse dn maxBody e s = .ok r) (hs : mustSkipCL r.head.status = true) : r.body = [] := by
  unfold readResponse at h
  split at h
  · simp at h
  · exact bodyPart_bodiless dn maxBody e _ _ r h hs

/-- non-vacuity: a 5-byte body is refused under a 4-byte limit and accepted under a 5-byte limit. -/
example :
    (match readResponse false 4 .eof [72,84,84,80,47,49,46,49,32,50,48,48,32,79,75,13,10,67,111,110,116,101,110,116,45,76,101,110,103,116,104,58,32,53,13,10,13,10,1,2,3,4,5] with
     | .error .tooLarge => true | _ => false) = true ∧
    (match readResponse false 5 .eof [72,84,84,80,47,49,46,49,32,50,48,48,32,79,75,13,10,67,111,110,116,101,110,116,45,76,101,110,103,116,104,58,32,53,13,10,13,10,1,2,3,4,5] with
     | .ok r => r.body == [1,2,3,4,5] | _ => false) = true := by decide +kernel

/-! ### reader ∘ writer = identity -/

open Hertz.H1.RT in
/-- stage 1 (body): the client's chunk reader on the writer's chunk encoding -/
theorem response_body_chunked (e : End) (maxBody : Nat) (cs : List Bytes) (X dst : Bytes) (fuel : Nat)
    (hc : ∀ c ∈ cs, c ≠ [] ∧ c.length < 16 ^ 15) (hf : cs.length < fuel)
    (hm : maxBody = 0 ∨ dst.length + cs.flatten.length ≤ maxBody) :
    readBodyChunked e maxBody fuel dst (H1.Resp.encodeChunks cs ++ H1.Resp.writeChunk [] ++ X) = .ok (dst ++ cs.flatten, X) :=
  readBodyChunked_encode e maxBody cs X dst fuel hc hf hm

example : (∀ c ∈ [[1, 2, 3], [4]], c ≠ ([] : Bytes) ∧ c.length < 16 ^ 15) ∧ [[1, 2, 3], [4]].length < 3 := by decide

open Hertz.H1.RT in
/-- stage 2 (head): `ReadHeaders` on a status line and any well-formed field list written by
`appendHeaderLine` returns the status and (through the reader's field switch `applyHeader`) exactly
the fields written, in order, and stops exactly at the end of the head. -/
theorem response_head_roundtrip (dn : Bool) (e : End) (st : Nat) (reason : Bytes) (fs : List (Bytes × Bytes)) (X : Bytes)
    (hst : st < 2 ^ 63) (h100 : isInterim st = false) (hr : ∀ x ∈ reason, x ≠ 13 ∧ x ≠ 10) (h : wfFields dn fs = true)
    (herr : (scanned dn st fs).err = false) :
    readHeaders dn e (statusLine st reason ++ Gen.Str.strCRLF ++ HW.block fs ++ X) =
      .ok (finishHead (scanned dn st fs).head, X) :=
  readHeaders_written dn e st reason fs X hst h100 hr h herr

/-- non-vacuity: `X-Id: 7`, `Etag: "a b"` -/
example : H1.RT.wfFields false [([88, 45, 73, 100], [55]), ([69, 116, 97, 103], [34, 97, 32, 98, 34])] = true := by
  decide +kernel

open Hertz.H1.RT in
/-- the whole response -/
theorem response_roundtrip (dn : Bool) (maxBody : Nat) (e : End) (r : WResp) (rest : Bytes)
    (hw : wfResp dn r = true) (hmax : maxBody = 0 ∨ r.body.content.length ≤ maxBody) :
    readResponse dn maxBody e (respWire r ++ rest) =
      .ok { head := r.seenHead, body := r.body.content, trailers := [], rest := rest } :=
  H1.RT.response_roundtrip dn maxBody e r rest hw hmax

open Hertz.H1.RT in
/-- corollary in the words of the property: status, fields and body as sent, rest untouched -/
theorem response_roundtrip_view (dn : Bool) (maxBody : Nat) (e : End) (r : WResp) (rest : Bytes)
    (hw : wfResp dn r = true) (hmax : maxBody = 0 ∨ r.body.content.length ≤ maxBody) :
    ∃ res, readResponse dn maxBody e (respWire r ++ rest) = .ok res ∧
      res.head.status = r.status ∧ res.head.h = r.seenFields ∧ res.head.contentType = r.contentType ∧
      res.head.server = r.server ∧ res.head.cookies = r.cookies ∧ res.head.connClose = r.connClose ∧
      res.body = r.body.content ∧ res.rest = rest :=
  ⟨_, H1.RT.response_roundtrip dn maxBody e r rest hw hmax, rfl, rfl, rfl, rfl, rfl, rfl, rfl, rfl⟩

/-- non-vacuity: `200 OK`, Server `hz`, Date `now`, Content-Type `t/p`, `X-Id: 7`, a cookie, `Connection: close`,
body `hello` with Content-Length; and the same streamed in pieces `he`, ``, `llo` (chunked) -/
example : H1.RT.wfResp false H1.RT.exFixed = true ∧ H1.RT.wfResp true H1.RT.exChunked = true := by
  decide +kernel

open Hertz.H1.RT in
/-- a streamed response with trailer fields: status, fields, body AND the trailer fields come back -/
theorem response_roundtrip_trailers (dn : Bool) (maxBody : Nat) (e : End) (r : WRespT) (rest : Bytes)
    (hw : wfRespT dn r = true) (hmax : maxBody = 0 ∨ r.base.body.content.length ≤ maxBody) :
    readResponse dn maxBody e (respWireT r ++ rest) =
      .ok { head := r.seenHead, body := r.base.body.content, trailers := r.trailers, rest := rest } :=
  H1.RT.response_roundtrip_trailers dn maxBody e r rest hw hmax

example : H1.RT.wfRespT false H1.RT.exTrailers = true := by decide +kernel

/-- non-vacuity for a trailer name starting with `0` (`0a: b`, the witness of the repaired
desynchronisation f1dae26): well-formed, hence covered by the theorem -/
example : H1.RT.wfRespT false H1.RT.exTrailers0 = true := by decide +kernel


/-! ### the cases without a length-delimited body: bodiless statuses, HEAD, read until close -/

open Hertz.H1.RT in
/-- the wire of the theorems below is the wire of `response_roundtrip` when the request was not HEAD -/
theorem response_wire_nonHEAD (r : WResp) (hs : mustSkipCL r.status = false) : respWireH r false = respWire r :=
  respWireH_false r hs

example : mustSkipCL H1.RT.exFixed.status = false ∧ mustSkipCL H1.RT.exChunked.status = false := by decide

open Hertz.H1.RT in
/-- stage (head, any framing): `ReadHeaders` on the head `resp.Write` produces for framing `f` -/
theorem response_head_roundtrip_framed (dn : Bool) (e : End) (r : WResp) (f : H1.Resp.Framing) (rest : Bytes)
    (hw : wfHeadB dn r = true) (h100 : isInterim r.status = false) (hn : ∀ n, f = .cl n → n < 2 ^ 63) :
    readHeaders dn e ((r.hdrFor f).bytes ++ rest) = .ok (r.seenHeadFor f, rest) :=
  readHeaders_hdrFor dn e r f rest (wfHeadB_parts hw) h100 hn

/-- non-vacuity: the head of `exFixed` (Server, Date, Content-Type, `X-Id`, cookie, `Connection: close`) with each framing -/
example : H1.RT.wfHeadB false H1.RT.exFixed = true ∧ isInterim H1.RT.exFixed.status = false ∧
    (∀ n, (H1.Resp.Framing.cl 5) = .cl n → n < 2 ^ 63) ∧
    (H1.RT.exFixed.seenHeadFor .chunked).cl = -1 ∧ (H1.RT.exFixed.seenHeadFor (.cl 5)).clBytes = [53] ∧
    (H1.RT.exFixed.seenHeadFor .none).connClose = true := by
  refine ⟨by decide +kernel, by decide, ?_, by decide +kernel, by decide +kernel, by decide +kernel⟩
  intro n h; cases h; decide

open Hertz.H1.RT in
/-- 1xx other than 100, 204, 304: head only, no body whatever the handler set, following bytes untouched -/
theorem response_roundtrip_bodiless (dn : Bool) (maxBody : Nat) (e : End) (r : WResp) (isHead : Bool) (rest : Bytes)
    (hw : wfBodiless dn r = true) :
    readResponse dn maxBody e (respWireH r isHead ++ rest) =
      .ok { head := r.seenHeadBodiless, body := [], trailers := [], rest := rest } :=
  H1.RT.response_roundtrip_bodiless dn maxBody e r isHead rest hw

open Hertz.H1.RT in
/-- a bodiless status whose head still announces a framing (`f`): the announcement is ignored -/
theorem response_roundtrip_bodiless_declared (dn : Bool) (maxBody : Nat) (e : End) (r : WResp) (f : H1.Resp.Framing)
    (rest : Bytes) (hw : wfBodiless dn r = true) (hn : ∀ n, f = .cl n → n < 2 ^ 63) :
    readResponse dn maxBody e ((r.hdrFor f).bytes ++ rest) =
      .ok { head := r.seenHeadFor f, body := [], trailers := [], rest := rest } :=
  H1.RT.response_roundtrip_bodiless_declared dn maxBody e r f rest hw hn

/-- non-vacuity: `204 No Content` with Server, `X-Id: 7`, a cookie and a handler-set body `hello`;
`304` with an `Etag` and a body stream; and what the reader returns for the first, followed by `1 2 3` -/
example : H1.RT.wfBodiless false H1.RT.exNoContent = true ∧ H1.RT.wfBodiless true H1.RT.exNotModified = true := by
  decide +kernel

example : (readResponse false 0 .eof (H1.RT.respWireH H1.RT.exNoContent false ++ [1, 2, 3])).toOption.map
      (fun x => (x.head.status, x.head.cl, x.head.h, x.body, x.rest)) =
    some (204, -2, [([88, 45, 73, 100], [55])], [], [1, 2, 3]) := by
  rw [H1.RT.response_roundtrip_bodiless false 0 .eof _ false _ (by decide +kernel)]
  rfl

/-- `204` announcing `Content-Length: 3`, followed by `1 2 3`: no body, the three bytes stay -/
example : (readResponse false 0 .eof ((H1.RT.exNoContent.hdrFor (.cl 3)).bytes ++ [1, 2, 3])).toOption.map
      (fun x => (x.head.cl, x.body, x.rest)) = some (3, [], [1, 2, 3]) := by
  rw [H1.RT.response_roundtrip_bodiless_declared false 0 .eof _ (.cl 3) _ (by decide +kernel) (by intro n h; cases h; decide)]
  rfl

open Hertz.H1.RT in
/-- answer to HEAD, the head: framing fields of the body that was not sent, nothing after the head consumed -/
theorem response_head_HEAD (dn : Bool) (e : End) (r : WResp) (rest : Bytes) (hw : wfRespH dn r = true) :
    readHeaders dn e (respWireH r true ++ rest) = .ok (r.seenHeadFor r.headFraming, rest) :=
  H1.RT.response_head_HEAD dn e r rest hw

open Hertz.H1.RT in
/-- with `SkipBody` off the extended reader is the model function `readResponse` -/
theorem skipbody_off_is_readResponse (dn : Bool) (maxBody : Nat) (e : End) (s : Bytes) :
    readResponseSkip false dn maxBody e s = readResponse dn maxBody e s :=
  readResponseSkip_false dn maxBody e s

open Hertz.H1.RT in
/-- answer to HEAD read with `SkipBody` (as the client does): head, empty body, `rest` untouched -/
theorem response_roundtrip_HEAD (dn : Bool) (maxBody : Nat) (e : End) (r : WResp) (rest : Bytes) (hw : wfRespH dn r = true) :
    readResponseSkip true dn maxBody e (respWireH r true ++ rest) =
      .ok { head := r.seenHeadFor r.headFraming, body := [], trailers := [], rest := rest } :=
  H1.RT.response_roundtrip_HEAD dn maxBody e r rest hw

/-- non-vacuity: the `200`/`hello` and the streamed `404` example answering HEAD (announced framing
`Content-Length: 5` resp. `chunked`), the close-delimited example with its body (`Content-Length: 5`),
the same without a body (no framing field), a `204` -/
example : H1.RT.wfRespH false H1.RT.exFixed = true ∧ H1.RT.wfRespH true H1.RT.exChunked = true ∧
    H1.RT.wfRespH false H1.RT.exNoContent = true ∧
    H1.RT.exFixed.headFraming = .cl 5 ∧ H1.RT.exChunked.headFraming = .chunked ∧
    ({ H1.RT.exUntilClose with body := .fixed [] } : H1.RT.WResp).headFraming = .none ∧
    H1.RT.exNoContent.headFraming = .none := by
  decide +kernel

/-- the head a client holds after a HEAD exchange with `exFixed`: `Content-Length: 5` known, no body read,
and the next response's first bytes (`HT`) still on the connection -/
example : (readResponseSkip true false 0 .stall (H1.RT.respWireH H1.RT.exFixed true ++ [72, 84])).toOption.map
      (fun x => (x.head.cl, x.head.clBytes, x.body, x.rest)) = some (5, [53], [], [72, 84]) := by
  rw [H1.RT.response_roundtrip_HEAD false 0 .stall _ _ (by decide +kernel)]
  decide +kernel

open Hertz.H1.RT in
/-- read-until-close framing: the body is every byte after the head -/
theorem response_roundtrip_until_close (dn : Bool) (maxBody : Nat) (e : End) (r : WResp) (hw : wfRespC dn r = true)
    (hmax : maxBody = 0 ∨ r.body.content.length ≤ maxBody) :
    readResponse dn maxBody e (closeWire r) =
      .ok { head := { r.seenHead with connClose := true }, body := r.body.content, trailers := [], rest := [] } :=
  H1.RT.response_roundtrip_until_close dn maxBody e r hw hmax

/-- non-vacuity: `HTTP/1.1 200 OK`, `X-Id: 7`, empty line, `hello`, EOF -/
example : H1.RT.wfRespC false H1.RT.exUntilClose = true ∧
    H1.RT.closeWire H1.RT.exUntilClose =
      [72, 84, 84, 80, 47, 49, 46, 49, 32, 50, 48, 48, 32, 79, 75, 13, 10, 88, 45, 73, 100, 58, 32, 55, 13, 10, 13, 10,
       104, 101, 108, 108, 111] := by
  decide +kernel

/-- the size bound on chunks in `wfResp` is tight: `WriteHexInt(16^15)` has 16 digits and is refused -/
theorem chunk_size_limit_tight (e : End) (X : Bytes) :
    parseChunkSize e (H1.Resp.writeHexInt (16 ^ 15) ++ 13 :: 10 :: X) = .error .bad :=
  H1.RT.parseChunkSize_16digits e X

/-! ### the request writer's bytes decode to the request -/

open Hertz.ReqDecodes in
theorem request_decodes (r : HW.ReqHdr) (b : ReqBody) (rest : Bytes) (h : WfRequest r b) :
    Spec.Http.decodeOne (reqWire r b ++ rest) =
      some ({ method := r.methodOrGet, target := reqTarget r, fields := r.fields, body := b.content,
              trailers := b.trailers, foldedColon := false }, rest) :=
  ReqDecodes.request_decodes r b rest h

/-- non-vacuity: `POST /p` with User-Agent, Host, Content-Type, `Content-Length: 3`, `X-Y: 1 2`, a cookie,
`Connection: close` and the body `xyz` -/
example : ReqDecodes.WfRequest ReqDecodes.exPost (.fixed [120, 121, 122]) :=
  ⟨by decide, by decide, ⟨ReqDecodes.appendUintDec_3.symm, by decide⟩⟩

/-! ### sequences of exchanges on keep-alive connections -/

open Hertz.H1.Exchange in
theorem failed_exchange_closes_connection (cfg : Exchange.Cfg) (st : Exchange.St) (rq : Exchange.Req) (sv : Exchange.Srv)
    (h : (Exchange.exchange cfg st rq sv).2.isOk = false) : (Exchange.exchange cfg st rq sv).1.idle = none :=
  Exchange.exchange_idle_of_not_ok cfg st rq sv h

def exBig : Exchange.Srv := { resp := [72, 84, 84, 80, 47, 49, 46, 49, 32, 50, 48, 48, 32, 79, 75, 13, 10, 67, 111, 110, 116, 101, 110, 116, 45, 76, 101, 110, 103, 116, 104, 58, 32, 53, 13, 10, 13, 10, 104, 101, 108, 108, 111] }
def exSmall : Exchange.Srv := { resp := [72, 84, 84, 80, 47, 49, 46, 49, 32, 50, 48, 48, 32, 79, 75, 13, 10, 67, 111, 110, 116, 101, 110, 116, 45, 76, 101, 110, 103, 116, 104, 58, 32, 50, 13, 10, 13, 10, 104, 105] }

/-- non-vacuity: a 5-byte body against a limit of 3 is refused and the next exchange dials again and succeeds;
without the limit both succeed on one connection -/
example : ((Exchange.run { maxBody := 3 } {} [({}, exBig), ({}, exSmall)]).map (fun x => (x.1, x.2.isOk))) = [(1, false), (2, true)] ∧
          ((Exchange.run { maxBody := 0 } {} [({}, exBig), ({}, exSmall)]).map (fun x => (x.1, x.2.isOk))) = [(1, true), (1, true)] := by
  decide +kernel

/-- `HTTP/1.1 200 OK`, `Connection: Close` (capital C), `Content-Length: 2`, `hi` -/
def exCloseCase : Exchange.Srv := { resp := [72, 84, 84, 80, 47, 49, 46, 49, 32, 50, 48, 48, 32, 79, 75, 13, 10,
  67, 111, 110, 110, 101, 99, 116, 105, 111, 110, 58, 32, 67, 108, 111, 115, 101, 13, 10,
  67, 111, 110, 116, 101, 110, 116, 45, 76, 101, 110, 103, 116, 104, 58, 32, 50, 13, 10, 13, 10, 104, 105] }

/-- **the connection option `close` of a response is recognised in any letter case** (RFC 7230 §6.1; `/repo` a8cd011):
whatever the parse state, a `Connection` field whose value is `close` in some letter case sets the close flag and is not
kept as a generic field.  Before the repair only the bytes `close` did: a response with `Connection: Close` left the
connection in the pool although the server closes it, and the next request that is not safe to repeat failed with
"connection is closed by peer while being in the connection pool" (reproduced on the real client). -/
theorem response_close_option_any_case (dn : Bool) (st : RespRead.HState) (v : Bytes)
    (h : ciEq v Gen.Str.strClose = true) :
    (RespRead.applyHeader dn st Gen.Str.strConnection v).head.connClose = true ∧
    (RespRead.applyHeader dn st Gen.Str.strConnection v).head.h = st.head.h := by
  rw [H1.RT.applyHeader_kind dn st Gen.Str.strConnection v (by decide), H1.RT.kind_conn]
  simp [h]

/-- … and on the pool: after an exchange answered with `Connection: Close` the next exchange dials again (2 dials);
with keep-alive answers one connection serves both -/
theorem close_case_response_not_pooled :
    ((Exchange.run {} {} [({}, exCloseCase), ({}, exSmall)]).map (fun x => (x.1, x.2.isOk))) = [(1, true), (2, true)] ∧
    ((Exchange.run {} {} [({}, exSmall), ({}, exSmall)]).map (fun x => (x.1, x.2.isOk))) = [(1, true), (1, true)] := by
  decide +kernel

theorem exchange_returns_own_response (cfg : Exchange.Cfg) (st : Exchange.St) (rq : Exchange.Req) (sv : Exchange.Srv)
    (hc : Exchange.Clean st)
    (h : rq.retryable = true ∨ (sv.resp ≠ [] ∧ ∀ c, st.idle = some c → c.peerClosed = false)) :
    (Exchange.exchange cfg st rq sv).2 = Exchange.alone cfg rq sv ∧
    (Exchange.SelfDelimited cfg rq sv → Exchange.Clean (Exchange.exchange cfg st rq sv).1) :=
  Exchange.exchange_eq_alone cfg st rq sv hc h

example : Exchange.Clean {} ∧ ({} : Exchange.Req).retryable = true ∧ Exchange.SelfDelimited {} {} exSmall := by
  refine ⟨Exchange.clean_init, rfl, ?_⟩
  intro r h
  have hv : (readResponseSkip false false 0 (Exchange.endOf (Exchange.serve {} exSmall)) exSmall.resp).toOption.map (·.rest) = some [] := by
    decide +kernel
  have h' : readResponseSkip false false 0 (Exchange.endOf (Exchange.serve {} exSmall)) exSmall.resp = .ok r := h
  rw [h'] at hv
  simpa [Except.toOption] using hv

theorem skipped_body_closes_connection (cfg : Exchange.Cfg) (rq : Exchange.Req) (sv : Exchange.Srv) (c : Exchange.Conn)
    (inPool : Bool) (r : Result) (h : (Exchange.attempt cfg rq sv c inPool).2 = .ok r)
    (hb : Exchange.bodyUnread rq r.head = true) : (Exchange.attempt cfg rq sv c inPool).1 = none :=
  Exchange.attempt_unread_closes cfg rq sv c inPool r h hb

/-- non-vacuity: the application sets `SkipBody` for a GET answered with a 5-byte body: the response comes back without
body, the next exchange dials again and gets its own answer; for a HEAD request (the client's own skip) the connection is
used again -/
example : ((Exchange.run {} {} [({ appSkip := true }, exBig), ({}, exSmall)]).map
            (fun x => (x.1, (match x.2 with | .ok r => some r.body | _ => none)))) = [(1, some []), (2, some [104, 105])] ∧
          ((Exchange.run {} {} [({ skipBody := true }, { resp := exBig.resp.take 38 }), ({}, exSmall)]).map
            (fun x => (x.1, (match x.2 with | .ok r => some r.body | _ => none)))) = [(1, some []), (1, some [104, 105])] := by
  decide +kernel

theorem skip_flag_restored (cfg : Exchange.Cfg) (st : Exchange.St) (rq : Exchange.Req) (sv : Exchange.Srv) :
    Exchange.skipAfterDo cfg st rq sv = rq.appSkip :=
  Exchange.skipAfterDo_eq cfg st rq sv

/-- non-vacuity: a HEAD request on a pooled connection the peer has closed IS retried (two passes), and the flag after
`Do` is still the application's `false`; with the application's flag set it is still `true` -/
example : Exchange.retried {} { idle := some { peerClosed := true } } { skipBody := true } exSmall = true ∧
    Exchange.skipAfterDo {} { idle := some { peerClosed := true } } { skipBody := true } exSmall = false ∧
    Exchange.skipAfterDo {} { idle := some { peerClosed := true } } { skipBody := true, appSkip := true } exSmall = true := by
  decide +kernel

theorem response_object_keeps_application_flag (cfg : Exchange.Cfg) (xs : List (Bool × Exchange.Req × Exchange.Srv))
    (st : Exchange.St) (flag : Bool) :
    Exchange.foundFlags cfg st flag xs = Exchange.setSoFar flag (xs.map (·.1)) :=
  Exchange.foundFlags_eq cfg xs st flag

/-- non-vacuity: GET (peer closes afterwards), HEAD (retried), GET, then a GET for which the application sets the flag,
then one more GET: found flags -/
example : Exchange.foundFlags {} {} false
    [(false, {}, { exSmall with closeAfter := true }), (false, { skipBody := true }, exSmall), (false, {}, exSmall),
     (true, {}, exSmall), (false, {}, exSmall)] = [false, false, false, true, true] := by decide +kernel

theorem sequence_returns_own_responses (cfg : Exchange.Cfg) (xs : List (Exchange.Req × Exchange.Srv)) (st : Exchange.St)
    (hc : Exchange.Clean st) (hx : ∀ x ∈ xs, x.1.retryable = true ∧ Exchange.SelfDelimited cfg x.1 x.2) :
    (Exchange.run cfg st xs).map (·.2) = xs.map (fun x => Exchange.alone cfg x.1 x.2) :=
  Exchange.run_eq_alone cfg xs st hc hx

/-- non-vacuity with `SkipBody` set by the application: the hypotheses hold for such a request, and the sequence
[skipped 5-byte body, small answer] returns each exchange's own response -/
example : ({ appSkip := true } : Exchange.Req).retryable = true ∧ Exchange.SelfDelimited {} { appSkip := true } exSmall ∧
    (Exchange.run {} {} [({ appSkip := true }, exBig), ({}, exSmall)]).map (·.2) =
      [Exchange.alone {} { appSkip := true } exBig, Exchange.alone {} {} exSmall] := by
  refine ⟨rfl, ?_, by decide +kernel⟩
  intro r h
  have hv : (readResponseSkip false false 0 (Exchange.endOf (Exchange.serve {} exSmall)) exSmall.resp).toOption.map (·.rest) = some [] := by
    decide +kernel
  have h' : readResponseSkip false false 0 (Exchange.endOf (Exchange.serve {} exSmall)) exSmall.resp = .ok r := h
  rw [h'] at hv
  simpa [Except.toOption] using hv

/-- non-vacuity: the refused oversize answer and the small one, each as if alone -/
example : (Exchange.run { maxBody := 3 } {} [({}, exBig), ({}, exSmall)]).map (·.2) =
    [Exchange.alone { maxBody := 3 } {} exBig, Exchange.alone { maxBody := 3 } {} exSmall] := by decide +kernel

/-! ## X11 part 1 — streaming mode (`client.WithResponseBodyStream(true)`, `Model/Http1/RespStream.lean`)

`streamResponse dn maxBody e skip s p c`: `ReadHeaders`, the prefetch of `ReadBodyWithStreaming` (`p` bytes: fixed by
the code when the declared length is within the limit, any admissible value `prefetchOk` otherwise), the stream
object (`bodyStream`, the C14 model) read by the caller `c` (buffer size, stop point), and where `skipRest` leaves
the connection.  The reference is the BUFFERED reader without a size limit (`readResponse dn 0`): in streaming mode
`MaxResponseBodySize` only bounds the prefetch (`stream_mode_limit_not_enforced`). -/

open Hertz.H1.RespStream Hertz.H1.Stream in
/-- **streaming = buffered, `Content-Length` bodies**: for EVERY byte string `s` the buffered reader accepts with a
`Content-Length` head (after an interim `100 Continue` or not: `ReadHeaders` is shared), whatever the limit, the
prefetched amount `p` (not beyond the declared length) and the caller's read pattern `c`: the stream exists, no read
fails, the bytes read are the first `stopAfter` bytes of the body buffered mode returns, EOF is reported only when all
of the body was read and always when the caller asks for more, the head is the buffered one before
`SetContentLength`, and `skipRest` leaves the connection exactly where buffered mode does (`r.rest`). -/
theorem stream_mode_same_response (dn : Bool) (maxBody : Nat) (e : End) (s : Bytes) (p : Nat) (c : Consume)
    (hd : RespHead) (s1 : Bytes) (r : Result)
    (hh : readHeaders dn e s = .ok (hd, s1)) (hb : readResponse dn 0 e s = .ok r)
    (hs : mustSkipCL hd.status = false) (hcl : 0 ≤ hd.cl) (hp : p ≤ hd.cl.toNat) :
    ∃ o, streamResponse dn maxBody e false s p c = .ok o ∧ SameAsBuffered r c o ∧ o.after = .resync r.rest := by
  unfold readResponse at hb; rw [hh] at hb
  exact stream_same_fixed dn maxBody e s p c hd s1 r hh hb hs hcl hp

open Hertz.H1.RespStream Hertz.H1.Stream in
/-- non-vacuity: `exFixed` (body `hello`) followed by `HT`, limit 3, four bytes prefetched, the caller reads 2+2 bytes
and stops: `hell`, no EOF; reading 100: `hello` and EOF -/
example : (streamResponse false 3 .stall false (H1.RT.respWire H1.RT.exFixed ++ [72, 84]) 4 { readSize := 2, stopAfter := 4 }).toOption.map
      (fun o => (o.stream, o.got.bytes, o.got.eof, o.got.err)) = some (true, [104, 101, 108, 108], false, false) ∧
    (streamResponse false 3 .stall false (H1.RT.respWire H1.RT.exFixed ++ [72, 84]) 4 { readSize := 2, stopAfter := 100 }).toOption.map
      (fun o => (o.stream, o.got.bytes, o.got.eof, o.got.err)) = some (true, [104, 101, 108, 108, 111], true, false) := by
  decide +kernel

open Hertz.H1.RespStream in
/-- the hypothesis `p ≤ Content-Length` of `stream_mode_same_response` holds for every prefetched length the code can
produce (`prefetchOk`, checked per case on the implementation's value) when the peer sent no more than it declared -/
theorem stream_prefetch_within_body (maxBody : Nat) (hd : RespHead) (s1 : Bytes) (p : Nat)
    (h : prefetchOk maxBody hd s1 p = true) (hcl : 0 ≤ hd.cl) (hlen : s1.length ≤ hd.cl.toNat) : p ≤ hd.cl.toNat :=
  prefetch_within maxBody hd s1 p h hcl hlen

example : RespStream.prefetchOk 3 { cl := 5 } [104, 101, 108, 108, 111] 4 = true ∧ RespStream.prefetchOk 0 { cl := 5 } [104, 101, 108, 108, 111] 5 = true := by
  decide

open Hertz.H1.RespStream Hertz.H1.Stream in
/-- **streaming = buffered, bodies framed by the end of the connection** (the peer closes) -/
theorem stream_mode_same_response_until_close (dn : Bool) (maxBody : Nat) (s : Bytes) (p : Nat) (c : Consume)
    (hd : RespHead) (s1 : Bytes) (r : Result)
    (hh : readHeaders dn .eof s = .ok (hd, s1)) (hb : readResponse dn 0 .eof s = .ok r)
    (hs : mustSkipCL hd.status = false) (hcl : hd.cl = -2) :
    ∃ o, streamResponse dn maxBody .eof false s p c = .ok o ∧ SameAsBuffered r c o := by
  unfold readResponse at hb; rw [hh] at hb
  exact stream_same_identity dn maxBody s p c hd s1 r hh hb hs hcl

open Hertz.H1.RespStream Hertz.H1.Stream in
example : (streamResponse false 3 .eof false (H1.RT.exUntilClose.hdr.bytes ++ [1, 2, 3, 4, 5]) 5 { readSize := 2, stopAfter := 9 }).toOption.map
      (fun o => (o.stream, o.got.bytes, o.got.eof, o.got.err)) = some (true, [1, 2, 3, 4, 5], true, false) := by
  decide +kernel

open Hertz.H1.RespStream Hertz.H1.Stream in
/-- **streaming, chunked bodies**: for every well-formed chunked encoding `m` behind the head (`ChunkedMsg.Wf`: any
chunking, size lines of 1..15 hex digits with blanks, ANY trailer section, anything behind it) the bytes read are a
prefix of the de-chunked body (the body the strict decoder assigns: C14 `chunked_msg_is_spec_encoding`), never more
than asked for; if no read failed they are exactly its first `stopAfter` bytes and EOF is reported iff the caller
asked for more than the body; the head is the one `ReadHeaders` returned. -/
theorem stream_mode_same_response_chunked (dn : Bool) (maxBody : Nat) (e : End) (s : Bytes) (p : Nat) (c : Consume)
    (hd : RespHead) (m : ChunkedMsg) (rest : Bytes)
    (hh : readHeaders dn e s = .ok (hd, m.bytes ++ rest)) (hs : mustSkipCL hd.status = false) (hcl : hd.cl = -1) (hm : m.Wf) :
    ∃ o, streamResponse dn maxBody e false s p c = .ok o ∧ o.stream = true ∧ o.fault = false ∧ o.head = hd ∧
      o.got.bytes <+: m.body ∧ o.got.bytes.length ≤ c.stopAfter ∧
      (o.got.err = false → o.got.bytes = m.body.take c.stopAfter ∧ (o.got.eof = true ↔ m.body.length < c.stopAfter)) :=
  stream_same_chunked dn maxBody e s p c hd m rest hh hs hcl hm

open Hertz.H1.RespStream Hertz.H1.Stream in
/-- with a positive buffer size and an empty trailer section no read of a well-formed chunked body fails -/
theorem stream_chunked_no_read_error (dn : Bool) (maxBody : Nat) (e : End) (s : Bytes) (p : Nat) (c : Consume)
    (hd : RespHead) (m : ChunkedMsg) (rest : Bytes)
    (hh : readHeaders dn e s = .ok (hd, m.bytes ++ rest)) (hs : mustSkipCL hd.status = false) (hcl : hd.cl = -1) (hm : m.Wf)
    (hr : 0 < c.readSize) (htr : m.trailer = [13, 10]) :
    ∃ o, streamResponse dn maxBody e false s p c = .ok o ∧ o.got.err = false :=
  stream_chunked_no_error dn maxBody e s p c hd m rest hh hs hcl hm hr htr

open Hertz.H1.RespStream Hertz.H1.Stream in
/-- non-vacuity: `exChunked` (`he`,`llo`) read in 2-byte pieces, stop after 3: `hel`; read to the end: `hello`, EOF -/
example : (streamResponse false 0 .stall false (H1.RT.respWire H1.RT.exChunked ++ [72, 84]) 0 { readSize := 2, stopAfter := 3 }).toOption.map
      (fun o => (o.stream, o.got.bytes, o.got.eof, o.got.err)) = some (true, [104, 101, 108], false, false) ∧
    (streamResponse false 0 .stall false (H1.RT.respWire H1.RT.exChunked ++ [72, 84]) 0 { readSize := 2, stopAfter := 9 }).toOption.map
      (fun o => (o.stream, o.got.bytes, o.got.eof, o.got.err)) = some (true, [104, 101, 108, 108, 111], true, false) := by
  decide +kernel

open Hertz.H1.RespStream in
/-- **trailers after EOF**: what the stream object stores in `resp.Header.Trailer()` when the caller reaches the end of a
chunked body (`trailersAtEOF`: `ReadTrailer` behind the last-chunk line, compared with the real client per case) is the
trailer buffered mode returns for the same bytes, for every chunked response the buffered reader accepts -/
theorem stream_trailers_after_eof (dn : Bool) (e : End) (s : Bytes) (hd : RespHead) (s1 : Bytes) (r : Result)
    (hh : readHeaders dn e s = .ok (hd, s1)) (hb : readResponse dn 0 e s = .ok r)
    (hs : mustSkipCL hd.status = false) (hcl : hd.cl = -1) :
    trailersAtEOF dn e hd.trailer s1 = r.trailers := by
  unfold readResponse at hb; rw [hh] at hb
  exact trailersAtEOF_buffered dn e hd s1 r hb hs hcl

open Hertz.H1.RespStream Hertz.H1.Stream in
/-- non-vacuity: `exTrailers` read to the end through the stream: body `hello`, EOF, both trailer fields -/
example : (streamResponse false 0 .stall false (H1.RT.respWireT H1.RT.exTrailers ++ [72]) 0 { readSize := 3, stopAfter := 9 }).toOption.map
      (fun o => (o.got.bytes, o.got.eof, o.trailers)) =
    some ([104, 101, 108, 108, 111], true, [([88, 45, 84], [111, 107]), ([88, 45, 83, 117, 109], [57])]) := by
  decide +kernel

open Hertz.H1.RespStream Hertz.H1.Stream in
/-- **`MaxResponseBodySize` is not enforced in streaming mode**: limit 3, body `hello`: buffered mode refuses
(`ErrBodyTooLarge`), streaming mode hands out all five bytes (the limit bounds the prefetch only) -/
theorem stream_mode_limit_not_enforced :
    (match readResponse false 3 .stall (H1.RT.respWire H1.RT.exFixed) with | .error .tooLarge => true | _ => false) = true ∧
    (streamResponse false 3 .stall false (H1.RT.respWire H1.RT.exFixed) 4 { readSize := 8, stopAfter := 100 }).toOption.map
      (fun o => (o.got.bytes, o.got.eof)) = some ([104, 101, 108, 108, 111], true) := by
  decide +kernel

open Hertz.H1.RespStream Hertz.H1.Stream in
/-- the fault the model marks: a peer that sends more than it declared (`hello` + 2 bytes in one segment) with the
declared length over the limit: 7 bytes are prefetched (admissible: `prefetchOk`), `offset` can pass `contentLength`
(the Go code panics with slice bounds out of range; known finding `stream-prefetch-overread`) -/
theorem stream_overread_fault_at :
    (streamResponse false 3 .stall false (H1.RT.respWire H1.RT.exFixed ++ [72, 84]) 7 { readSize := 8, stopAfter := 100 }).toOption.map
      (fun o => o.fault) = some true := by
  decide +kernel

open Hertz.H1.RespStream Hertz.H1.Stream in
/-- **closing the stream keeps the pool clean** (`Content-Length` bodies): whatever the caller read (nothing, a part,
all), whenever it closed the stream (`fin`), if the connection goes back to the idle pool at all then it holds
exactly the bytes buffered mode would have left unread (`r.rest`) - so by `exchange_returns_own_response` the next
exchange on it reads its own response whenever it would after a buffered exchange - and neither side had asked to
close.  (When `skipRest` cannot reach the end of the body, or a read failed, the connection is closed instead.) -/
theorem stream_close_keeps_pool_clean (cfg : Exchange.Cfg) (rq : Exchange.Req) (sv : Exchange.Srv) (c : Exchange.Conn)
    (inPool : Bool) (p : Nat) (cs : Consume) (fin : Fin) (drained : Bool) (c' : Exchange.Conn) (o : SOutcome)
    (hd : RespHead) (s1 : Bytes) (r : Result)
    (h : attemptS cfg rq sv c inPool p cs fin drained = (some c', o))
    (hsk : rq.skipBody = false ∧ rq.appSkip = false)
    (hh : readHeaders cfg.disableNorm (Exchange.endOf (Exchange.serve c sv)) (Exchange.serve c sv).pending = .ok (hd, s1))
    (hb : readResponse cfg.disableNorm 0 (Exchange.endOf (Exchange.serve c sv)) (Exchange.serve c sv).pending = .ok r)
    (hs : mustSkipCL hd.status = false) (hcl : 0 ≤ hd.cl) (hp : p ≤ hd.cl.toNat) :
    c'.pending = r.rest ∧ rq.connClose = false ∧ r.head.connClose = false := by
  obtain ⟨ro, _, hro, hafter, hc1, hc2⟩ := attemptS_pooled cfg rq sv c inPool p cs fin drained c' o h
  rw [hsk.1, hsk.2] at hro
  obtain ⟨o', ho', hsame, ha⟩ := stream_mode_same_response cfg.disableNorm cfg.maxBody _ _ p cs hd s1 r hh hb hs hcl hp
  have : ro = o' := by
    have := hro.symm.trans ho'
    simpa using this
  subst this
  rw [ha] at hafter
  refine ⟨?_, hc1, ?_⟩
  · rcases hafter with h1 | h1
    · simpa using h1.symm
    · cases h1
  · rw [hsame.head]; simp only [RespRead.setContentLength]; split <;> simpa using hc2

open Hertz.H1.RespStream Hertz.H1.Stream in
/-- the same for chunked bodies: for a well-formed chunked message with a trailer section of field lines, a connection
that goes back to the pool holds exactly what followed the message (`rest`) -/
theorem stream_close_keeps_pool_clean_chunked (cfg : Exchange.Cfg) (rq : Exchange.Req) (sv : Exchange.Srv) (c : Exchange.Conn)
    (inPool : Bool) (p : Nat) (cs : Consume) (fin : Fin) (drained : Bool) (c' : Exchange.Conn) (o : SOutcome)
    (hd : RespHead) (m : ChunkedMsg) (ls : List Bytes) (rest : Bytes)
    (h : attemptS cfg rq sv c inPool p cs fin drained = (some c', o))
    (hsk : rq.skipBody = false ∧ rq.appSkip = false)
    (hh : readHeaders cfg.disableNorm (Exchange.endOf (Exchange.serve c sv)) (Exchange.serve c sv).pending = .ok (hd, m.bytes ++ rest))
    (hs : mustSkipCL hd.status = false) (hcl : hd.cl = -1) (hm : m.Wf)
    (hls : ∀ l ∈ ls, TrFieldOk l) (htr : m.trailer = encTrailer ls) :
    c'.pending = rest := by
  obtain ⟨ro, _, hro, hafter, _, _⟩ := attemptS_pooled cfg rq sv c inPool p cs fin drained c' o h
  rw [hsk.1, hsk.2] at hro
  obtain ⟨o', ho', ha⟩ := stream_chunked_after cfg.disableNorm cfg.maxBody _ _ p cs hd m ls rest hh hs hcl hm hls htr
  have : ro = o' := by
    have := hro.symm.trans ho'
    simpa using this
  subst this
  rw [ha] at hafter
  split at hafter
  · rcases hafter with h1 | h1 <;> cases h1
  · split at hafter
    · rcases hafter with h1 | h1
      · simpa using h1.symm
      · cases h1
    · rcases hafter with h1 | h1
      · cases h1
      · simpa using h1.symm

open Hertz.H1.RespStream Hertz.H1.Stream in
/-- non-vacuity: the caller reads 2 of 5 bytes and closes; the connection goes back to the pool standing behind the body,
and the next (streamed) exchange on it reads its own response -/
example : ((exchangeS {} {} {} exBig 5 { readSize := 2, stopAfter := 2 } .close true).1.idle.map (·.pending)) = some [] ∧
    ((exchangeS {} (exchangeS {} {} {} exBig 5 { readSize := 2, stopAfter := 2 } .close true).1 {} exSmall 2
        { readSize := 8, stopAfter := 8 } .close true).1.dials) = 1 := by
  decide +kernel

/-! ## X11 part 2 — interim responses

`resp.ReadHeaders` reads one head and, while its status is a registered interim status (`100`, `102`, `103`), one more
(`/repo` 8ec4dd8).  The request plays no role (no `Expect` test), so an unsolicited interim response is skipped like a
solicited one.  HISTORY: before 8ec4dd8 exactly ONE `100` was skipped; any other 1xx head (`102`, `103`) and a SECOND
`100` were returned as the final response (`MustSkipContentLength`: no body), the real final response stayed on the
connection, which went back to the pool, and the NEXT exchange on it returned the response of this one — found by the
first version of `interim_skipped` (it needed "status exactly 100 and the rest does not begin with a 100 head"),
reproduced on the real client in both modes, repaired; the former `_fails_at` witnesses are regression theorems now.
`101` and unregistered 1xx codes are final for the reader (`isInterim`). -/

/-- **interim responses are skipped**: for every interim head a server can write with status 100, 102 or 103 (any reason
phrase without CR/LF, any well-formed field list), whatever follows (`X`: a conforming final response, further interim
heads, a malformed one, nothing), under any limit and end behaviour: the reader returns for `interim ++ X` exactly what
it returns for `X` - status, fields, body, trailers, unread rest, or the same error. -/
theorem interim_skipped (dn : Bool) (maxBody : Nat) (e : End) (st : Nat) (reason : Bytes) (fs : List (Bytes × Bytes)) (X : Bytes)
    (hi : isInterim st = true)
    (hr : ∀ x ∈ reason, x ≠ 13 ∧ x ≠ 10) (h : H1.RT.wfFields dn fs = true) (herr : (H1.RT.scanned dn st fs).err = false) :
    readResponse dn maxBody e (H1.RT.interimHead st reason fs ++ X) = readResponse dn maxBody e X := by
  unfold readResponse
  rw [H1.RT.readHeaders_interim dn e st reason fs X hi hr h herr]

/-- **any number of them** (RFC 9110 §15.2: "one or more 1xx responses prior to a final response") -/
theorem interims_skipped (dn : Bool) (maxBody : Nat) (e : End) (is : List H1.RT.IHead) (X : Bytes)
    (h : ∀ i ∈ is, i.Wf dn) :
    readResponse dn maxBody e ((is.map H1.RT.IHead.bytes).flatten ++ X) = readResponse dn maxBody e X := by
  unfold readResponse
  rw [H1.RT.readHeaders_interims dn e is X h]

/-- the same with `resp.SkipBody` (HEAD) and in streaming mode: all three readers share `ReadHeaders` -/
theorem interim_skipped_any_mode (dn : Bool) (maxBody : Nat) (e : End) (is : List H1.RT.IHead) (X : Bytes)
    (skip : Bool) (p : Nat) (c : Stream.Consume) (h : ∀ i ∈ is, i.Wf dn) :
    RespRead.readResponseSkip skip dn maxBody e ((is.map H1.RT.IHead.bytes).flatten ++ X) = RespRead.readResponseSkip skip dn maxBody e X ∧
    RespStream.streamResponse dn maxBody e skip ((is.map H1.RT.IHead.bytes).flatten ++ X) p c = RespStream.streamResponse dn maxBody e skip X p c := by
  constructor
  · unfold RespRead.readResponseSkip
    rw [H1.RT.readHeaders_interims dn e is X h]
  · unfold RespStream.streamResponse
    rw [H1.RT.readHeaders_interims dn e is X h]

/-- non-vacuity: `HTTP/1.1 100 Continue` + `X-Note: go` in front of the 2-byte answer: hypotheses hold, the answer comes back -/
example : H1.RT.wfFields false [([88, 45, 78, 111, 116, 101], [103, 111])] = true ∧
    (H1.RT.scanned false 100 [([88, 45, 78, 111, 116, 101], [103, 111])]).err = false ∧
    (readResponse false 0 .stall (H1.RT.interim100 [67, 111, 110, 116, 105, 110, 117, 101] [([88, 45, 78, 111, 116, 101], [103, 111])] ++ exSmall.resp)).toOption.map
      (fun r => (r.head.status, r.body, r.rest)) = some (200, [104, 105], []) := by
  decide +kernel

/-- non-vacuity of `interims_skipped`: `102 P`, `100 C` + `X-Note: go`, `103 E` -/
example : ∀ i ∈ ([⟨102, [80], []⟩, ⟨100, [67], [([88, 45, 78, 111, 116, 101], [103, 111])]⟩, ⟨103, [69], []⟩] : List H1.RT.IHead),
    i.Wf false := by
  intro i hi
  simp only [List.mem_cons, List.not_mem_nil, or_false] at hi
  rcases hi with rfl | rfl | rfl <;> exact ⟨by decide, by decide, by decide +kernel, by decide +kernel⟩

/-- `HTTP/1.1 103 Early Hints` + `Link: </x>` -/
def exEarlyHints : Bytes :=
  H1.RT.statusLine 103 [69, 97, 114, 108, 121, 32, 72, 105, 110, 116, 115] ++ [13, 10] ++ HW.block [([76, 105, 110, 107], [60, 47, 120, 62])]

/-- regression (the witness of the former `interim_skipped_fails_at_103`): `103 Early Hints` in front of the answer `hi`:
the client returns the final response; before 8ec4dd8 it returned status 103 with an empty body and left the whole
final response unread on the connection -/
theorem interim_103_skipped_repaired :
    (readResponse false 0 .stall (exEarlyHints ++ exSmall.resp)).toOption.map (fun r => (r.head.status, r.body, r.rest)) =
       (readResponse false 0 .stall exSmall.resp).toOption.map (fun r => (r.head.status, r.body, r.rest)) ∧
    (readResponse false 0 .stall (exEarlyHints ++ exSmall.resp)).toOption.map (fun r => (r.head.status, r.body, r.rest)) =
      some (200, [104, 105], []) := by
  decide +kernel

/-- regression (former `interim_skipped_fails_at_two_100`): a second `100` is skipped too -/
theorem interim_two_100_skipped_repaired :
    (readResponse false 0 .stall (H1.RT.interim100 [67] [] ++ (H1.RT.interim100 [67] [] ++ exSmall.resp))).toOption.map
      (fun r => (r.head.status, r.body, r.rest)) = some (200, [104, 105], []) := by
  decide +kernel

/-- … and the consequence for the pool (former `interim_103_poisons_pool`): the exchange answered `103 + first` returns
the first answer `hello`, the NEXT exchange on the pooled connection (answered `hi`) returns `hi` (one connection:
`dials` = 1) -/
theorem interim_103_pool_clean :
    (Exchange.run {} {} [({}, { resp := exEarlyHints ++ exBig.resp }), ({}, exSmall)]).map
      (fun x => (x.1, match x.2 with | .ok r => (r.head.status, r.body) | _ => (0, []))) =
      [(1, (200, [104, 101, 108, 108, 111])), (1, (200, [104, 105]))] := by
  decide +kernel

/-! ## X11 part 3 — hertz's part of the multipart/form-data writer (`Model/Multipart.lean`, `Spec/Multipart.lean`)

`Multipart.wire b parts` = what `AddMultipartFormField` / `WriteMultipartFormFile` + `multipart.Writer` put on the wire
(compared byte for byte with the real code by the op `mpwrite`); `Spec.Multipart.decode` = an independent decoder
(delimiter lines, part headers, `name="…"` / `filename="…"` as quoted strings with quoted pairs).
`CreateMultipartHeader` escapes the field name and the file name like `mime/multipart` does (`/repo` 865e699), so the
round trip holds for every name without CR / LF — `"` and `\` included (`multipart_roundtrip`); CR / LF become `%0D` /
`%0A` (not reversible, but no header line is injected: `multipart_crlf_in_name_contained`).  HISTORY: before the repair
the two values were written verbatim and the round trip was false for names containing `"`, CR or LF (truncated name,
smuggled `filename`, injected part header line) — found by the first version of this proof (its hypothesis excluded
`"`), reproduced on the real writer and confirmed by `mime/multipart`'s reader. -/

/-- **multipart round trip**: for EVERY boundary `b` and EVERY list of parts (fields and files, any number, any sizes)
whose names and file names contain no CR LF (quotes, backslashes, anything else allowed), whose content types contain no CR LF and do not begin with a
blank, and whose contents do not contain (or run into) a delimiter `CRLF--b` (`Clean`: the first delimiter in
`content ++ CRLF--b` is the appended one): the independent decoder reads the bytes hertz's writer produces
(`Multipart.wire`: `CreateMultipartHeader` + `CreatePart` framing + closing delimiter) back to exactly the parts
attached - names, file names (none for a blank one), types (none for an empty one), contents, in order. -/
theorem multipart_roundtrip (b : Bytes) (ps : List Multipart.Part) (h : ∀ q ∈ ps, MultipartRT.Clean b q) :
    Spec.Multipart.decode b (Multipart.wire b ps) = some (ps.map MultipartRT.intended) :=
  MultipartRT.decode_wire b ps h

/-- non-vacuity: the hypothesis holds for a file part whose content looks like a delimiter of another boundary and whose
name contains `;`, `=`, a quote and a backslash -/
example : MultipartRT.Clean [88, 121]
    { name := [97, 59, 98, 61, 34, 92], fileName := [102, 46, 116], ctype := [116, 47, 112], content := [13, 10, 45, 45, 88, 13, 10] } :=
  ⟨by unfold MultipartRT.cleanVal; decide, by unfold MultipartRT.cleanVal; decide, by decide, by decide +kernel⟩

/-- the round trip on a witness: a field, a file with type, a content that looks like a delimiter but is none -/
theorem multipart_roundtrip_witness :
    Spec.Multipart.decode [88, 121] (Multipart.wire [88, 121]
      [{ name := [97], content := [49, 50] },
       { name := [102], fileName := [102, 46, 116], ctype := [116, 47, 112], content := [13, 10, 45, 45, 88, 13, 10] },
       { name := [101] }]) =
    some [{ name := [97], fileName := none, ctype := none, content := [49, 50] },
          { name := [102], fileName := some [102, 46, 116], ctype := some [116, 47, 112], content := [13, 10, 45, 45, 88, 13, 10] },
          { name := [101], fileName := none, ctype := none, content := [] }] ∧
    Spec.Multipart.decode [88, 121] (Multipart.wire [88, 121] []) = some [] := by
  decide +kernel

/-- regression (former `multipart_roundtrip_fails_at_quote`; `/repo` 865e699): the field name `a"; filename="evil.sh` (no
file name given) comes back as that very name, without a file name — it is INSIDE `multipart_roundtrip` now; before the
repair the names were written verbatim and the part was read back as the field `a` WITH the file name `evil.sh` -/
theorem multipart_quote_in_name_repaired :
    Spec.Multipart.decode [88, 121] (Multipart.wire [88, 121]
      [{ name := [97, 34, 59, 32, 102, 105, 108, 101, 110, 97, 109, 101, 61, 34, 101, 118, 105, 108, 46, 115, 104], content := [49] }]) =
    some [{ name := [97, 34, 59, 32, 102, 105, 108, 101, 110, 97, 109, 101, 61, 34, 101, 118, 105, 108, 46, 115, 104],
            fileName := none, ctype := none, content := [49] }] := by
  decide +kernel

/-- **CR LF in a name is not reversible, but harmless** (former `multipart_roundtrip_fails_at_crlf`): the field name
`a"␍␊Content-Type: text/html` (no type given) is read back as ONE name with `%0D%0A` in place of the line break and no
content type — no part header line is injected any more -/
theorem multipart_crlf_in_name_contained :
    (Spec.Multipart.decode [88, 121] (Multipart.wire [88, 121]
      [{ name := [97, 34, 13, 10, 67, 111, 110, 116, 101, 110, 116, 45, 84, 121, 112, 101, 58, 32, 116, 101, 120, 116, 47, 104, 116, 109, 108], content := [49] }])).map
      (fun ps => ps.map (fun p => (p.name, p.ctype))) =
    some [([97, 34, 37, 48, 68, 37, 48, 65, 67, 111, 110, 116, 101, 110, 116, 45, 84, 121, 112, 101, 58, 32, 116, 101, 120, 116, 47, 104, 116, 109, 108], none)] := by
  decide +kernel

end Hertz.Props.C11
