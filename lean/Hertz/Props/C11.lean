import Hertz.Model.Http1.RespRead
import Hertz.Proofs.RespRoundtrip
import Hertz.Proofs.RespTrailers
import Hertz.Proofs.ReqDecodes
/-!
# C11 — client requests reach the server intact and responses come back intact

Request side: the bytes produced by the real `req.Write` / `ProxyWrite` for requests built through the
client API (method, URL with query, headers, cookies, body as bytes / stream of known or unknown
length / form arguments) are compared with the model `HW.ReqHdr.bytes ++ body encoding` (C05/C04
models) and, in the spec step, decoded by the strict decoder `Spec.Http.decodeOne`, by the Lean model
of hertz's own server-side reader and by `net/http.ReadRequest`: all three must read the same method,
target, Host and body.
Response side: `RespRead.readResponse` models `resp.ReadHeaderAndLimitBody` (first line, header
scanner, `100 Continue` skip, fixed / chunked+trailers / until-close bodies, bodiless statuses, size
limit); it is compared with the real reader over the scripted connection under arbitrary
segmentation (client half of C02), and every conforming response (strict reader `Spec.Resp`) must come
back with the same status, fields and body.

Proved for all inputs:
* `max_size_enforced`: with a positive `MaxResponseBodySize` no accepted response has a longer body;
* `bodiless_status_no_body`: 1xx/204/304 responses never carry a body whatever framing fields they have;
* `response_roundtrip` (reader ∘ writer = identity): for every well-formed response `r` (`RT.wfResp`:
  status that may carry a body and fits an `int`, reason/values free of CR/LF and of blanks at either
  end, generic fields with non-empty valid names in normalised form that are none of the eight names
  the reader keeps in dedicated fields, body by `Content-Length` or chunked with pieces below `16^15`
  bytes) and every `rest`, with the size limit off or not below the body length, under either end
  behaviour, `readResponse (respWire r ++ rest)` is `r`'s status, dedicated fields, generic fields in
  order (after the server's `Date` line), cookies, `Connection: close` flag and body, no trailers,
  and leaves exactly `rest`.  `respWire` = C05 header model (`HW.RespHdr.bytes` after
  `SetContentLength`) ++ C04 body model (`Resp.frame … .wire`).  Stages: `response_body_chunked`
  (chunk reader ∘ chunk encoder, any accumulated prefix), `response_head_roundtrip` (status line and
  ANY well-formed field list through `ReadHeaders`: the scanner sees exactly the fields written and
  stops at the end of the head);
* `chunk_size_limit_tight`: a chunk of `16^15` bytes or more is written with 16 hex digits, which
  `ReadHexInt` (`maxHexIntChars` = 15) refuses - so the bound in `wfResp` cannot be relaxed
  (not reachable in practice: 2^60 bytes);
* `request_decodes`: for every well-formed request (`ReqDecodes.WfRequest`: token method, visible
  target, token names, clean trimmed values, framing fields consistent with the body: none /
  `Content-Length` = decimal length / `Transfer-Encoding: chunked` with pieces below `16^15` bytes and
  well-formed trailer fields) the request writer model's bytes followed by any `rest` decode, with the
  strict decoder `Spec.Http.decodeOne`, to the same method, target, fields (all of them, in order),
  body and trailers, leaving exactly `rest`;
* `response_roundtrip_trailers`: the same for a streamed (chunked) response that sets trailer fields
  (`RT.wfRespT`: every trailer field well-formed, its name kept by `SetTrailers` - no comma, not one
  of the forbidden trailer names - and not starting with `0`): the `Trailer:` declaration is read
  back as exactly the names, the trailer section as exactly the fields, in order, duplicates included.

TODO-OPEN (not proved as theorems; evaluated per explored case by the spec step):
* trailer names starting with `0`: in the model of `parseTrailer` this copy was built from ("skip any
  0 length chunk": three bytes are skipped whenever the trailer part starts with `0`) such a field
  cannot round-trip; `/repo` has since been repaired (commit "a trailer field whose name starts with
  '0' no longer desynchronises the connection") and the model in /verif follows; the hypothesis
  `kv.1.head? != some 48` in `wfRespT` is then stronger than needed (the proofs build unchanged
  against the repaired `Model/Http1/Body.lean`);
* `response_roundtrip` for bodiless statuses (1xx except 100, 204, 304: head only) and for the
  read-until-close framing (no `Content-Length`, no chunking, `Connection: close`);
* field names that are not in `normalizeKey` form when normalisation is on (the reader returns the
  normalised name), values with blanks at the ends (the reader trims them): excluded by `wfResp`;
* the hijacked chunked writer (`Resp.writerWire`) as a body source of `WResp` (its wire equals
  `chunkedWire` of the non-empty writes; C04 `writer_body_decodes` covers the strict reader).
Observed, outside the property (C05 covers CR/LF only): NUL and other control bytes in header values
set by the application are written verbatim; net/http refuses such a request.
-/
namespace Hertz.Props.C11
open Hertz Hertz.H1 Hertz.H1.RespRead

theorem chunked_le (e : End) (maxBody : Nat) (hm : 0 < maxBody) : ∀ (fuel : Nat) (dst s b r : Bytes),
    dst.length ≤ maxBody → readBodyChunked e maxBody fuel dst s = .ok (b, r) → b.length ≤ maxBody
  | 0, _, _, _, _, _, h => by simp [readBodyChunked] at h
  | fuel + 1, dst, s, b, r, hd, h => by
    unfold readBodyChunked at h
    cases hp : parseChunkSize e s with
    | error x => simp [hp, bind, Except.bind] at h
    | ok pr =>
      obtain ⟨size, rest⟩ := pr
      simp only [hp, bind, Except.bind] at h
      by_cases hz : size = 0
      · simp only [hz, if_true, Except.ok.injEq, Prod.mk.injEq] at h
        rw [← h.1]; exact hd
      · simp only [hz, if_false] at h
        by_cases hl : maxBody > 0 ∧ dst.length + size > maxBody
        · simp [hl] at h
        · simp only [hl, if_false] at h
          cases ht : takeBody e (size + 2) rest with
          | error x => simp [ht] at h
          | ok cr =>
            obtain ⟨chunk, rest'⟩ := cr
            simp only [ht] at h
            split at h
            · simp at h
            · have hle : (dst ++ chunk.take size).length ≤ maxBody := by
                simp only [List.length_append, List.length_take]
                have : ¬ (dst.length + size > maxBody) := fun hc => hl ⟨hm, hc⟩
                omega
              exact chunked_le e maxBody hm fuel _ _ b r hle h

theorem takeBody_len (e : End) (n : Nat) (s b r : Bytes) (h : takeBody e n s = .ok (b, r)) : b.length = n := by
  unfold takeBody takeN at h
  by_cases hl : s.length ≥ n
  · simp only [hl, if_true, Except.ok.injEq, Prod.mk.injEq] at h
    rw [← h.1]; simp; omega
  · simp only [hl, if_false] at h
    cases e <;> simp [endErr] at h

theorem readIdentity_len (m : Nat) (s b r : Bytes) (hm : 0 < m) (h : readIdentity m s = .ok (b, r)) : b.length ≤ m := by
  unfold readIdentity at h
  by_cases hl : m > 0 ∧ s.length > m
  · simp [hl] at h
  · simp only [hl, if_false, Except.ok.injEq, Prod.mk.injEq] at h
    rw [← h.1]
    have : ¬ (s.length > m) := fun hc => hl ⟨hm, hc⟩
    omega

theorem bodyPart_max (dn : Bool) (maxBody : Nat) (e : End) (hd : RespHead) (s1 : Bytes) (r : Result)
    (hm : 0 < maxBody) (h : readBodyPart dn maxBody e hd s1 = .ok r) : r.body.length ≤ maxBody := by
  unfold readBodyPart at h
  simp only at h
  split at h
  · simp only [Except.ok.injEq] at h; rw [← h]; simp
  · split at h
    · split at h
      · simp at h
      · rename_i hlim
        cases ht : takeBody e hd.cl.toNat s1 with
        | error x => simp [ht] at h
        | ok br =>
          obtain ⟨b, rest⟩ := br
          simp only [ht, Except.ok.injEq] at h
          rw [← h]
          simp only
          have hb : b.length = hd.cl.toNat := takeBody_len e _ _ _ _ ht
          have : ¬ (hd.cl.toNat > maxBody) := fun hc => hlim ⟨hm, hc⟩
          omega
    · split at h
      · cases hc : readBodyChunked e maxBody (s1.length + 1) [] s1 with
        | error x => simp [hc] at h
        | ok br =>
          obtain ⟨body, rest⟩ := br
          have hle := chunked_le e maxBody hm _ [] s1 body rest (by simp) hc
          simp only [hc] at h
          split at h
          · simp at h
          · simp only [Except.ok.injEq] at h; rw [← h]; exact hle
          · simp only [Except.ok.injEq] at h; rw [← h]; exact hle
      · cases hi : readIdentity maxBody s1 with
        | error x => simp [hi] at h
        | ok br =>
          obtain ⟨b, rest⟩ := br
          simp only [hi, Except.ok.injEq] at h
          rw [← h]
          exact readIdentity_len maxBody s1 b rest hm hi

theorem max_size_enforced (dn : Bool) (maxBody : Nat) (e : End) (s : Bytes) (r : Result)
    (hm : 0 < maxBody) (h : readResponse dn maxBody e s = .ok r) : r.body.length ≤ maxBody := by
  unfold readResponse at h
  split at h
  · simp at h
  · exact bodyPart_max dn maxBody e _ _ r hm h

theorem bodyPart_bodiless (dn : Bool) (maxBody : Nat) (e : End) (hd : RespHead) (s1 : Bytes) (r : Result)
    (h : readBodyPart dn maxBody e hd s1 = .ok r) (hs : mustSkipCL r.head.status = true) : r.body = [] := by
  have key : ∀ n, (RespRead.setContentLength hd n).status = hd.status := by
    intro n; unfold RespRead.setContentLength; split <;> rfl
  have key2 : ∀ n, (RespRead.setContentLength { hd with trailer := [] } n).status = hd.status := by
    intro n; unfold RespRead.setContentLength; split <;> rfl
  unfold readBodyPart at h
  simp only at h
  split at h
  · simp only [Except.ok.injEq] at h; rw [← h]
  · rename_i hns
    exfalso
    split at h
    · split at h
      · simp at h
      · split at h
        · simp only [Except.ok.injEq] at h; rw [← h] at hs; simp only [key] at hs; exact hns hs
        · simp at h
    · split at h
      · split at h
        · simp at h
        · split at h
          · simp at h
          · simp only [Except.ok.injEq] at h; rw [← h] at hs; simp only [key] at hs; exact hns hs
          · simp only [Except.ok.injEq] at h; rw [← h] at hs; simp only [key2] at hs; exact hns hs
      · split at h
        · simp at h
        · simp only [Except.ok.injEq] at h; rw [← h] at hs; simp only [key] at hs; exact hns hs

theorem bodiless_status_no_body (dn : Bool) (maxBody : Nat) (e : End) (s : Bytes) (r : Result)
    (h : readResponse dn maxBody e s = .ok r) (hs : mustSkipCL r.head.status = true) : r.body = [] := by
  unfold readResponse at h
  split at h
  · simp at h
  · exact bodyPart_bodiless dn maxBody e _ _ r h hs

/-- non-vacuity: a 5-byte body is refused under a 4-byte limit and accepted under a 5-byte limit. -/
example :
    (match readResponse false 4 .eof [72,84,84,80,47,49,46,49,32,50,48,48,32,79,75,13,10,67,111,110,116,101,110,116,45,76,101,110,103,116,104,58,32,53,13,10,13,10,1,2,3,4,5] with
     | .error .tooLarge => true | _ => false) = true ∧
    (match readResponse false 5 .eof [72,84,84,80,47,49,46,49,32,50,48,48,32,79,75,13,10,67,111,110,116,101,110,116,45,76,101,110,103,116,104,58,32,53,13,10,13,10,1,2,3,4,5] with
     | .ok r => r.body == [1,2,3,4,5] | _ => false) = true := by decide +kernel

/-! ### reader ∘ writer = identity -/

open Hertz.H1.RT in
/-- stage 1 (body): the client's chunk reader on the writer's chunk encoding -/
theorem response_body_chunked (e : End) (maxBody : Nat) (cs : List Bytes) (X dst : Bytes) (fuel : Nat)
    (hc : ∀ c ∈ cs, c ≠ [] ∧ c.length < 16 ^ 15) (hf : cs.length < fuel)
    (hm : maxBody = 0 ∨ dst.length + cs.flatten.length ≤ maxBody) :
    readBodyChunked e maxBody fuel dst (H1.Resp.encodeChunks cs ++ H1.Resp.writeChunk [] ++ X) = .ok (dst ++ cs.flatten, X) :=
  readBodyChunked_encode e maxBody cs X dst fuel hc hf hm

example : (∀ c ∈ [[1, 2, 3], [4]], c ≠ ([] : Bytes) ∧ c.length < 16 ^ 15) ∧ [[1, 2, 3], [4]].length < 3 := by decide

open Hertz.H1.RT in
/-- stage 2 (head): `ReadHeaders` on a status line and any well-formed field list written by
`appendHeaderLine` returns the status and (through the reader's field switch `applyHeader`) exactly
the fields written, in order, and stops exactly at the end of the head. -/
theorem response_head_roundtrip (dn : Bool) (e : End) (st : Nat) (reason : Bytes) (fs : List (Bytes × Bytes)) (X : Bytes)
    (hst : st < 2 ^ 63) (h100 : st ≠ 100) (hr : ∀ x ∈ reason, x ≠ 13 ∧ x ≠ 10) (h : wfFields dn fs = true)
    (herr : (scanned dn st fs).err = false) :
    readHeaders dn e (statusLine st reason ++ Gen.Str.strCRLF ++ HW.block fs ++ X) =
      .ok (finishHead (scanned dn st fs).head, X) :=
  readHeaders_written dn e st reason fs X hst h100 hr h herr

/-- non-vacuity: `X-Id: 7`, `Etag: "a b"` -/
example : H1.RT.wfFields false [([88, 45, 73, 100], [55]), ([69, 116, 97, 103], [34, 97, 32, 98, 34])] = true := by
  decide +kernel

open Hertz.H1.RT in
/-- the whole response -/
theorem response_roundtrip (dn : Bool) (maxBody : Nat) (e : End) (r : WResp) (rest : Bytes)
    (hw : wfResp dn r = true) (hmax : maxBody = 0 ∨ r.body.content.length ≤ maxBody) :
    readResponse dn maxBody e (respWire r ++ rest) =
      .ok { head := r.seenHead, body := r.body.content, trailers := [], rest := rest } :=
  H1.RT.response_roundtrip dn maxBody e r rest hw hmax

open Hertz.H1.RT in
/-- corollary in the words of the property: status, fields and body as sent, rest untouched -/
theorem response_roundtrip_view (dn : Bool) (maxBody : Nat) (e : End) (r : WResp) (rest : Bytes)
    (hw : wfResp dn r = true) (hmax : maxBody = 0 ∨ r.body.content.length ≤ maxBody) :
    ∃ res, readResponse dn maxBody e (respWire r ++ rest) = .ok res ∧
      res.head.status = r.status ∧ res.head.h = r.seenFields ∧ res.head.contentType = r.contentType ∧
      res.head.server = r.server ∧ res.head.cookies = r.cookies ∧ res.head.connClose = r.connClose ∧
      res.body = r.body.content ∧ res.rest = rest :=
  ⟨_, H1.RT.response_roundtrip dn maxBody e r rest hw hmax, rfl, rfl, rfl, rfl, rfl, rfl, rfl, rfl⟩

/-- non-vacuity: `200 OK`, Server `hz`, Date `now`, Content-Type `t/p`, `X-Id: 7`, a cookie, `Connection: close`,
body `hello` with Content-Length; and the same streamed in pieces `he`, ``, `llo` (chunked) -/
example : H1.RT.wfResp false H1.RT.exFixed = true ∧ H1.RT.wfResp true H1.RT.exChunked = true := by
  decide +kernel

open Hertz.H1.RT in
/-- a streamed response with trailer fields: status, fields, body AND the trailer fields come back -/
theorem response_roundtrip_trailers (dn : Bool) (maxBody : Nat) (e : End) (r : WRespT) (rest : Bytes)
    (hw : wfRespT dn r = true) (hmax : maxBody = 0 ∨ r.base.body.content.length ≤ maxBody) :
    readResponse dn maxBody e (respWireT r ++ rest) =
      .ok { head := r.seenHead, body := r.base.body.content, trailers := r.trailers, rest := rest } :=
  H1.RT.response_roundtrip_trailers dn maxBody e r rest hw hmax

example : H1.RT.wfRespT false H1.RT.exTrailers = true := by decide +kernel

/-- the size bound on chunks in `wfResp` is tight: `WriteHexInt(16^15)` has 16 digits and is refused -/
theorem chunk_size_limit_tight (e : End) (X : Bytes) :
    parseChunkSize e (H1.Resp.writeHexInt (16 ^ 15) ++ 13 :: 10 :: X) = .error .bad :=
  H1.RT.parseChunkSize_16digits e X

/-! ### the request writer's bytes decode to the request -/

open Hertz.ReqDecodes in
theorem request_decodes (r : HW.ReqHdr) (b : ReqBody) (rest : Bytes) (h : WfRequest r b) :
    Spec.Http.decodeOne (reqWire r b ++ rest) =
      some ({ method := r.methodOrGet, target := reqTarget r, fields := r.fields, body := b.content,
              trailers := b.trailers, foldedColon := false }, rest) :=
  ReqDecodes.request_decodes r b rest h

/-- non-vacuity: `POST /p` with User-Agent, Host, Content-Type, `Content-Length: 3`, `X-Y: 1 2`, a cookie,
`Connection: close` and the body `xyz` -/
example : ReqDecodes.WfRequest ReqDecodes.exPost (.fixed [120, 121, 122]) :=
  ⟨by decide, by decide, ⟨ReqDecodes.appendUintDec_3.symm, by decide⟩⟩

end Hertz.Props.C11
