import Hertz.Proofs.Chain
import Hertz.Proofs.Group
import Hertz.Proofs.GroupLiteral
import Hertz.Gen.Chain
/-!
# C12 — middleware chains run in onion order and Abort stops what has not started

Property theorems only; lemmas live in `Hertz/Proofs/Chain.lean`.  The statements are about the
models in `Hertz/Model/Chain.lean` (held to `RequestContext.Next/Abort`, `RouterGroup.*`,
`Engine.Use/NoRoute/NoMethod/ServeHTTP` by `bin/check C12`), judged by the trace monitor of
`Hertz/Spec/Chain.lean`, with `AbortIndex` regenerated from `pkg/route/consts/const.go`.
-/
namespace Hertz.Props.C12
open Hertz Hertz.Chain

/-- The model's `AbortIndex` is the constant in the Go source (a change there breaks the proofs below). -/
theorem model_matches_gen : abortIndex = Hertz.Gen.abortIndex ∧ Hertz.Gen.abortIndex = 63 := ⟨rfl, rfl⟩

/-- **The source still has the shape the model was written from.**  `Hertz/Gen/Chain.lean` is printed
from the Go AST on every run; any edit to `Next`, `Abort`, `AbortWithStatus`, `IsAborted`, the type or
the initial value of `index`, `combineHandlers`, `Use`, `Group`, `handle`, `Engine.Use`, `NoRoute`,
`NoMethod`, `rebuild404Handlers`, `rebuild405Handlers` or the `SetHandlers` calls of `ServeHTTP` breaks
this theorem (and the check then says so, with or without a failing input). -/
theorem source_shape :
    Hertz.Gen.Chain.indexType = "int8" ∧
    Hertz.Gen.Chain.next = ["if ctx.index < math.MaxInt8", "ctx.index++", "end",
      "for ctx.index < int8(len(ctx.handlers))", "ctx.handlers[ctx.index](c, ctx)",
      "if ctx.index < math.MaxInt8", "ctx.index++", "end", "end"] ∧
    Hertz.Gen.Chain.abort = ["ctx.index = rConsts.AbortIndex"] ∧
    Hertz.Gen.Chain.abortWithStatus = ["ctx.SetStatusCode(code)", "ctx.Abort()"] ∧
    Hertz.Gen.Chain.isAborted = ["return ctx.index >= rConsts.AbortIndex"] ∧
    Hertz.Gen.Chain.setHandlers = ["ctx.handlers = hc"] ∧
    Hertz.Gen.Chain.indexWrites = ["index: -1", "ctx.index = index", "cp.index = rConsts.AbortIndex",
      "ctx.index = -1", "ctx.index = rConsts.AbortIndex"] ∧
    Hertz.Gen.Chain.groupUse = ["group.Handlers = append(group.Handlers, middleware...)", "return group.returnObj()"] ∧
    Hertz.Gen.Chain.groupGroup = ["return &RouterGroup{ Handlers: group.combineHandlers(handlers), basePath: group.calculateAbsolutePath(relativePath), engine: group.engine, }"] ∧
    Hertz.Gen.Chain.groupHandle = ["absolutePath := group.calculateAbsolutePath(relativePath)",
      "handlers = group.combineHandlers(handlers)", "group.engine.addRoute(httpMethod, absolutePath, handlers)",
      "return group.returnObj()"] ∧
    Hertz.Gen.Chain.combineHandlers = ["finalSize := len(group.Handlers) + len(handlers)",
      "if finalSize >= int(rConsts.AbortIndex)", "panic(\"too many handlers\")", "end",
      "mergedHandlers := make(app.HandlersChain, finalSize)", "copy(mergedHandlers, group.Handlers)",
      "copy(mergedHandlers[len(group.Handlers):], handlers)", "return mergedHandlers"] ∧
    Hertz.Gen.Chain.engineUse = ["engine.RouterGroup.Use(middleware...)", "engine.rebuild404Handlers()",
      "engine.rebuild405Handlers()", "return engine"] ∧
    Hertz.Gen.Chain.noRoute = ["engine.noRoute = handlers", "engine.rebuild404Handlers()"] ∧
    Hertz.Gen.Chain.noMethod = ["engine.noMethod = handlers", "engine.rebuild405Handlers()"] ∧
    Hertz.Gen.Chain.rebuild404Handlers = ["engine.allNoRoute = engine.combineHandlers(engine.noRoute)"] ∧
    Hertz.Gen.Chain.rebuild405Handlers = ["engine.allNoMethod = engine.combineHandlers(engine.noMethod)"] ∧
    Hertz.Gen.Chain.serveSetHandlers = ["ctx.SetHandlers(engine.Handlers)", "ctx.SetHandlers(engine.Handlers)",
      "ctx.SetHandlers(value.handlers)", "ctx.SetHandlers(engine.allNoMethod)", "ctx.SetHandlers(engine.allNoRoute)"] ∧
    Hertz.Gen.Chain.serveError.take 2 = ["ctx.SetStatusCode(code)", "ctx.Next(c)"] := by
  decide +kernel

/-- **Onion order.**  For every chain of at most `AbortIndex` handlers (every chain registration can
produce, see `registered_chains_short`) and every script per handler — any number of `Next`, `Abort`,
`AbortWithStatus` calls in any order — the run ends normally (no panic: the `int8` index saturates at
`MaxInt8` instead of wrapping) with the index past the chain, and its trace is accepted by the onion
monitor: handlers are entered at most once, in registration order, only while no `Abort*` has
happened; they exit innermost first; nothing stays open. -/
theorem onion (hs : List Script) (hlen : hs.length ≤ 63) :
    (∃ j, (run hs).2 = .ok j ∧ (hs.length : Int) ≤ j ∧ j ≤ 127) ∧ onionOK hs.length (run hs).1 = true :=
  ⟨run_ok hs hlen, run_onion hs hlen⟩

/-- non-vacuity: a five-handler chain mixing all behaviours; three handlers are entered (the third aborts). -/
example : enters (run [[.next, .abort], [.probe, .next, .next], [.abortStatus 401, .next], [.next], []]).1 = [0, 1, 2] := by
  decide +kernel

/-- What monitor acceptance says in plain terms: the positions entered are strictly increasing (so
each handler at most once, in registration order), all below the chain length, and no handler is
entered after an `Abort*` event. -/
theorem onion_declarative (hs : List Script) (hlen : hs.length ≤ 63) :
    (enters (run hs).1).Pairwise (· < ·) ∧ (∀ p ∈ enters (run hs).1, p < hs.length) ∧
    noEnterAfterAbort (run hs).1 = true :=
  onionOK_facts _ _ (run_onion hs hlen)

example : noEnterAfterAbort (run [[.next], [.abort, .next], [.next]]).1 = true ∧
    enters (run [[.next], [.abort, .next], [.next]]).1 = [0, 1] := by decide +kernel

/-- The interpreter's fuel is never what ends a run of a registrable chain, and `handlers[index]` is
never out of range: the model's verdicts are about the Go loop, not about the fuel. -/
theorem run_total (hs : List Script) (hlen : hs.length ≤ 63) : ∀ f, (run hs).2 ≠ .error f := by
  intro f hf
  obtain ⟨j, hj, _⟩ := run_ok hs hlen
  rw [hj] at hf; cases hf

example : (run [[.next, .next], [.abort]]).2 = .ok 66 := by decide +kernel

/-- **Regression for F11 (fixed).**  62 handlers (a chain registration accepts) each calling `Next`
twice used to drive the `int8` index from 127 to −128 and panic in `handlers[-128]`.  With the
saturating increments the run ends with the index at 127, all 62 handlers entered in order, and the
trace is accepted. -/
theorem f11_regression :
    (run (List.replicate 62 [.next, .next])).2 = .ok 127 ∧
    enters (run (List.replicate 62 [.next, .next])).1 = List.range 62 ∧
    onionOK 62 (run (List.replicate 62 [.next, .next])).1 = true := by decide +kernel

/-- **`Abort` does not stop a chain longer than `AbortIndex`.**  Such a chain cannot be registered,
but `RequestContext.SetHandlers` is public: with 65 handlers of which the first aborts, handler 64 is
still entered — so the length hypothesis of `onion` cannot be dropped. -/
theorem onion_fails_at_long :
    onionOK 65 (run ([.abort] :: List.replicate 64 [])).1 = false ∧
    enters (run ([.abort] :: List.replicate 64 [])).1 = [0, 64] := by decide +kernel

/-! ## chain assembly: `Use`, `Group`, `Handle`, `NoRoute`, `NoMethod` -/

/-- **Size bound.**  Whatever registration calls succeeded, every chain `ServeHTTP` can select for a
request that has a Host (a route's chain, the 405 chain, the 404 chain) is shorter than `AbortIndex`
(`combineHandlers` refuses `finalSize >= AbortIndex`), and a route's chain is never empty. -/
theorem registered_chains_short (ops : List Op) (e : Engine) (h : Engine.new.applyAll 0 ops = .ok e) :
    (∀ r ∈ e.routes, (r.chain.length : Int) < Hertz.Gen.abortIndex ∧ r.chain ≠ []) ∧
    ∀ me g k, ((e.select me g k false).1.length : Int) < Hertz.Gen.abortIndex :=
  ⟨(history_short ops e h).1, fun me g k => select_mem_short (history_short ops e h) me g k⟩

example : (Engine.new.applyAll 0 [.use 0 [1], .group 0 [2], .handle 1 0 1 [3]]).toOption.map
    (fun e => (e.select 0 1 1 false).1) = some [1, 2, 3] := by decide +kernel

/-- The two halves together: the chain served for any request with a Host, under any registration
history and any behaviour of the handlers, ends normally and is onion-ordered. -/
theorem served_chain_onion (ops : List Op) (e : Engine) (h : Engine.new.applyAll 0 ops = .ok e)
    (me g k : Nat) (script : H → Script) :
    (∃ j, (run ((e.select me g k false).1.map script)).2 = .ok j) ∧
    onionOK ((e.select me g k false).1.map script).length (run ((e.select me g k false).1.map script)).1 = true := by
  have hlen := (registered_chains_short ops e h).2 me g k
  have hg : Hertz.Gen.abortIndex = 63 := rfl
  have hl : ((e.select me g k false).1.map script).length ≤ 63 := by rw [List.length_map]; omega
  obtain ⟨j, hj, _⟩ := run_ok _ hl
  exact ⟨⟨j, hj⟩, run_onion _ hl⟩

/-- **Group order.**  Every route of the engine was put there by a `Handle` call, and its chain is what
the group carried at that moment — the parts contributed along the path engine → … → group, outermost
first (`snapshotMws` flattens the group's lineage in path order) — followed by the route's own handlers. -/
theorem group_order (ops : List Op) (e : Engine) (h : Engine.new.applyAll 0 ops = .ok e) :
    ∀ r ∈ e.routes, ∃ pre hs post, ops = pre ++ Op.handle r.grp r.method r.num hs :: post ∧
      r.chain = snapshotMws (shadowOf pre) r.grp ++ hs :=
  history_routes ops e h

/-- non-vacuity, depth 3 with `Use` before and after registration: engine, three nested groups. -/
example : (Engine.new.applyAll 0 [.use 0 [1], .group 0 [2], .use 1 [3], .group 1 [4], .group 2 [5], .use 3 [6],
      .handle 3 0 1 [7, 8], .use 3 [9], .use 0 [10]]).toOption.map (fun e => e.routes.map (·.chain))
    = some [[1, 2, 3, 4, 5, 6, 7, 8]] := by decide +kernel

/-- At every moment each group's `Handlers` is its lineage flattened (what `Group()` copied from the
parent, then its own). -/
theorem group_handlers (ops : List Op) (e : Engine) (h : Engine.new.applyAll 0 ops = .ok e) :
    e.groups = (shadowOf ops).map (fun l => l.flatMap (·.2)) :=
  history_groups ops e h

/-- **404 / 405 / 400.**  As long as middleware is attached to the engine with `Engine.Use` (not with the
shadowed `engine.RouterGroup.Use`), the not-found and method-not-allowed chains are the engine
middleware followed by the `NoRoute` / `NoMethod` handlers, whatever the order of the calls, and a
request without Host runs exactly the engine middleware. -/
theorem notfound_chains (ops : List Op) (e : Engine) (hraw : ∀ op ∈ ops, op.isRaw = false)
    (h : Engine.new.applyAll 0 ops = .ok e) :
    e.allNoRoute = engineMws ops ++ e.noRoute ∧ e.allNoMethod = engineMws ops ++ e.noMethod ∧
    ∀ me g k, e.select me g k true = (engineMws ops, 400) := by
  obtain ⟨h1, h2, h3⟩ := history_notfound ops e hraw h
  exact ⟨h1, h2, fun me g k => by simp only [Engine.select, if_true, h3]⟩

example : (Engine.new.applyAll 0 [.noRoute [5], .use 0 [1], .handle 0 0 1 [3], .use 0 [2]]).toOption.map
    (fun e => ((e.select 0 0 9 false), (e.select 1 0 1 false))) = some (([1, 2, 5], 404), ([1, 2], 405)) := by
  decide +kernel

/-- `engine.RouterGroup.Use` (the promoted method `Engine.Use` shadows) does not rebuild the 404 chain:
the hypothesis of `notfound_chains` cannot be dropped. -/
theorem notfound_fails_at_rawUse :
    (Engine.new.applyAll 0 [.rawUse [1]]).toOption.map (fun e => (e.groups, (e.select 0 0 1 false).1))
      = some ([[1]], []) := by decide +kernel

/-- **The literal reading of "attached before the route is registered" is false of the code.**
`Group()` copies the parent's chain: middleware attached to the engine after the group was created but
before the route is registered (`[7]`) is not in the route's chain. -/
theorem group_order_literal_fails_at :
    (Engine.new.applyAll 0 [.group 0 [], .use 0 [7], .handle 1 0 1 [9]]).toOption.map (fun e => e.routes.map (·.chain))
      = some [[9]] ∧
    literalMws (shadowOf [.group 0 [], .use 0 [7]]) 1 ++ [9] = [7, 9] ∧
    noUseAfterChild shadowInit [.group 0 [], .use 0 [7]] = false := by decide +kernel

/-- **… and true outside that one pattern.**  If no `Use` with a non-empty argument hits a group that
already has a child group (`noUseAfterChild`, decidable; the negation of the class `use-after-group` of
the check), then for every group what it carries *is* the literal reading: everything attached so far
to each group on the path from the engine down, outermost first. -/
theorem group_order_literal_partial (ops : List Op) (h : noUseAfterChild shadowInit ops = true) (g : Nat) :
    snapshotMws (shadowOf ops) g = literalMws (shadowOf ops) g :=
  (literal_of_noUseAfterChild ops h g).symm

/-- Route form: with `group_order`, a route registered after a history `pre` free of that pattern gets
`literalMws (shadowOf pre) g ++ own handlers`. -/
theorem route_chain_literal_partial (ops : List Op) (e : Engine) (h : Engine.new.applyAll 0 ops = .ok e)
    (hn : noUseAfterChild shadowInit ops = true) :
    ∀ r ∈ e.routes, ∃ pre hs post, ops = pre ++ Op.handle r.grp r.method r.num hs :: post ∧
      r.chain = literalMws (shadowOf pre) r.grp ++ hs := by
  intro r hr
  obtain ⟨pre, hs, post, hops, hc⟩ := history_routes ops e h r hr
  refine ⟨pre, hs, post, hops, ?_⟩
  have hpre : noUseAfterChild shadowInit pre = true := by
    rw [hops] at hn
    exact noUseAfterChild_prefix _ _ _ hn
  rw [hc]
  show snapshotMws (shadowOf pre) r.grp ++ hs = _
  rw [← literal_of_noUseAfterChild pre hpre]

example : noUseAfterChild shadowInit [.use 0 [1], .group 0 [2], .use 1 [3], .group 1 [4], .use 2 [6],
    .handle 2 0 1 [7, 8], .use 2 [9]] = true := by decide +kernel

end Hertz.Props.C12
