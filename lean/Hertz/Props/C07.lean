import Hertz.Proofs.PathSpec
import Hertz.Proofs.PathRef
import Hertz.Proofs.CleanPath
import Hertz.Proofs.FsPath
/-!
# C07 — normalised request paths cannot climb out of the root

`normalizePath` is the model of `pkg/protocol/uri.go:normalizePath` (decode once, then the four
cutting loops, with leftmost-match semantics of `bytes.Index`); the correspondence check compares
it with the Go function on every string of ≤ 7 (thorough: ≤ 9) tokens over
`/ . a %2e %2f % \` and on random longer inputs.

Proved here for **every** byte string `src` (no length bound):
the result begins with `/`, has no `..` segment, and no empty or `.` segment except possibly the
last — first in byte form (`normalize_bytes`), then as the segment predicate of the property
(`normalize_contained`).  The third loop's termination is part of the result (`dds_loop_terminates`:
`length` iterations always suffice).

Also proved for **every** byte string (no length bound, no well-formedness hypothesis):
* `normalize_eq_reference`: `normalizePath src = Spec.normalize src` — the four cutting loops compute
  exactly "percent-decode once, make absolute, resolve the segments left to right with a stack"
  (`Hertz.Proofs.PathRef`, namespace `Hertz.PathSeg`: each loop is described on the list of slash-free segments, the stack
  machine gives the same answer before and after each loop, and the last step lands on its answer);
  hence `reference_normalize_contained`;
* `cleanPath_contained`: `Spec.contained (cleanPath p)` for the model of `utils.CleanPath`, for every
  `p` (absolute or not, empty included) — exactly the predicate the driver evaluates on the
  implementation's output of the `cleanpath` op (`Hertz.Proofs.CleanPath`: between two segments the
  output buffer is `/` or `/s1/…/sn` with every `si` non-empty, slash-free, not `.`, not `..`).

File-system side (`Hertz.Model.FsPath`, model of the path pipeline of `pkg/app/fs.go`; lemmas in
`Hertz.Proofs.FsPath`).  For **every** Host header, request target and strip count, and every directory tree:
* `stock_rewriters_total`, `rewritten_path_contained`: `NewPathSlashesStripper(n)` and `NewVHostPathRewriter(n)` never
  hit their `panic`, the path they hand to the file handler is empty (stripper only) or contained, and `ctx.Path()`
  is still contained after the vhost rewriter has rewritten the request URI;
* `open_path_contained`: what `fsHandler.handleRequest` appends to `FS.Root` (after `stripTrailingSlashes`, the NUL
  test and the `/../` guard) is empty or contained;
* `resolution_stays_below`, `serve_inside_root`: the model of the kernel's path resolution never leaves the directory
  it starts in when no component is `..`; hence with a stock rewriter (or none) every file or generated listing
  that is served lies inside `FS.Root`, whatever the tree, for plain index names;
* `custom_rewrite_inside`: the same for an ARBITRARY application-supplied `PathRewrite`: whatever bytes it returns,
  the handler answers 400/500 or serves from inside the root (the `/../` guard, the trailing-`/..` test and the
  leading-slash test of `handleRequest` together exclude every `..` component).  Before repo commit bd67071 this was
  false (`/..` and `x` escaped; former known findings); the witnesses are kept as regression examples.

TODO-OPEN: nothing of the two statements that used to be listed here remains open.  What these theorems
do not cover (unchanged): they are about the Lean models; that `normalizePath`/`cleanPath` are the Go
functions is the correspondence check's job (the spec step still evaluates `contained` and the equality
with `Spec.normalize` on the implementation's output of every case).  The Windows branch of
`normalizePath` (`filepath.Separator == '\'`) is not modelled.  No functional reference is stated
for `CleanPath` (only containment).
-/
namespace Hertz.Props.C07
open Hertz

/-- byte-level form: leading slash; no `//`, `/./`, `/../` inside; no trailing `/..`. -/
theorem normalize_bytes (src : Bytes) :
    (normalizePath src).head? = some 47 ∧ ¬ SS <:+: normalizePath src ∧ ¬ SDS <:+: normalizePath src ∧
      ¬ DDS <:+: normalizePath src ∧ ¬ SDD <:+ normalizePath src :=
  normalizePath_contained src

/-- The property's containment predicate holds of the normalised path of every request target. -/
theorem normalize_contained (src : Bytes) : Spec.contained (normalizePath src) = true := by
  obtain ⟨h1, h2, h3, h4, h5⟩ := normalizePath_contained src
  exact contained_of_substrings _ h1 h2 h3 h4 h5

/-- The `/../` loop needs at most `length` iterations (its termination proof). -/
theorem dds_loop_terminates (b : Bytes) : ¬ DDS <:+: loopDDS b.length b :=
  loopDDS_fuel _ _ (Nat.le_refl _)

/-- The stack-machine reference only ever produces contained segment lists. -/
theorem reference_contained (segs : List Bytes) (h : segs ≠ []) :
    Spec.segsContained (Spec.resolve [] segs) = true :=
  resolve_good [] segs h (by simp)

/-- `normalizePath` is the reference "decode once, then resolve with a stack", on every input. -/
theorem normalize_eq_reference (src : Bytes) : normalizePath src = Spec.normalize src :=
  PathSeg.normalizePath_eq_reference src

/-- so the reference itself only yields contained paths (now a corollary, for every request target) -/
theorem reference_normalize_contained (src : Bytes) : Spec.contained (Spec.normalize src) = true := by
  rw [← PathSeg.normalizePath_eq_reference]; exact normalize_contained src

/-- sanity for `normalize_eq_reference` (no hypothesis to satisfy): on `a/%2e%2e/../%2fb/./c/..`
both sides are `/b/` (the input is relative, climbs above the root twice and hides a slash in `%2f`). -/
example : normalizePath [97, 47, 37, 50, 101, 37, 50, 101, 47, 46, 46, 47, 37, 50, 102, 98, 47, 46, 47, 99, 47, 46, 46]
      = [47, 98, 47] ∧
    Spec.normalize [97, 47, 37, 50, 101, 37, 50, 101, 47, 46, 46, 47, 37, 50, 102, 98, 47, 46, 47, 99, 47, 46, 46]
      = [47, 98, 47] := by decide +kernel

/-- `utils.CleanPath` (model) cannot climb out of the root: for every input the result starts with
`/`, has no `..` segment and no empty or `.` segment except possibly the last. This is the predicate
the driver applies to the output of the `cleanpath` op, with no condition on the input. -/
theorem cleanPath_contained (p : Bytes) : Spec.contained (cleanPath p) = true :=
  PathSeg.cleanPath_is_contained p

/-- sanity for `cleanPath_contained` (no hypothesis to satisfy): `a/../../b/./c//..//d/.` (relative,
climbing above the root) is cleaned to `/b/d/`, and `../..` to `/`. -/
example : cleanPath [97, 47, 46, 46, 47, 46, 46, 47, 98, 47, 46, 47, 99, 47, 47, 46, 46, 47, 47, 100, 47, 46]
      = [47, 98, 47, 100, 47] ∧ cleanPath [46, 46, 47, 46, 46] = [47] := by decide +kernel

/-- non-vacuity / sanity: `/a/%2e%2e/%2E%2e/x/./y//..` normalises to `/x/`. -/
example : normalizePath [47, 97, 47, 37, 50, 101, 37, 50, 101, 47, 37, 50, 69, 37, 50, 101, 47, 120, 47, 46, 47, 121, 47, 47, 46, 46]
    = [47, 120, 47] := by decide +kernel

example : Spec.contained [47, 120, 47] = true ∧ Spec.contained [47, 46, 46, 47, 120] = false := by decide

/-! ### file-system side: path rewriters and the file handler -/

open Hertz.FsPath Hertz.Uri

/-- The source text of the two stock rewriters, of the slash strippers, of `URI.SetPathBytes` and of the head of
`fsHandler.handleRequest` is still the one the model mirrors (facts regenerated from the working tree on every run). -/
theorem model_matches_gen_C07 :
    FsPath.strInvalidHost = Gen.FsPath.strInvalidHost ∧
    Gen.FsPath.slashesStripper = ["return stripLeadingSlashes(ctx.Path(), slashesCount)"] ∧
    Gen.FsPath.vhostRewriter.getLast? = some "return ctx.Path()" ∧
    "ctx.URI().SetPathBytes(b.B)" ∈ Gen.FsPath.vhostRewriter ∧
    Gen.FsPath.handleRequestHead.length = 16 ∧
    "if bytes.HasSuffix(path, bytestr.StrSlashDotDotSlash[:3]) || (len(path) > 0 && path[0] != '/')" ∈ Gen.FsPath.handleRequestHead :=
  ⟨model_matches_gen.1, model_matches_gen.2.2.1, by rw [model_matches_gen.2.1]; rfl,
   by rw [model_matches_gen.2.1]; decide, by rw [model_matches_gen.2.2.2.2.2.1]; rfl,
   by rw [model_matches_gen.2.2.2.2.2.1]; decide⟩

/-- a tree for the sanity examples: base `{i, x/ {i}, r/ {i, f, x/ {f}, ../ (a directory literally named "..")… }}`;
names are single bytes: `r` = 114 is the root, `i` = 105 the index file, `x` = 120, `f` = 102 -/
def tinyTree : Tree :=
  { dirs := [[[114]], [[120]], [[114], [120]]],
    files := [[[105]], [[120], [105]], [[114], [105]], [[114], [102]], [[114], [120], [102]]] }

def tinyCfg : FsCfg := { root := [114], indexNames := [[105]], genIndex := true }

/-- The two rewriters that ship with hertz never reach `panic("BUG: path must start with slash")`. -/
theorem stock_rewriters_total (rw : Rewriter) (hs : Stock rw) (host target : Bytes) :
    ∃ r, rewrite rw (Uri.parse host target) = some r :=
  rewrite_total hs (parse_good host target)

/-- The path a stock rewriter hands to the file handler is empty or contained, and `ctx.Path()` afterwards (the vhost
rewriter rewrites the request URI) is contained: for every Host header, request target and strip count. -/
theorem rewritten_path_contained (rw : Rewriter) (hs : Stock rw) (host target p : Bytes) (u' : URI)
    (h : rewrite rw (Uri.parse host target) = some (p, u')) :
    Spec.servable p = true ∧ Spec.contained u'.pathOrSlash = true :=
  let g := rewrite_good hs (parse_good host target) h
  ⟨servable_of g.1, good_contained g.2⟩

/-- sanity: `Host: ..` with `GET /x/f` through `NewVHostPathRewriter(0)` is rewritten to `/x/f` (the host climbs to
the root and no further), and `NewPathSlashesStripper(1)` on `/x/f` gives `/f`. -/
example : (rewrite (.vhost 0) (Uri.parse [46, 46] [47, 120, 47, 102])).map (·.1) = some [47, 120, 47, 102] ∧
    (rewrite (.stripper 1) (Uri.parse [97] [47, 120, 47, 102])).map (·.1) = some [47, 102] := by decide +kernel

/-- What `handleRequest` appends to `FS.Root` is empty or contained (stock rewriters, every request). -/
theorem open_path_contained (rw : Rewriter) (hs : Stock rw) (host target p : Bytes) (u' : URI)
    (h : decision rw (Uri.parse host target) = some (.openPath p, u')) : Spec.servable p = true :=
  servable_of (decision_good hs (parse_good host target) h).1

/-- sanity: `GET /x/` with `Host: r` and one stripped segment opens `root + "/r"`. -/
example : (decision (.vhost 1) (Uri.parse [114] [47, 120, 47])).map (·.1) = some (.openPath [47, 114]) := by
  decide +kernel

/-- The model of the kernel's path resolution, started in a directory whose path begins with `R`, ends below `R`
(or fails) when no component is `..` — for every tree. -/
theorem resolution_stays_below (t : Tree) (R : Bytes) (segs cur : List Bytes) (hc : cur.head? = some R)
    (hs : ∀ s ∈ segs, s ≠ [46, 46]) : Found.inside R (walk t cur segs) :=
  walk_inside t R segs cur hc hs

/-- sanity: in `tinyTree`, `r/x/./f` resolves to the file `r/x/f`, while `r/..` (a `..` component) resolves to the
base directory, outside `r`: the hypothesis of `resolution_stays_below` is needed. -/
example : walk tinyTree [[114]] [[120], [46], [102]] = .file [[114], [120], [102]] ∧
    walk tinyTree [[114]] [[46, 46]] = .dir [] := by decide +kernel

/-- **Nothing outside `FS.Root` is served**: with no rewriter, `NewPathSlashesStripper(n)` or
`NewVHostPathRewriter(n)`, for every Host header, request target, strip count, directory tree and configuration whose
root is a plain name below the base and whose index names have no `..` component, the file or generated listing that
`fsHandler.handleRequest` serves lies inside the root. -/
theorem serve_inside_root (t : Tree) (cfg : FsCfg) (hR : PlainName cfg.root)
    (hn : ∀ n ∈ cfg.indexNames, ∀ s ∈ Spec.splitSlash n, s ≠ Spec.dotdot)
    (rw : Rewriter) (hs : Stock rw) (host target : Bytes) (s : Served) (u' : URI)
    (h : serve t cfg rw (Uri.parse host target) = some (s, u')) : Served.inside cfg.root s := by
  unfold serve at h
  cases hd : decision rw (Uri.parse host target) with
  | none => rw [hd] at h; simp at h
  | some du =>
    obtain ⟨d, u0⟩ := du
    rw [hd] at h
    simp only [Option.map_some, Option.some.injEq] at h
    cases d with
    | badRequest => simp only [Prod.mk.injEq] at h; rw [← h.1]; trivial
    | guard => simp only [Prod.mk.injEq] at h; rw [← h.1]; trivial
    | openPath p =>
      simp only [Prod.mk.injEq] at h
      rw [← h.1]
      exact openServe_inside t cfg hR hn (open_path_contained rw hs host target p u0 hd)

/-- sanity for `serve_inside_root`: `GET /` with `Host: ..` through the vhost rewriter serves the root's own index
file `r/i` (not `i` of the directory above), and `GET /x/` with `Host: .` lists `r/x`. -/
example : (serve tinyTree tinyCfg (.vhost 0) (Uri.parse [46, 46] [47])).map (·.1) = some (.file [[114], [105]]) ∧
    (serve tinyTree tinyCfg (.vhost 0) (Uri.parse [46] [47, 120, 47])).map (·.1) = some (.listing [[114], [120]]) ∧
    PlainName tinyCfg.root ∧ (∀ n ∈ tinyCfg.indexNames, ∀ s ∈ Spec.splitSlash n, s ≠ Spec.dotdot) := by
  refine ⟨by decide +kernel, by decide +kernel, by unfold PlainName tinyCfg; decide, by decide⟩

/-- **Whatever an application-supplied `PathRewrite` returns**, the handler serves only from inside `FS.Root` or
answers 400/500: for every byte string `raw`, every tree, every configuration with a plain root name and index names
without a `..` component.  (False before repo commit bd67071: a result ending in `/..` passed the `/../` guard, which runs
after `stripTrailingSlashes`, and a result without leading slash was glued to the root's name; the handler now refuses
both, and the former witnesses are the regression examples below.) -/
theorem custom_rewrite_inside (t : Tree) (cfg : FsCfg) (hR : PlainName cfg.root)
    (hn : ∀ n ∈ cfg.indexNames, ∀ s ∈ Spec.splitSlash n, s ≠ Spec.dotdot)
    (raw : Bytes) (u u' : URI) (s : Served)
    (h : serve t cfg (.custom raw) u = some (s, u')) : Served.inside cfg.root s := by
  by_cases h1 : (stripTrailingSlashes raw).contains 0 = true
  · simp only [serve, decision, rewrite, Option.map_some, h1, if_true, Option.some.injEq, Prod.mk.injEq] at h
    rw [← h.1]; trivial
  · cases h2 : refused (stripTrailingSlashes raw) with
    | true =>
      have h2' : (Rewriter.custom raw != Rewriter.none && refused (stripTrailingSlashes raw)) = true := by
        rw [h2]; rfl
      simp only [serve, decision, rewrite, Option.map_some, h1, h2', if_true, if_false, Bool.false_eq_true,
        Option.some.injEq, Prod.mk.injEq] at h
      rw [← h.1]; trivial
    | false =>
      have h2' : (Rewriter.custom raw != Rewriter.none && refused (stripTrailingSlashes raw)) = false := by
        rw [h2]; rfl
      simp only [serve, decision, rewrite, Option.map_some, h1, h2', if_false, Bool.false_eq_true,
        Option.some.injEq, Prod.mk.injEq] at h
      rw [← h.1]
      exact openServe_inside_safe t cfg hR hn (safe_of_unrefused hR.1 h2)

/-- regression examples for `custom_rewrite_inside` (the witnesses of the former known findings
`fs-rewrite-trailing-dotdot` and `fs-rewrite-no-leading-slash`): a rewriter returning `/..`, `/../`, `//..` or `x` is
answered 500; one returning `/x//` still gets the listing of `r/x`, the empty result the root's index file. -/
example : (serve tinyTree tinyCfg (.custom [47, 46, 46]) {}).map (·.1) = some (.status 500) ∧
    (serve tinyTree tinyCfg (.custom [47, 46, 46, 47]) {}).map (·.1) = some (.status 500) ∧
    (serve tinyTree tinyCfg (.custom [47, 47, 46, 46]) {}).map (·.1) = some (.status 500) ∧
    (serve tinyTree tinyCfg (.custom [120]) {}).map (·.1) = some (.status 500) ∧
    (serve tinyTree tinyCfg (.custom [47, 120, 47, 47]) {}).map (·.1) = some (.listing [[114], [120]]) ∧
    (serve tinyTree tinyCfg (.custom []) {}).map (·.1) = some (.file [[114], [105]]) := by
  decide +kernel

end Hertz.Props.C07
