import Hertz.Proofs.PathSpec
import Hertz.Proofs.PathRef
import Hertz.Proofs.CleanPath
/-!
# C07 — normalised request paths cannot climb out of the root

`normalizePath` is the model of `pkg/protocol/uri.go:normalizePath` (decode once, then the four
cutting loops, with leftmost-match semantics of `bytes.Index`); the correspondence check compares
it with the Go function on every string of ≤ 7 (thorough: ≤ 9) tokens over
`/ . a %2e %2f % \` and on random longer inputs.

Proved here for **every** byte string `src` (no length bound):
the result begins with `/`, has no `..` segment, and no empty or `.` segment except possibly the
last — first in byte form (`normalize_bytes`), then as the segment predicate of the property
(`normalize_contained`).  The third loop's termination is part of the result (`dds_loop_terminates`:
`length` iterations always suffice).

Also proved for **every** byte string (no length bound, no well-formedness hypothesis):
* `normalize_eq_reference`: `normalizePath src = Spec.normalize src` — the four cutting loops compute
  exactly "percent-decode once, make absolute, resolve the segments left to right with a stack"
  (`Hertz.Proofs.PathRef`, namespace `Hertz.PathSeg`: each loop is described on the list of slash-free segments, the stack
  machine gives the same answer before and after each loop, and the last step lands on its answer);
  hence `reference_normalize_contained`;
* `cleanPath_contained`: `Spec.contained (cleanPath p)` for the model of `utils.CleanPath`, for every
  `p` (absolute or not, empty included) — exactly the predicate the driver evaluates on the
  implementation's output of the `cleanpath` op (`Hertz.Proofs.CleanPath`: between two segments the
  output buffer is `/` or `/s1/…/sn` with every `si` non-empty, slash-free, not `.`, not `..`).

TODO-OPEN: nothing of the two statements that used to be listed here remains open.  What these theorems
do not cover (unchanged): they are about the Lean models; that `normalizePath`/`cleanPath` are the Go
functions is the correspondence check's job (the spec step still evaluates `contained` and the equality
with `Spec.normalize` on the implementation's output of every case).  The Windows branch of
`normalizePath` (`filepath.Separator == '\'`) is not modelled.  No functional reference is stated
for `CleanPath` (only containment).
-/
namespace Hertz.Props.C07
open Hertz

/-- byte-level form: leading slash; no `//`, `/./`, `/../` inside; no trailing `/..`. -/
theorem normalize_bytes (src : Bytes) :
    (normalizePath src).head? = some 47 ∧ ¬ SS <:+: normalizePath src ∧ ¬ SDS <:+: normalizePath src ∧
      ¬ DDS <:+: normalizePath src ∧ ¬ SDD <:+ normalizePath src :=
  normalizePath_contained src

/-- The property's containment predicate holds of the normalised path of every request target. -/
theorem normalize_contained (src : Bytes) : Spec.contained (normalizePath src) = true := by
  obtain ⟨h1, h2, h3, h4, h5⟩ := normalizePath_contained src
  exact contained_of_substrings _ h1 h2 h3 h4 h5

/-- The `/../` loop needs at most `length` iterations (its termination proof). -/
theorem dds_loop_terminates (b : Bytes) : ¬ DDS <:+: loopDDS b.length b :=
  loopDDS_fuel _ _ (Nat.le_refl _)

/-- The stack-machine reference only ever produces contained segment lists. -/
theorem reference_contained (segs : List Bytes) (h : segs ≠ []) :
    Spec.segsContained (Spec.resolve [] segs) = true :=
  resolve_good [] segs h (by simp)

/-- `normalizePath` is the reference "decode once, then resolve with a stack", on every input. -/
theorem normalize_eq_reference (src : Bytes) : normalizePath src = Spec.normalize src :=
  PathSeg.normalizePath_eq_reference src

/-- so the reference itself only yields contained paths (now a corollary, for every request target) -/
theorem reference_normalize_contained (src : Bytes) : Spec.contained (Spec.normalize src) = true := by
  rw [← PathSeg.normalizePath_eq_reference]; exact normalize_contained src

/-- sanity for `normalize_eq_reference` (no hypothesis to satisfy): on `a/%2e%2e/../%2fb/./c/..`
both sides are `/b/` (the input is relative, climbs above the root twice and hides a slash in `%2f`). -/
example : normalizePath [97, 47, 37, 50, 101, 37, 50, 101, 47, 46, 46, 47, 37, 50, 102, 98, 47, 46, 47, 99, 47, 46, 46]
      = [47, 98, 47] ∧
    Spec.normalize [97, 47, 37, 50, 101, 37, 50, 101, 47, 46, 46, 47, 37, 50, 102, 98, 47, 46, 47, 99, 47, 46, 46]
      = [47, 98, 47] := by decide +kernel

/-- `utils.CleanPath` (model) cannot climb out of the root: for every input the result starts with
`/`, has no `..` segment and no empty or `.` segment except possibly the last. This is the predicate
the driver applies to the output of the `cleanpath` op, with no condition on the input. -/
theorem cleanPath_contained (p : Bytes) : Spec.contained (cleanPath p) = true :=
  PathSeg.cleanPath_is_contained p

/-- sanity for `cleanPath_contained` (no hypothesis to satisfy): `a/../../b/./c//..//d/.` (relative,
climbing above the root) is cleaned to `/b/d/`, and `../..` to `/`. -/
example : cleanPath [97, 47, 46, 46, 47, 46, 46, 47, 98, 47, 46, 47, 99, 47, 47, 46, 46, 47, 47, 100, 47, 46]
      = [47, 98, 47, 100, 47] ∧ cleanPath [46, 46, 47, 46, 46] = [47] := by decide +kernel

/-- non-vacuity / sanity: `/a/%2e%2e/%2E%2e/x/./y//..` normalises to `/x/`. -/
example : normalizePath [47, 97, 47, 37, 50, 101, 37, 50, 101, 47, 37, 50, 69, 37, 50, 101, 47, 120, 47, 46, 47, 121, 47, 47, 46, 46]
    = [47, 120, 47] := by decide +kernel

example : Spec.contained [47, 120, 47] = true ∧ Spec.contained [47, 46, 46, 47, 120] = false := by decide

end Hertz.Props.C07
