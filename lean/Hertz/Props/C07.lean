import Hertz.Proofs.PathSpec
/-!
# C07 — normalised request paths cannot climb out of the root

`normalizePath` is the model of `pkg/protocol/uri.go:normalizePath` (decode once, then the four
cutting loops, with leftmost-match semantics of `bytes.Index`); the correspondence check compares
it with the Go function on every string of ≤ 7 (thorough: ≤ 9) tokens over
`/ . a %2e %2f % \` and on random longer inputs.

Proved here for **every** byte string `src` (no length bound):
the result begins with `/`, has no `..` segment, and no empty or `.` segment except possibly the
last — first in byte form (`normalize_bytes`), then as the segment predicate of the property
(`normalize_contained`).  The third loop's termination is part of the result (`dds_loop_terminates`:
`length` iterations always suffice).

Not proved (TODO-OPEN, decided by the spec step of the check on every explored case instead):
* `normalizePath src = Spec.normalize src` (equality with "decode once then resolve with a stack");
* `Spec.contained (cleanPath p)` for `utils.CleanPath` (model `cleanPath` is compared with the code and
  the predicate is evaluated on the implementation's output).
-/
namespace Hertz.Props.C07
open Hertz

/-- byte-level form: leading slash; no `//`, `/./`, `/../` inside; no trailing `/..`. -/
theorem normalize_bytes (src : Bytes) :
    (normalizePath src).head? = some 47 ∧ ¬ SS <:+: normalizePath src ∧ ¬ SDS <:+: normalizePath src ∧
      ¬ DDS <:+: normalizePath src ∧ ¬ SDD <:+ normalizePath src :=
  normalizePath_contained src

/-- The property's containment predicate holds of the normalised path of every request target. -/
theorem normalize_contained (src : Bytes) : Spec.contained (normalizePath src) = true := by
  obtain ⟨h1, h2, h3, h4, h5⟩ := normalizePath_contained src
  exact contained_of_substrings _ h1 h2 h3 h4 h5

/-- The `/../` loop needs at most `length` iterations (its termination proof). -/
theorem dds_loop_terminates (b : Bytes) : ¬ DDS <:+: loopDDS b.length b :=
  loopDDS_fuel _ _ (Nat.le_refl _)

/-- The stack-machine reference only ever produces contained segment lists. -/
theorem reference_contained (segs : List Bytes) (h : segs ≠ []) :
    Spec.segsContained (Spec.resolve [] segs) = true :=
  resolve_good [] segs h (by simp)

/-- non-vacuity / sanity: `/a/%2e%2e/%2E%2e/x/./y//..` normalises to `/x/`. -/
example : normalizePath [47, 97, 47, 37, 50, 101, 37, 50, 101, 47, 37, 50, 69, 37, 50, 101, 47, 120, 47, 46, 47, 121, 47, 47, 46, 46]
    = [47, 120, 47] := by decide +kernel

example : Spec.contained [47, 120, 47] = true ∧ Spec.contained [47, 46, 46, 47, 120] = false := by decide

end Hertz.Props.C07
