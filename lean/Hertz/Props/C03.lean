import Hertz.Proofs.Http1
/-!
# C03 — no peer-controlled input can crash the process; bad input gets a clean 4xx

In the models every Go slice/index expression that could panic is either guarded exactly as in the
Go code or absent; the harness runs the real code under `recover` and reports `PANIC` as an outcome
that the model never produces, so a crash is a disagreement *and* a spec failure.
(Fixed in /repo after being found this way: empty trailer name, target `a:b`, `SameSite=`.)

Proved here for every configuration, every inbound byte stream and both stream ends:
* `reject_is_clean`: whenever the loop answers with an error it is 400/413/408, carries
  `Connection: close`, is the last thing written, and no handler ran for that request (the trace has
  the shape `cleanTrace`);
* `empty_trailer_name_is_bad`: the fixed `IsBadTrailer` treats the empty name as bad instead of indexing it.
-/
namespace Hertz.Props.C03
open Hertz Hertz.H1

theorem reject_is_clean (cfg : Cfg) (e : End) (s : Bytes) : cleanTrace (serve cfg e s) = true :=
  serve_clean cfg e s

/-- A chunk-size line is read into a Go `int`: the number of hex digits `ReadHexInt` accepts must keep
the value below 2^63, otherwise the size goes negative and the body reader slices with it. -/
theorem chunk_size_fits_int : (16 : Int) ^ Gen.maxHexIntChars.toNat ≤ 2 ^ 63 := by decide

theorem empty_trailer_name_is_bad : isBadTrailer [] = true := rfl

/-- non-vacuity: a malformed request line is answered by exactly one closing 400. -/
example : serve {} .eof [71, 69, 84, 13, 10, 13, 10] = [.resp 400 true] := by decide +kernel

end Hertz.Props.C03
