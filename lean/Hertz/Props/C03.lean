import Hertz.Proofs.Http1
import Hertz.Proofs.Http1Limits
/-!
# C03 — no peer-controlled input can crash the process; bad input gets a clean 4xx

In the models every Go slice/index expression that could panic is either guarded exactly as in the
Go code or absent; the harness runs the real code under `recover` and reports `PANIC` as an outcome
that the model never produces, so a crash is a disagreement *and* a spec failure.
(Fixed in /repo after being found this way: empty trailer name, target `a:b`, `SameSite=`.)

Proved here for every configuration, every inbound byte stream and both stream ends:
* `reject_is_clean`: whenever the loop answers with an error it is 400/413/408, carries
  `Connection: close`, is the last thing written, and no handler ran for that request (the trace has
  the shape `cleanTrace`);
* `parsed_chunk_size_is_int`: every chunk size `ParseChunkSize` accepts is below 2^63, for every input (the
  digit bound is the regenerated `maxHexIntChars`);
* `oversize_never_handled`: with a body limit configured, no request whose (de-chunked) body is longer than the
  limit is ever handed to a handler, whatever the stream;
* `empty_trailer_name_is_bad`: the fixed `IsBadTrailer` treats the empty name as bad instead of indexing it.
-/
namespace Hertz.Props.C03
open Hertz Hertz.H1

theorem reject_is_clean (cfg : Cfg) (e : End) (s : Bytes) : cleanTrace (serve cfg e s) = true :=
  serve_clean cfg e s

/-- A chunk-size line is read into a Go `int`: the number of hex digits `ReadHexInt` accepts must keep
the value below 2^63, otherwise the size goes negative and the body reader slices with it. -/
theorem chunk_size_fits_int : (16 : Int) ^ Gen.maxHexIntChars.toNat ≤ 2 ^ 63 := by decide

/-- Every chunk size the reader accepts fits a Go `int`, for every input. -/
theorem parsed_chunk_size_is_int (e : End) (s : Bytes) (n : Nat) (rest : Bytes)
    (h : parseChunkSize e s = .ok (n, rest)) : (n : Int) < 2 ^ 63 := by
  have h1 := parseChunkSize_bound e s n rest h
  have h2 := chunk_size_fits_int
  have h3 : ((16 ^ Gen.maxHexIntChars.toNat : Nat) : Int) = (16 : Int) ^ Gen.maxHexIntChars.toNat := by
    simp
  omega

/-- non-vacuity: the largest accepted size line -/
example : (match parseChunkSize .eof [102,102,102,102,102,102,102,102,102,102,102,102,102,102,102,13,10] with
    | .ok (n, r) => n == 1152921504606846975 && r.isEmpty
    | .error _ => false) = true := by decide +kernel

/-- "because its body exceeds the configured limit (which with buffered bodies it always does)": a request the
handler sees never carries more than `MaxRequestBodySize` body bytes. -/
theorem oversize_never_handled (cfg : Cfg) (e : End) (s : Bytes) (hm : cfg.maxBody > 0) (sn : Seen)
    (h : Ev.req sn ∈ serve cfg e s) : sn.body.length ≤ cfg.maxBody :=
  serve_body_le cfg e hm s sn h

/-- non-vacuity: limit 2, `POST / HTTP/1.1`, `Host: a`, `Content-Length: 3` is refused with 413 and no handler event. -/
example : serve { maxBody := 2 } .eof
    [80,79,83,84,32,47,32,72,84,84,80,47,49,46,49,13,10,72,111,115,116,58,32,97,13,10,
     67,111,110,116,101,110,116,45,76,101,110,103,116,104,58,32,51,13,10,13,10,97,98,99] = [.resp 413 true] := by
  decide +kernel

theorem empty_trailer_name_is_bad : isBadTrailer [] = true := rfl

/-- non-vacuity: a malformed request line is answered by exactly one closing 400. -/
example : serve {} .eof [71, 69, 84, 13, 10, 13, 10] = [.resp 400 true] := by decide +kernel

end Hertz.Props.C03
