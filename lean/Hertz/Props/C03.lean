import Hertz.Proofs.Http1
import Hertz.Proofs.Http1Limits
import Hertz.Proofs.NoFault
import Hertz.Proofs.NoFaultCodec
import Hertz.Proofs.NoFaultPath
import Hertz.Proofs.NoFaultLine
import Hertz.Proofs.ErrResp
import Hertz.Proofs.Fs
import Hertz.Model.Http1.RespRead
/-!
# C03 — no peer-controlled input can crash the process; bad input gets a clean 4xx

In the models every Go slice/index expression that could panic is either guarded exactly as in the
Go code or absent; the harness runs the real code under `recover` and reports `PANIC` as an outcome
that the model never produces, so a crash is a disagreement *and* a spec failure.
(Fixed in /repo after being found this way: empty trailer name, target `a:b`, `SameSite=`.)

Proved here for every configuration, every inbound byte stream and both stream ends:
* `reject_is_clean`: whenever the loop answers with an error it is 400/413/408, carries
  `Connection: close`, is the last thing written, and no handler ran for that request (the trace has
  the shape `cleanTrace`);
* `parsed_chunk_size_is_int`: every chunk size `ParseChunkSize` accepts is below 2^63, for every input (the
  digit bound is the regenerated `maxHexIntChars`);
* `oversize_never_handled`: with a body limit configured, no request whose (de-chunked) body is longer than the
  limit is ever handed to a handler, whatever the stream;
* `empty_trailer_name_is_bad`: the fixed `IsBadTrailer` treats the empty name as bad instead of indexing it.

Totality of the public parsers of untrusted data (second half of the file).  The list-based models of C07/C08/C17/C11
are total by construction, so "never panics" would be true of them for the wrong reason.  `Model/NoFault.lean`,
`NoFaultCodec.lean`, `NoFaultPath.lean` re-state each parser with the index / slice / table expressions of the Go source
(`Int` indices, `none` where the Go run time would panic, fuel for every loop), `Model/Fs.lean` already had that shape:
* `uri_parse_total`, `split_host_uri_total`, `normalize_path_total` — `URI.Parse` with `getScheme`, `splitHostURI`, the
  user-info cut, the query/fragment cut and `normalizePath` (four in-place loops);
* `decode_arg_total`, `args_parse_total` — percent decoding (`%` at the end, table lookups) and `Args.ParseBytes`;
* `cookie_parse_total`, `request_cookies_total` — `Cookie.ParseBytes` (attribute dispatch on `key[0]` / `value[0]`,
  `decodeCookieArg`, the scanner) and the request cookie list;
* `range_parse_total` — `ParseByteRange` (C08's `range_no_panic` restated for the fault outcome);
* `trailer_parse_total` — `IsBadTrailer` with its prefix slices, equal to the list model the loop uses;
* `multipart_boundary_total` — `RequestHeader.MultipartFormBoundary`;
* `error_response_wellformed` — every non-200 response of the loop model is, byte for byte, one message with a 4xx status
  and `Connection: close` under the strict response decoder of C04 (`Spec/Resp`).
Each checked model is what the driver diffs against the real code on hostile input (`Driver/C03p.lean`, `harness/c03p.go`),
and it is compared with the list model on every case.

TODO-OPEN
* `serve_total` / `request_head_total` / `response_read_total`: the loop models (`Model/Http1/{Scan,ReqHead,Body,Serve,
  RespRead}.lean`) are written over lists without a fault outcome, so a "never yields fault" statement about them would be
  vacuous.  Re-stated and proved so far: `utils.NextLine` + the request-line parser (`request_line_total`) and the response
  status-line parser (`response_status_line_total`).  Not yet: the header scanner
  (`s.b[:n]`, `b[n+1:]`, obs-fold compaction `normalizeHeaderValue`), `ParseChunkSize`/`readBodyChunked` (`buf[:n]`, the
  bounded-step reads of `appendBodyFixedSize`), `readBodyFixedSize`, `parseTrailer`
  (only `IsBadTrailer` is covered).  The allocation by peer-declared size in `appendBodyFixedSize` (former known finding
  C03-huge-chunk-alloc, both routes) is repaired in /repo 6e06925: a future `response_read_total` needs no exception; the
  former witnesses are a regression theorem (`huge_declared_size_repaired`) and regression cases of the generator.  Their tie is the sampled one (ops `serve`, `reqhead`,
  `respread`, `redir` under `recover`).
* `http_date_parse_total`: `bytesconv.ParseHTTPDate` is `time.Parse(time.RFC1123, …)`; hertz itself indexes nothing.  The
  `time` package is trusted; op `nfdate` runs it on hostile input and compares with `Model/HttpDate.lean`.
* `utils.CleanPath` with its 128-byte stack buffer (`buf[:n+1]`, class of seed C03-m3) is covered by op `redir` only; no
  checked re-statement with a capacity.
* equality `NF.parse = some ∘ Uri.parse` (and the same for args / cookies / decode / normalizePath) is compared by the driver
  on every case but proved only for `IsBadTrailer`, `splitHostURI` (`split_host_uri_agrees`), the percent decoders
  (`decode_arg_agrees`) and the cookie attribute step (`cookie_attribute_agrees`).
* `Cookie.ParseBytes`: the value of an `expires` attribute goes to `time.ParseInLocation` (not modelled; "no panic" only).
-/
namespace Hertz.Props.C03
open Hertz Hertz.H1

theorem reject_is_clean (cfg : Cfg) (e : End) (s : Bytes) : cleanTrace (serve cfg e s) = true :=
  serve_clean cfg e s

/-- A chunk-size line is read into a Go `int`: the number of hex digits `ReadHexInt` accepts must keep
the value below 2^63, otherwise the size goes negative and the body reader slices with it. -/
theorem chunk_size_fits_int : (16 : Int) ^ Gen.maxHexIntChars.toNat ≤ 2 ^ 63 := by decide

/-- Every chunk size the reader accepts fits a Go `int`, for every input. -/
theorem parsed_chunk_size_is_int (e : End) (s : Bytes) (n : Nat) (rest : Bytes)
    (h : parseChunkSize e s = .ok (n, rest)) : (n : Int) < 2 ^ 63 := by
  have h1 := parseChunkSize_bound e s n rest h
  have h2 := chunk_size_fits_int
  have h3 : ((16 ^ Gen.maxHexIntChars.toNat : Nat) : Int) = (16 : Int) ^ Gen.maxHexIntChars.toNat := by
    simp
  omega

/-- non-vacuity: the largest accepted size line -/
example : (match parseChunkSize .eof [102,102,102,102,102,102,102,102,102,102,102,102,102,102,102,13,10] with
    | .ok (n, r) => n == 1152921504606846975 && r.isEmpty
    | .error _ => false) = true := by decide +kernel

/-- "because its body exceeds the configured limit (which with buffered bodies it always does)": a request the
handler sees never carries more than `MaxRequestBodySize` body bytes. -/
theorem oversize_never_handled (cfg : Cfg) (e : End) (s : Bytes) (hm : cfg.maxBody > 0) (sn : Seen)
    (h : Ev.req sn ∈ serve cfg e s) : sn.body.length ≤ cfg.maxBody :=
  serve_body_le cfg e hm s sn h

/-- non-vacuity: limit 2, `POST / HTTP/1.1`, `Host: a`, `Content-Length: 3` is refused with 413 and no handler event. -/
example : serve { maxBody := 2 } .eof
    [80,79,83,84,32,47,32,72,84,84,80,47,49,46,49,13,10,72,111,115,116,58,32,97,13,10,
     67,111,110,116,101,110,116,45,76,101,110,103,116,104,58,32,51,13,10,13,10,97,98,99] = [.resp 413 true] := by
  decide +kernel

theorem empty_trailer_name_is_bad : isBadTrailer [] = true := rfl

/-- non-vacuity: a malformed request line is answered by exactly one closing 400. -/
example : serve {} .eof [71, 69, 84, 13, 10, 13, 10] = [.resp 400 true] := by decide +kernel

/-! ## Totality of the public parsers of untrusted data

`Model/NoFault*.lean` re-states each parser with the index and slice expressions of the Go source; `none` is a
run-time panic (or a loop that does not end).  Each theorem below: for EVERY input the result is `some _`. -/

/-- `RequestHeader.MultipartFormBoundary` (the boundary extraction hertz does itself before `mime/multipart`): no
index/slice panic and the parameter loop terminates, for every Content-Type value. -/
theorem multipart_boundary_total (ct : Bytes) : (NF.multipartFormBoundary ct).isSome = true :=
  NF.multipartFormBoundary_total ct

/-- non-vacuity: a quoted boundary behind another parameter; the one-quote value of seed C03-m4 -/
example : NF.multipartFormBoundary
    [109,117,108,116,105,112,97,114,116,47,102,111,114,109,45,100,97,116,97,59,32,120,61,121,59,32,32,98,111,117,110,100,97,114,121,61,34,97,32,98,34,59,122]
    = some [97, 32, 98] := by decide +kernel
example : NF.multipartFormBoundary
    [109,117,108,116,105,112,97,114,116,47,102,111,114,109,45,100,97,116,97,59,98,111,117,110,100,97,114,121,61,34] = some [34] := by decide +kernel

/-- `protocol.IsBadTrailer` with its `key[0]`, `key[:8]`, `key[8:]`, `key[:6]`, `key[6:]`: never a fault, and the value is
the one the request-loop model uses (regression of 6c2253e: the empty name). -/
theorem trailer_parse_total (key : Bytes) : NF.isBadTrailer key = some (isBadTrailer key) := NF.isBadTrailer_eq key

example : NF.isBadTrailer [] = some true := by decide
example : NF.isBadTrailer [99,111,110,116,101,110,116,45,116,121,112,101] = some true := by decide +kernel
example : NF.isBadTrailer [99,111,110,116,101,110,116,45,116,121,112] = some false := by decide +kernel

/-- `app.ParseByteRange` for every header value and every content length: a range or the Go error, never the panic
outcome of the checked model `Model/Fs.lean` (regression of cd97077; the statement is C08's `range_no_panic`). -/
theorem range_parse_total (r : Bytes) (n : Int) (site : String) : FS.parseByteRange r n ≠ .error (.panic site) := by
  rcases FS.parseByteRange_no_panic r n with ⟨p, h⟩ | h <;> rw [h] <;> intro h' <;> cases h'

example : FS.parseByteRange [98,121,116,101,115,61,45,49] 0 = .error .bad := by decide +kernel

/-- `URI.Parse(host, uri)` for every host and every request target: `getScheme` / `checkSchemeWhenCharIsColon`
(`rawURL[:i]`, `rawURL[i+1:]`), `splitHostURI` (`path[2:]`, `uri[:n]`, `uri[n:]` — regression of 85d2e7f, target `a:b`),
the user-info cut (`host[:n]`, `host[n+1:]`, `auth[:n]`, `auth[n+1:]`) and the query / fragment cut
(`b[:q]`, `b[q+1:]`, `b[q+1:f]`, `b[f+1:]`, `b[:f]`) and `normalizePath` on the cut path never index or slice out of range. -/
theorem uri_parse_total (host uri : Bytes) : ∃ u, NF.parse host uri = some u := NF.parse_total host uri

/-- non-vacuity: `a:b` without host (the old panic), and a full URL with user-info, query and fragment -/
example : (NF.parse [] [97, 58, 98]).map (·.pathOriginal) = some [97, 58, 98] := by decide +kernel
example : NF.parse [] [104,116,116,112,58,47,47,117,58,112,64,72,47,120,63,113,35,102]
    = some { scheme := [104,116,116,112], username := [117], password := [112], host := [104], pathOriginal := [47,120],
             path := [47,120], query := [113], hash := [102] } := by decide +kernel

/-- `normalizePath` (also behind `URI.SetPath`, `Update`): `addLeadingSlash` (`src[0]`), the percent decoder, and the four
in-place loops whose slice bounds come from `bytes.Index` / `bytes.LastIndexByte` (`b[n:]`, `b[1:]`, `b[:len(b)-1]`,
`dst[:bSize]`, `b[nn:]`, `b[:len(b)-nn+n]`, `b[:n]`, `b[:nn+1]`): no fault, and every loop ends. -/
theorem normalize_path_total (src : Bytes) : ∃ r, NF.normalizePathC src = some r := NF.normalizePathC_total src

example : NF.normalizePathC [47,97,47,47,98,47,46,47,99,47,46,46,47,100,47,46,46] = some [47,97,47,98,47] := by decide +kernel
example : NF.normalizePathC [47, 46, 46] = some [47] := by decide +kernel

/-- `splitHostURI` alone (it is also what the client calls on a redirect `Location`). -/
theorem split_host_uri_total (host uri : Bytes) : ∃ r, NF.splitHostURI host uri = some r := NF.splitHostURI_total host uri

/-- … and it computes exactly the list model `Uri.splitHostURI` that C17's round-trip theorems are about. -/
theorem split_host_uri_agrees (host uri : Bytes) : NF.splitHostURI host uri = some (Uri.splitHostURI host uri) :=
  NF.splitHostURI_eq host uri

/-- Percent decoding (`decodeArgAppend`, `decodeArgAppendNoPlus`): `src[i+1]`, `src[i+2]` are only read when `i+2 < len`,
`%` at the end or one byte before it is copied, the 256-entry table lookups are in range; the loop terminates. -/
theorem decode_arg_total (plus : Bool) (src : Bytes) : ∃ r, NF.decodeArg plus src = some r := NF.decodeArg_total plus src

/-- … and they compute exactly the list models `decodeArg` / `decodeArgNoPlus` of C17 (so `decode (quote b) = b` and the
other C17 theorems hold of the function with the checked indexing). -/
theorem decode_arg_agrees (src : Bytes) :
    NF.decodeArg true src = some (decodeArg src) ∧ NF.decodeArg false src = some (decodeArgNoPlus src) :=
  ⟨NF.decodeArg_plus_eq src, NF.decodeArg_noplus_eq src⟩

example : NF.decodeArg true [97, 43, 37, 52, 49, 37] = some [97, 32, 65, 37] := by decide +kernel
example : NF.decodeArg false [37, 52] = some [37, 52] := by decide +kernel

/-- `Args.ParseBytes` (query strings and url-encoded forms): `argsScanner.next` with `s.b[:i]`, `s.b[k:i]`, `s.b[i+1:]`,
`s.b[k:]`, `s.b[len(s.b):]` and the decoder never fault, and the `for s.next(kv)` loop ends, for every byte string. -/
theorem args_parse_total (b : Bytes) : ∃ l, NF.parseArgs b = some l := NF.parseArgs_total b

example : (NF.parseArgs [97, 61, 37, 38, 43, 38, 61]).map (·.length) = some 2 := by decide +kernel

/-- `Cookie.ParseBytes` (response cookies; every attribute except the value of `expires`, which goes to Go's `time`):
the scanner (`b[:i]`, `b[k:i]`, `b[i+1:]`, `b[k:]`), `decodeCookieArg` (`src[0]`, `src[len-1]`, `src[1:len-1]`) and the
attribute dispatch on `kv.key[0]` / `kv.value[0]` (regression of 9cfc2eb: `SameSite=` with an empty value) never fault. -/
theorem cookie_parse_total (src : Bytes) : ∃ r, NF.parseCookie src = some r := NF.parseCookie_total src

/-- the attribute step with `kv.key[0]` / `kv.value[0]` checked computes exactly the list model `Uri.applyAttr` -/
theorem cookie_attribute_agrees (c : Uri.Cookie) (k v : Bytes) : NF.applyAttr c k v = some (Uri.applyAttr c (k, v)) :=
  NF.applyAttr_eq c k v

/-- non-vacuity: `a=b; SameSite=` (the old panic) parses; `a=b;max-age=x` is the Go error, not a fault -/
example : (NF.parseCookie [97,61,98,59,32,83,97,109,101,83,105,116,101,61]).map (fun r => r.map (·.value)) = some (some [98]) := by
  decide +kernel
example : NF.parseCookie [97,61,98,59,109,97,120,45,97,103,101,61,120] = some none := by decide +kernel

/-- request cookie lists (`Cookie:` header → `parseRequestCookies`) -/
theorem request_cookies_total (src : Bytes) : ∃ l, NF.parseReqCookies src = some l := NF.parseReqCookies_total src

example : (NF.parseReqCookies [97,61,98,59,32,34,59,61,59,99]).map (·.length) = some 3 := by decide +kernel

/-- First step of `request_head_total`: `utils.NextLine` (`b[n-1]`, `b[:n]`, `b[nNext+1:]`) and the request-line parser
`parseFirstLine` (leading empty lines, `b[:n]`, `b[n+1:]`, the `LastIndexByte` cut) never fault, for every buffer.  (The
header scanner behind it is not re-stated yet, see TODO-OPEN.) -/
theorem request_line_total (buf : Bytes) : ∃ r, NF.parseFirstLine buf = some r := NF.parseFirstLine_total buf

example : NF.parseFirstLine [13,10,71,69,84,32,47,120,32,72,84,84,80,47,49,46,49,13,10,72] =
    some (.ok ([71,69,84], [47,120], true, 19)) := by decide +kernel
example : NF.parseFirstLine [32, 10] = some (.error .bad) := by decide +kernel

/-- First step of `response_read_total`: the status-line parser of the client's response reader (`b[:n]`, `b[n+1:]`,
`b[n]` behind `len(b) > n` after `ParseUintBuf`) never faults, for every buffer. -/
theorem response_status_line_total (buf : Bytes) : ∃ r, NF.parseStatusLine buf = some r := NF.parseStatusLine_total buf

example : NF.parseStatusLine [72,84,84,80,47,49,46,49,32,50,48,48,32,79,75,13,10] = some (.ok (200, true, 17)) := by decide +kernel
example : NF.parseStatusLine [72,84,84,80,47,49,46,49,32,50,48,48,120,13,10] = some (.error .bad) := by decide +kernel

/-! ## "never emits bytes that are not well-formed HTTP": the error responses -/

/-- Every response the loop model emits that is not a handler's 200 — for every configuration, stream end and inbound
byte stream — has `Connection: close`, a 4xx status, and its bytes on the wire (`errorResponse`: `AbortWithMsg` +
server name + `SetConnectionClose` through the ordinary response writer, whatever server name and date) are read back by
the strict response decoder `Spec/Resp.decodeOne` as exactly ONE message with that status, a `Connection: close` field and
the error text as body, leaving whatever follows untouched.  Together with `reject_is_clean` (it is the last thing
written): a rejected request produces exactly one well-formed closing 4xx message. -/
theorem error_response_wellformed (cfg : Cfg) (e : End) (s : Bytes) (st : Nat) (c : Bool)
    (hm : Ev.resp st c ∈ serve cfg e s) (hne : st ≠ 200) (server : Bytes) (date : Option Bytes) (rest : Bytes) :
    c = true ∧ 400 ≤ st ∧ st < 500 ∧
    ∃ m, Spec.Resp.decodeOne false (errorResponse st server date ++ rest) = some (m, rest) ∧ m.status = st ∧
      (Gen.Str.strConnection, Gen.Str.strClose) ∈ m.fields ∧ m.body = errMsg st :=
  serve_error_wellformed cfg e s st c hm hne server date rest

/-- non-vacuity: the loop answers `GET\\r\\n\\r\\n` with a 400 (example above); its bytes with server `hertz`, no date, followed
by junk, decode to status 400 with the junk left over -/
example : (Spec.Resp.decodeOne false (errorResponse 400 [104,101,114,116,122] none ++ [1, 2, 3])).map
    (fun r => (r.1.status, r.1.body.length, r.2)) = some (400, 26, [1, 2, 3]) := by decide +kernel

/-! ## Regression: peer-declared body sizes (former known finding C03-huge-chunk-alloc, repaired in /repo 6e06925) -/

/-- the former witnesses, both routes into `appendBodyFixedSize`: `Content-Length` 2^62, 2^63−1, 2^50, 2^49, 2^40 (the last
one used to kill the process with an out-of-memory fatal error) and chunk-size lines `fffffffffffffff` (2^60−1) and
`10000000000` (2^40), each followed by two body bytes -/
def hugeSizeWitnesses : List Bytes :=
  [[72,84,84,80,47,49,46,49,32,50,48,48,32,79,75,13,10,67,111,110,116,101,110,116,45,76,101,110,103,116,104,58,32,52,54,49,49,54,56,54,48,49,56,52,50,55,51,56,55,57,48,52,13,10,13,10,97,98],
   [72,84,84,80,47,49,46,49,32,50,48,48,32,79,75,13,10,67,111,110,116,101,110,116,45,76,101,110,103,116,104,58,32,57,50,50,51,51,55,50,48,51,54,56,53,52,55,55,53,56,48,55,13,10,13,10,97,98],
   [72,84,84,80,47,49,46,49,32,50,48,48,32,79,75,13,10,67,111,110,116,101,110,116,45,76,101,110,103,116,104,58,32,49,49,50,53,56,57,57,57,48,54,56,52,50,54,50,52,13,10,13,10,97,98],
   [72,84,84,80,47,49,46,49,32,50,48,48,32,79,75,13,10,67,111,110,116,101,110,116,45,76,101,110,103,116,104,58,32,53,54,50,57,52,57,57,53,51,52,50,49,51,49,50,13,10,13,10,97,98],
   [72,84,84,80,47,49,46,49,32,50,48,48,32,79,75,13,10,67,111,110,116,101,110,116,45,76,101,110,103,116,104,58,32,49,48,57,57,53,49,49,54,50,55,55,55,54,13,10,13,10,97,98],
   [72,84,84,80,47,49,46,49,32,50,48,48,32,79,75,13,10,84,114,97,110,115,102,101,114,45,69,110,99,111,100,105,110,103,58,32,99,104,117,110,107,101,100,13,10,13,10,102,102,102,102,102,102,102,102,102,102,102,102,102,102,102,13,10,97,98,13,10],
   [72,84,84,80,47,49,46,49,32,50,48,48,32,79,75,13,10,84,114,97,110,115,102,101,114,45,69,110,99,111,100,105,110,103,58,32,99,104,117,110,107,101,100,13,10,13,10,49,48,48,48,48,48,48,48,48,48,48,13,10,97,98,13,10]]

/-- Regression theorem (was: excluded class `huge-chunk-size-alloc`): on every former witness, with no body-size limit, the
client-reader model answers "unexpected EOF" when the peer closes and "need more / time-out" when it stalls — the verdict the
repaired code now gives too (the correspondence check demands it; there is no exception class any more). -/
theorem huge_declared_size_repaired :
    hugeSizeWitnesses.all (fun w =>
      (match H1.RespRead.readResponse false 0 .eof w with | .error .unexpectedEOF => true | _ => false) &&
      (match H1.RespRead.readResponse false 0 .stall w with | .error .timeout => true | _ => false)) = true := by
  decide +kernel

end Hertz.Props.C03
