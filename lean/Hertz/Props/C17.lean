import Hertz.Proofs.Args
import Hertz.Proofs.ArgsStd
import Hertz.Proofs.UriRt
import Hertz.Proofs.CookieRt
import Hertz.Proofs.HttpDate
import Hertz.Proofs.CookieExp
import Hertz.Proofs.ArgsProg
import Hertz.Proofs.UriOps
import Hertz.Driver.C17u
/-!
# C17 — URI, query-string and cookie codecs round-trip

URI and cookie round trips (`Model/Uri.lean`: `parse`, `fullURI`, `parseCookie`, `appendCookie`) are compared with the real
code, the round-trip statement is evaluated on the implementation's output for every explored case, and they are now Lean
theorems for all inputs:

* `uri_roundtrip` (+ `uri_roundtrip_components`, `uri_fixed_point`, `uri_roundtrip_rawQuery`): for every scheme/host accepted
  by the driver's `wfUri` (`wfUri_is_the_drivers`), every path, every list of query arguments (or raw query string free of `#`
  and control bytes) and every fragment free of control bytes, `Parse(nil, FullURI())` returns exactly the components that
  were assembled and formatting again is a fixed point.  `uri_roundtrip_fails_at`: with a control byte in the fragment the
  statement is false (known finding F15), so that hypothesis cannot be dropped; `uri_fragment_ctl_loses_everything`: for
  every URI whose fragment has a control byte the re-parsed URI is the empty one.
* `cookie_roundtrip_partial`: for every cookie satisfying the driver's validity predicate (`Uri.wfCookie`, plus max-age in
  Go's `int` range) that has a key, a value or at least one attribute, `ParseBytes(AppendBytes(c)) = c` on all nine modelled
  fields.  `cookie_roundtrip_fails_at`: the entirely empty cookie is written as the empty string, which `ParseBytes` rejects
  (`errNoCookies`) - the excluded case.
* `args_agree_std`: for every byte string that Go's `url.ParseQuery` accepts (`Spec/UrlQuery.lean`: `stdParse`, a model of
  `parseQuery`/`QueryUnescape` written after the Go source and compared with the real `net/url` on every `argsstd` case of
  the correspondence check), hertz's `Args.ParseBytes` yields exactly the same (key, value) pairs in the same order, the
  pairs with both key and value empty excepted (hertz drops them by design; `args_agree_std_needs_filter`).  What `net/url`
  accepts is spelled out (`std_accepts_iff`: no `;` anywhere, every `%` followed by two hex digits), so the statement is also
  given with these two explicit hypotheses (`args_agree_std_explicit`); outside them `net/url` returns an error while hertz
  keeps the bytes literally (`args_outside_std`), which is not a disagreement on accepted input.  `args_parse_fixed_point`:
  `parse(serialise(parse b)) = parse b` for all `b` (the `argsfix` check).

Since the extension (`Model/{HttpDate,CookieExp,ArgsProg,UriOps}.lean`, `Proofs/{HttpDate,CookieExp,ArgsProg,UriOps}.lean`) the
following are Lean theorems for all inputs as well (second half of this file):
* `date_roundtrip`, `date_roundtrip_full`, `date_format_shape`, the day-number / civil-date bijection
  (`civil_of_days_inverse`, `days_of_civil_inverse`, `civil_of_days_valid`), `date_roundtrip_fails_at` (years outside 0..9999),
  `date_parse_lenient` / `date_parse_rejects` (what Go's parser accepts beyond the text hertz writes);
* `cookie_roundtrip` with ALL TEN attributes incl. `expires` (result = canonical form: whole seconds, no expiry next to a
  positive max-age), `cookie_roundtrip_canonical`, `cookie_canonical_iff`, the loss witnesses `cookie_expire_lost_by_maxage`,
  `cookie_subsecond_lost`, `cookie_expire_year_fails_at`;
* `args_program_roundtrip` (any program of `Add/Set/Del/ParseBytes/Reset`), `request_cookie_roundtrip` + `request_cookie_wf_tight`;
* `uri_program_roundtrip` (any program of `Parse`, setters, user-info setters, `QueryArgs()` mutations, `Update`, `Reset`),
  `update_never_panics`, `uri_roundtrip_userinfo_partial` / `uri_userinfo_dropped`.  `uri_program_roundtrip` demands the
  query conjunct in EVERY well-formed state: the former known finding `C17-stale-query` (`FullURI()` wrote arguments that
  `SetQueryString` / `Update("?…")` had replaced, or the query string whose last argument had been deleted) is repaired in
  /repo 97b0e80 (`RequestURI()` chooses by `parsedQueryArgs`), the model follows (`URI.requestURIp`), and the former witness
  programs are the regression theorems `uri_stale_query_repaired`.

TODO-OPEN (not Lean theorems): that `stdParse` is what the real `url.ParseQuery`/`url.QueryUnescape` compute, and that
`Model/HttpDate.lean` is what Go's `time.AppendFormat` / `time.Parse` compute on the three layouts hertz uses, rests on the
correspondence check (ops `argsstd`, `httpdatefmt`, `httpdateparse`, `httpdatert`: diffed with the real packages on every case),
not on a proof.  The `noValue` flag of hertz's entries has no counterpart in `net/url`.  Relative parsing with a separate `Host`
argument is covered as the first step of URI programs (`UriOp.parse host uri`) by `uri_program_roundtrip`; what `Parse` makes of
user-info is stated on witnesses only.  `DisablePathNormalizing` is not modelled here.

Property theorems only; lemmas live in `Hertz/Proofs`.  Every statement is about the models in
`Hertz/Model`, which the correspondence check (`bin/check C17`) holds to the Go code, and about
the byte tables in `Hertz/Gen/Tables.lean`, regenerated from the Go source on every run.
-/
namespace Hertz.Props.C17
open Hertz

/-- Percent-decoding the quoted form of any byte string gives the string back
(`decodeArgAppend ∘ AppendQuotedArg = id`), for all inputs. -/
theorem decode_quote (b : Bytes) : decodeArg (quoteArg b) = b := decode_quoteArg b

/-- The serialiser never emits a byte that the scanner treats as structure. -/
theorem quote_no_structure (b : Bytes) : ∀ x ∈ quoteArg b, x ≠ 38 ∧ x ≠ 61 ∧ x ≠ 35 ∧ x ≠ 59 :=
  quoteArg_no_special b

/-- For every ordered list of arguments (an entry flagged "no value" has an empty value, which is
the invariant every public mutator keeps), parsing the encoded string returns the same list,
entries with both key and value empty excepted. -/
theorem args_roundtrip (l : List ArgKV) (h : ∀ kv ∈ l, kv.noValue = true → kv.value = []) :
    parseArgs (appendArgs l) = l.filter (fun kv => !kv.bothEmpty) :=
  parseArgs_appendArgs l h

/-- The path component survives `FullURI` → `Parse`: quoting the path and decoding it once (as
`normalizePath` does) gives the path back, for every byte string. -/
theorem path_decode_quote (p : Bytes) : decodeArgNoPlus (quotePath p) = p := decodeNoPlus_quotePath p

/-- non-vacuity: a hostile two-entry list meets the hypothesis and round-trips. -/
example : parseArgs (appendArgs [⟨[97, 38, 61], [37, 32, 43], false⟩, ⟨[107], [], true⟩])
    = [⟨[97, 38, 61], [37, 32, 43], false⟩, ⟨[107], [], true⟩] := by decide +kernel

/-! ### agreement with `net/url` -/

open Hertz.Spec.UrlQuery in
/-- `args_agree_std`: for every byte string `s` that `url.ParseQuery` accepts, with `l` the pairs it yields in wire order,
hertz's `Args.ParseBytes(s)` yields exactly `l` as (key, value) pairs in the same order - the entries with both key and
value empty excepted (a segment `=`; `net/url` keeps `"" = ""`, hertz drops it by design: the same exemption as in
`args_roundtrip`, and the one the driver's `argsstd` comparison makes with `dropEmpty`).  No other difference is tolerated. -/
theorem args_agree_std (s : Bytes) (l : List (Bytes × Bytes)) (h : stdParse s = some l) :
    (parseArgs s).map ArgKV.pair = l.filter pairNonEmpty :=
  parseArgs_agree_stdParse s l h

open Hertz.Spec.UrlQuery in
/-- What "`net/url` accepts" means, for all inputs: `url.ParseQuery(s)` returns no error iff `s` contains no `;` and every
`%` in `s` is followed by two hex digits (`stdAccepts s = !s.contains 59 && escapesOk s`). -/
theorem std_accepts_iff (s : Bytes) : (stdParse s).isSome = stdAccepts s := stdParse_isSome_iff s

open Hertz.Spec.UrlQuery in
/-- `args_agree_std` with the excluded region spelled out instead of "`net/url` accepts": if `s` has no `;` and no
malformed escape, `url.ParseQuery` accepts it and hertz's parse is its result without the empty/empty pairs. -/
theorem args_agree_std_explicit (s : Bytes) (h59 : s.contains 59 = false) (hesc : escapesOk s = true) :
    ∃ l, stdParse s = some l ∧ (parseArgs s).map ArgKV.pair = l.filter pairNonEmpty :=
  parseArgs_agree_explicit s h59 hesc

open Hertz.Spec.UrlQuery in
set_option maxRecDepth 100000 in
/-- The exemption cannot be dropped: on `=` `net/url` yields one pair `("", "")`, hertz yields nothing. -/
theorem args_agree_std_needs_filter :
    stdParse [61] = some [([], [])] ∧ ¬ (parseArgs [61]).map ArgKV.pair = [([], [])] := by decide +kernel

open Hertz.Spec.UrlQuery in
set_option maxRecDepth 100000 in
/-- Outside the hypothesis: on `a;b` and on `%zz=1` `url.ParseQuery` returns an error (so there is nothing to agree with),
while hertz keeps the bytes literally - `a;b` without value, and `%zz` = `1`. -/
theorem args_outside_std :
    stdParse [97, 59, 98] = none ∧ parseArgs [97, 59, 98] = [⟨[97, 59, 98], [], true⟩] ∧
    stdParse [37, 122, 122, 61, 49] = none ∧ parseArgs [37, 122, 122, 61, 49] = [⟨[37, 122, 122], [49], false⟩] := by
  decide +kernel

open Hertz.Spec.UrlQuery in
set_option maxRecDepth 100000 in
/-- non-vacuity: `a+b=%41%2b&&=&k&x=&%3d==` has no `;` and only well-formed escapes; `net/url` yields
`("a b","A+") ("","") ("k","") ("x","") ("=","=")`, hertz the same without `("","")`. -/
example :
    let s : Bytes := [97, 43, 98, 61, 37, 52, 49, 37, 50, 98, 38, 38, 61, 38, 107, 38, 120, 61, 38, 37, 51, 100, 61, 61]
    s.contains 59 = false ∧ escapesOk s = true ∧
    stdParse s = some [([97, 32, 98], [65, 43]), ([], []), ([107], []), ([120], []), ([61], [61])] ∧
    (parseArgs s).map ArgKV.pair = [([97, 32, 98], [65, 43]), ([107], []), ([120], []), ([61], [61])] := by
  decide +kernel

/-- Every entry that `Args.ParseBytes` flags "no value" has an empty value - the hypothesis of `args_roundtrip` holds of
every parsed list. -/
theorem args_parse_wf (s : Bytes) : ∀ kv ∈ parseArgs s, kv.noValue = true → kv.value = [] := parseArgs_wf s

/-- Serialising a parsed list and parsing again gives the same list, for every input (the `argsfix` check). -/
theorem args_parse_fixed_point (s : Bytes) : parseArgs (appendArgs (parseArgs s)) = parseArgs s :=
  parseArgs_fixed_point s

/-- non-vacuity: `k&a=` parses to an entry without value and one with an empty value. -/
example : parseArgs [107, 38, 97, 61] = [⟨[107], [], true⟩, ⟨[97], [], false⟩] := by decide +kernel

/-! ### URI round trip -/

open Hertz.Uri in
/-- The well-formedness predicate of the theorems below is the one the driver uses to decide whether the round trip is
demanded of the implementation. -/
theorem wfUri_is_the_drivers (scheme host : Bytes) : Uri.wfUri scheme host = Driver.C17u.wfUri scheme host := by
  unfold Uri.wfUri Uri.wfScheme Uri.wfHost Driver.C17u.wfUri
  rw [Bool.and_assoc]
  rfl

open Hertz.Uri in
/-- `uri_roundtrip`: a URI assembled through the setters (`mkURI`: scheme and host lower-cased, path normalised) with query
arguments `qa`, serialised by `FullURI` and parsed by `Parse(nil, ·)`, gives exactly: the scheme (`http` if none was set),
the host, the quoted path as `PathOriginal`, the path, the encoded arguments as query string, the fragment, and no user-info.
For all byte strings; the only hypotheses are the driver's `wfUri` and "no control byte in the fragment" (F15). -/
theorem uri_roundtrip (scheme host path hash : Bytes) (qa : List ArgKV)
    (hwf : wfUri scheme host = true) (hh : hasCTL hash = false) :
    parse [] ((mkURI scheme host path hash).fullURI qa) =
      { scheme := (mkURI scheme host path hash).schemeOrHTTP, host := host.map toLower,
        pathOriginal := quotePath (normalizePath path), path := normalizePath path,
        query := appendArgs qa, hash := hash } :=
  parse_fullURI scheme host path hash qa hwf hh

open Hertz.Uri in
/-- The statement in the driver's form (`c1`..`c5` of `urirt`): scheme, host, path, fragment and the re-parsed argument list
(entries with both key and value empty excepted, as in `args_roundtrip`) are those of the assembled URI. -/
theorem uri_roundtrip_components (scheme host path hash : Bytes) (qa : List ArgKV)
    (hwf : wfUri scheme host = true) (hh : hasCTL hash = false)
    (hqa : ∀ kv ∈ qa, kv.noValue = true → kv.value = []) :
    let u0 := mkURI scheme host path hash
    let v := parse [] (u0.fullURI qa)
    v.schemeOrHTTP = u0.schemeOrHTTP ∧ v.host = u0.host ∧ v.pathOrSlash = u0.pathOrSlash ∧ v.hash = hash ∧
      v.username = [] ∧ v.password = [] ∧ parseArgs v.query = qa.filter (fun kv => !kv.bothEmpty) :=
  Uri.uri_roundtrip_components scheme host path hash qa hwf hh hqa

open Hertz.Uri in
/-- Formatting the re-parsed URI with its re-parsed arguments gives the same text (`c6` of `urirt`; the driver likewise
exempts lists containing an entry with both key and value empty, which the parser drops). -/
theorem uri_fixed_point (scheme host path hash : Bytes) (qa : List ArgKV)
    (hwf : wfUri scheme host = true) (hh : hasCTL hash = false)
    (hqa : ∀ kv ∈ qa, kv.noValue = true → kv.value = []) (hne : ∀ kv ∈ qa, kv.bothEmpty = false) :
    let u0 := mkURI scheme host path hash
    let v := parse [] (u0.fullURI qa)
    v.fullURI (parseArgs v.query) = u0.fullURI qa :=
  Uri.uri_fixed_point scheme host path hash qa hwf hh hqa hne

open Hertz.Uri in
/-- The same round trip when the query is a raw string (`SetQueryString`) instead of an argument list: it must be free of
`#` (which would start the fragment) and of control bytes. -/
theorem uri_roundtrip_rawQuery (scheme host path qs hash : Bytes)
    (hwf : wfUri scheme host = true) (hh : hasCTL hash = false)
    (hq35 : ∀ x ∈ qs, x ≠ 35) (hqctl : hasCTL qs = false) :
    parse [] ((mkURIq scheme host path qs hash).fullURI []) =
      { scheme := (mkURI scheme host path hash).schemeOrHTTP, host := host.map toLower,
        pathOriginal := quotePath (normalizePath path), path := normalizePath path,
        query := qs, hash := hash } :=
  parse_fullURI_rawQuery scheme host path qs hash hwf hh hq35 hqctl

open Hertz.Uri in
set_option maxRecDepth 100000 in
/-- Known finding F15: without "no control byte in the fragment" the statement is false.  Host `h`, path `/`, fragment
`0x01`: `FullURI` writes `http://h/#\x01`, `Parse` rejects the text and every component is lost. -/
theorem uri_roundtrip_fails_at :
    wfUri [] [104] = true ∧ (mkURI [] [104] [47] [1]).fullURI [] = [104, 116, 116, 112, 58, 47, 47, 104, 47, 35, 1] ∧
      parse [] ((mkURI [] [104] [47] [1]).fullURI []) = {} := by decide +kernel

open Hertz.Uri in
/-- F15 for all inputs: whatever scheme, host, path and query are, a control byte in the fragment makes
`Parse(nil, FullURI())` return the empty URI (every component lost), so the excluded region of `uri_roundtrip` is exactly
the known-finding class `uri-fragment-ctl`. -/
theorem uri_fragment_ctl_loses_everything (u : URI) (qa : List ArgKV) (h : hasCTL u.hash = true) :
    parse [] (u.fullURI qa) = {} :=
  parse_fullURI_ctl_fragment u qa h

/-- non-vacuity: the fragment `a\x00` contains a control byte. -/
example : Uri.hasCTL ({ hash := [97, 0] } : Uri.URI).hash = true := by decide

open Hertz.Uri in
set_option maxRecDepth 100000 in
/-- non-vacuity: scheme `HTTPS`, host `H.Example:8080`, path `/a b/../%41?x`, fragment `f#?g`, arguments `a&`=`= ` and `k`=``
meet the hypotheses of all three theorems, and the text written is the one the real `FullURI` writes for these setters
(replayed: `urirt 4854545053 482e4578616d706c653a38303830 2f6120622f2e2e2f2534313f78 66233f67 2 6126 3d20 6b -`). -/
example :
    wfUri [72, 84, 84, 80, 83] [72, 46, 69, 120, 97, 109, 112, 108, 101, 58, 56, 48, 56, 48] = true ∧
    hasCTL [102, 35, 63, 103] = false ∧
    (∀ kv ∈ [(⟨[97, 38], [61, 32], false⟩ : ArgKV), ⟨[107], [], false⟩], (kv.noValue = true → kv.value = []) ∧ kv.bothEmpty = false) ∧
    (mkURI [72, 84, 84, 80, 83] [72, 46, 69, 120, 97, 109, 112, 108, 101, 58, 56, 48, 56, 48]
        [47, 97, 32, 98, 47, 46, 46, 47, 37, 52, 49, 63, 120] [102, 35, 63, 103]).fullURI
        [⟨[97, 38], [61, 32], false⟩, ⟨[107], [], false⟩] =
      -- https://h.example:8080/A%3Fx?a%26=%3D+&k=#f#?g
      [104, 116, 116, 112, 115, 58, 47, 47, 104, 46, 101, 120, 97, 109, 112, 108, 101, 58, 56, 48, 56, 48, 47, 65, 37, 51, 70, 120, 63, 97, 37, 50, 54, 61, 37, 51, 68, 43, 38, 107, 61, 35, 102, 35, 63, 103] := by
  decide +kernel

/-- non-vacuity for the raw query string: `a=1&b` has neither `#` nor a control byte. -/
example : (∀ x ∈ ([97, 61, 49, 38, 98] : Bytes), x ≠ 35) ∧ Uri.hasCTL [97, 61, 49, 38, 98] = false := by decide

/-! ### cookie round trip -/

open Hertz.Uri in
/-- `cookie_roundtrip` (partial: the empty cookie is excluded, see `cookie_roundtrip_fails_at`): for every response cookie
that satisfies the driver's validity predicate (`wfCookie`: key free of `=` and `;` and not changed by trimming; value,
domain and path free of `;` and not changed by trimming and unquoting; no `=` in the value of a key-less cookie; max-age in
Go's `int` range) and has a key, a value or some attribute, parsing its serialisation returns the same cookie - key, value,
max-age, domain, path, HttpOnly, secure, SameSite and Partitioned.  Expiry is Go's time formatting and stays outside. -/
theorem cookie_roundtrip_partial (c : Cookie) (hwf : wfCookie c = true) (hne : cookieNonEmpty c = true) :
    parseCookie (appendCookie c) = some c :=
  parseCookie_appendCookie' c hwf hne

open Hertz.Uri in
/-- "has a key, a value or some attribute" is exactly "the serialisation is not the empty string". -/
theorem cookie_nonEmpty_iff (c : Cookie) : appendCookie c = [] ↔ cookieNonEmpty c = false :=
  appendCookie_eq_nil_iff c

open Hertz.Uri in
/-- The full statement is false: the empty cookie satisfies the validity predicate, is written as the empty string, and
`ParseBytes("")` is an error (`errNoCookies`). -/
theorem cookie_roundtrip_fails_at : wfCookie {} = true ∧ ¬ parseCookie (appendCookie {}) = some {} := by decide

open Hertz.Uri in
/-- non-vacuity: `id=a=b; max-age=3600; domain=x.io; path=/; HttpOnly; secure; SameSite=None; Partitioned` meets both
hypotheses (and round-trips). -/
example : wfCookie exCookie = true ∧ cookieNonEmpty exCookie = true ∧ parseCookie (appendCookie exCookie) = some exCookie :=
  ⟨exCookie_wf.1, exCookie_wf.2, exCookie_roundtrip⟩


/-! ### RFC 1123 dates (`bytesconv.AppendHTTPDate` / `ParseHTTPDate`, the `expires` attribute)

`Model/HttpDate.lean` is a model of Go's `time` package on the layouts hertz uses (trusted stdlib; compared with the real
`time` on every `httpdatefmt` / `httpdateparse` / `httpdatert` case). -/

open Hertz.HttpDate in
/-- `date_roundtrip`: for every Unix time from the epoch to the last second of year 9999, parsing the text hertz writes gives
the time back. -/
theorem date_roundtrip (t : Int) (h0 : 0 ≤ t) (h1 : t < 253402300800) : parseHTTPDate (formatHTTPDate t) = some t :=
  parseHTTPDate_format t (by unfold minSec; omega) h1

open Hertz.HttpDate in
/-- The same on the whole range in which the year has four digits - from 0000-01-01T00:00:00Z (`minSec`, 62 167 219 200 s
before the epoch) to 9999-12-31T23:59:59Z - and with everything the parser returns: no fractional second, a location named
`GMT` with offset 0. -/
theorem date_roundtrip_full (t : Int) (h0 : minSec ≤ t) (h1 : t < maxSec) :
    parseRFC1123 (formatHTTPDate t) = some { sec := t, nsec := 0, zone := [71, 77, 84], zoneOff := 0 } :=
  parse_format t h0 h1

open Hertz.HttpDate in
set_option maxRecDepth 100000 in
/-- The range cannot be extended by one second on either side: the first second of year 10000 is written with five year
digits (`Sat, 01 Jan 10000 00:00:00 GMT`) and the last second of year -1 with a sign (`Fri, 31 Dec -0001 23:59:59 GMT`);
Go's parser rejects both. -/
theorem date_roundtrip_fails_at :
    formatHTTPDate maxSec = [83, 97, 116, 44, 32, 48, 49, 32, 74, 97, 110, 32, 49, 48, 48, 48, 48, 32, 48, 48, 58, 48, 48,
      58, 48, 48, 32, 71, 77, 84] ∧
    ¬ parseHTTPDate (formatHTTPDate maxSec) = some maxSec ∧ ¬ parseHTTPDate (formatHTTPDate (minSec - 1)) = some (minSec - 1) := by
  decide +kernel

open Hertz.HttpDate in
set_option maxRecDepth 100000 in
/-- non-vacuity: the epoch, `CookieExpireDelete` (2009-11-10T23:00:00Z), a leap day and both ends of the range. -/
example : formatHTTPDate 1257894000 = [84, 117, 101, 44, 32, 49, 48, 32, 78, 111, 118, 32, 50, 48, 48, 57, 32, 50, 51, 58, 48,
      48, 58, 48, 48, 32, 71, 77, 84] ∧
    parseHTTPDate (formatHTTPDate 0) = some 0 ∧ parseHTTPDate (formatHTTPDate 1709164800) = some 1709164800 ∧
    parseHTTPDate (formatHTTPDate minSec) = some minSec ∧ parseHTTPDate (formatHTTPDate (maxSec - 1)) = some (maxSec - 1) := by
  decide +kernel

open Hertz.HttpDate in
/-- `format_shape`: the text has 29 bytes `Www, DD Mmm YYYY HH:MM:SS GMT` - separators at fixed positions, names from Go's
`shortDayNames` / `shortMonthNames`, decimal digits everywhere else. -/
theorem date_format_shape (t : Int) (h0 : minSec ≤ t) (h1 : t < maxSec) :
    ∃ wa wb wc d1 d2 ma mb mc y1 y2 y3 y4 h1 h2 m1 m2 s1 s2,
      formatHTTPDate t = [wa, wb, wc, 44, 32, d1, d2, 32, ma, mb, mc, 32, y1, y2, y3, y4, 32, h1, h2, 58, m1, m2, 58,
        s1, s2, 32, 71, 77, 84] ∧
      (wa, wb, wc) ∈ dayTab ∧ (ma, mb, mc) ∈ monthTab ∧
      (isDig d1 && isDig d2 && isDig y1 && isDig y2 && isDig y3 && isDig y4 && isDig h1 && isDig h2 && isDig m1 &&
        isDig m2 && isDig s1 && isDig s2) = true :=
  format_shape t h0 h1

open Hertz.HttpDate in
theorem date_format_length (t : Int) (h0 : minSec ≤ t) (h1 : t < maxSec) : (formatHTTPDate t).length = 29 :=
  format_length t h0 h1

open Hertz.HttpDate in
/-- The day-number / civil-date bijection, first half: every day number (any integer) is the day number of its civil date. -/
theorem civil_of_days_inverse (z : Int) :
    daysFromCivil (civilFromDays z).1 (civilFromDays z).2.1 (civilFromDays z).2.2 = z :=
  days_civil_days z

open Hertz.HttpDate in
/-- Second half: every date of the proleptic Gregorian calendar (any year, month 1..12, day 1..`daysIn`) is the civil date
of its day number. -/
theorem days_of_civil_inverse (y m d : Int) (hm1 : 1 ≤ m) (hm2 : m ≤ 12) (hd1 : 1 ≤ d) (hd2 : d ≤ daysIn m y) :
    civilFromDays (daysFromCivil y m d) = (y, m, d) :=
  civil_days_civil y m d hm1 hm2 hd1 hd2

open Hertz.HttpDate in
/-- and `civilFromDays` only yields dates of the calendar. -/
theorem civil_of_days_valid (z : Int) :
    1 ≤ (civilFromDays z).2.1 ∧ (civilFromDays z).2.1 ≤ 12 ∧ 1 ≤ (civilFromDays z).2.2 ∧
      (civilFromDays z).2.2 ≤ daysIn (civilFromDays z).2.1 (civilFromDays z).1 :=
  civil_valid z

open Hertz.HttpDate in
/-- non-vacuity: 2024-02-29 is a date of the calendar, 19 782 days after the epoch. -/
example : (29 : Int) ≤ daysIn 2 2024 ∧ daysFromCivil 2024 2 29 = 19782 ∧ civilFromDays 19782 = (2024, 2, 29) := by decide

open Hertz.HttpDate in
set_option maxRecDepth 100000 in
/-- What Go's parser accepts beyond the text hertz writes (so `parseHTTPDate` is far from injective): the weekday is not
checked against the date (`Mon, 01 Jan 1970 …` was a Thursday), names in any case, several blanks, a one-digit hour, a
fractional second, any zone abbreviation - which is NOT applied to the instant (`PST`, `GMT+3` read as UTC); the cookie
parser additionally takes the dashed form. -/
theorem date_parse_lenient :
    -- "Mon, 01 Jan 1970 00:00:00 GMT"
    parseHTTPDate [77, 111, 110, 44, 32, 48, 49, 32, 74, 97, 110, 32, 49, 57, 55, 48, 32, 48, 48, 58, 48, 48, 58, 48, 48, 32, 71, 77, 84] = some 0 ∧
    -- "thu,  01 jan 1970 0:00:00.999 PST"
    parseRFC1123 [116, 104, 117, 44, 32, 32, 48, 49, 32, 106, 97, 110, 32, 49, 57, 55, 48, 32, 48, 58, 48, 48, 58, 48, 48, 46, 57, 57, 57, 32, 80, 83, 84] =
      some { sec := 0, nsec := 999000000, zone := [80, 83, 84], zoneOff := 0 } ∧
    -- "Thu, 01 Jan 1970 00:00:00 GMT+3"
    parseRFC1123 [84, 104, 117, 44, 32, 48, 49, 32, 74, 97, 110, 32, 49, 57, 55, 48, 32, 48, 48, 58, 48, 48, 58, 48, 48, 32, 71, 77, 84, 43, 51] =
      some { sec := 0, nsec := 0, zone := [71, 77, 84, 43, 51], zoneOff := 10800 } ∧
    -- "Thu, 01-Jan-1970 00:00:00 GMT": not RFC 1123, accepted by the cookie parser's second attempt
    parseRFC1123 [84, 104, 117, 44, 32, 48, 49, 45, 74, 97, 110, 45, 49, 57, 55, 48, 32, 48, 48, 58, 48, 48, 58, 48, 48, 32, 71, 77, 84] = none ∧
    (parseCookieDate [84, 104, 117, 44, 32, 48, 49, 45, 74, 97, 110, 45, 49, 57, 55, 48, 32, 48, 48, 58, 48, 48, 58, 48, 48, 32, 71, 77, 84]).map (·.sec) = some 0 := by
  decide +kernel

open Hertz.HttpDate in
set_option maxRecDepth 100000 in
/-- … and what it rejects: a day that the month does not have (1900 is no leap year), anything after the zone. -/
theorem date_parse_rejects :
    -- "Thu, 29 Feb 1900 00:00:00 GMT"
    parseHTTPDate [84, 104, 117, 44, 32, 50, 57, 32, 70, 101, 98, 32, 49, 57, 48, 48, 32, 48, 48, 58, 48, 48, 58, 48, 48, 32, 71, 77, 84] = none ∧
    -- "Thu, 29 Feb 2000 00:00:00 GMT" is fine
    parseHTTPDate [84, 104, 117, 44, 32, 50, 57, 32, 70, 101, 98, 32, 50, 48, 48, 48, 32, 48, 48, 58, 48, 48, 58, 48, 48, 32, 71, 77, 84] = some 951782400 ∧
    -- "Thu, 01 Jan 1970 00:00:00 GMT "
    parseHTTPDate [84, 104, 117, 44, 32, 48, 49, 32, 74, 97, 110, 32, 49, 57, 55, 48, 32, 48, 48, 58, 48, 48, 58, 48, 48, 32, 71, 77, 84, 32] = none := by
  decide +kernel

/-! ### cookie round trip with `expires` (all ten attributes) -/

open Hertz.Uri in
/-- `cookie_roundtrip`: for every response cookie that satisfies the validity predicate (`wfCookieE`: `wfCookie` on the nine
fields of `cookie_roundtrip_partial`, and the expiry, IF it is written, has a four-digit year) and is not entirely empty,
`ParseBytes(AppendBytes(x))` succeeds and returns the canonical form of `x`: key, value, max-age, domain, path, HttpOnly, secure,
SameSite, Partitioned unchanged; the expiry as the same instant in whole seconds - or no expiry when max-age is positive
(`AppendBytes` then writes `max-age` INSTEAD of `expires`, documented at `SetMaxAge`). -/
theorem cookie_roundtrip (x : CookieE) (hwf : wfCookieE x = true) (hne : cookieNonEmptyE x = true) :
    parseCookieE (appendCookieE x) = some (canonE x) :=
  parseCookieE_appendCookieE' x hwf hne

open Hertz.Uri in
/-- The statement of the property at full strength on canonical cookies: expiry in whole seconds, none next to a positive
max-age.  (`SetExpire` takes a `time.Time`; only its instant is modelled - the location cannot come back.) -/
theorem cookie_roundtrip_canonical (x : CookieE) (hwf : wfCookieE x = true) (hne : cookieNonEmptyE x = true)
    (hns : x.expire.nsec = 0) (hma : x.c.maxAge > 0 → x.expire = zeroInstant) :
    parseCookieE (appendCookieE x) = some x := by
  rw [parseCookieE_appendCookieE' x hwf hne, (canonE_eq_iff x).mpr ⟨hns, hma⟩]

open Hertz.Uri in
/-- exactly these two conditions make a cookie canonical -/
theorem cookie_canonical_iff (x : CookieE) :
    canonE x = x ↔ x.expire.nsec = 0 ∧ (x.c.maxAge > 0 → x.expire = zeroInstant) :=
  canonE_eq_iff x

open Hertz.Uri in
theorem cookie_nonEmptyE_iff (x : CookieE) : appendCookieE x = [] ↔ cookieNonEmptyE x = false :=
  appendCookieE_eq_nil_iff x

open Hertz.Uri in
/-- Without an expiry the serialiser with `expires` is the one the nine-field theorems are about. -/
theorem cookie_noExpire_agrees (c : Cookie) : appendCookieE { c := c } = appendCookie c := appendCookieE_noExpire c

open Hertz.Uri in
/-- `a=b` with max-age 5 and expiry `CookieExpireDelete`: valid, and the expiry does not come back (by design). -/
def exLostByMaxAge : CookieE := { c := { key := [97], value := [98], maxAge := 5 }, expire := ⟨1257894000, 0⟩ }

open Hertz.Uri in
/-- What is lost, by witness (1): an expiry next to a positive max-age is not written. -/
theorem cookie_expire_lost_by_maxage :
    wfCookieE exLostByMaxAge = true ∧
    parseCookieE (appendCookieE exLostByMaxAge) = some { exLostByMaxAge with expire := zeroInstant } ∧
    exLostByMaxAge.expire ≠ zeroInstant :=
  ⟨by decide, parseCookieE_appendCookieE' exLostByMaxAge (by decide) (by decide), by decide⟩

open Hertz.Uri in
set_option maxRecDepth 100000 in
/-- (2): the sub-second part.  `a=b` expiring at 2009-11-10T23:00:00.5Z comes back expiring at 23:00:00; and an expiry half
a second after the zero `Time` is written (`expires=Mon, 01 Jan 0001 00:00:00 GMT`) but comes back as "no expiry". -/
theorem cookie_subsecond_lost :
    parseCookieE (appendCookieE { c := { key := [97], value := [98] }, expire := ⟨1257894000, 500000000⟩ }) =
      some { c := { key := [97], value := [98] }, expire := ⟨1257894000, 0⟩ } ∧
    (appendCookieE { c := { key := [97], value := [98] }, expire := ⟨-62135596800, 500000000⟩ }).length = 42 ∧
    parseCookieE (appendCookieE { c := { key := [97], value := [98] }, expire := ⟨-62135596800, 500000000⟩ }) =
      some { c := { key := [97], value := [98] } } := by
  decide +kernel

open Hertz.Uri in
set_option maxRecDepth 100000 in
/-- The hypothesis on the year cannot be dropped: `a=b` expiring in the first second of year 10000 satisfies everything
else, is written as `a=b; expires=Sat, 01 Jan 10000 00:00:00 GMT`, and `ParseBytes` returns an ERROR on that text. -/
theorem cookie_expire_year_fails_at :
    wfCookie ({ c := { key := [97], value := [98] }, expire := ⟨253402300800, 0⟩ } : CookieE).c = true ∧
    parseCookieE (appendCookieE { c := { key := [97], value := [98] }, expire := ⟨253402300800, 0⟩ }) = none := by
  decide +kernel

open Hertz.Uri in
set_option maxRecDepth 100000 in
/-- non-vacuity: `id=a=b; expires=Tue, 10 Nov 2009 23:00:00 GMT; domain=x.io; path=/; HttpOnly; secure; SameSite=None;
Partitioned` meets all hypotheses of `cookie_roundtrip_canonical`. -/
example :
    let x : CookieE := { c := { exCookie with maxAge := 0 }, expire := ⟨1257894000, 0⟩ }
    wfCookieE x = true ∧ cookieNonEmptyE x = true ∧ x.expire.nsec = 0 ∧ (x.c.maxAge > 0 → x.expire = zeroInstant) ∧
    parseCookieE (appendCookieE x) = some x := by
  decide +kernel


/-! ### setter side of `Args`: programs of `Add / Set / Del / ParseBytes / Reset` -/

/-- `args_program_roundtrip`: after ANY program of `Add`, `Set`, `Del`, `ParseBytes`, `Reset` calls with arbitrary bytes on one
`Args` object, `ParseBytes(QueryString())` returns exactly the entries `VisitAll` reports, in order, with their no-value flags -
entries with both key and value empty excepted.  (hertz has no `SetNoValue/AddNoValue`: a value-less entry can only come from
`ParseBytes`.) -/
theorem args_program_roundtrip (ops : List ArgOp) :
    parseArgs (appendArgs (runArgOps ops)) = (runArgOps ops).filter (fun kv => !kv.bothEmpty) :=
  runArgOps_roundtrip ops

/-- why: every reachable `Args` value keeps "an entry flagged no-value has an empty value" (the hypothesis of `args_roundtrip`) -/
theorem args_program_invariant (ops : List ArgOp) : ∀ kv ∈ runArgOps ops, kv.noValue = true → kv.value = [] :=
  runArgOps_inv ops

/-- and the accessor `Peek(k)` gives the same answer before and after the round trip, for every non-empty key -/
theorem args_program_peek (ops : List ArgOp) (k : Bytes) (hk : k ≠ []) :
    peekArg (parseArgs (appendArgs (runArgOps ops))) k = peekArg (runArgOps ops) k :=
  peek_roundtrip ops k hk

set_option maxRecDepth 100000 in
/-- non-vacuity: `ParseBytes("k&a=1&a=2")`, `Set("a","x y")`, `Add("","")`, `Del("k")`, `Add("z&","=")` leaves `a=x y, a=2, (empty), z&==`;
the wire form is `a=x+y&a=2&=&z%26=%3D` and the empty entry is the one that does not come back. -/
example :
    let ops := [ArgOp.parse [107, 38, 97, 61, 49, 38, 97, 61, 50], .set [97] [120, 32, 121], .add [] [], .del [107], .add [122, 38] [61]]
    runArgOps ops = [⟨[97], [120, 32, 121], false⟩, ⟨[97], [50], false⟩, ⟨[], [], false⟩, ⟨[122, 38], [61], false⟩] ∧
    appendArgs (runArgOps ops) = [97, 61, 120, 43, 121, 38, 97, 61, 50, 38, 61, 38, 122, 37, 50, 54, 61, 37, 51, 68] ∧
    parseArgs (appendArgs (runArgOps ops)) = [⟨[97], [120, 32, 121], false⟩, ⟨[97], [50], false⟩, ⟨[122, 38], [61], false⟩] := by
  decide +kernel

/-! ### request cookies: `SetCookie` … → `Cookie:` line → `parseRequestCookies` -/

/-- `request_cookie_roundtrip`: for every list of request cookies whose entries are well-formed (`wfReqCookie`: no `;` in key or
value, no `=` in the key, key unchanged by trimming blanks, value unchanged by trimming blanks and stripping one pair of double
quotes, no `=` in the value of a key-less cookie), parsing the value of the `Cookie:` line returns the same list - entries with
neither key nor value excepted (they are written as nothing and `parseRequestCookies` drops them). -/
theorem request_cookie_roundtrip (l : List (Bytes × Bytes)) (h : ∀ kv ∈ l, wfReqCookie kv = true) :
    parseReqCookies (appendReqCookies l) = l.filter (fun kv => !(kv.1.isEmpty && kv.2.isEmpty)) :=
  parseReqCookies_appendReqCookies l h

/-- in particular for the cookies left by any program of `SetCookie / DelCookie / DelAllCookies / Cookie:` lines -/
theorem request_cookie_program_roundtrip (ops : List CookieOp) (h : ∀ kv ∈ runCookieOps ops, wfReqCookie kv = true) :
    parseReqCookies (appendReqCookies (runCookieOps ops)) =
      (runCookieOps ops).filter (fun kv => !(kv.1.isEmpty && kv.2.isEmpty)) :=
  parseReqCookies_appendReqCookies _ h

set_option maxRecDepth 100000 in
/-- The predicate is tight: one witness per clause, each violating only that clause, each changed by the round trip.
`a;b=1` → two cookies; `a=b=1` → key `a`; ` a=1` → key `a`; `a=1;2` → two cookies; `a= 1` → value `1`; `a="1"` → value `1`
(quotes stripped); key-less `a=b` → cookie `a` = `b`. -/
theorem request_cookie_wf_tight :
    parseReqCookies (appendReqCookies [([97, 59, 98], [49])]) = [([], [97]), ([98], [49])] ∧
    parseReqCookies (appendReqCookies [([97, 61, 98], [49])]) = [([97], [98, 61, 49])] ∧
    parseReqCookies (appendReqCookies [([32, 97], [49])]) = [([97], [49])] ∧
    parseReqCookies (appendReqCookies [([97], [49, 59, 50])]) = [([97], [49]), ([], [50])] ∧
    parseReqCookies (appendReqCookies [([97], [32, 49])]) = [([97], [49])] ∧
    parseReqCookies (appendReqCookies [([97], [34, 49, 34])]) = [([97], [49])] ∧
    parseReqCookies (appendReqCookies [([], [97, 61, 98])]) = [([97], [98])] ∧
    wfReqCookie ([97, 59, 98], [49]) = false ∧ wfReqCookie ([97, 61, 98], [49]) = false ∧ wfReqCookie ([32, 97], [49]) = false ∧
    wfReqCookie ([97], [49, 59, 50]) = false ∧ wfReqCookie ([97], [32, 49]) = false ∧ wfReqCookie ([97], [34, 49, 34]) = false ∧
    wfReqCookie ([], [97, 61, 98]) = false := by
  decide +kernel

set_option maxRecDepth 100000 in
/-- non-vacuity: `sid=a=b`, a key-less `x y`, an entirely empty cookie, `k=` and `q="` are all well-formed; the line is
`sid=a=b; x y; ; k=; q="` and the empty one does not come back. -/
example :
    let l : List (Bytes × Bytes) := [([115, 105, 100], [97, 61, 98]), ([], [120, 32, 121]), ([], []), ([107], []), ([113], [34])]
    (∀ kv ∈ l, wfReqCookie kv = true) ∧ appendReqCookies l = [115, 105, 100, 61, 97, 61, 98, 59, 32, 120, 32, 121, 59, 32, 59, 32, 107, 61, 59, 32, 113, 61, 34] ∧
    parseReqCookies (appendReqCookies l) = [([115, 105, 100], [97, 61, 98]), ([], [120, 32, 121]), ([107], []), ([113], [34])] := by
  decide +kernel

/-! ### programs over one `URI`: `Parse`, setters, user-info, `QueryArgs()` mutations, `Update` -/

open Hertz.Uri in
/-- `Update` never panics (its `BUG: path must contain at least one slash` is unreachable), whatever was done to the URI
before: every program runs to a state. -/
theorem update_never_panics (ops : List UriOp) : ∃ st, runUriOps ops = some st :=
  let ⟨st, h, _⟩ := run_never_panics ops; ⟨st, h⟩

open Hertz.Uri in
/-- `update_then_parse_fixed_point` / `uri_program_roundtrip`: run ANY program of `Parse`, `SetScheme/SetHost/SetPath/SetHash`,
`SetQueryString`, `SetUsername/SetPassword`, `QueryArgs().Add/Set/Del/ParseBytes/Reset`, `Update`, `Reset` on one URI object.
If the final state is well-formed (`wfState`: scheme syntax, host free of `/ ? # @` and control bytes - it may be empty -, no
control byte in the fragment (F15), and - when no argument list is written - a raw query string free of `#` and control
bytes), then `Parse(nil, FullURI())` yields the same scheme, host, path and fragment and NO user-info; the arguments
`QueryArgs()` reports (both-empty excepted) - in every state, no exception: also after `QueryArgs()` use followed by
`SetQueryString` / `Update("?…")`, and after deleting every argument (`uri_stale_query_repaired`); and formatting the
re-parsed URI gives the same text. -/
theorem uri_program_roundtrip (ops : List UriOp) (st : UState) (hrun : runUriOps ops = some st) (hwf : wfState st = true) :
    (UState.ofParse [] st.fullURI).u.schemeOrHTTP = st.u.schemeOrHTTP ∧
    (UState.ofParse [] st.fullURI).u.host = st.u.host ∧
    (UState.ofParse [] st.fullURI).u.pathOrSlash = st.u.pathOrSlash ∧
    (UState.ofParse [] st.fullURI).u.hash = st.u.hash ∧
    (UState.ofParse [] st.fullURI).u.username = [] ∧ (UState.ofParse [] st.fullURI).u.password = [] ∧
    (UState.ofParse [] st.fullURI).queryView = st.queryView.filter (fun kv => !kv.bothEmpty) ∧
    (UState.ofParse [] st.fullURI).fullURI = st.fullURI :=
  program_roundtrip ops st hrun hwf

open Hertz.Uri in
/-- the record form, for any record with lower-case scheme and host and a normalised path (every reachable one): the whole
parsed record, with the quoted path as `PathOriginal` and empty user-info. -/
theorem uri_state_roundtrip (u : URI) (qa : List ArgKV) (inv : URIInv u) (hwf : wfRecord u = true)
    (hq35 : ∀ s, queryPart u qa = some s → ∀ x ∈ s, x ≠ 35)
    (hqctl : ∀ s, queryPart u qa = some s → hasCTL s = false) :
    parse [] (u.fullURI qa) =
      { scheme := u.schemeOrHTTP, host := u.host, pathOriginal := quotePath u.pathOrSlash, path := u.pathOrSlash,
        query := (queryPart u qa).getD [], hash := u.hash } :=
  state_parse_fullURI u qa inv hwf hq35 hqctl

open Hertz.Uri in
/-- every state a program can reach has that shape -/
theorem uri_reachable_invariant (ops : List UriOp) (st : UState) (hrun : runUriOps ops = some st) : URIInv st.u :=
  (run_inv ops st hrun).uinv

open Hertz.Uri in
set_option maxRecDepth 100000 in
/-- Regression theorems for the repaired defect (former known finding `C17-stale-query`, class `uri-stale-query`; /repo
97b0e80): the former witness programs now round-trip.
(1) `Parse("http://h/?a=1")`, `QueryArgs().Add("b","2")`, `SetQueryString("c=3")` (or `Update("?c=3")`): `QueryString()` is
`c=3`, `QueryArgs()` reports `c=3`, and `FullURI()` is `http://h/?c=3` (it used to be `http://h/?a=1&b=2`: `RequestURI` wrote the
argument list whenever it was non-empty, without looking at `parsedQueryArgs`).  (2) `Parse("http://h/?a=1")`,
`QueryArgs().Del("a")`: `QueryArgs()` reports nothing and `FullURI()` is `http://h/` (it used to keep `?a=1`: with an empty list
`RequestURI` fell back to the old query string).  All three final states are `staleQuery` states (flag and list disagree with
the other field) and well-formed: the query conjunct of `uri_program_roundtrip` is not vacuous on them. -/
theorem uri_stale_query_repaired :
    (∃ st, runUriOps [.parse [] [104, 116, 116, 112, 58, 47, 47, 104, 47, 63, 97, 61, 49], .args (.add [98] [50]), .setQueryString [99, 61, 51]] = some st ∧
      wfState st = true ∧ st.staleQuery = true ∧ st.u.query = [99, 61, 51] ∧ st.queryView = [⟨[99], [51], false⟩] ∧
      st.fullURI = [104, 116, 116, 112, 58, 47, 47, 104, 47, 63, 99, 61, 51] ∧
      (UState.ofParse [] st.fullURI).queryView = st.queryView) ∧
    (∃ st, runUriOps [.parse [] [104, 116, 116, 112, 58, 47, 47, 104, 47, 63, 97, 61, 49], .args (.add [98] [50]), .update [63, 99, 61, 51]] = some st ∧
      wfState st = true ∧ st.staleQuery = true ∧ st.queryView = [⟨[99], [51], false⟩] ∧
      st.fullURI = [104, 116, 116, 112, 58, 47, 47, 104, 47, 63, 99, 61, 51] ∧
      (UState.ofParse [] st.fullURI).queryView = st.queryView) ∧
    (∃ st, runUriOps [.parse [] [104, 116, 116, 112, 58, 47, 47, 104, 47, 63, 97, 61, 49], .args (.del [97])] = some st ∧
      wfState st = true ∧ st.staleQuery = true ∧ st.u.query = [97, 61, 49] ∧ st.queryView = [] ∧
      st.fullURI = [104, 116, 116, 112, 58, 47, 47, 104, 47] ∧
      (UState.ofParse [] st.fullURI).queryView = st.queryView) := by
  refine ⟨⟨_, rfl, ?_⟩, ⟨_, rfl, ?_⟩, ⟨_, rfl, ?_⟩⟩ <;> decide +kernel

open Hertz.Uri in
/-- the same from the general theorem: in ANY state reached by a program whose last step is `SetQueryString(q)` with `q` free
of `#` and control bytes - whatever was done through `QueryArgs()` before - the re-parsed URI reports the arguments of `q`. -/
theorem uri_setQueryString_wins (ops : List UriOp) (q : Bytes) (st : UState)
    (hrun : runUriOps (ops ++ [.setQueryString q]) = some st) (hrec : wfRecord st.u = true)
    (hq : hasCTL q = false ∧ q.contains 35 = false) :
    (UState.ofParse [] st.fullURI).queryView = parseArgs q :=
  setQueryString_wins ops q st hrun hrec hq

open Hertz.Uri in
/-- non-vacuity: `Parse("http://h/?a=1")`, `QueryArgs().Add("b","2")`, then `SetQueryString("c=3")` meets the hypotheses. -/
example : ∃ st, runUriOps ([.parse [] [104, 116, 116, 112, 58, 47, 47, 104, 47, 63, 97, 61, 49], .args (.add [98] [50])] ++ [.setQueryString [99, 61, 51]]) = some st ∧
    wfRecord st.u = true ∧ hasCTL [99, 61, 51] = false ∧ ([99, 61, 51] : Bytes).contains 35 = false := by
  refine ⟨_, rfl, ?_⟩
  decide +kernel

/-! ### user-info -/

open Hertz.Uri in
/-- `uri_roundtrip_userinfo` (partial - see `uri_userinfo_dropped`): a URI assembled through the setters INCLUDING
`SetUsername` / `SetPassword` (any bytes) is written by `FullURI()` exactly as without them, so `Parse(nil, FullURI())` gives
the scheme, host, path, query and fragment of `uri_roundtrip` - user-info can never end up inside host or path - and an EMPTY
user-info.  The property lists scheme, host, path, query and fragment; user-info is not among them, so dropping it is a
limitation of `FullURI()` (there is no way to serialise credentials), not a violation of the property. -/
theorem uri_roundtrip_userinfo_partial (scheme host path hash user pass : Bytes) (qa : List ArgKV)
    (hwf : wfUri scheme host = true) (hh : hasCTL hash = false) :
    parse [] (({ mkURI scheme host path hash with username := user, password := pass } : URI).fullURI qa) =
      { scheme := (mkURI scheme host path hash).schemeOrHTTP, host := host.map toLower,
        pathOriginal := quotePath (normalizePath path), path := normalizePath path,
        query := appendArgs qa, hash := hash, username := [], password := [] } := by
  rw [fullURI_userinfo]
  exact parse_fullURI scheme host path hash qa hwf hh

open Hertz.Uri in
set_option maxRecDepth 100000 in
/-- `uri_roundtrip_userinfo_fails_at`: what `Parse` does with `user:pass@host` and what is lost.  `http://User:Pa:ss@Host/p`
parses to user `User`, password `Pa:ss` (first `:`), host `host`; `FullURI()` is `http://host/p`; the re-parsed URI has no
user-info.  The split is at the FIRST `@`: `http://a@b@c/` gives user `a` and host `b@c` - a host outside `wfState`, and
indeed its `FullURI()` `http://b@c/` re-parses to host `c` (that state is not produced by `SetHost` on a host name, and
`uri_program_roundtrip` excludes it by `hostChar`). -/
theorem uri_userinfo_dropped :
    (parse [] [104, 116, 116, 112, 58, 47, 47, 85, 115, 101, 114, 58, 80, 97, 58, 115, 115, 64, 72, 111, 115, 116, 47, 112]).username = [85, 115, 101, 114] ∧ (parse [] [104, 116, 116, 112, 58, 47, 47, 85, 115, 101, 114, 58, 80, 97, 58, 115, 115, 64, 72, 111, 115, 116, 47, 112]).password = [80, 97, 58, 115, 115] ∧
    (parse [] [104, 116, 116, 112, 58, 47, 47, 85, 115, 101, 114, 58, 80, 97, 58, 115, 115, 64, 72, 111, 115, 116, 47, 112]).host = [104, 111, 115, 116] ∧
    (parse [] [104, 116, 116, 112, 58, 47, 47, 85, 115, 101, 114, 58, 80, 97, 58, 115, 115, 64, 72, 111, 115, 116, 47, 112]).fullURI [] = [104, 116, 116, 112, 58, 47, 47, 104, 111, 115, 116, 47, 112] ∧
    (parse [] ((parse [] [104, 116, 116, 112, 58, 47, 47, 85, 115, 101, 114, 58, 80, 97, 58, 115, 115, 64, 72, 111, 115, 116, 47, 112]).fullURI [])).username = [] ∧
    (parse [] [104, 116, 116, 112, 58, 47, 47, 97, 64, 98, 64, 99, 47]).username = [97] ∧ (parse [] [104, 116, 116, 112, 58, 47, 47, 97, 64, 98, 64, 99, 47]).host = [98, 64, 99] ∧
    (parse [] ((parse [] [104, 116, 116, 112, 58, 47, 47, 97, 64, 98, 64, 99, 47]).fullURI [])).host = [99] := by
  decide +kernel

open Hertz.Uri in
set_option maxRecDepth 100000 in
/-- non-vacuity for `uri_program_roundtrip`: `Parse("https://User:Pw@Host.example/a/b?x=1#f")`, `Update("../c?y")`,
`QueryArgs().Add("k","v w")`, `SetUsername("u")`, `Update("#g")` ends in a well-formed state (flag set, arguments written) whose
text is `https://host.example/c?y&k=v+w#g`. -/
example :
    ∃ st, runUriOps [.parse [] [104, 116, 116, 112, 115, 58, 47, 47, 85, 115, 101, 114, 58, 80, 119, 64, 72, 111, 115, 116, 46, 101, 120, 97, 109, 112, 108, 101, 47, 97, 47, 98, 63, 120, 61, 49, 35, 102], .update [46, 46, 47, 99, 63, 121], .args (.add [107] [118, 32, 119]),
        .setUsername [117], .update [35, 103]] = some st ∧
      wfState st = true ∧ st.staleQuery = false ∧ st.u.username = [117] ∧ st.fullURI = [104, 116, 116, 112, 115, 58, 47, 47, 104, 111, 115, 116, 46, 101, 120, 97, 109, 112, 108, 101, 47, 99, 63, 121, 38, 107, 61, 118, 43, 119, 35, 103] := by
  refine ⟨_, rfl, ?_⟩
  decide +kernel


open Hertz.Uri in
set_option maxRecDepth 100000 in
/-- Behaviour worth knowing (outside the round-trip property - every state below still round-trips): `Update` with a
network-path reference `//host/path` prefixes the RAW scheme field, which is empty for a URI parsed with a separate `Host`
argument (every server-side request URI) or built through `SetHost`; the text `://foobar.com/aaa` is then no absolute URI and
the host is lost: host `""`, path `/:/foobar.com/aaa`.  On a URI parsed from an absolute text the same call works. -/
theorem uri_update_netpath_needs_scheme :
    (∃ st, runUriOps [.parse [101, 120, 97, 109, 112, 108, 101, 46, 99, 111, 109] [47, 120], .update [47, 47, 102, 111, 111, 98, 97, 114, 46, 99, 111, 109, 47, 97, 97, 97]] = some st ∧
      st.u.host = [] ∧ st.u.path = [47, 58, 47, 102, 111, 111, 98, 97, 114, 46, 99, 111, 109, 47, 97, 97, 97]) ∧
    (∃ st, runUriOps [.parse [] [104, 116, 116, 112, 58, 47, 47, 101, 120, 97, 109, 112, 108, 101, 46, 99, 111, 109, 47, 120], .update [47, 47, 102, 111, 111, 98, 97, 114, 46, 99, 111, 109, 47, 97, 97, 97]] = some st ∧
      st.u.host = [102, 111, 111, 98, 97, 114, 46, 99, 111, 109] ∧ st.u.path = [47, 97, 97, 97]) := by
  refine ⟨⟨_, rfl, ?_⟩, ⟨_, rfl, ?_⟩⟩ <;> decide +kernel

end Hertz.Props.C17
