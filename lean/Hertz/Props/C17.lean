import Hertz.Proofs.Args
import Hertz.Proofs.ArgsStd
import Hertz.Proofs.UriRt
import Hertz.Proofs.CookieRt
import Hertz.Driver.C17u
/-!
# C17 — URI, query-string and cookie codecs round-trip

URI and cookie round trips (`Model/Uri.lean`: `parse`, `fullURI`, `parseCookie`, `appendCookie`) are compared with the real
code, the round-trip statement is evaluated on the implementation's output for every explored case, and they are now Lean
theorems for all inputs:

* `uri_roundtrip` (+ `uri_roundtrip_components`, `uri_fixed_point`, `uri_roundtrip_rawQuery`): for every scheme/host accepted
  by the driver's `wfUri` (`wfUri_is_the_drivers`), every path, every list of query arguments (or raw query string free of `#`
  and control bytes) and every fragment free of control bytes, `Parse(nil, FullURI())` returns exactly the components that
  were assembled and formatting again is a fixed point.  `uri_roundtrip_fails_at`: with a control byte in the fragment the
  statement is false (known finding F15), so that hypothesis cannot be dropped; `uri_fragment_ctl_loses_everything`: for
  every URI whose fragment has a control byte the re-parsed URI is the empty one.
* `cookie_roundtrip_partial`: for every cookie satisfying the driver's validity predicate (`Uri.wfCookie`, plus max-age in
  Go's `int` range) that has a key, a value or at least one attribute, `ParseBytes(AppendBytes(c)) = c` on all nine modelled
  fields.  `cookie_roundtrip_fails_at`: the entirely empty cookie is written as the empty string, which `ParseBytes` rejects
  (`errNoCookies`) - the excluded case.
* `args_agree_std`: for every byte string that Go's `url.ParseQuery` accepts (`Spec/UrlQuery.lean`: `stdParse`, a model of
  `parseQuery`/`QueryUnescape` written after the Go source and compared with the real `net/url` on every `argsstd` case of
  the correspondence check), hertz's `Args.ParseBytes` yields exactly the same (key, value) pairs in the same order, the
  pairs with both key and value empty excepted (hertz drops them by design; `args_agree_std_needs_filter`).  What `net/url`
  accepts is spelled out (`std_accepts_iff`: no `;` anywhere, every `%` followed by two hex digits), so the statement is also
  given with these two explicit hypotheses (`args_agree_std_explicit`); outside them `net/url` returns an error while hertz
  keeps the bytes literally (`args_outside_std`), which is not a disagreement on accepted input.  `args_parse_fixed_point`:
  `parse(serialise(parse b)) = parse b` for all `b` (the `argsfix` check).

TODO-OPEN (not Lean theorems): `args_agree_std` is now proved against `stdParse`; that `stdParse` is what the real
`url.ParseQuery`/`url.QueryUnescape` compute rests on the correspondence check (op `argsstd`: the model's output is diffed with
net/url's on every case, incl. all strings of up to 3 hostile tokens), not on a proof, and the `noValue` flag of hertz's
entries has no counterpart in `net/url` (only `args_parse_wf` is stated about it).  Cookie `expires` (Go's time formatting
and parsing, compared on the Go side); URIs with user-info (`username`/`password` are parsed but never written by
`FullURI`, so they are outside the round trip) and relative parsing with a separate `Host` argument (`parse host uri` with
`host ≠ []`) are covered by the correspondence check only.

Property theorems only; lemmas live in `Hertz/Proofs`.  Every statement is about the models in
`Hertz/Model`, which the correspondence check (`bin/check C17`) holds to the Go code, and about
the byte tables in `Hertz/Gen/Tables.lean`, regenerated from the Go source on every run.
-/
namespace Hertz.Props.C17
open Hertz

/-- Percent-decoding the quoted form of any byte string gives the string back
(`decodeArgAppend ∘ AppendQuotedArg = id`), for all inputs. -/
theorem decode_quote (b : Bytes) : decodeArg (quoteArg b) = b := decode_quoteArg b

/-- The serialiser never emits a byte that the scanner treats as structure. -/
theorem quote_no_structure (b : Bytes) : ∀ x ∈ quoteArg b, x ≠ 38 ∧ x ≠ 61 ∧ x ≠ 35 ∧ x ≠ 59 :=
  quoteArg_no_special b

/-- For every ordered list of arguments (an entry flagged "no value" has an empty value, which is
the invariant every public mutator keeps), parsing the encoded string returns the same list,
entries with both key and value empty excepted. -/
theorem args_roundtrip (l : List ArgKV) (h : ∀ kv ∈ l, kv.noValue = true → kv.value = []) :
    parseArgs (appendArgs l) = l.filter (fun kv => !kv.bothEmpty) :=
  parseArgs_appendArgs l h

/-- The path component survives `FullURI` → `Parse`: quoting the path and decoding it once (as
`normalizePath` does) gives the path back, for every byte string. -/
theorem path_decode_quote (p : Bytes) : decodeArgNoPlus (quotePath p) = p := decodeNoPlus_quotePath p

/-- non-vacuity: a hostile two-entry list meets the hypothesis and round-trips. -/
example : parseArgs (appendArgs [⟨[97, 38, 61], [37, 32, 43], false⟩, ⟨[107], [], true⟩])
    = [⟨[97, 38, 61], [37, 32, 43], false⟩, ⟨[107], [], true⟩] := by decide +kernel

/-! ### agreement with `net/url` -/

open Hertz.Spec.UrlQuery in
/-- `args_agree_std`: for every byte string `s` that `url.ParseQuery` accepts, with `l` the pairs it yields in wire order,
hertz's `Args.ParseBytes(s)` yields exactly `l` as (key, value) pairs in the same order - the entries with both key and
value empty excepted (a segment `=`; `net/url` keeps `"" = ""`, hertz drops it by design: the same exemption as in
`args_roundtrip`, and the one the driver's `argsstd` comparison makes with `dropEmpty`).  No other difference is tolerated. -/
theorem args_agree_std (s : Bytes) (l : List (Bytes × Bytes)) (h : stdParse s = some l) :
    (parseArgs s).map ArgKV.pair = l.filter pairNonEmpty :=
  parseArgs_agree_stdParse s l h

open Hertz.Spec.UrlQuery in
/-- What "`net/url` accepts" means, for all inputs: `url.ParseQuery(s)` returns no error iff `s` contains no `;` and every
`%` in `s` is followed by two hex digits (`stdAccepts s = !s.contains 59 && escapesOk s`). -/
theorem std_accepts_iff (s : Bytes) : (stdParse s).isSome = stdAccepts s := stdParse_isSome_iff s

open Hertz.Spec.UrlQuery in
/-- `args_agree_std` with the excluded region spelled out instead of "`net/url` accepts": if `s` has no `;` and no
malformed escape, `url.ParseQuery` accepts it and hertz's parse is its result without the empty/empty pairs. -/
theorem args_agree_std_explicit (s : Bytes) (h59 : s.contains 59 = false) (hesc : escapesOk s = true) :
    ∃ l, stdParse s = some l ∧ (parseArgs s).map ArgKV.pair = l.filter pairNonEmpty :=
  parseArgs_agree_explicit s h59 hesc

open Hertz.Spec.UrlQuery in
set_option maxRecDepth 100000 in
/-- The exemption cannot be dropped: on `=` `net/url` yields one pair `("", "")`, hertz yields nothing. -/
theorem args_agree_std_needs_filter :
    stdParse [61] = some [([], [])] ∧ ¬ (parseArgs [61]).map ArgKV.pair = [([], [])] := by decide +kernel

open Hertz.Spec.UrlQuery in
set_option maxRecDepth 100000 in
/-- Outside the hypothesis: on `a;b` and on `%zz=1` `url.ParseQuery` returns an error (so there is nothing to agree with),
while hertz keeps the bytes literally - `a;b` without value, and `%zz` = `1`. -/
theorem args_outside_std :
    stdParse [97, 59, 98] = none ∧ parseArgs [97, 59, 98] = [⟨[97, 59, 98], [], true⟩] ∧
    stdParse [37, 122, 122, 61, 49] = none ∧ parseArgs [37, 122, 122, 61, 49] = [⟨[37, 122, 122], [49], false⟩] := by
  decide +kernel

open Hertz.Spec.UrlQuery in
set_option maxRecDepth 100000 in
/-- non-vacuity: `a+b=%41%2b&&=&k&x=&%3d==` has no `;` and only well-formed escapes; `net/url` yields
`("a b","A+") ("","") ("k","") ("x","") ("=","=")`, hertz the same without `("","")`. -/
example :
    let s : Bytes := [97, 43, 98, 61, 37, 52, 49, 37, 50, 98, 38, 38, 61, 38, 107, 38, 120, 61, 38, 37, 51, 100, 61, 61]
    s.contains 59 = false ∧ escapesOk s = true ∧
    stdParse s = some [([97, 32, 98], [65, 43]), ([], []), ([107], []), ([120], []), ([61], [61])] ∧
    (parseArgs s).map ArgKV.pair = [([97, 32, 98], [65, 43]), ([107], []), ([120], []), ([61], [61])] := by
  decide +kernel

/-- Every entry that `Args.ParseBytes` flags "no value" has an empty value - the hypothesis of `args_roundtrip` holds of
every parsed list. -/
theorem args_parse_wf (s : Bytes) : ∀ kv ∈ parseArgs s, kv.noValue = true → kv.value = [] := parseArgs_wf s

/-- Serialising a parsed list and parsing again gives the same list, for every input (the `argsfix` check). -/
theorem args_parse_fixed_point (s : Bytes) : parseArgs (appendArgs (parseArgs s)) = parseArgs s :=
  parseArgs_fixed_point s

/-- non-vacuity: `k&a=` parses to an entry without value and one with an empty value. -/
example : parseArgs [107, 38, 97, 61] = [⟨[107], [], true⟩, ⟨[97], [], false⟩] := by decide +kernel

/-! ### URI round trip -/

open Hertz.Uri in
/-- The well-formedness predicate of the theorems below is the one the driver uses to decide whether the round trip is
demanded of the implementation. -/
theorem wfUri_is_the_drivers (scheme host : Bytes) : Uri.wfUri scheme host = Driver.C17u.wfUri scheme host := by
  unfold Uri.wfUri Uri.wfScheme Uri.wfHost Driver.C17u.wfUri
  rw [Bool.and_assoc]
  rfl

open Hertz.Uri in
/-- `uri_roundtrip`: a URI assembled through the setters (`mkURI`: scheme and host lower-cased, path normalised) with query
arguments `qa`, serialised by `FullURI` and parsed by `Parse(nil, ·)`, gives exactly: the scheme (`http` if none was set),
the host, the quoted path as `PathOriginal`, the path, the encoded arguments as query string, the fragment, and no user-info.
For all byte strings; the only hypotheses are the driver's `wfUri` and "no control byte in the fragment" (F15). -/
theorem uri_roundtrip (scheme host path hash : Bytes) (qa : List ArgKV)
    (hwf : wfUri scheme host = true) (hh : hasCTL hash = false) :
    parse [] ((mkURI scheme host path hash).fullURI qa) =
      { scheme := (mkURI scheme host path hash).schemeOrHTTP, host := host.map toLower,
        pathOriginal := quotePath (normalizePath path), path := normalizePath path,
        query := appendArgs qa, hash := hash } :=
  parse_fullURI scheme host path hash qa hwf hh

open Hertz.Uri in
/-- The statement in the driver's form (`c1`..`c5` of `urirt`): scheme, host, path, fragment and the re-parsed argument list
(entries with both key and value empty excepted, as in `args_roundtrip`) are those of the assembled URI. -/
theorem uri_roundtrip_components (scheme host path hash : Bytes) (qa : List ArgKV)
    (hwf : wfUri scheme host = true) (hh : hasCTL hash = false)
    (hqa : ∀ kv ∈ qa, kv.noValue = true → kv.value = []) :
    let u0 := mkURI scheme host path hash
    let v := parse [] (u0.fullURI qa)
    v.schemeOrHTTP = u0.schemeOrHTTP ∧ v.host = u0.host ∧ v.pathOrSlash = u0.pathOrSlash ∧ v.hash = hash ∧
      v.username = [] ∧ v.password = [] ∧ parseArgs v.query = qa.filter (fun kv => !kv.bothEmpty) :=
  Uri.uri_roundtrip_components scheme host path hash qa hwf hh hqa

open Hertz.Uri in
/-- Formatting the re-parsed URI with its re-parsed arguments gives the same text (`c6` of `urirt`; the driver likewise
exempts lists containing an entry with both key and value empty, which the parser drops). -/
theorem uri_fixed_point (scheme host path hash : Bytes) (qa : List ArgKV)
    (hwf : wfUri scheme host = true) (hh : hasCTL hash = false)
    (hqa : ∀ kv ∈ qa, kv.noValue = true → kv.value = []) (hne : ∀ kv ∈ qa, kv.bothEmpty = false) :
    let u0 := mkURI scheme host path hash
    let v := parse [] (u0.fullURI qa)
    v.fullURI (parseArgs v.query) = u0.fullURI qa :=
  Uri.uri_fixed_point scheme host path hash qa hwf hh hqa hne

open Hertz.Uri in
/-- The same round trip when the query is a raw string (`SetQueryString`) instead of an argument list: it must be free of
`#` (which would start the fragment) and of control bytes. -/
theorem uri_roundtrip_rawQuery (scheme host path qs hash : Bytes)
    (hwf : wfUri scheme host = true) (hh : hasCTL hash = false)
    (hq35 : ∀ x ∈ qs, x ≠ 35) (hqctl : hasCTL qs = false) :
    parse [] ((mkURIq scheme host path qs hash).fullURI []) =
      { scheme := (mkURI scheme host path hash).schemeOrHTTP, host := host.map toLower,
        pathOriginal := quotePath (normalizePath path), path := normalizePath path,
        query := qs, hash := hash } :=
  parse_fullURI_rawQuery scheme host path qs hash hwf hh hq35 hqctl

open Hertz.Uri in
set_option maxRecDepth 100000 in
/-- Known finding F15: without "no control byte in the fragment" the statement is false.  Host `h`, path `/`, fragment
`0x01`: `FullURI` writes `http://h/#\x01`, `Parse` rejects the text and every component is lost. -/
theorem uri_roundtrip_fails_at :
    wfUri [] [104] = true ∧ (mkURI [] [104] [47] [1]).fullURI [] = [104, 116, 116, 112, 58, 47, 47, 104, 47, 35, 1] ∧
      parse [] ((mkURI [] [104] [47] [1]).fullURI []) = {} := by decide +kernel

open Hertz.Uri in
/-- F15 for all inputs: whatever scheme, host, path and query are, a control byte in the fragment makes
`Parse(nil, FullURI())` return the empty URI (every component lost), so the excluded region of `uri_roundtrip` is exactly
the known-finding class `uri-fragment-ctl`. -/
theorem uri_fragment_ctl_loses_everything (u : URI) (qa : List ArgKV) (h : hasCTL u.hash = true) :
    parse [] (u.fullURI qa) = {} :=
  parse_fullURI_ctl_fragment u qa h

/-- non-vacuity: the fragment `a\x00` contains a control byte. -/
example : Uri.hasCTL ({ hash := [97, 0] } : Uri.URI).hash = true := by decide

open Hertz.Uri in
set_option maxRecDepth 100000 in
/-- non-vacuity: scheme `HTTPS`, host `H.Example:8080`, path `/a b/../%41?x`, fragment `f#?g`, arguments `a&`=`= ` and `k`=``
meet the hypotheses of all three theorems, and the text written is the one the real `FullURI` writes for these setters
(replayed: `urirt 4854545053 482e4578616d706c653a38303830 2f6120622f2e2e2f2534313f78 66233f67 2 6126 3d20 6b -`). -/
example :
    wfUri [72, 84, 84, 80, 83] [72, 46, 69, 120, 97, 109, 112, 108, 101, 58, 56, 48, 56, 48] = true ∧
    hasCTL [102, 35, 63, 103] = false ∧
    (∀ kv ∈ [(⟨[97, 38], [61, 32], false⟩ : ArgKV), ⟨[107], [], false⟩], (kv.noValue = true → kv.value = []) ∧ kv.bothEmpty = false) ∧
    (mkURI [72, 84, 84, 80, 83] [72, 46, 69, 120, 97, 109, 112, 108, 101, 58, 56, 48, 56, 48]
        [47, 97, 32, 98, 47, 46, 46, 47, 37, 52, 49, 63, 120] [102, 35, 63, 103]).fullURI
        [⟨[97, 38], [61, 32], false⟩, ⟨[107], [], false⟩] =
      -- https://h.example:8080/A%3Fx?a%26=%3D+&k=#f#?g
      [104, 116, 116, 112, 115, 58, 47, 47, 104, 46, 101, 120, 97, 109, 112, 108, 101, 58, 56, 48, 56, 48, 47, 65, 37, 51, 70, 120, 63, 97, 37, 50, 54, 61, 37, 51, 68, 43, 38, 107, 61, 35, 102, 35, 63, 103] := by
  decide +kernel

/-- non-vacuity for the raw query string: `a=1&b` has neither `#` nor a control byte. -/
example : (∀ x ∈ ([97, 61, 49, 38, 98] : Bytes), x ≠ 35) ∧ Uri.hasCTL [97, 61, 49, 38, 98] = false := by decide

/-! ### cookie round trip -/

open Hertz.Uri in
/-- `cookie_roundtrip` (partial: the empty cookie is excluded, see `cookie_roundtrip_fails_at`): for every response cookie
that satisfies the driver's validity predicate (`wfCookie`: key free of `=` and `;` and not changed by trimming; value,
domain and path free of `;` and not changed by trimming and unquoting; no `=` in the value of a key-less cookie; max-age in
Go's `int` range) and has a key, a value or some attribute, parsing its serialisation returns the same cookie - key, value,
max-age, domain, path, HttpOnly, secure, SameSite and Partitioned.  Expiry is Go's time formatting and stays outside. -/
theorem cookie_roundtrip_partial (c : Cookie) (hwf : wfCookie c = true) (hne : cookieNonEmpty c = true) :
    parseCookie (appendCookie c) = some c :=
  parseCookie_appendCookie' c hwf hne

open Hertz.Uri in
/-- "has a key, a value or some attribute" is exactly "the serialisation is not the empty string". -/
theorem cookie_nonEmpty_iff (c : Cookie) : appendCookie c = [] ↔ cookieNonEmpty c = false :=
  appendCookie_eq_nil_iff c

open Hertz.Uri in
/-- The full statement is false: the empty cookie satisfies the validity predicate, is written as the empty string, and
`ParseBytes("")` is an error (`errNoCookies`). -/
theorem cookie_roundtrip_fails_at : wfCookie {} = true ∧ ¬ parseCookie (appendCookie {}) = some {} := by decide

open Hertz.Uri in
/-- non-vacuity: `id=a=b; max-age=3600; domain=x.io; path=/; HttpOnly; secure; SameSite=None; Partitioned` meets both
hypotheses (and round-trips). -/
example : wfCookie exCookie = true ∧ cookieNonEmpty exCookie = true ∧ parseCookie (appendCookie exCookie) = some exCookie :=
  ⟨exCookie_wf.1, exCookie_wf.2, exCookie_roundtrip⟩

end Hertz.Props.C17
