import Hertz.Proofs.Args
/-!
# C17 — URI, query-string and cookie codecs round-trip

URI and cookie round trips (`Model/Uri.lean`: `parse`, `fullURI`, `parseCookie`, `appendCookie`) are compared with the real
code and the round-trip statement is evaluated on the implementation's output for every explored case (TODO-OPEN as Lean
theorems: `uri_roundtrip`, `cookie_roundtrip`).  Known finding F15: a control byte in the fragment is written raw by `FullURI`
and `Parse` then rejects the whole URI.

Property theorems only; lemmas live in `Hertz/Proofs`.  Every statement is about the models in
`Hertz/Model`, which the correspondence check (`bin/check C17`) holds to the Go code, and about
the byte tables in `Hertz/Gen/Tables.lean`, regenerated from the Go source on every run.
-/
namespace Hertz.Props.C17
open Hertz

/-- Percent-decoding the quoted form of any byte string gives the string back
(`decodeArgAppend ∘ AppendQuotedArg = id`), for all inputs. -/
theorem decode_quote (b : Bytes) : decodeArg (quoteArg b) = b := decode_quoteArg b

/-- The serialiser never emits a byte that the scanner treats as structure. -/
theorem quote_no_structure (b : Bytes) : ∀ x ∈ quoteArg b, x ≠ 38 ∧ x ≠ 61 ∧ x ≠ 35 ∧ x ≠ 59 :=
  quoteArg_no_special b

/-- For every ordered list of arguments (an entry flagged "no value" has an empty value, which is
the invariant every public mutator keeps), parsing the encoded string returns the same list,
entries with both key and value empty excepted. -/
theorem args_roundtrip (l : List ArgKV) (h : ∀ kv ∈ l, kv.noValue = true → kv.value = []) :
    parseArgs (appendArgs l) = l.filter (fun kv => !kv.bothEmpty) :=
  parseArgs_appendArgs l h

/-- The path component survives `FullURI` → `Parse`: quoting the path and decoding it once (as
`normalizePath` does) gives the path back, for every byte string. -/
theorem path_decode_quote (p : Bytes) : decodeArgNoPlus (quotePath p) = p := decodeNoPlus_quotePath p

/-- non-vacuity: a hostile two-entry list meets the hypothesis and round-trips. -/
example : parseArgs (appendArgs [⟨[97, 38, 61], [37, 32, 43], false⟩, ⟨[107], [], true⟩])
    = [⟨[97, 38, 61], [37, 32, 43], false⟩, ⟨[107], [], true⟩] := by decide +kernel

end Hertz.Props.C17
