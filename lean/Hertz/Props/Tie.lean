import Hertz.Proofs.Tie
import Hertz.Proofs.TieP1
import Hertz.Proofs.TieP2
import Hertz.Proofs.TieP3
import Hertz.Proofs.TieP4
import Hertz.Model.Http1.RespRead
/-!
# Tie by translation + proof

`Hertz.Gen.Funcs` is regenerated from the Go source on every run by `gen/funcs.go` (a mechanical Go → Lean translation of
small leaf functions, scheme in `gen/FUNCS.md`, target language `Hertz/GoSem.lean`).  Each theorem below says that the
translation of the function AS IT IS IN THE TREE NOW is equal, on all inputs, to the hand model the property proofs are
about.  A change of the Go function changes `Gen/Funcs.lean`, and the theorem stops building (or, if the function leaves
the translated subset, becomes ill-typed: `untranslated "<reason>"`).

Hypotheses `….length < 2^63` say that a Go slice is never longer than `maxInt` (loop counters are 64-bit `int`s in the
translation and would wrap otherwise).  `Fault.fuel` never appears on a right-hand side: the theorems also prove that
the loop fuel chosen by the translator suffices.
-/
open Hertz

namespace Hertz.Props.Tie

/-- `bytesconv.AppendQuotedArg(dst, src)` (translated) = `dst ++ quoteArg src` (model of C17/C11) -/
theorem gen_appendQuotedArg_eq_model (dst src : Bytes) :
    Gen.Funcs.appendQuotedArg dst src = .ok (dst ++ quoteArg src) := Tie.appendQuotedArg_eq dst src
example : Gen.Funcs.appendQuotedArg [120] [97, 32, 38] = .ok [120, 97, 43, 37, 50, 54] := by decide +kernel

/-- `utils.CaseInsensitiveCompare(a, b)` (translated) = `H1.ciEq a b` (model of C01/C03/C05) -/
theorem gen_caseInsensitiveCompare_eq_model (a b : Bytes) (hlen : a.length < 2^63) :
    Gen.Funcs.caseInsensitiveCompare a b = .ok (H1.ciEq a b) := Tie.caseInsensitiveCompare_eq a b hlen
example : Gen.Funcs.caseInsensitiveCompare [72, 111] [104, 79] = .ok true := by decide +kernel

/-! ### `internal/bytesconv` integers (C08, C01, C03) -/

/-- `bytesconv.ParseUintBuf(b)` (translated, with its overflow test and 64-bit arithmetic) = `FS.parseUintBuf b`;
the Go triple `(v, n, err)` is the model triple with `err` named (`Tie.viewBuf`, `Tie.errName`) -/
theorem gen_parseUintBuf_eq_model (b : Bytes) (hlen : b.length < 2^63) :
    Gen.Funcs.parseUintBuf b = .ok (Tie.viewBuf (FS.parseUintBuf b)) := Tie.parseUintBuf_eq b hlen
example : Gen.Funcs.parseUintBuf [49, 50, 120] = .ok (12, 2, none) := by decide +kernel
example : Gen.Funcs.parseUintBuf (List.replicate 19 57) = .ok (-1, 18, some "errTooLongInt") := by decide +kernel

/-- `bytesconv.ParseUint(b)` (translated) = `FS.parseUint b` (`.ok v ↦ (v, nil)`, `.error e ↦ (-1, e)`) -/
theorem gen_parseUint_eq_model (b : Bytes) (hlen : b.length < 2^63) :
    Gen.Funcs.parseUint b = .ok (Tie.viewU (FS.parseUint b)) := Tie.parseUint_eq b hlen
example : Gen.Funcs.parseUint [52, 50] = .ok (42, none) := by decide +kernel
example : Gen.Funcs.parseUint [52, 50, 32] = .ok (-1, some "errUnexpectedTrailingChar") := by decide +kernel

/-- the same Go function against the SECOND hand model (`H1.parseUint`, natural numbers, used by the HTTP/1 reader of
C01/C03 for `Content-Length`): accepted value or rejected (`Tie.viewOpt`) -/
theorem gen_parseUint_eq_model_h1 (b : Bytes) (hlen : b.length < 2^63) :
    (Gen.Funcs.parseUint b).map Tie.viewOpt = .ok (H1.parseUint b) := Tie.parseUint_eq_h1 b hlen
example : (Gen.Funcs.parseUint [52, 50]).map Tie.viewOpt = .ok (some 42) := by decide +kernel

/-! ### `app.ParseByteRange` (C08) -/

/-- `app.ParseByteRange(byteRange, contentLength)` (translated from `pkg/app/fs.go`, calling the translated `ParseUint`)
never panics and, read through `Tie.BR.viewBR` (`err = nil ↦ .ok (start, end)`, otherwise `.error .bad`), is
`FS.parseByteRange`.  `0 ≤ contentLength` (a file size) is a genuine restriction, see `…_fails_at`. -/
theorem gen_parseByteRange_eq_model (byteRange : Bytes) (contentLength : Int) (hlen : byteRange.length < 2^63)
    (hcl : 0 ≤ contentLength ∧ contentLength < 2^63) :
    (Gen.Funcs.parseByteRange byteRange contentLength).map Tie.BR.viewBR =
      .ok (FS.parseByteRange byteRange contentLength) :=
  Tie.parseByteRange_eq_of (fun b hb => by
    rw [Tie.parseUint_eq b hb]
    cases FS.parseUint b with
    | ok v => rfl
    | error e => cases e <;> rfl) byteRange contentLength hlen hcl
example : Gen.Funcs.parseByteRange [98, 121, 116, 101, 115, 61, 45, 51] 10 = .ok (7, 9, none)
    ∧ FS.parseByteRange [98, 121, 116, 101, 115, 61, 45, 51] 10 = .ok (7, 9) := by decide +kernel

/-- on an error the Go function returns `(0, 0, err)` -/
theorem gen_parseByteRange_err_zero (byteRange : Bytes) (contentLength : Int) (hlen : byteRange.length < 2^63)
    (hcl : 0 ≤ contentLength ∧ contentLength < 2^63) :
    ∃ s e err, Gen.Funcs.parseByteRange byteRange contentLength = .ok (s, e, err) ∧ (err ≠ none → s = 0 ∧ e = 0) :=
  Tie.parseByteRange_err_zero (fun b hb => by
    rw [Tie.parseUint_eq b hb]
    cases FS.parseUint b with
    | ok v => rfl
    | error e => cases e <;> rfl) byteRange contentLength hlen hcl
example : Gen.Funcs.parseByteRange [98, 121, 116, 101, 115, 61, 53, 45, 120] 10 = .ok (0, 0, some "errUnexpectedTrailingChar") := by
  decide +kernel

/-- MODEL DISCREPANCY (idealisation, harmless): for a NEGATIVE `contentLength` the model's `contentLength - v` /
`contentLength - 1` are computed in unbounded `Int` while Go (and the translation) wrap at 64 bits.
Witness `bytes=-1`, `contentLength = minInt`. -/
theorem gen_parseByteRange_eq_model_fails_at :
    (Gen.Funcs.parseByteRange [98, 121, 116, 101, 115, 61, 45, 49] (-9223372036854775808)).map Tie.BR.viewBR
        = .ok (.ok (9223372036854775807, 9223372036854775807)) ∧
      FS.parseByteRange [98, 121, 116, 101, 115, 61, 45, 49] (-9223372036854775808)
        = .ok (0, -9223372036854775809) := Tie.parseByteRange_fails_at

/-! ### `pkg/common/utils`, `pkg/protocol` header helpers (C01, C03, C05) -/

/-- `protocol.IsBadTrailer(key)` (translated switch on `key[0]|0x20`, guarded slices) = `H1.isBadTrailer key` -/
theorem gen_isBadTrailer_eq_model (key : Bytes) (hlen : key.length < 2^63) :
    Gen.Funcs.isBadTrailer key = .ok (H1.isBadTrailer key) := Tie.isBadTrailer_eq key hlen
example : Gen.Funcs.isBadTrailer (str "content-LENGTH") = .ok true := by decide +kernel
example : Gen.Funcs.isBadTrailer (str "Proxy-Foo") = .ok false := by decide +kernel

/-- `utils.NextLine(b)` (translated) = `H1.nextLine b` (`none` = `errNeedMore`) -/
theorem gen_nextLine_eq_model (b : Bytes) (hlen : b.length < 2^63) :
    Gen.Funcs.nextLine b = .ok (match H1.nextLine b with
      | some (line, rest) => (line, rest, none)
      | none => ([], [], some "errNeedMore")) := Tie.nextLine_eq b hlen
example : Gen.Funcs.nextLine [97, 98, 13, 10, 99] = .ok ([97, 98], [99], none) := by decide +kernel

/-- `newlineToSpace(val)` of `pkg/protocol/header.go` (translated: make, copy, in-place table loop) = `HW.newlineToSpace` -/
theorem gen_newlineToSpace_eq_model (val : Bytes) (hlen : val.length < 2^63) :
    Gen.Funcs.newlineToSpace val = .ok (HW.newlineToSpace val) := Tie.newlineToSpace_eq val hlen
example : Gen.Funcs.newlineToSpace [97, 13, 10, 98] = .ok [97, 32, 32, 98] := by decide +kernel

/-- `appendHeaderLine(dst, key, value)` (translated) = `dst ++ HW.headerLine (key, value)` (model of C05/C04) -/
theorem gen_appendHeaderLine_eq_model (dst key value : Bytes) (hlen : value.length < 2^63) :
    Gen.Funcs.appendHeaderLine dst key value = .ok (dst ++ HW.headerLine (key, value)) :=
  Tie.appendHeaderLine_eq dst key value hlen
example : Gen.Funcs.appendHeaderLine [1] [72, 111] [97, 10, 98] = .ok [1, 72, 111, 58, 32, 97, 32, 98, 13, 10] := by
  decide +kernel
example : Gen.Funcs.appendHeaderLine [1] [72, 32] [97, 10, 98] = .ok [1] := by decide +kernel

/-- `bytesconv.LowercaseBytes(b)` (translated, in place through `p := &b[i]`) leaves `b.map toLower` in `b` -/
theorem gen_lowercaseBytes_eq_model (b : Bytes) (hlen : b.length < 2^63) :
    Gen.Funcs.lowercaseBytes b = .ok (b.map toLower) := Tie.lowercaseBytes_eq b hlen
example : Gen.Funcs.lowercaseBytes [72, 111, 83, 84, 45, 90, 64, 91] = .ok [104, 111, 115, 116, 45, 122, 64, 91] := by
  decide +kernel

/-- `utils.NormalizeHeaderKey(b, disable)` (translated: in place, `p := &b[i]`, `i++` inside the loop after a `-`)
leaves `H1.normalizeKey disable b` in `b`.  `b.length + 1 < 2^63`: at `len(b) = maxInt` with a final `-` the Go counter
itself wraps (`i++` twice), see INTEGRATION.md. -/
theorem gen_normalizeHeaderKey_eq_model (b : Bytes) (disable : Bool) (hlen : b.length + 1 < 2^63) :
    Gen.Funcs.normalizeHeaderKey b disable = .ok (H1.normalizeKey disable b) := Tie.normalizeHeaderKey_eq b disable hlen
example : Gen.Funcs.normalizeHeaderKey (str "cONTENT--tYPE-x-") false = .ok (str "Content--type-X-") := by decide +kernel

/-! ### quoting and decoding (C17, C11) -/

/-- `bytesconv.AppendQuotedPath(dst, src)` (translated) = `dst ++ quotePath src` -/
theorem gen_appendQuotedPath_eq_model (dst src : Bytes) :
    Gen.Funcs.appendQuotedPath dst src = .ok (dst ++ quotePath src) := Tie.appendQuotedPath_eq dst src
example : Gen.Funcs.appendQuotedPath [1] [47, 97, 32, 98, 37, 255] = .ok [1, 47, 97, 37, 50, 48, 98, 37, 50, 53, 37, 70, 70] := by
  decide +kernel
example : Gen.Funcs.appendQuotedPath [1] [42] = .ok [1, 42] := by decide +kernel

/-- `decodeArgAppend(dst, src)` of `pkg/protocol/args.go` (translated: fast path, `i += 2` inside the loop, early return
of the unfinished escape) = `dst ++ decodeArg src` -/
theorem gen_decodeArgAppend_eq_model (dst src : Bytes) (hlen : src.length + 1 < 2^63) :
    Gen.Funcs.decodeArgAppend dst src = .ok (dst ++ decodeArg src) := Tie.decodeArgAppend_eq dst src hlen
example : Gen.Funcs.decodeArgAppend [1] (str "a+b%41%4g%") = .ok (1 :: str "a bA%4g%") := by decide +kernel

/-- `decodeArgAppendNoPlus(dst, src)` (translated) = `dst ++ decodeArgNoPlus src` -/
theorem gen_decodeArgAppendNoPlus_eq_model (dst src : Bytes) (hlen : src.length + 1 < 2^63) :
    Gen.Funcs.decodeArgAppendNoPlus dst src = .ok (dst ++ decodeArgNoPlus src) := Tie.decodeArgAppendNoPlus_eq dst src hlen
example : Gen.Funcs.decodeArgAppendNoPlus [1] (str "a+b%41%4g%") = .ok (1 :: str "a+bA%4g%") := by decide +kernel

/-
TODO-OPEN
* `bytesconv.AppendUint`: translated (`Gen.Funcs.appendUint`, executable), equality with `FS.appendUint`
  (`n ≤ Go.maxInt → Gen.Funcs.appendUint dst n = match FS.appendUint n with | .ok d => .ok (dst ++ d) | .error _ => .error .panic`)
  not proved yet (invariant and draft in INTEGRATION.md).
* `addLeadingSlash` (uri_unix.go): translated, no separate model function to compare with.
* `normalizePath`, `ReadHexInt`: not in the translated subset / not attempted.
-/
example : Gen.Funcs.appendUint [120] 1203 = .ok [120, 49, 50, 48, 51] := by decide +kernel
example : Gen.Funcs.appendUint [] (-1) = .error .panic := by decide +kernel

/-- `resp.isInterim` (the interim status codes `ReadHeaders` skips, `/repo` 8ec4dd8) as written in the source = the model's
`RespRead.isInterim` the theorems `interim_skipped` / `interims_skipped` of C11 speak about, for every status code a
response head can carry (`status` is a `Nat` in the model) -/
theorem gen_isInterim_eq_model (code : Nat) :
    Gen.Funcs.isInterim (code : Int) = .ok (H1.RespRead.isInterim code) := by
  unfold Gen.Funcs.isInterim H1.RespRead.isInterim
  congr 1
  have h100 : (((code : Int) == (100 : Int)) : Bool) = (code == 100) := by
    by_cases e : code = 100
    · subst e; rfl
    · rw [beq_eq_false_iff_ne.mpr e, beq_eq_false_iff_ne.mpr (by omega)]
  have h102 : (((code : Int) == (102 : Int)) : Bool) = (code == 102) := by
    by_cases e : code = 102
    · subst e; rfl
    · rw [beq_eq_false_iff_ne.mpr e, beq_eq_false_iff_ne.mpr (by omega)]
  have h103 : (((code : Int) == (103 : Int)) : Bool) = (code == 103) := by
    by_cases e : code = 103
    · subst e; rfl
    · rw [beq_eq_false_iff_ne.mpr e, beq_eq_false_iff_ne.mpr (by omega)]
  rw [h100, h102, h103]

example : Gen.Funcs.isInterim 103 = .ok true ∧ Gen.Funcs.isInterim 101 = .ok false := by decide

end Hertz.Props.Tie
