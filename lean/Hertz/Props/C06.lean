import Hertz.Proofs.RouteTop
import Hertz.Proofs.RouteInsert
import Hertz.Proofs.RouteEngine
import Hertz.Proofs.RouteAccept
import Hertz.Proofs.RouteIterTop
import Hertz.Proofs.GroupPath
import Hertz.Gen.RouteConsts
/-!
# C06 — the router dispatches to the route the documented priority selects

Model: `Hertz/Model/Route.lean` (`insert`, `routerAddRoute`, `find`/`visit`, `Engine.addRoute`,
`Engine.serve`), held to `pkg/route/tree.go` / `engine.go` by the correspondence check.
Specification: `Hertz/Spec/Route.lean` (`Selected`: the matching pattern that is better than every
other matching pattern at the first token where they differ, literal > parameter > catch-all;
`NoMatch`).  The specification mentions neither a tree nor a registration order.
-/
namespace Hertz.Props.C06
open Hertz Hertz.Route Hertz.Spec.Route

/-- The constants the model uses are the ones in the Go source (regenerated on every run). -/
theorem model_matches_gen :
    Route.paramLabel = Gen.Route.paramLabel ∧ Route.anyLabel = Gen.Route.anyLabel ∧
    [Route.slash] = Gen.Route.slash ∧ Gen.Route.kinds = ["skind", "pkind", "akind"] ∧
    Gen.Route.checkPathValidCases = [Route.paramLabel, Route.anyLabel] := by decide

/-- **Search, tree level.**  On every well-formed tree with consistent parameter bookkeeping,
`router.find` returns the handlers of the route whose key is preferred to every other matching key
(static > param > catch-all at the first difference, among the keys that match completely) with the
values that key binds, or misses exactly when no key matches.  In particular it neither panics
(params capacity / index) nor stops without backtracking. -/
theorem find_best (root : Node) (cap : Nat) (hwf : WF root .skind) (hp : PnOK root 0 cap) (path : Bytes) :
    (∃ k v vals, Best (routes root) path k v vals ∧
        find root path cap = .hit ⟨v.h, v.ppath, zipKeys v.pnames vals⟩) ∨
    (NoneMatch (routes root) path ∧ find root path cap = .miss) := by
  simpa [SpecRes] using find_spec root cap hwf hp path

/-- **Dispatch = specification.**  If the tree of a method holds exactly the registered routes of
that method, the route handler that runs, the reported full path and `ctx.Params` are those of the
route `Spec.Route.Selected` picks (parameters = the substrings its pattern matched); when no
pattern matches, no route handler runs. -/
theorem find_selected (root : Node) (cap : Nat) (rs : List Route) (method path : Bytes)
    (hwf : WF root .skind) (hp : PnOK root 0 cap) (hd : Denotes root rs method) :
    (∃ r ps, Selected rs method path r ps ∧ find root path cap = .hit ⟨r.handler, r.pattern, ps⟩) ∨
    (NoMatch rs method path ∧ find root path cap = .miss) :=
  Route.find_selected root cap rs method path hwf hp hd

/-- An empty method tree serves nothing. -/
theorem find_empty (path : Bytes) (cap : Nat) : find Node.empty path cap = .miss := Route.find_empty path cap

/-- **Parameters are the matched substrings**: substituting the bound values back into the pattern
gives the request path. -/
theorem params_are_substrings (pattern path : Bytes) (ps : List (Bytes × Bytes))
    (h : matchToks (parsePattern pattern) path = some ps) :
    instantiate (parsePattern pattern) ps = path ∧ ps.map Prod.fst = names (parsePattern pattern) :=
  ⟨instantiate_match _ _ _ h, matchToks_names _ _ _ h⟩

/-- **The selection is unique** (up to routes with the same key, which registration refuses). -/
theorem selected_unique (rs : List Route) (m p : Bytes) (r r' : Route) (ps ps' : List (Bytes × Bytes))
    (h : Selected rs m p r ps) (h' : Selected rs m p r' ps') : keyOf r = keyOf r' :=
  Route.selected_unique rs m p r r' ps ps' h h'

/-- **The specified outcome does not depend on the order of registration**: `Selected` and
`NoMatch` are functions of the *set* of routes, and they exclude each other. -/
theorem spec_order_independent (rs rs' : List Route) (hp : ∀ x, x ∈ rs ↔ x ∈ rs') (m p : Bytes) :
    (∀ r ps, Selected rs m p r ps ↔ Selected rs' m p r ps) ∧ (NoMatch rs m p ↔ NoMatch rs' m p) ∧
    (∀ r ps, Selected rs m p r ps → ¬ NoMatch rs m p) :=
  ⟨fun r ps => selected_perm rs rs' hp m p r ps, noMatch_perm rs rs' hp m p,
   fun r ps => selected_noMatch_excl rs m p r ps⟩

/-- **Order independence of the search.**  Two well-formed trees that hold the same set of routes
(built in whatever order) answer every lookup alike, provided keys are not registered twice. -/
theorem find_order_independent (t t' : Node) (cap cap' : Nat) (rs rs' : List Route) (m p : Bytes)
    (hwf : WF t .skind) (hp : PnOK t 0 cap) (hd : Denotes t rs m)
    (hwf' : WF t' .skind) (hp' : PnOK t' 0 cap') (hd' : Denotes t' rs' m)
    (hperm : ∀ x, x ∈ rs ↔ x ∈ rs')
    (hdistinct : ∀ r ∈ rs, ∀ r' ∈ rs, r.method = m → r'.method = m → keyOf r = keyOf r' → r = r') :
    find t p cap = find t' p cap' := by
  rcases Route.find_selected t cap rs m p hwf hp hd with ⟨r, ps, hs, hf⟩ | ⟨hn, hf⟩
  · rcases Route.find_selected t' cap' rs' m p hwf' hp' hd' with ⟨r', ps', hs', hf'⟩ | ⟨hn', _⟩
    · have hs'' := (selected_perm rs rs' hperm m p r' ps').2 hs'
      have hk := Route.selected_unique rs m p r r' ps ps' hs hs''
      have hm : r.method = m := by
        have := hs.2.1; unfold Route.matches at this; by_cases e : r.method = m
        · exact e
        · simp [e] at this
      have hm' : r'.method = m := by
        have := hs''.2.1; unfold Route.matches at this; by_cases e : r'.method = m
        · exact e
        · simp [e] at this
      have e := hdistinct r hs.1 r' hs''.1 hm hm' hk
      subst e
      have : some ps = some ps' := by rw [← hs.2.1, ← hs''.2.1]
      cases this
      rw [hf, hf']
    · exact absurd ((noMatch_perm rs rs' hperm m p).2 hn') (selected_noMatch_excl rs m p r ps hs)
  · rcases Route.find_selected t' cap' rs' m p hwf' hp' hd' with ⟨r', ps', hs', _⟩ | ⟨_, hf'⟩
    · exact absurd hn (selected_noMatch_excl rs m p r' ps' ((selected_perm rs rs' hperm m p r' ps').2 hs'))
    · rw [hf, hf']

/-- **Registration, one `insert`.**  On a well-formed tree, under the precondition with which
`router.addRoute` calls it (`Ready`: the key continues an existing node boundary with literal text,
or appends one wildcard marker to a boundary; static keys start with the root's first byte; a
catch-all node is always created with handlers), `router.insert` either reports a conflict —
exactly when a handler is to be stored at a key that already has one — or returns a well-formed
tree that denotes the old routes plus the new one (edge splitting and re-parenting lose nothing),
keeps every node boundary and makes the key a boundary.  It never raises a run-time panic. -/
theorem insert_preserves (n : Node) (search : Bytes) (h : Option Nat) (t : Kind) (pp : Bytes) (pn : List Bytes)
    (hwf : WF n .skind) (hr : Ready n search t)
    (hhd : t = .skind → search.head? = n.pfx.head?) (hak : t = .akind → h.isSome = true) :
    (h.isSome = true ∧ search ∈ keys (routes n) ∧ Route.insert n search h t pp pn = .error .conflict) ∨
    (¬ (h.isSome = true ∧ search ∈ keys (routes n)) ∧ ∃ n', Route.insert n search h t pp pn = .ok n' ∧ WF n' .skind ∧
      (∀ kv, kv ∈ routes n' ↔ (kv ∈ routes n ∨ ∃ x, h = some x ∧ kv = (search, Val.mk x pp pn))) ∧
      (∀ b, b ∈ bounds n → b ∈ bounds n') ∧ search ∈ bounds n') :=
  insert_spec n search h t pp pn hwf hr hhd hak

/-- The parameter-name bookkeeping that makes `find` panic-free is preserved by `insert`. -/
theorem insert_preserves_pnok (n : Node) (search : Bytes) (h : Option Nat) (t : Kind) (pp : Bytes) (pn : List Bytes)
    (cap : Nat) (n' : Node) (hwf : WF n .skind) (hr : Ready n search t)
    (hhd : t = .skind → search.head? = n.pfx.head?) (hak : t = .akind → h.isSome = true)
    (hp : PnOK n 0 cap) (hlen : h.isSome = true → pn.length = wild search) (hcap : wild search ≤ cap)
    (hins : Route.insert n search h t pp pn = .ok n') : PnOK n' 0 cap :=
  insert_pnok n search h t pp pn cap n' hwf hr hhd hak hp hlen hcap hins

/-- First insertion into the empty root of a method tree. -/
theorem insert_into_empty (search : Bytes) (h : Option Nat) (pp : Bytes) (pn : List Bytes) (hs : search ≠ [])
    (hl : Lit search) :
    ∃ n', Route.insert Node.empty search h .skind pp pn = .ok n' ∧ WF n' .skind ∧
      (∀ kv, kv ∈ routes n' ↔ ∃ x, h = some x ∧ kv = (search, Val.mk x pp pn)) ∧ search ∈ bounds n' :=
  insert_empty search h pp pn hs hl

/-- **The executable selection used by the checker computes the specification.** -/
theorem select_correct (rs : List Route) (m p : Bytes) :
    (∀ r ps, select rs m p = some (r, ps) → Selected rs m p r ps) ∧ (select rs m p = none → NoMatch rs m p) :=
  ⟨fun r ps h => select_some rs m p r ps h, select_none rs m p⟩

/-! ## The property, end to end -/

/-- **C06, dispatch.**  For every list of routes that registration accepts (`Engine.addRoutes`
returns an engine), every request method and every (normalised) path: the engine runs the handler
chain of the route that the documented priority selects — `Spec.Route.Selected`: it matches, and it
is preferred to every other matching route at the first token where their patterns differ, literal
text > named parameter > catch-all — with the registered pattern as `FullPath()` and with
`ctx.Params` = the names of that pattern bound to the substrings they matched; when no pattern
matches (`NoMatch`) no route handler runs.  `Engine.serve` never panics (params capacity and
indices are in range).  Hypothesis: patterns are shorter than 65536 bytes (`countParams` is a
`uint16`; see INTEGRATION.md). -/
theorem dispatch_selected (rs : List (Bytes × Bytes × Nat)) (e : Engine)
    (hlen : ∀ r ∈ rs, r.2.1.length < 65536) (h : Engine.addRoutes {} rs = .ok e) (m p : Bytes) :
    (∃ r ps, Selected (toSpec rs) m p r ps ∧ e.serve m p = .handler ⟨r.handler, r.pattern, ps⟩) ∨
    (NoMatch (toSpec rs) m p ∧ e.serve m p = .noRoute) :=
  serve_selected rs e hlen h m p

/-- Accepted route lists never contain two routes with the same method and the same key (pattern
with the parameter names removed): registration refuses the second one. -/
theorem accepted_distinct (rs : List (Bytes × Bytes × Nat)) (e : Engine) (h : Engine.addRoutes {} rs = .ok e) :
    (toSpec rs).Pairwise (fun r r' => ¬ (r.method = r'.method ∧ keyOf r = keyOf r')) :=
  addRoutes_distinct rs e h

/-- One registration (`(*router).addRoute`) on a method tree that is empty or well formed: refused
as invalid, refused as a conflict exactly when the key is already registered, or the tree stays
well formed and holds one route more. -/
theorem register_one (root : Node) (path : Bytes) (h : Nat) (cap : Nat)
    (hroot : RootOK root cap) (hcap : path.count 58 + path.count 42 ≤ cap) :
    (checkPathValid path = false ∧ routerAddRoute root path h = .error .invalid) ∨
    (checkPathValid path = true ∧ strip (parsePattern path) ∈ keys (routes root) ∧
      routerAddRoute root path h = .error .conflict) ∨
    (checkPathValid path = true ∧ strip (parsePattern path) ∉ keys (routes root) ∧
      ∃ root', routerAddRoute root path h = .ok root' ∧
      WF root' .skind ∧ root'.pfx.head? = some 47 ∧ PnOK root' 0 cap ∧
      ∀ kv, kv ∈ routes root' ↔ (kv ∈ routes root ∨
        kv = (strip (parsePattern path), Val.mk h path (names (parsePattern path))))) :=
  routerAddRoute_spec root path h cap hroot hcap

private theorem pairwise_mem {α : Type} (R : α → α → Prop) (hs : ∀ a b, R a b → R b a) :
    ∀ (l : List α), l.Pairwise R → ∀ a ∈ l, ∀ b ∈ l, a ≠ b → R a b
  | [], _, a, ha, _, _, _ => by simp at ha
  | x :: l, hp, a, ha, b, hb, hne => by
    rw [List.pairwise_cons] at hp
    rcases List.mem_cons.mp ha with rfl | ha'
    · rcases List.mem_cons.mp hb with rfl | hb'
      · exact absurd rfl hne
      · exact hp.1 b hb'
    · rcases List.mem_cons.mp hb with rfl | hb'
      · exact hs _ _ (hp.1 a ha')
      · exact pairwise_mem R hs l hp.2 a ha' b hb' hne

/-- **C06, order independence.**  Two accepted registrations of the same set of routes, in
whatever order, answer every request alike (same handler, same full path, same parameters, or no
route handler in both). -/
theorem order_independent (rs rs' : List (Bytes × Bytes × Nat)) (e e' : Engine)
    (hperm : ∀ x, x ∈ rs ↔ x ∈ rs')
    (hlen : ∀ r ∈ rs, r.2.1.length < 65536)
    (h : Engine.addRoutes {} rs = .ok e) (h' : Engine.addRoutes {} rs' = .ok e') (m p : Bytes) :
    e.serve m p = e'.serve m p := by
  have hlen' : ∀ r ∈ rs', r.2.1.length < 65536 := fun r hr => hlen r ((hperm r).2 hr)
  have hpermS : ∀ x, x ∈ toSpec rs ↔ x ∈ toSpec rs' := by
    intro x
    simp only [toSpec, List.mem_map]
    constructor
    · rintro ⟨a, ha, rfl⟩; exact ⟨a, (hperm a).1 ha, rfl⟩
    · rintro ⟨a, ha, rfl⟩; exact ⟨a, (hperm a).2 ha, rfl⟩
  have hmeth : ∀ (l : List Route) (r : Route) (ps : List (Bytes × Bytes)), Selected l m p r ps → r.method = m := by
    intro l r ps hs
    have := hs.2.1
    unfold Route.matches at this
    by_cases e : r.method = m
    · exact e
    · simp [e] at this
  rcases serve_selected rs e hlen h m p with ⟨r, ps, hs, hf⟩ | ⟨hn, hf⟩
  · rcases serve_selected rs' e' hlen' h' m p with ⟨r', ps', hs', hf'⟩ | ⟨hn', _⟩
    · have hs'' := (selected_perm _ _ hpermS m p r' ps').2 hs'
      have hk := Route.selected_unique _ m p r r' ps ps' hs hs''
      have hrr : r = r' := by
        by_cases hne : r = r'
        · exact hne
        · have hd := pairwise_mem (fun a b : Route => ¬ (a.method = b.method ∧ keyOf a = keyOf b))
            (fun a b hab hba => hab ⟨hba.1.symm, hba.2.symm⟩) _ (addRoutes_distinct rs e h)
            r hs.1 r' hs''.1 hne
          exact absurd ⟨(hmeth _ r ps hs).trans (hmeth _ r' ps' hs'').symm, hk⟩ hd
      subst hrr
      have : some ps = some ps' := by rw [← hs.2.1, ← hs''.2.1]
      cases this
      rw [hf, hf']
    · exact absurd ((noMatch_perm _ _ hpermS m p).2 hn') (selected_noMatch_excl _ m p r ps hs)
  · rcases serve_selected rs' e' hlen' h' m p with ⟨r', ps', hs', _⟩ | ⟨_, hf'⟩
    · exact absurd hn (selected_noMatch_excl _ m p r' ps' ((selected_perm _ _ hpermS m p r' ps').2 hs'))
    · rw [hf, hf']

/-! ## Acceptance -/

/-- **Progress of one registration.**  On an engine whose method trees are well formed and hold
exactly the routes `rs` (`EngineOKc`, the invariant every accepted registration list establishes), a
registration with a non-empty method and a `checkPathValid` path (`ValidReg`) whose (method, key)
is not registered yet is accepted: no `.assert`, `.invalid`, `.conflict`, no run-time panic. -/
theorem register_progress (e : Engine) (cap : Nat) (rs : List Route) (m p : Bytes) (h : Nat)
    (hok : EngineOKc e cap rs) (hv : ValidReg (m, p, h))
    (hd : ∀ r ∈ rs, ¬ (r.method = m ∧ keyOf r = keyOf ⟨m, p, h⟩)) :
    ∃ e', e.addRoute m p h = .ok e' :=
  addRoute_progress e cap rs m p h hok hv hd

/-- **C06, acceptance characterised.**  A fresh engine accepts a list of registrations iff every
one is valid on its own (non-empty method, path passes `checkPathValid`) and no two have the same
method and the same key (pattern with the parameter names removed: `/:a` and `/:b`, `/x/*a` and
`/x/*b` have the same key).  There is no other conflict between wildcards in the model. -/
theorem accepted_iff (rs : List (Bytes × Bytes × Nat)) :
    (∃ e, Engine.addRoutes {} rs = .ok e) ↔
    ((∀ r ∈ rs, ValidReg r) ∧
     (toSpec rs).Pairwise (fun r r' => ¬ (r.method = r'.method ∧ keyOf r = keyOf r'))) :=
  addRoutes_accepts_iff rs

/-- **Refusal classified.**  A refused list splits as `pre ++ r :: post` with `pre` accepted and
`r` the first registration that is invalid on its own (fault `.assert`/`.invalid`) or that has the
method and key of a registration in `pre` (fault `.conflict`). -/
theorem refused_at_first_offender (rs : List (Bytes × Bytes × Nat)) (f : Fault) (h : Engine.addRoutes {} rs = .error f) :
    ∃ pre r post, rs = pre ++ r :: post ∧ (∃ e1, Engine.addRoutes {} pre = .ok e1) ∧
      ((¬ ValidReg r ∧ (f = .assert ∨ f = .invalid)) ∨
       (ValidReg r ∧ f = .conflict ∧
         ∃ r' ∈ toSpec pre, ¬ ¬ (r'.method = r.1 ∧ keyOf r' = keyOf ⟨r.1, r.2.1, r.2.2⟩))) :=
  addRoutes_error_class rs f h

/-- Registration never raises a run-time panic (index / slice bounds), for any list of routes. -/
theorem registration_no_runtime_panic (rs : List (Bytes × Bytes × Nat)) (s : Site) :
    Engine.addRoutes {} rs ≠ .error (.panic s) :=
  addRoutes_no_runtime_panic rs s

/-- **C06, acceptance is order independent.**  Two lists without repetition that hold the same
registrations are both accepted or both refused. -/
theorem accepted_order_independent (rs rs' : List (Bytes × Bytes × Nat)) (hperm : ∀ x, x ∈ rs ↔ x ∈ rs')
    (hnd : rs.Nodup) (hnd' : rs'.Nodup) :
    (∃ e, Engine.addRoutes {} rs = .ok e) ↔ (∃ e', Engine.addRoutes {} rs' = .ok e') :=
  addRoutes_accepts_set rs rs' hperm hnd hnd'

/-- the same for permutations (repetitions allowed; a repeated registration is refused in both) -/
theorem accepted_perm_independent (rs rs' : List (Bytes × Bytes × Nat)) (hperm : rs.Perm rs') :
    (∃ e, Engine.addRoutes {} rs = .ok e) ↔ (∃ e', Engine.addRoutes {} rs' = .ok e') :=
  addRoutes_accepts_perm rs rs' hperm

/-- The `Nodup` hypotheses of `accepted_order_independent` cannot be dropped: the same set, listed
once and listed twice. -/
theorem accepted_needs_nodup :
    ¬ ∀ rs rs' : List (Bytes × Bytes × Nat), (∀ x, x ∈ rs ↔ x ∈ rs') →
      ((∃ e, Engine.addRoutes {} rs = .ok e) ↔ (∃ e', Engine.addRoutes {} rs' = .ok e')) := by
  intro h
  have h1 := h [([71], [47, 97], 1)] [([71], [47, 97], 1), ([71], [47, 97], 1)] (by simp)
  have h2 : ∃ e, Engine.addRoutes {} [([71], [47, 97], 1)] = .ok e := ⟨_, rfl⟩
  obtain ⟨e', he'⟩ := h1.1 h2
  have h3 : Engine.addRoutes {} [(([71] : Bytes), ([47, 97] : Bytes), 1), ([71], [47, 97], 1)] = .error .conflict := by rfl
  rw [h3] at he'; cases he'

/-- What DOES depend on the order is the fault reported for a refused set (the first offender in
registration order): `GET /:a, GET /:b, GET /:` is refused with `conflict`, and the same set
registered as `GET /:, GET /:a, GET /:b` is refused with `invalid`. -/
theorem refusal_class_depends_on_order :
    Engine.addRoutes {} [([71, 69, 84], [47, 58, 97], 1), ([71, 69, 84], [47, 58, 98], 2), ([71, 69, 84], [47, 58], 3)]
      = .error .conflict ∧
    Engine.addRoutes {} [([71, 69, 84], [47, 58], 3), ([71, 69, 84], [47, 58, 97], 1), ([71, 69, 84], [47, 58, 98], 2)]
      = .error .invalid := ⟨by rfl, by rfl⟩

/-- **C06, the property for route sets.**  For two registration orders of the same set of routes
(patterns shorter than 65536 bytes): registration is accepted in both or refused in both, and when
it is accepted every request is answered alike — same handler, same `FullPath()`, same parameters,
or no route handler in both; never a panic. -/
theorem route_set_semantics (rs rs' : List (Bytes × Bytes × Nat)) (hperm : ∀ x, x ∈ rs ↔ x ∈ rs')
    (hnd : rs.Nodup) (hnd' : rs'.Nodup) (hlen : ∀ r ∈ rs, r.2.1.length < 65536) :
    ((∃ e, Engine.addRoutes {} rs = .ok e) ↔ (∃ e', Engine.addRoutes {} rs' = .ok e')) ∧
    (∀ e e', Engine.addRoutes {} rs = .ok e → Engine.addRoutes {} rs' = .ok e' →
      ∀ m p, e.serve m p = e'.serve m p ∧
        ((∃ r ps, Selected (toSpec rs) m p r ps ∧ e.serve m p = .handler ⟨r.handler, r.pattern, ps⟩) ∨
         (NoMatch (toSpec rs) m p ∧ e.serve m p = .noRoute))) :=
  ⟨addRoutes_accepts_set rs rs' hperm hnd hnd',
   fun e e' h h' m p => ⟨order_independent rs rs' e e' hperm hlen h h' m p, serve_selected rs e hlen h m p⟩⟩

/-- The same as one equation: what can be observed of a route set (`observe`: refused, or the
outcome of each request) is the same for every registration order. -/
theorem route_set_observation (rs rs' : List (Bytes × Bytes × Nat)) (hperm : ∀ x, x ∈ rs ↔ x ∈ rs')
    (hnd : rs.Nodup) (hnd' : rs'.Nodup) (hlen : ∀ r ∈ rs, r.2.1.length < 65536) (m p : Bytes) :
    observe rs m p = observe rs' m p := by
  have hacc := addRoutes_accepts_set rs rs' hperm hnd hnd'
  unfold observe
  cases h : Engine.addRoutes {} rs with
  | ok e =>
    obtain ⟨e', h'⟩ := hacc.1 ⟨e, h⟩
    rw [h']
    exact congrArg some (order_independent rs rs' e e' hperm hlen h h' m p)
  | error f =>
    cases h' : Engine.addRoutes {} rs' with
    | ok e' => obtain ⟨e, he⟩ := hacc.2 ⟨e', h'⟩; rw [he] at h; cases h
    | error f' => rfl

/-
PROVED (was TODO-OPEN): *acceptance* is order independent (`accepted_order_independent`,
`accepted_perm_independent`), via the characterisation `accepted_iff` (accepted iff every
registration is valid on its own and (method, key) are pairwise distinct), whose converse direction
is the fold of `register_progress` over the list.  `refused_at_first_offender` says which
registration is refused and with which class; `registration_no_runtime_panic` that the class is never
a run-time panic.  `route_set_semantics` / `route_set_observation` combine acceptance with
`order_independent` (dispatch).  The conflicts of the model are exactly the key collisions: `/:a`
vs `/:b` and `/*a` vs `/*b` at the same position collide because their keys (`/:`, `/*`) are equal;
a parameter and a catch-all at the same position (`/:a`, `/*b`), or wildcards with different
continuations (`/:a/x`, `/:b/y`) do not conflict.  Refusal of a SET does not depend on the order;
the fault class reported does (`refusal_class_depends_on_order`), because registration stops at the
first offender.

TODO-OPEN (remains): nothing for acceptance at the level of `Engine.addRoutes` on a fresh engine.
Not covered by these theorems (outside the model): `RouterGroup` prefixes / `calculateAbsolutePath`
(`path.Join`) applied before `Engine.addRoute` — the correspondence check takes the absolute path
from the implementation; handler chains longer than one element.

TODO-OPEN (assumption made explicit, not a proof gap of the model): without `hlen`, a pattern with
65536 or more wildcards makes `countParams` (uint16) wrap, `maxParams` too small and `find` panic
at `(*paramsPointer)[:(paramIndex + 1)]`.  Confirmed on the real code (INTEGRATION.md); no `decide`
witness is given because the smallest witness is a 196 608-byte path.
-/

/-! ## non-vacuity and concrete behaviour (GET = [71,69,84]; `/a/:x`, `/a/b`, `/*z`) -/

def exRoutes : List (Bytes × Bytes × Nat) :=
  [([71, 69, 84], [47, 97, 47, 58, 120], 1), ([71, 69, 84], [47, 97, 47, 98], 2), ([71, 69, 84], [47, 42, 122], 3)]

def exEngine : Engine := match Engine.addRoutes {} exRoutes with | .ok e => e | .error _ => {}

def exRoot : Node := match exEngine.trees with | t :: _ => t.root | [] => Node.empty

def exSpec : List Route :=
  [⟨[71, 69, 84], [47, 97, 47, 58, 120], 1⟩, ⟨[71, 69, 84], [47, 97, 47, 98], 2⟩, ⟨[71, 69, 84], [47, 42, 122], 3⟩]

/-- the registered tree meets the hypotheses of `find_best` / `find_selected` -/
example : WF exRoot .skind ∧ PnOK exRoot 0 exEngine.maxParams := by
  have h : exRoot = .mk .skind 47 [47]
      [.mk .skind 97 [97, 47] [.mk .skind 98 [98] [] [47, 97, 47, 98] [] (some 2) none none] [] [] none
        (some (.mk .pkind 58 [58] [] [47, 97, 47, 58, 120] [[120]] (some 1) none none)) none]
      [] [] none none (some (.mk .akind 42 [42] [] [47, 42, 122] [[122]] (some 3) none none)) := by rfl
  have hm : exEngine.maxParams = 1 := by decide
  rw [h, hm]
  simp [WF, WFL, WFO, PnOK, PnOKL, PnOKO, Lit, depthAt, Node.label]

example : Denotes exRoot exSpec [71, 69, 84] := by
  have h : routes exRoot = ([⟨[71, 69, 84], [47, 97, 47, 98], 2⟩, ⟨[71, 69, 84], [47, 97, 47, 58, 120], 1⟩,
      ⟨[71, 69, 84], [47, 42, 122], 3⟩] : List Route).map (fun r => (keyOf r, valOf r)) := by decide
  intro kv
  rw [h]
  simp [exSpec]
  constructor
  · rintro (h | h | h) <;> simp [h]
  · rintro (h | h | h) <;> simp [h]

/-- the precondition of `insert_preserves` is met when `/b` is added to the example tree -/
example : Ready exRoot [47, 98] .skind ∧ ([47, 98] : Bytes).head? = exRoot.pfx.head? :=
  ⟨⟨by decide, [], [47, 98], rfl, by simp [Lit], Or.inl rfl⟩, by decide⟩

/-- the example registration is accepted, with patterns far below the length bound: the hypotheses of
`dispatch_selected`, `accepted_distinct`, `order_independent` hold -/
example : (∃ e, Engine.addRoutes {} exRoutes = .ok e) ∧ ∀ r ∈ exRoutes, r.2.1.length < 65536 := by
  constructor
  · exact ⟨exEngine, by rfl⟩
  · decide
example : ∃ e', Engine.addRoutes {} exRoutes.reverse = .ok e' ∧
    e'.serve [71, 69, 84] [47, 97, 47, 99] = exEngine.serve [71, 69, 84] [47, 97, 47, 99] := by
  refine ⟨(match Engine.addRoutes {} exRoutes.reverse with | .ok e => e | .error _ => {}), by rfl, by decide⟩
example : RootOK exRoot 1 := by
  right
  have h : exRoot = .mk .skind 47 [47]
      [.mk .skind 97 [97, 47] [.mk .skind 98 [98] [] [47, 97, 47, 98] [] (some 2) none none] [] [] none
        (some (.mk .pkind 58 [58] [] [47, 97, 47, 58, 120] [[120]] (some 1) none none)) none]
      [] [] none none (some (.mk .akind 42 [42] [] [47, 42, 122] [[122]] (some 3) none none)) := by rfl
  rw [h]
  simp [WF, WFL, WFO, PnOK, PnOKL, PnOKO, Lit, depthAt, Node.label, Node.pfx]

/-! ### acceptance: the hypotheses of the acceptance theorems are met by concrete inputs -/

/-- `register_progress`: the example engine satisfies the invariant, `GET /b` is a valid
registration and its key `/b` is not among the registered keys `/a/:`, `/a/b`, `/*` -/
example : EngineOKc exEngine exEngine.maxParams (toSpec exRoutes) ∧ ValidReg ([71, 69, 84], [47, 98], 4) ∧
    ∀ r ∈ toSpec exRoutes, ¬ (r.method = [71, 69, 84] ∧ keyOf r = keyOf ⟨[71, 69, 84], [47, 98], 4⟩) :=
  ⟨addRoutes_ok exRoutes exEngine (by decide) (by rfl), by decide, by decide⟩
example : ∃ e', exEngine.addRoute [71, 69, 84] [47, 98] 4 = .ok e' := ⟨_, by rfl⟩

/-- `accepted_iff`, right-hand side true: three valid registrations with three different keys -/
example : (∀ r ∈ exRoutes, ValidReg r) ∧
    (toSpec exRoutes).Pairwise (fun r r' => ¬ (r.method = r'.method ∧ keyOf r = keyOf r')) := by decide
/-- `accepted_iff`, right-hand side false for two different reasons: `/:a` and `/:b` have the same
key; `/a*x` is not a valid path.  Both lists are refused. -/
example : ¬ (toSpec [([71, 69, 84], [47, 58, 97], 1), ([71, 69, 84], [47, 58, 98], 2)]).Pairwise
    (fun r r' => ¬ (r.method = r'.method ∧ keyOf r = keyOf r')) := by decide
example : Engine.addRoutes {} [([71, 69, 84], [47, 58, 97], 1), ([71, 69, 84], [47, 58, 98], 2)] = .error .conflict := by rfl
example : ¬ ValidReg ([71, 69, 84], [47, 97, 42, 120], 1) := by decide
example : Engine.addRoutes {} [([71, 69, 84], [47, 97, 42, 120], 1)] = .error .invalid := by rfl
/-- the same keys under different methods do not conflict; a parameter and a catch-all at the same
position do not conflict; `/:a/x` and `/:b/y` do not conflict -/
example : ∃ e, Engine.addRoutes {} [([71, 69, 84], [47, 58, 97], 1), ([80, 85, 84], [47, 58, 98], 2),
    ([71, 69, 84], [47, 42, 98], 3), ([71, 69, 84], [47, 58, 98, 47, 121], 4)] = .ok e := ⟨_, by rfl⟩

/-- `refused_at_first_offender`: a refused list (here `pre = [GET /:a]`, `r = GET /:b`, `post = [GET /c]`) -/
example : Engine.addRoutes {} [([71, 69, 84], [47, 58, 97], 1), ([71, 69, 84], [47, 58, 98], 2), ([71, 69, 84], [47, 99], 3)]
    = .error .conflict := by rfl

/-- `accepted_order_independent`, `route_set_semantics`, `route_set_observation`: the example routes
and their reverse are two duplicate-free lists with the same members and short patterns; both
sides of the equivalence are true for them (above), both false for `/:a`, `/:b` -/
example : (∀ x, x ∈ exRoutes ↔ x ∈ exRoutes.reverse) ∧ exRoutes.Nodup ∧ exRoutes.reverse.Nodup ∧
    ∀ r ∈ exRoutes, r.2.1.length < 65536 :=
  ⟨fun x => by simp, by decide, by decide, by decide⟩
example : exRoutes.Perm exRoutes.reverse := (List.reverse_perm _).symm
example : observe exRoutes [71, 69, 84] [47, 97, 47, 99] = some (.handler ⟨1, [47, 97, 47, 58, 120], [([120], [99])]⟩) ∧
    observe exRoutes.reverse [71, 69, 84] [47, 97, 47, 99] = some (.handler ⟨1, [47, 97, 47, 58, 120], [([120], [99])]⟩) := by
  decide
example : observe [([71, 69, 84], [47, 58, 97], 1), ([71, 69, 84], [47, 58, 98], 2)] [71, 69, 84] [47, 99] = none ∧
    observe [([71, 69, 84], [47, 58, 98], 2), ([71, 69, 84], [47, 58, 97], 1)] [71, 69, 84] [47, 99] = none := by
  decide

/-- static beats param; param is taken when static cannot complete; catch-all last; backtracking
out of `/a/` into `/*z` -/
example : exEngine.serve [71, 69, 84] [47, 97, 47, 98] = .handler ⟨2, [47, 97, 47, 98], []⟩ := by decide
example : exEngine.serve [71, 69, 84] [47, 97, 47, 99] = .handler ⟨1, [47, 97, 47, 58, 120], [([120], [99])]⟩ := by decide
example : exEngine.serve [71, 69, 84] [47, 97, 47, 99, 47, 100] =
    .handler ⟨3, [47, 42, 122], [([122], [97, 47, 99, 47, 100])]⟩ := by decide
example : Selected exSpec [71, 69, 84] [47, 97, 47, 99, 47, 100] ⟨[71, 69, 84], [47, 42, 122], 3⟩
    [([122], [97, 47, 99, 47, 100])] := by decide
example : matchToks (parsePattern [47, 97, 47, 58, 120]) [47, 97, 47, 99] = some [([120], [99])] := by decide
example : select exSpec [71, 69, 84] [47, 97, 47, 98] = some (⟨[71, 69, 84], [47, 97, 47, 98], 2⟩, []) := by decide
example : NoMatch [⟨[71, 69, 84], [47, 97], 1⟩] [71, 69, 84] [47, 98] := by decide
/-- a method without tree -/
example : exEngine.serve [80] [47, 97, 47, 98] = .noRoute := by decide

/-! ## X06: the ITERATIVE `find` of tree.go (the loop as written) and `ServeHTTP` around it

Model: `Hertz/Model/RouteIter.lean` (`stepTop/stepBody/stepParam/stepAny`, `backtrack`, `post`, `run`,
`findIter`, `Engine.serveIter`).  From here on the correspondence check runs THIS model against the real
engine (status 301/307/405/404 included); the recursive `find` above is the spec-side intermediate. -/
open Hertz.Route.Iter

/-- **Iterative = recursive.**  On every well-formed tree (every tree `insert` builds from an accepted
route set: `EngineOK`, `addRoutes_ok`), for every path and every content of the params backing array:
the loop of `(*router).find` returns the handlers, full path and parameters of the recursive `find` on
a hit, and on a miss returns no handlers with `*paramsPointer` re-sliced to length 0 (so a following
lookup of the 405 loop starts clean). -/
theorem find_iter_eq_rec (root : Node) (cap : Nat) (hwf : WF root .skind) (hp : PnOK root 0 cap) (path : Bytes)
    (arr : List Bytes) (harr : arr.length = cap) :
    (∀ f, find root path cap = .hit f → ∃ t arr' plen',
        findIter root path arr 0 false = some (.value (some f.handlers) f.fullPath f.params t arr' plen')) ∧
    (find root path cap = .miss → ∃ t arr', arr'.length = cap ∧
        findIter root path arr 0 false = some (.value none [] [] t arr' 0)) ∧
    agrees (find root path cap) (findIter root path arr 0 false) = true := by
  refine ⟨?_, (findIter_spec false root cap hwf hp path arr harr).2, findIter_agrees root cap hwf hp path arr harr⟩
  intro f hf
  obtain ⟨t, arr', plen', h⟩ := (findIter_spec false root cap hwf hp path arr harr).1 f hf
  rw [map_unescapeVal_false] at h
  exact ⟨t, arr', plen', h⟩

/-- **Iterative = recursive, with `unescape`** (the `find` of 59ce9b1: raw text kept while searching, values
unescaped in the epilogue): for either value of the flag the same route is found, and the values are the
recursive model's substrings passed through `url.QueryUnescape` (kept raw when that fails) exactly when the flag
is on; the search itself (hit / miss, which node) does not depend on the flag. -/
theorem find_iter_eq_rec_unescape (u : Bool) (root : Node) (cap : Nat) (hwf : WF root .skind) (hp : PnOK root 0 cap)
    (path : Bytes) (arr : List Bytes) (harr : arr.length = cap) :
    (∀ f, find root path cap = .hit f → ∃ t arr' plen',
        findIter root path arr 0 u = some (.value (some f.handlers) f.fullPath
          (f.params.map fun kv => (kv.1, unescapeVal u kv.2)) t arr' plen')) ∧
    (find root path cap = .miss → ∃ t arr', arr'.length = cap ∧
        findIter root path arr 0 u = some (.value none [] [] t arr' 0)) :=
  findIter_spec u root cap hwf hp path arr harr

/-- **The Go loop terminates**: within `4 * (number of nodes)` program points (every node is entered at
most once and left after at most four labelled blocks), without a run-time panic. -/
theorem find_iter_terminates (u : Bool) (root : Node) (cap : Nat) (hwf : WF root .skind) (hp : PnOK root 0 cap) (path : Bytes)
    (arr : List Bytes) (harr : arr.length = cap) :
    ∃ o, run path u (4 * size root) .top (initSt root path arr 0) = some o ∧ ∀ s, o ≠ .panic s :=
  findIter_terminates u root cap hwf hp path arr harr

/-- **C06 dispatch, on the iterative model of `ServeHTTP`** (EVERY setting of RedirectTrailingSlash,
HandleMethodNotAllowed and of unescaping = `UseRawPath && UnescapePathValues`; full strength since 59ce9b1): the
selected route's handler runs with its pattern and the matched substrings, each passed through
`url.QueryUnescape` exactly when unescaping is on (`params_are_unescaped_substrings`); when no pattern matches
NO route handler runs and the answer is a 301/307 redirect (only with RedirectTrailingSlash, path not
`/`, method not CONNECT; 301 iff GET), 405 (only with HandleMethodNotAllowed, exactly when the tree of
another method finds a handler for the path), or 404 (otherwise). -/
theorem dispatch_selected_iter (rs : List (Bytes × Bytes × Nat)) (e : Engine)
    (hlen : ∀ r ∈ rs, r.2.1.length < 65536) (h : Engine.addRoutes {} rs = .ok e) (o : Opts) (m p' : Bytes) :
    (∃ r ps, Selected (toSpec rs) m (47 :: p') r ps ∧
        Iter.Engine.serveIter e o m (47 :: p') =
          .handler ⟨r.handler, r.pattern, ps.map fun kv => (kv.1, unescapeVal o.unescape kv.2)⟩) ∨
    (NoMatch (toSpec rs) m (47 :: p') ∧ NoHandlerOutcome e o m (47 :: p') (Iter.Engine.serveIter e o m (47 :: p'))) := by
  obtain ⟨h1, h2, _⟩ := serveIter_serve e (toSpec rs) (addRoutes_ok rs e hlen h) o m p'
  rcases serve_selected rs e hlen h m (47 :: p') with ⟨r, ps, hs, hf⟩ | ⟨hn, hf⟩
  · exact Or.inl ⟨r, ps, hs, h1 _ hf⟩
  · exact Or.inr ⟨hn, h2 hf⟩

/-- **No match, no handler** (the last clause of the property, on the iterative engine model with the
redirect / 405 / NoRoute options): if no pattern of the method matches, `ServeHTTP` runs no route
handler, whatever the options. -/
theorem no_match_no_handler (rs : List (Bytes × Bytes × Nat)) (e : Engine)
    (hlen : ∀ r ∈ rs, r.2.1.length < 65536) (h : Engine.addRoutes {} rs = .ok e) (o : Opts)
    (m p' : Bytes) (hno : NoMatch (toSpec rs) m (47 :: p')) (f : Found) :
    Iter.Engine.serveIter e o m (47 :: p') ≠ .handler f := by
  rcases dispatch_selected_iter rs e hlen h o m p' with ⟨r, ps, hs, _⟩ | ⟨_, hout⟩
  · exact absurd hno (selected_noMatch_excl _ m _ r ps hs)
  · intro hc
    rw [hc] at hout
    rcases hout with ⟨c, h1, _⟩ | ⟨h1, _⟩ | ⟨h1, _⟩ <;> cases h1

/-- a request path that is empty or does not start with `/` is answered 400 before any lookup -/
theorem bad_path_400 (e : Engine) (o : Opts) (m : Bytes) (c : UInt8) (p' : Bytes) (hc : c ≠ 47) :
    Iter.Engine.serveIter e o m [] = .badRequest ∧ Iter.Engine.serveIter e o m (c :: p') = .badRequest := by
  simp [Iter.Engine.serveIter, hc]

/-- The iterative model has the block order and back-track calls of the source (regenerated), and the source
unescapes where the model does: the catch-all value in the loop (`Any:`), the parameter values in the epilogue. -/
theorem model_matches_gen_iter :
    Gen.Route.findLabels = ["Param", "Any"] ∧ Gen.Route.findGotos = ["Param", "Param", "Any"] ∧
    Gen.Route.findBacktrackArgs = ["skind", "akind"] ∧
    Gen.Route.backtrackRestores = ["searchIndex", "paramIndex", "searchIndex"] ∧
    Gen.Route.findUnescapeSites = ["loop", "epilogue"] := by decide

/-- **The handler's parameters are the matched substrings, unescaped when asked**: whenever the iterative
engine model runs a route handler, it is the selected route's, substituting the RAW values back into its
pattern gives the request path, and the values handed over are those raw substrings passed through
`url.QueryUnescape` (kept as they are when it reports an error) iff `UseRawPath && UnescapePathValues`. -/
theorem params_are_unescaped_substrings (rs : List (Bytes × Bytes × Nat)) (e : Engine)
    (hlen : ∀ r ∈ rs, r.2.1.length < 65536) (h : Engine.addRoutes {} rs = .ok e) (o : Opts) (m p' : Bytes) (f : Found)
    (hf : Iter.Engine.serveIter e o m (47 :: p') = .handler f) :
    ∃ r raw, Selected (toSpec rs) m (47 :: p') r raw ∧ f.handlers = r.handler ∧ f.fullPath = r.pattern ∧
      f.params = raw.map (fun kv => (kv.1, unescapeVal o.unescape kv.2)) ∧
      instantiate (parsePattern r.pattern) raw = 47 :: p' ∧ raw.map Prod.fst = names (parsePattern r.pattern) := by
  rcases dispatch_selected_iter rs e hlen h o m p' with ⟨r, ps, hs, hh⟩ | ⟨_, hout⟩
  · rw [hh] at hf
    injection hf with hf
    subst hf
    have hm : matchToks (parsePattern r.pattern) (47 :: p') = some ps := by
      have := hs.2.1
      unfold Route.matches at this
      by_cases e' : r.method = m
      · simpa [e'] using this
      · simp [e'] at this
    exact ⟨r, ps, hs, rfl, rfl, rfl, instantiate_match _ _ _ hm, matchToks_names _ _ _ hm⟩
  · rw [hf] at hout
    rcases hout with ⟨c, h1, _⟩ | ⟨h1, _⟩ | ⟨h1, _⟩ <;> cases h1

/-- **Regression on the witnesses of the former finding C06-unescape-backtrack** (repaired in /repo by 59ce9b1),
with unescaping ON: routes GET `/c/:p/x`, GET `/:y/:x` and request `/c/%41/z`: no pattern matches and no handler
runs (404); routes `/:a/x`, `/*z` and `/%41/y`: z = `A/y` (was `1/y`); routes `/:y/:x/a:x/*w`, `/c/ab:y/abc` and
`/c/ab%2f/abc/a%20b`: the first route runs with y=`c`, x=`ab/`, x=`bc`, w=`a b` (was 404). -/
theorem dispatch_selected_iter_repaired :
    (let rs : List (Bytes × Bytes × Nat) :=
      [([71, 69, 84], [47, 99, 47, 58, 112, 47, 120], 1), ([71, 69, 84], [47, 58, 121, 47, 58, 120], 2)]
     let e := match Engine.addRoutes {} rs with | .ok e => e | .error _ => {}
     NoMatch (toSpec rs) [71, 69, 84] [47, 99, 47, 37, 52, 49, 47, 122] ∧
     Iter.Engine.serveIter e { unescape := true } [71, 69, 84] [47, 99, 47, 37, 52, 49, 47, 122] = .notFound) ∧
    (let rs : List (Bytes × Bytes × Nat) := [([71, 69, 84], [47, 58, 97, 47, 120], 1), ([71, 69, 84], [47, 42, 122], 2)]
     let e := match Engine.addRoutes {} rs with | .ok e => e | .error _ => {}
     Iter.Engine.serveIter e { unescape := true } [71, 69, 84] [47, 37, 52, 49, 47, 121]
       = .handler ⟨2, [47, 42, 122], [([122], [65, 47, 121])]⟩) ∧
    (let rs : List (Bytes × Bytes × Nat) :=
      [([71, 69, 84], [47, 58, 121, 47, 58, 120, 47, 97, 58, 120, 47, 42, 119], 1),
       ([71, 69, 84], [47, 99, 47, 97, 98, 58, 121, 47, 97, 98, 99], 2)]
     let e := match Engine.addRoutes {} rs with | .ok e => e | .error _ => {}
     Iter.Engine.serveIter e { unescape := true } [71, 69, 84]
         [47, 99, 47, 97, 98, 37, 50, 102, 47, 97, 98, 99, 47, 97, 37, 50, 48, 98]
       = .handler ⟨1, [47, 58, 121, 47, 58, 120, 47, 97, 58, 120, 47, 42, 119],
           [([121], [99]), ([120], [97, 98, 47]), ([120], [98, 99]), ([119], [97, 32, 98])]⟩) := by decide

/-- non-vacuity of the full-strength statements: an accepted engine served with unescaping on -/
example : ({ unescape := true } : Opts).unescape = true ∧ ({ } : Opts).unescape = false := ⟨rfl, rfl⟩

/-- non-vacuity: the example engine is accepted, its tree meets `find_iter_eq_rec`'s hypotheses (above),
and the iterative lookup of `/a/c/d` backtracks out of `/a/:x` into `/*z` -/
example : findIter exRoot [47, 97, 47, 99, 47, 100] [[]] 0 false =
    some (.value (some 3) [47, 42, 122] [([122], [97, 47, 99, 47, 100])] false [[97, 47, 99, 47, 100]] 1) := by decide
example : find exRoot [47, 97, 47, 99, 47, 100] 1 = .hit ⟨3, [47, 42, 122], [([122], [97, 47, 99, 47, 100])]⟩ := by decide
example : find exRoot [47, 98] 1 = .hit ⟨3, [47, 42, 122], [([122], [98])]⟩ ∧ find exRoot [] 1 = .miss := by decide
/-- trailing-slash recommendation, 405 and 404 on the example routes plus `POST /p/` -/
def exEngine2 : Engine :=
  match Engine.addRoutes {} [([71, 69, 84], [47, 97, 47, 98], 1), ([80, 79, 83, 84], [47, 112, 47], 2)] with
  | .ok e => e | .error _ => {}
example : Iter.Engine.serveIter exEngine2 {} [71, 69, 84] [47, 97, 47, 98, 47] = .redirect 301 := by decide
example : Iter.Engine.serveIter exEngine2 {} [80, 79, 83, 84] [47, 112] = .redirect 307 := by decide
example : Iter.Engine.serveIter exEngine2 { redirectTrailingSlash := false } [71, 69, 84] [47, 97, 47, 98, 47] = .notFound := by decide
example : Iter.Engine.serveIter exEngine2 { handleMethodNotAllowed := true } [71, 69, 84] [47, 112, 47] = .notAllowed := by decide
example : Iter.Engine.serveIter exEngine2 { handleMethodNotAllowed := true } [71, 69, 84] [47, 113] = .notFound := by decide
example : NoMatch (toSpec [([71, 69, 84], [47, 97, 47, 98], 1), ([80, 79, 83, 84], [47, 112, 47], 2)]) [71, 69, 84] [47, 112, 47] := by decide

/-! ## X06 part 2: `RouterGroup` path assembly (`Model/GroupPath.lean`: `pathClean` = Go `path.Clean`,
`pathJoin2`, `lastChar`, `joinPaths`, `groupBase`, `absPattern`, `addGroupRoutes`) -/
open Hertz.Route.GroupPath

/-- **One nesting step is a cleaned join.**  `joinPaths(abs, rel)` (= `calculateAbsolutePath`) with a
non-empty base: the base itself when `rel` is empty, else `path.Clean(abs + "/" + rel)` with exactly one
`/` appended iff `rel` ends in `/` and the cleaned path does not (i.e. is not `/`).  It never panics. -/
theorem group_path_is_join (abs rel : Bytes) (ha : abs ≠ []) :
    joinPaths abs rel = .ok (if rel = [] then abs else
      if rel.getLast? = some 47 ∧ (pathClean (abs ++ 47 :: rel)).getLast? ≠ some 47
      then pathClean (abs ++ 47 :: rel) ++ [47] else pathClean (abs ++ 47 :: rel)) :=
  joinPaths_spec abs rel ha

/-- The absolute pattern of a route registered through ANY nesting of groups is computed without a
panic (`lastChar` never sees the empty string) and is not empty. -/
theorem group_path_no_panic (prefixes : List Bytes) (rel : Bytes) :
    ∃ p, absPattern prefixes rel = .ok p ∧ p ≠ [] := absPattern_ok prefixes rel

/-- **Routes registered through any nesting of groups = the flat set of their absolute patterns**:
the flat list always exists, registration through the groups IS registration of the flat list (same
acceptance, same refusal class, same engine), hence every dispatch result is that of the flat set and
all the theorems above (`dispatch_selected(_iter)`, `order_independent`, `accepted_iff`, …) apply to it. -/
theorem route_set_semantics_groups (rs : List (List Bytes × Bytes × Bytes × Nat)) (e0 : Engine) :
    ∃ flat, flatten rs = some flat ∧ addGroupRoutes e0 rs = Engine.addRoutes e0 flat ∧
      (∀ e, addGroupRoutes {} rs = .ok e → e0 = {} → ∀ m p, (∀ r ∈ flat, r.2.1.length < 65536) →
        ((∃ r ps, Selected (toSpec flat) m p r ps ∧ e.serve m p = .handler ⟨r.handler, r.pattern, ps⟩) ∨
         (NoMatch (toSpec flat) m p ∧ e.serve m p = .noRoute))) := by
  obtain ⟨flat, hf⟩ := flatten_some rs
  refine ⟨flat, hf, addGroupRoutes_flat rs e0 flat hf, ?_⟩
  intro e he _ m p hlen
  rw [addGroupRoutes_flat rs {} flat hf] at he
  exact serve_selected flat e hlen he m p

/- TODO-OPEN (X06 part 2): `registered_pattern_clean` (every absolute pattern is `path.Clean` of itself up to
one trailing slash, starts with `/`, has no empty / `.` / `..` element) and the n-step form of
`group_path_is_join` (absPattern = Clean of the slash-joined prefixes, trailing slash iff the last non-empty
part ends in `/`) need idempotence of `pathClean` and `pathClean (pathClean a ++ "/" ++ b) = pathClean (a ++ "/" ++ b)`;
not proved.  Both are evaluated on the implementation's output for every generated nesting (`Driver/C06g.lean`:
`specAbs`, `cleanShape`), and `pathClean` is held to the real `path.Clean` on all strings of length ≤ 6 (9) over {/ . a}. -/

example : joinPaths [47, 97, 47] [98, 47] = .ok [47, 97, 47, 98, 47] := by rfl
example : absPattern [[47, 97, 47], [98]] [] = .ok [47, 97, 47, 98] ∧ absPattern [[47, 97, 47]] [] = .ok [47, 97, 47] ∧
    absPattern [[], [47, 47, 97], [46, 46]] [99, 47, 47] = .ok [47, 99, 47] := ⟨by rfl, by rfl, by rfl⟩
example : pathClean [47, 97, 47, 46, 46, 47, 46, 47, 98] = [47, 98] ∧ pathClean [] = [46] ∧
    pathClean [97, 47, 46, 46, 47, 46, 46] = [46, 46] := by decide
example : addGroupRoutes {} [([[47, 118, 49]], [71, 69, 84], [47, 58, 120], 1), ([[47, 118, 49], [97, 47]], [71, 69, 84], [98], 2)] =
    Engine.addRoutes {} [([71, 69, 84], [47, 118, 49, 47, 58, 120], 1), ([71, 69, 84], [47, 118, 49, 47, 97, 47, 98], 2)] := by rfl

/-- **405 / 404 as a function of the route SET** (completes `dispatch_selected_iter`): when no route handler
runs and the answer is 405, some registered route of ANOTHER method matches the path; when it is 404 with
HandleMethodNotAllowed on, no registered route of any other method matches. -/
theorem status_405_404_of_route_set (rs : List (Bytes × Bytes × Nat)) (e : Engine)
    (hlen : ∀ r ∈ rs, r.2.1.length < 65536) (h : Engine.addRoutes {} rs = .ok e) (o : Opts)
    (m p' : Bytes) (hno : NoMatch (toSpec rs) m (47 :: p')) :
    (Iter.Engine.serveIter e o m (47 :: p') = .notAllowed →
        ∃ r ∈ toSpec rs, r.method ≠ m ∧ (r.matches r.method (47 :: p')).isSome = true) ∧
    (Iter.Engine.serveIter e o m (47 :: p') = .notFound → o.handleMethodNotAllowed = true →
        ∀ r ∈ toSpec rs, r.method ≠ m → r.matches r.method (47 :: p') = none) := by
  rcases dispatch_selected_iter rs e hlen h o m p' with ⟨r, ps, hs, _⟩ | ⟨_, hout⟩
  · exact absurd hno (selected_noMatch_excl _ m _ r ps hs)
  · exact noHandler_routes e (toSpec rs) (addRoutes_ok rs e hlen h) o m (47 :: p') _ hout

/-- **Registered patterns are rooted**: the absolute pattern of a route registered through any nesting of
groups starts with `/` (`path.Clean` of a rooted path is rooted), so `Engine.addRoute`'s assertion
"path must begin with '/'" never fires for a registration made through the group API. -/
theorem registered_pattern_rooted (prefixes : List Bytes) (rel p : Bytes) (h : absPattern prefixes rel = .ok p) :
    p.head? = some 47 := absPattern_rooted prefixes rel p h

example : absPattern [[97], [46, 46], [46, 46]] [58, 120] = .ok [47, 58, 120] := by rfl
example : NoMatch (toSpec [([71, 69, 84], [47, 97, 47, 98], 1), ([80, 79, 83, 84], [47, 112, 47], 2)]) [71, 69, 84] [47, 113] := by decide

end Hertz.Props.C06
