import Hertz.Proofs.Tagexpr
import Hertz.Proofs.TagexprEval
import Hertz.Proofs.TagexprNoPanic
import Hertz.Model.Tagexpr
import Hertz.Model.TagexprShared
import Hertz.Proofs.TagexprShared
import Hertz.Gen.Prio
/-!
# C20 — validation expressions follow the documented operator precedence

Property theorems only; lemmas live in `Hertz/Proofs/Tagexpr.lean`.  The statements are about the
model of `internal/tagexpr/expr.go` in `Hertz/Model/TagexprTree.lean` (held to the Go code by
`bin/check C20`: the tree the real `parseExpr` builds is compared node by node with the model's on
every generated expression) and about the tables of `Hertz/Gen/Prio.lean`, regenerated from the Go
source on every run.

The operand type `α` and the operator semantics are abstract: the theorems hold whatever the
lexer delivers as operands and whatever `Run` does.  float64 arithmetic and `regexp` are compared
with the real code, not proved (`Float` is opaque to the kernel).
-/
namespace Hertz.Props.C20
open Hertz Hertz.Tagexpr Hertz.Tagexpr.Tree

/-! ## the tables are those of the source -/

/-- `Op.prio`/`operandPrio` are `getPriority` as it is written in `expr.go` now: every operator's node
type is a label of the type switch with the model's priority, there is no further label, and the
`default:` branch gives the operand priority. -/
theorem prio_matches_gen :
    (∀ op : Op, Gen.Prio.prioCases.lookup op.goType = some op.prio) ∧
    Gen.Prio.prioCases.length = Op.all.length ∧ Gen.Prio.prioDefault = operandPrio := by
  refine ⟨fun op => ?_, by decide, by decide⟩
  cases op <;> decide

/-- The documented table (high → low): operands, `* / %`, `+ -`, `< <= > >=`, `== !=`, `&&`, `||`. -/
theorem prio_matches_documented :
    Op.all.map (fun op => (op.sym, op.prio)) =
      [("*", 6), ("/", 6), ("%", 6), ("+", 5), ("-", 5), ("<", 4), ("<=", 4), (">", 4), (">=", 4),
       ("==", 3), ("!=", 3), ("&&", 2), ("||", 1)] ∧
    (∀ op : Op, op.prio < operandPrio) :=
  ⟨by decide, Op.prio_lt_operand⟩

/-- The model's operator reader agrees with both `switch` statements of `parseOperator`. -/
theorem lexer_matches_gen :
    (Gen.Prio.twoCharOps ++ Gen.Prio.oneCharOps).all (fun e =>
      match parseOperator (e.1.toList ++ ['1']) with
      | some (op, rest) => op.goType == e.2 && op.sym == e.1 && rest == ['1']
      | none => false) = true ∧
    (Gen.Prio.twoCharOps ++ Gen.Prio.oneCharOps).length = Op.all.length := by
  constructor <;> decide

set_option maxRecDepth 100000 in
/-- The three small functions the tree model transcribes have the text they had when it was
written: the rotation test of `subSortPriority`, the loop of `sortPriority`, and
`leftOperandToParent`. -/
theorem sort_source_matches_gen :
    Gen.Prio.rotateCond = "getPriority(e) > getPriority(e.LeftOperand())" ∧
    Gen.Prio.sortBody = "{ for subSortPriority(e.RightOperand(), false) { } }" ∧
    Gen.Prio.rotateBody = "{ le := e.LeftOperand() if le == nil { return } p := e.Parent() le.SetParent(p) if p != nil { if isLeft { p.SetLeftOperand(le) } else { p.SetRightOperand(le) } } e.SetParent(le) e.SetLeftOperand(le.RightOperand()) le.RightOperand().SetParent(e) le.SetRightOperand(e) }" := by
  decide

/-! ## the rotation -/

variable {α : Type}

/-- One pass of `subSortPriority` keeps the in-order token sequence, for every tree. -/
theorem rotation_preserves_inorder (t t' : Tree α) (c : Bool) (h : subSort t = .ok (t', c)) :
    inorder t' = inorder t :=
  (subSort_pass t t' c h).inorder_eq

example : subSort (chain 1 [(.add, 2), (.mul, 3)]) = .ok (node .add (leaf 1) (node .mul (leaf 2) (leaf 3)), true) := rfl

/-- Invariant: if every operator in a right subtree binds strictly tighter than the node above it
(true of the chain `parseExprNode` builds), the same holds after a pass. -/
theorem right_subtree_strictly_tighter (t t' : Tree α) (c : Bool) (h : subSort t = .ok (t', c))
    (hR : RightAll t) : RightAll t' :=
  (subSort_pass t t' c h).right hR

example : RightAll (chain 1 [(.or, 2), (.and, 3), (.mul, 4)]) := chainAux_right _ _ trivial

/-- A pass that reports "nothing changed" changed nothing, and then no node binds tighter than its
left child; together with the invariant the tree is a precedence tree. -/
theorem fixpoint_is_precedence_tree (t t' : Tree α) (h : subSort t = .ok (t', false)) (hR : RightAll t) :
    t' = t ∧ IsPrecTree t :=
  ⟨((subSort_pass t t' false h).fix rfl).1, isPrec_of_heap ((subSort_pass t t' false h).fix rfl).2 hR⟩

example : subSort (node .add (leaf 1) (node .mul (leaf 2) (leaf 3))) = .ok (node .add (leaf 1) (node .mul (leaf 2) (leaf 3)), false) := rfl

/-- `sortPriority` terminates on every tree: the loop never needs more than `mu t + 1` passes
(each pass that rotates lowers `mu`, the sum over nodes of the number of operators to their left
below them). -/
theorem sort_terminates (t : Tree α) : sortPriority t ≠ .ok none :=
  sortLoop_fuel _ t (Nat.lt_succ_self _)

/-- Whatever tree it is given, the result of `sortPriority` has the same token sequence. -/
theorem sort_preserves_tokens (t t' : Tree α) (h : sortPriority t = .ok (some t')) :
    inorder t' = inorder t ∧ flat t' = flat t :=
  ⟨(sortLoop_sound _ t t' h).inorder_eq, (sortLoop_sound _ t t' h).flat_eq⟩

/-- No panic and no missing rotation on any operand/operator sequence: for every first operand and
every list of (operator, operand) pairs, `sortPriority` applied to the chain built by
`parseExprNode` returns exactly the tree of the precedence parser. -/
theorem parse_eq_spec (a : α) (rest : List (Op × α)) :
    sortPriority (chain a rest) = .ok (some (specParse (some a) (toks rest))) :=
  sort_chain a rest

/-- non-vacuity, and the two documented behaviours on concrete inputs: `1 - 2 - 3` nests to the left,
`1 || 2 && 3 * 4 + 5` nests by priority. -/
example : sortPriority (chain 1 [(.sub, 2), (.sub, 3)]) =
    .ok (some (node .sub (node .sub (leaf 1) (leaf 2)) (leaf 3))) := rfl
example : sortPriority (chain 1 [(.or, 2), (.and, 3), (.mul, 4), (.add, 5)]) =
    .ok (some (node .or (leaf 1) (node .and (leaf 2) (node .add (node .mul (leaf 3) (leaf 4)) (leaf 5))))) := rfl

/-- The same when the expression ends with an operator (`1 + 2 *`, accepted by `parseExprNode`):
still no panic in `leftOperandToParent`, and the nil operand stays last. -/
theorem parse_eq_spec_trailing (a : α) (rest : List (Op × α)) (o : Op) :
    sortPriority (node o (chain a rest) nil) = .ok (some (specParse (some a) (toks rest ++ [(o, none)]))) :=
  sort_chain_trailing a rest o

example : sortPriority (node .mul (chain 1 [(.add, 2)]) nil) =
    .ok (some (node .add (leaf 1) (node .mul (leaf 2) nil))) := rfl

/-- Hence evaluation of the compiled tree is evaluation of the precedence parser's tree, for every
operator semantics `sem` and every meaning of operands. -/
theorem eval_eq_spec {β : Type} (sem : Op → β → β → β) (leafV : α → β) (nilV : β) (a : α) (rest : List (Op × α)) :
    (sortPriority (chain a rest)).map (Option.map (fold sem leafV nilV)) =
      .ok (some (fold sem leafV nilV (specParse (some a) (toks rest)))) := by
  rw [parse_eq_spec]; rfl

example : (sortPriority (chain 10 [(.sub, 2), (.sub, 3)])).map
    (Option.map (fold (fun op x y => if op = .sub then x - y else 0) (fun n : Int => n) 0)) = .ok (some 5) := rfl

/-! ## the spec side -/

/-- The precedence parser yields a tree over exactly the given tokens in which every operator's
left subtree holds only operators binding at least as tightly and its right subtree only operators
binding strictly tighter (documented precedence and left-to-right associativity). -/
theorem spec_is_precedence_tree (a : Option α) (ts : List (Op × Option α)) :
    flat (specParse a ts) = (a, ts) ∧ IsPrecTree (specParse a ts) :=
  ⟨specParse_tokens a ts, specParse_prec a ts⟩

example : specParse (some 1) [(Op.add, some 2), (Op.mul, some 3), (Op.sub, some 4)] =
    node .sub (node .add (leaf 1) (node .mul (leaf 2) (leaf 3))) (leaf 4) := rfl

/-- … and it is the only such tree: two precedence trees over the same tokens are equal. -/
theorem precedence_tree_unique (t₁ t₂ : Tree α) (h₁ : IsPrecTree t₁) (h₂ : IsPrecTree t₂)
    (h : flat t₁ = flat t₂) : t₁ = t₂ :=
  prec_unique h₁ h₂ h

example : IsPrecTree (node Op.add (leaf 1) (node .mul (leaf 2) (leaf 3))) := by
  simp [IsPrecTree, allOps, Op.prio]

/-! ## evaluation never panics

After the two repairs in /repo (`%` with a divisor that truncates to zero now yields NaN; `==`, `!=`
and `in` go through `interfaceEqual`, which answers false for slices) no `Run` method of an operator
or of a built-in function raises a panic.  The only fault left in the model is the method call on
a missing operand (`1 +` inside a group, `()`), which is outside the grammar of the property.
-/

/-- no Go panic, whatever the site -/
def NoPanic {β : Type} (m : EvalM β) : Prop := ∀ site, m ≠ .error (.fault (.panic site))

theorem noPanic_of_safe {β : Type} {m : EvalM β} (h : Safe (fun _ => False) m) : NoPanic m :=
  fun site hm => h.h site hm

/-- Full statement for the operators: for every environment (= whatever the field values are:
nil pointers, empty strings and slices, NaN, mixed types) and every tree in which no operator lacks
an operand, evaluation does not panic provided the operand nodes' own `Run` methods do not. -/
theorem eval_no_panic (env : Env) (t : Node) (hne : t.isNil = false) (hnn : NoNilOperand t)
    (hl : LeavesSafe (fun _ => False) env t) : NoPanic (evalTree env t) :=
  noPanic_of_safe (evalTree_safe_noNil env t hne hnn hl)

/-- … and the operand nodes the parser builds do not: literals, field references, groups, `len`,
`in`, `regexp`, given (for the last four) well-formed sub-expressions. -/
theorem operand_nodes_no_panic (env : Env) :
    (∀ sh v, NoPanic ((constNode sh v).run env)) ∧
    (∀ f bo so, NoPanic ((selectorNode f bo so).run env)) ∧
    (∀ t bo so, (t.isNil = true ∨ WellFormed (fun _ => False) env t) → NoPanic ((groupNode t bo so).run env)) ∧
    (∀ name args bo so, (∀ a ∈ args, Safe (fun _ => False) (a.run env)) → NoPanic ((funcNode name args bo so).run env)) ∧
    (∀ re neg arg, Safe (fun _ => False) (arg.run env) → NoPanic ((regexpNode re neg arg).run env)) :=
  ⟨fun sh v => noPanic_of_safe (constNode_safe env sh v),
   fun f bo so => noPanic_of_safe (selectorNode_safe env f bo so),
   fun t bo so h => noPanic_of_safe (groupNode_safe env t bo so h),
   fun name args bo so h => noPanic_of_safe (funcNode_safe env name args bo so h),
   fun re neg arg h => noPanic_of_safe (regexpNode_safe env re neg arg h)⟩

/-- regression example 1 (was `panic: comparing uncomparable type []int`): `$==$` on a field of type
`[]int` now evaluates, to false. -/
example : (match evalTree { cur := "A", fields := [("A", .ints [])] }
      (.node .eq (.leaf (selectorNode "" none none)) (.leaf (selectorNode "" none none))) with
    | .ok (.bool false) => true
    | _ => false) = true := rfl

/-- … and `in($,$)` on it. -/
example : (match (funcNode "in" [selectorNode "" none none, selectorNode "" none none] none none).run
      { cur := "A", fields := [("A", .ints [1])] } with
    | .ok (.bool false) => true
    | _ => false) = true := rfl

/-- regression example 2 (was `panic: integer divide by zero`): `$ % 0.5 == 0` does not panic, for
every value of the field (`Float` is opaque to the kernel, so this is an instance of the theorem,
not a computation). -/
example (env : Env) : NoPanic (evalTree env
    (.node .eq (.node .rem (.leaf (selectorNode "" none none)) (.leaf (constNode "n" (.num 0.5))))
      (.leaf (constNode "n" (.num 0))))) :=
  eval_no_panic env _ rfl ⟨rfl, rfl, ⟨rfl, rfl, trivial, trivial⟩, trivial⟩
    ⟨⟨Safe.pure _, Safe.pure _⟩, Safe.pure _⟩

/-- The remaining fault: an operator without a right operand (malformed input, e.g. `(1+ )`). -/
theorem eval_panics_on_missing_operand (env : Env) :
    evalTree env (.node .add (.leaf (constNode "n" (.num 1))) .nil) = .error (.fault (.panic "nil.Run")) := rfl

/-! ## the whole expression language: groups, `len(…)`, `in(…)`, `regexp(…)`

The statements above are about one operator sequence over atoms.  The parser is mutually recursive
(`parseExprNode` / `readOperand` / `parseArgs`: an operand may be a parenthesised group or a function
call whose arguments are expressions again).  The following theorems are proved by induction over
its fuel, for every input string.

`Built full o` (Proofs/TagexprNoPanic.lean) is the inductive description of the operand nodes of the
language: a literal, a field reference, `groupNode (specParse first ts) …`,
`funcNode name [groupNode (specParse firstᵢ tsᵢ) none none, …] …` or
`regexpNode re neg (groupNode (specParse first ts) none none)`, where every `(first, ts)` is a token
sequence the parser can read (`SeqOK`: empty, `a op x …`, or the same with one trailing operator;
`full = true` allows the middle form only) and every operand in it is `Built full` again.
`Compiled full t` says the same of a tree: `t = specParse first ts` for such a sequence. -/

/-- `parse_eq_spec` without the restriction to atoms, one level: whatever `parseExprNode` returns for
an input string (top level, inside a group, as a function argument), `sortPriority` neither panics
nor runs out of passes on it and yields the precedence parser's tree of the token sequence that was
read from left to right. -/
theorem parse_eq_spec_expr (n : Nat) (s r : List Char) (t : Node) (h : parseExprNode n s none = .ok (t, r)) :
    liftSort t = .ok (specParse (flat t).1 (flat t).2) :=
  liftSort_parsed_flat (parseExprNode_parsed n s h)

example : (match parseExprNode 40 ['(', '1', '+', '$', ')', '*', '2', '-', '3', ' '] none with
    | .ok (.node .sub (.node .mul (.leaf _) (.leaf _)) (.leaf _), []) => true | _ => false) = true := by decide

/-- … and at every depth: the tree `parseExpr` returns is the precedence tree of a token sequence
whose operands are literals, field references, or groups / `len` / `in` / `regexp` calls holding
precedence trees of the same kind.  ("The tree built is the precedence tree", for the whole language
the parser accepts.) -/
theorem parse_builds_precedence_trees (expr : List Char) (t : Node) (h : parseExpr expr = .ok t) :
    Compiled false t :=
  parseExpr_compiled h

/-- what `Compiled` gives at the top: the documented precedence and associativity, over exactly the
token sequence -/
theorem compiled_is_precedence_tree {full : Bool} (t : Node) (h : Compiled full t) :
    IsPrecTree t ∧ ∃ first ts, flat t = (first, ts) ∧ SeqOK full first ts := by
  obtain ⟨first, ts, rfl, hs, _⟩ := h
  exact ⟨specParse_prec first ts, first, ts, specParse_tokens first ts, hs⟩

/-- `(1+$)*len('ab')>2 && in($,1,2) || regexp('^a')` compiles (non-vacuity of the two theorems above) -/
example : (match parseExpr ['(', '1', '+', '$', ')', '*', 'l', 'e', 'n', '(', '\'', 'a', 'b', '\'', ')', '>', '2',
      ' ', '&', '&', ' ', 'i', 'n', '(', '$', ',', '1', ',', '2', ')', ' ', '|', '|', ' ',
      'r', 'e', 'g', 'e', 'x', 'p', '(', '\'', '^', 'a', '\'', ')'] with
    | .ok (.node .or (.node .and (.node .gt (.node .mul _ _) _) _) _) => true | _ => false) = true := by decide

/-- The parser never panics, on any input: `sortPriority` is only ever applied to trees in which
`leftOperandToParent` finds the right operand it dereferences. -/
theorem parser_never_panics (expr : List Char) (f : Fault) : parseExpr expr ≠ .error (.fault f) :=
  parseExpr_no_fault expr f

/-- the `Run` method of every operand node of the language, for every environment: a panic can only
be the method call on a missing operand; with `full = true` (no operand missing anywhere) there is none -/
theorem built_operand_no_panic (env : Env) (o : Operand) :
    (Built false o → ∀ site, o.run env = .error (.fault (.panic site)) → site = "nil.Run") ∧
    (Built true o → NoPanic (o.run env)) :=
  ⟨fun h site hs => (built_run_safe (P := (· = "nil.Run")) (fun _ => rfl) env h).h site hs,
   fun h => noPanic_of_safe (built_run_safe (full := true) (fun h => by cases h) env h)⟩

example : Built true (groupNode (specParse (some (constNode "n" (.num 1))) (toks [(.add, selectorNode "" none none)])) none none) :=
  .group _ _ _ _ (.chain _ _) (by
    intro o ho
    simp only [seqOperands, toks, List.map_cons, List.map_nil, List.mem_cons, Option.some.injEq,
      List.not_mem_nil, or_false] at ho
    rcases ho with rfl | rfl
    · exact .const _ _
    · exact .selector _ _ _)

/-- **validate_no_panic.**  For every expression string and every environment (whatever the field
values are), if `Validator.Validate` panics, the site is the method call on a missing operand
(`Run` on a nil `ExprNode`): neither the parser, nor `sortPriority`, nor an operator, nor `len`, `in`,
`regexp` panics. -/
theorem validate_no_panic (env : Env) (expr : List Char) (site : String)
    (h : (validate expr env).1 = .panic site) : site = "nil.Run" :=
  validate_panic_site expr env site h

/-- the hypothesis is satisfiable: `(1+ )*2` does panic there -/
example : (match (validate ['(', '1', '+', ' ', ')', '*', '2'] { cur := "A", fields := [] }).1 with
    | .panic "nil.Run" => true | _ => false) = true := by decide

/-- … and no panic at all when no operand is missing: no trailing operator, no empty group, no empty
argument.  The hypothesis is stated on the rendering of the compiled tree (the string the
correspondence check compares with the tree the real `parseExpr` built, where a missing operand is
printed `~` at every depth). -/
theorem validate_no_panic_complete (env : Env) (expr : List Char) (t : Node) (h : parseExpr expr = .ok t)
    (hc : ¬ ShowsMissing (shapeOf t)) (site : String) : (validate expr env).1 ≠ .panic site :=
  validate_no_panic_of_compiled expr env t h (compiled_complete (parseExpr_compiled h) hc) site

/-- non-vacuity: `(1+$)*len('ab')>2 && in($,1,2)` has no missing operand … -/
example : (match parseExpr ['(', '1', '+', '$', ')', '*', 'l', 'e', 'n', '(', '\'', 'a', 'b', '\'', ')', '>', '2',
      ' ', '&', '&', ' ', 'i', 'n', '(', '$', ',', '1', ',', '2', ')'] with
    | .ok t => decide (¬ ShowsMissing (shapeOf t)) | _ => false) = true := by decide

/-- … and the excluded inputs are the three kinds named: `(1+ )*2`, `()`, `len(1, )` -/
example : [['(', '1', '+', ' ', ')', '*', '2'], ['(', ')'], ['l', 'e', 'n', '(', '1', ',', ' ', ')']].all
    (fun e => match parseExpr e with | .ok t => decide (ShowsMissing (shapeOf t)) | _ => false) = true := by decide

/-- the same with the hypothesis in structural form -/
theorem validate_no_panic_compiled (env : Env) (expr : List Char) (t : Node) (h : parseExpr expr = .ok t)
    (hc : Compiled true t) (site : String) : (validate expr env).1 ≠ .panic site :=
  validate_no_panic_of_compiled expr env t h hc site

/-- a rendering without `~` is sufficient for the structural form (used above) -/
theorem complete_of_rendering (t : Node) (h : Compiled false t) (hc : ¬ ShowsMissing (shapeOf t)) : Compiled true t :=
  compiled_complete h hc

/-- The fuel is an artefact of the model (Go recurses on the stack); it is never the reason for an
answer: `4·|expr| + 8` steps are enough for the three mutually recursive functions on every input. -/
theorem parser_fuel_suffices (expr : List Char) : parseExpr expr ≠ .error .fuel :=
  parseExpr_fuel expr

/-- So the model's parser has exactly three outcomes on any string: a compiled tree as described
above, a syntax error (`parseExpr` returns an error), or a construct outside the modelled subset
(named; the driver then has no opinion).  No panic, no exhausted fuel. -/
theorem parser_outcomes (expr : List Char) :
    (∃ t, parseExpr expr = .ok t ∧ Compiled false t) ∨ parseExpr expr = .error .syntax ∨
    (∃ w, parseExpr expr = .error (.unsupported w)) := by
  cases h : parseExpr expr with
  | ok t => exact .inl ⟨t, rfl, parseExpr_compiled h⟩
  | error e =>
    match e, h with
    | .syntax, _ => exact .inr (.inl rfl)
    | .unsupported w, _ => exact .inr (.inr ⟨w, rfl⟩)
    | .fuel, h => exact absurd h (parseExpr_fuel expr)
    | .fault f, h => exact absurd h (parseExpr_no_fault expr f)

/-- all three occur: `1 + 2`, `1 + )`, `$[0]` -/
example : (match parseExpr ['1', ' ', '+', ' ', '2'], parseExpr ['1', ' ', '+', ' ', ')'], parseExpr ['$', '[', '0', ']'] with
    | .ok _, .error .syntax, .error (.unsupported _) => true | _, _, _ => false) = true := by decide

/-! ## one compiled expression, many values: sequences, caches, concurrent evaluations

The binder compiles the expression of a struct type once (`tagexpr.VM`, keyed by the type) and every
later validation of that type, from whichever request goroutine, evaluates the same compiled tree.
The property speaks of one value and one expression; these theorems say that nothing else enters. -/

/-- **verdict_independent_of_batch.**  Compiling once and evaluating for many values gives every
value the verdict it gets alone: no value's verdict depends on which other values of the type are
validated, or in which order. -/
theorem verdict_independent_of_batch (expr : List Char) (envs : List Env) :
    validateShared expr envs = envs.map (validate expr) :=
  validateShared_eq expr envs

/-- non-vacuity: `in($,'a','b')` on `"a"`, `"z"`, `"b"` - accepted, rejected, accepted -/
example : (validateShared ['i', 'n', '(', '$', ',', '\'', 'a', '\'', ',', '\'', 'b', '\'', ')']
      [{ cur := "A", fields := [("A", .str "a")] }, { cur := "A", fields := [("A", .str "z")] },
       { cur := "A", fields := [("A", .str "b")] }]).map
    (fun r => match r.1 with | .accept => 1 | .reject => 2 | _ => 0) = [1, 2, 1] := by decide

/-- **verdict_independent_of_history.**  Through the validator's per-type cache: whatever sequence of
values of whatever struct types has been validated before on the same validator, each `Validate`
answers what a fresh compilation of that type's expression answers for that value. -/
theorem verdict_independent_of_history (exprOf : Nat → List Char) (steps : List (Nat × Env)) :
    session exprOf [] steps = steps.map (fun s => validate (exprOf s.1) s.2) :=
  session_eq exprOf steps [] (Cache.sound_nil exprOf)

/-- non-vacuity: two types (`$=='a'`, `len($)==len('')`), four validations, hits and misses -/
example : (session (fun ty => if ty == 0 then ['$', '=', '=', '\'', 'a', '\''] else ['$', '=', '=', '\'', '\''])
      [] [(0, { cur := "A", fields := [("A", .str "a")] }), (1, { cur := "A", fields := [("A", .str "a")] }),
          (0, { cur := "A", fields := [("A", .str "")] }), (1, { cur := "A", fields := [("A", .str "")] })]).map
    (fun r => match r.1 with | .accept => 1 | .reject => 2 | _ => 0) = [1, 2, 2, 1] := by decide

/-- `Func.step` follows `(*funcExprNode).Run` as it is written now: the argument buffer is a local of
`Run`, allocated by that call (`make` inside the body), filled argument by argument, then handed to
the function body; and the compiled node, which all evaluations of the struct type share, has no
field other than the parsed arguments, the function and the two prefix flags - nothing an
evaluation could leave behind in it. -/
theorem func_run_source_matches_gen :
    Gen.Prio.funcNodeFields = ["exprBackground", "args []ExprNode", "fn func(...interface{}) interface{}",
      "boolOpposite *bool", "signOpposite *bool"] ∧
    Gen.Prio.funcRunBody = "{ var args []interface{} if n := len(f.args); n > 0 { args = make([]interface{}, n) for k, v := range f.args { args[k] = v.Run(ctx, currField, tagExpr) } } return realValue(f.fn(args...), f.boolOpposite, f.signOpposite) }" :=
  ⟨rfl, rfl⟩

/-- **func_eval_schedule_independent.**  `funcExprNode.Run` (behind `len`, `in` and every registered
function) taken in the steps the Go code takes - a fresh argument buffer, one argument per step, then
the function body - and executed for several values at once on the same node under ANY schedule:
an evaluation that has a result has the result of the undisturbed evaluation of its own value. -/
theorem func_eval_schedule_independent (name : String) (args : List Operand) (bo so : Option Bool)
    (envs : List Env) (sched : List Nat) (i : Nat) (env : Env) (t : Func.Thread (EvalM Val) (EvalM Val)) (r : EvalM Val)
    (h : (Func.run (args.map (fun (a : Operand) => a.run)) (funcBody name bo so) (Func.start envs) sched)[i]? = some (env, t))
    (hr : t.res = some r) :
    envs[i]? = some env ∧ r = (funcNode name args bo so).run env := by
  have := Func.run_private _ _ envs sched i env t r h hr
  exact ⟨this.1, by rw [funcNode_run_eq_seq]; exact this.2⟩

/-- … and every evaluation gets there once it has been given one step per argument and one more. -/
theorem func_eval_completes (name : String) (args : List Operand) (bo so : Option Bool)
    (envs : List Env) (sched : List Nat) (i : Nat) (env : Env) (he : envs[i]? = some env)
    (hc : args.length < sched.count i) :
    ((Func.run (args.map (fun (a : Operand) => a.run)) (funcBody name bo so) (Func.start envs) sched)[i]?).bind (fun p => p.2.res)
      = some ((funcNode name args bo so).run env) := by
  have := Func.run_completes (args.map (fun (a : Operand) => a.run)) (funcBody name bo so) envs sched i env he
    (by simpa using hc)
  rw [this, funcNode_run_eq_seq]
  rfl

/-- non-vacuity: `in($,'a','b')` for `"a"` and `"z"`, the second evaluation running entirely inside
the first one: both finish with their own answer -/
example : ((Func.run ([selectorNode "" none none, constNode "s" (.str "a"), constNode "s" (.str "b")].map (fun (a : Operand) => a.run))
      (funcBody "in" none none)
      (Func.start [{ cur := "A", fields := [("A", .str "a")] }, { cur := "A", fields := [("A", .str "z")] }])
      [0, 0, 1, 1, 1, 1, 0, 0]).map
    (fun p => match p.2.res with | some (.ok (.bool true)) => 1 | some (.ok (.bool false)) => 2 | _ => 0)) = [1, 2] := by decide

/-- The hypothesis that matters is that the argument buffer belongs to the evaluation.  With one
buffer owned by the node (allocated when the expression is compiled, i.e. shared by all
evaluations of the cached tree) the statement is false: on the same schedule the evaluation of
`in(x,1,2)` for `x = 1` answers for the other evaluation's `x = 9`. -/
theorem node_owned_buffer_fails_at :
    ¬ (∀ sched : List Nat,
        ∀ p ∈ (Func.runShared Func.demoArgs Func.demoIn { buf := [0, 0, 0], ts := [(1, {}), (9, {})] } sched).ts,
          ∀ r, p.2.res = some r → r = Func.seq Func.demoArgs Func.demoIn p.1) := by
  intro h
  have h1 := Func.runShared_fails_at
  have hm : (1, ({ pc := 3, res := some false } : Func.SThread Bool)) ∈
      (Func.runShared Func.demoArgs Func.demoIn { buf := [0, 0, 0], ts := [(1, {}), (9, {})] } Func.demoSched).ts := by decide
  have := h Func.demoSched _ hm false rfl
  rw [h1.2] at this
  cases this

/-
TODO-OPEN
  Closed in this round: `validate_no_panic` (both halves: `validate_no_panic` for every expression,
  `validate_no_panic_complete` / `validate_no_panic_compiled` when no operand is missing),
  `parse_eq_spec` lifted to the whole language (`parse_eq_spec_expr`, `parse_builds_precedence_trees`,
  `compiled_is_precedence_tree`), the parser never panics (`parser_never_panics`) and never runs out of
  fuel (`parser_fuel_suffices`, `parser_outcomes`).
  What remains open:
  * `ShowsMissing` (hypothesis of `validate_no_panic_complete`) is stated on the rendering of the
    compiled tree, i.e. on the parser's output, not on the input string: a purely lexical
    characterisation of "no trailing operator, no empty group, no empty argument" that does not
    mention the parser is not given (it would have to re-do the bracket/quote matching of
    `readPairedSymbol`).
  * The token sequence in `parse_eq_spec_expr` is the one `parseExprNode` itself read (`flat` of the
    chain it returned); that the lexer's cut points are the documented ones (delimiter sets of the
    operand regexps) is compared with the real code on every case, not specified independently.
  * Concurrent evaluation of the shared compiled tree is modelled in steps for function-call nodes only
    (`Func.run`); operator, group, selector and regexp nodes are atomic and stateless in the model, and
    `tagexpr.VM`'s locking around the per-type cache is not modelled (`session` is sequential).  That those
    nodes keep no per-evaluation state is checked by the interleaved (`vdm step`, scheduling points
    `vdpt()`/`vdid(…)`) and parallel (`vdm par`/`cold`) runs against the real code, not proved; only
    `funcExprNode` is pinned to the source (`func_run_source_matches_gen`).
  * float64 arithmetic, `strconv`/`fmt` conversions and `regexp` stay compared, not proved (`Float` is
    opaque to the kernel); constructs outside the modelled subset (`$[…]` sub-selectors, `#` range
    keys, `sprintf`/`range`/`mblen`) answer `unsupported` and are not covered by any theorem here.
-/

end Hertz.Props.C20
