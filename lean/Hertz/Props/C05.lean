import Hertz.Proofs.HeaderWrite
/-!
# C05 — header-setting APIs cannot be used to inject lines into a message

The state of a header object is over-approximated: **every** byte-valued field (names, values,
cookie names/values/attributes, content type, server, location, trailer names and values …) is an
arbitrary byte string, so no setter is trusted.  `ReqHdr.bytes`, `RespHdr.bytes`, `trailerBytes` are
the models of `RequestHeader.AppendBytes`, `ResponseHeader.AppendBytes`, `Trailer.AppendBytes`; the
check dumps the real objects' state after arbitrary setter scripts with hostile strings and compares
the real `Header()` bytes with the model's, and the emission skeleton of the three Go functions is
regenerated into `Gen/Emit.lean` on every run.

Proved for all states:
* `request_head_lines` / `response_head_lines` / `trailer_lines`: a strict reader (CRLF lines, no
  bare CR/LF, `name ": " value`) reads the serialised bytes back as exactly one start line and exactly
  the kept fields — nothing more — followed by whatever came after;
* `kept_fields_clean`: a kept name has no CR, LF or colon, a kept value no CR or LF (table facts
  over the regenerated `NewlineToSpaceTable` / `ValidHeaderFieldNameTable`);
* `never_more_fields`: at most as many fields as were set;
* `emit_only_through_header_line`: in the current Go source every write to `dst` after the start
  line is a call of `appendHeaderLine` or the final CRLF (so a new raw `append` breaks this proof).

The start line is outside the property's list (method and request-URI are not header APIs):
hypothesis `NoCRLF` on it.
-/
namespace Hertz.Props.C05
open Hertz Hertz.HW Hertz.Gen.Str Hertz.Spec.Head

def NoCRLF (b : Bytes) : Prop := ∀ x ∈ b, x ≠ 13 ∧ x ≠ 10

theorem request_head_lines (r : ReqHdr) (rest : Bytes) (h : NoCRLF r.startLine) :
    parseHead (r.bytes ++ rest) = some (r.startLine, kept r.fields, rest) := by
  unfold ReqHdr.bytes
  have := parseHead_block r.startLine r.fields rest h
  simpa [List.append_assoc] using this

theorem response_head_lines (r : RespHdr) (rest : Bytes) (h : NoCRLF r.statusLine) :
    parseHead (r.bytes ++ rest) = some (r.statusLine, kept r.fields, rest) := by
  unfold RespHdr.bytes
  have := parseHead_block r.statusLine r.fields rest h
  simpa [List.append_assoc] using this

theorem trailer_lines (t : List (Bytes × Bytes)) (rest : Bytes) :
    fields ((kept t).length + 1) (trailerBytes t ++ rest) = some (kept t, rest) :=
  fields_block t rest _ (Nat.lt_succ_self _)

theorem kept_fields_clean (fs : List (Bytes × Bytes)) :
    ∀ kv ∈ kept fs, (∀ x ∈ kv.1, x ≠ 13 ∧ x ≠ 10 ∧ x ≠ 58) ∧ (∀ x ∈ kv.2, x ≠ 13 ∧ x ≠ 10) := by
  intro kv hkv
  simp only [kept, List.mem_map, List.mem_filter] at hkv
  obtain ⟨a, ⟨_, hv⟩, rfl⟩ := hkv
  exact ⟨validName_clean a.1 hv, newlineToSpace_clean a.2⟩

theorem never_more_fields (fs : List (Bytes × Bytes)) : (kept fs).length ≤ fs.length := kept_length_le fs

open Hertz.Gen.Emit in
/-- In the Go source as it is now, the only raw writes are the start line and the closing CRLF. -/
theorem emit_only_through_header_line :
    requestHeader.filter (fun i => match i with | .line _ _ => false | _ => true) =
      [.raw "h.Method()", .raw "' '", .raw "h.RequestURI()", .raw "' '", .raw "bytestr.StrHTTP11", .raw "bytestr.StrCRLF",
       .raw "bytestr.StrCRLF"] ∧
    responseHeader.filter (fun i => match i with | .line _ _ => false | _ => true) =
      [.raw "consts.StatusLine(statusCode)", .raw "bytestr.StrCRLF"] ∧
    trailer.filter (fun i => match i with | .line _ _ => false | _ => true) = [.raw "bytestr.StrCRLF"] ∧
    Gen.Emit.headerLine = [.raw "key", .raw "bytestr.StrColonSpace", .raw "newlineToSpace(value)", .raw "bytestr.StrCRLF"] := by
  decide

/-- non-vacuity: `SetCookie("a", "b\r\nX: 1")`-like state: one Cookie line, CR/LF neutralised. -/
example : kept [(strCookie, [97, 61, 98, 13, 10, 88, 58, 32, 49])] = [(strCookie, [97, 61, 98, 32, 32, 88, 58, 32, 49])] := by
  decide +kernel

example : kept [([88, 13, 10, 89], [118])] = [] := by decide +kernel

end Hertz.Props.C05
