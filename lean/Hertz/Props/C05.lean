import Hertz.Proofs.HeaderWrite
import Hertz.Proofs.HeaderApi
/-!
# C05 — header-setting APIs cannot be used to inject lines into a message

The state of a header object is over-approximated: **every** byte-valued field (names, values,
cookie names/values/attributes, content type, server, location, trailer names and values …) is an
arbitrary byte string, so no setter is trusted.  `ReqHdr.bytes`, `RespHdr.bytes`, `trailerBytes` are
the models of `RequestHeader.AppendBytes`, `ResponseHeader.AppendBytes`, `Trailer.AppendBytes`; the
check dumps the real objects' state after arbitrary setter scripts with hostile strings and compares
the real `Header()` bytes with the model's, and the emission skeleton of the three Go functions is
regenerated into `Gen/Emit.lean` on every run.

Proved for all states:
* `request_head_lines` / `response_head_lines` / `trailer_lines`: a strict reader (CRLF lines, no
  bare CR/LF, `name ": " value`) reads the serialised bytes back as exactly one start line and exactly
  the kept fields — nothing more — followed by whatever came after;
* `kept_fields_clean`: a kept name has no CR, LF or colon, a kept value no CR or LF (table facts
  over the regenerated `NewlineToSpaceTable` / `ValidHeaderFieldNameTable`);
* `never_more_fields`: at most as many fields as were set;
* `emit_only_through_header_line`: in the current Go source every write to `dst` after the start
  line is a call of `appendHeaderLine` or the final CRLF (so a new raw `append` breaks this proof).

The request line: since /repo 910b0dd method and request URI go through `appendRequestLinePart` (SP, CR, LF percent-encoded),
so it is free of CR/LF for EVERY state (`HW.startLine_clean`) and `request_head_lines` needs no hypothesis any more.  The response
status line (`consts.StatusLine`) stays a hypothesis `NoCRLF`.
-/
namespace Hertz.Props.C05
open Hertz Hertz.HW Hertz.Gen.Str Hertz.Spec.Head

def NoCRLF (b : Bytes) : Prop := ∀ x ∈ b, x ≠ 13 ∧ x ≠ 10

theorem request_head_lines (r : ReqHdr) (rest : Bytes) :
    parseHead (r.bytes ++ rest) = some (r.startLine, kept r.fields, rest) := by
  unfold ReqHdr.bytes
  have := parseHead_block r.startLine r.fields rest (startLine_clean r)
  simpa [List.append_assoc] using this

theorem response_head_lines (r : RespHdr) (rest : Bytes) (h : NoCRLF r.statusLine) :
    parseHead (r.bytes ++ rest) = some (r.statusLine, kept r.fields, rest) := by
  unfold RespHdr.bytes
  have := parseHead_block r.statusLine r.fields rest h
  simpa [List.append_assoc] using this

theorem trailer_lines (t : List (Bytes × Bytes)) (rest : Bytes) :
    fields ((kept t).length + 1) (trailerBytes t ++ rest) = some (kept t, rest) :=
  fields_block t rest _ (Nat.lt_succ_self _)

theorem kept_fields_clean (fs : List (Bytes × Bytes)) :
    ∀ kv ∈ kept fs, (∀ x ∈ kv.1, x ≠ 13 ∧ x ≠ 10 ∧ x ≠ 58) ∧ (∀ x ∈ kv.2, x ≠ 13 ∧ x ≠ 10) := by
  intro kv hkv
  simp only [kept, List.mem_map, List.mem_filter] at hkv
  obtain ⟨a, ⟨_, hv⟩, rfl⟩ := hkv
  exact ⟨validName_clean a.1 hv, newlineToSpace_clean a.2⟩

theorem never_more_fields (fs : List (Bytes × Bytes)) : (kept fs).length ≤ fs.length := kept_length_le fs

open Hertz.Gen.Emit in
/-- In the Go source as it is now, the only raw writes are the start line and the closing CRLF. -/
theorem emit_only_through_header_line :
    requestHeader.filter (fun i => match i with | .line _ _ => false | _ => true) =
      [.call "appendRequestLinePart", .raw "' '", .call "appendRequestLinePart", .raw "' '", .raw "bytestr.StrHTTP11",
       .raw "bytestr.StrCRLF", .raw "bytestr.StrCRLF"] ∧
    responseHeader.filter (fun i => match i with | .line _ _ => false | _ => true) =
      [.raw "consts.StatusLine(statusCode)", .raw "bytestr.StrCRLF"] ∧
    trailer.filter (fun i => match i with | .line _ _ => false | _ => true) = [.raw "bytestr.StrCRLF"] ∧
    Gen.Emit.headerLine = [.raw "key", .raw "bytestr.StrColonSpace", .raw "newlineToSpace(value)", .raw "bytestr.StrCRLF"] ∧
    -- /repo 910b0dd: method and request target go through `appendRequestLinePart`, which writes the clean prefix, `%XX`, or the byte
    Gen.Emit.requestLinePart = [.raw "part[:i]", .raw "'%', upperhex[c>>4], upperhex[c&15]", .raw "c"] := by
  decide

/-- non-vacuity: `SetCookie("a", "b\r\nX: 1")`-like state: one Cookie line, CR/LF neutralised. -/
example : kept [(strCookie, [97, 61, 98, 13, 10, 88, 58, 32, 49])] = [(strCookie, [97, 61, 98, 32, 32, 88, 58, 32, 49])] := by
  decide +kernel

example : kept [([88, 13, 10, 89], [118])] = [] := by decide +kernel

/-!
## Extension X05: from API CALLS to the wire

`Model/HeaderApi.lean` models the public mutators (`Set`, `Add`, `SetCanonical`, `Del`, the special-name dispatch
`setSpecialHeader`, key normalisation on/off, `SetCookie`/`DelCookie`, `Trailer().Set/Add`, `SetContentLength`, `SetMethod`,
`SetRequestURI`, … and `RequestContext.Header/Redirect/SetCookie/SetContentType`, `Cookie.AppendBytes`) as functions on the
state; a program is a list of calls on the zero object.  The check replays every generated program on the real objects and
compares the state after EVERY call and the final bytes.

TODO-OPEN (kept as per-case checks in `Driver/C05Api.lean`): an `expectedFields` that
does not go through the state machine (a second, list-of-fields semantics of the calls).  (The request line is closed since
/repo 910b0dd: `request_line_single` holds for every input.)
-/
open Hertz.HA

instance (b : Bytes) : Decidable (NoCRLF b) := inferInstanceAs (Decidable (∀ x ∈ b, x ≠ 13 ∧ x ≠ 10))

/-- For EVERY program of request-header API calls with arbitrary byte arguments: the serialised head, read by the strict
line splitter, is exactly one start line plus one line per field of `expectedReqFields program`, then `rest` untouched.
(The start line itself: `request_line_single_*` below.) -/
theorem api_program_head_lines (p : List ReqCall) (rest : Bytes) :
    parseHead (reqWire p ++ rest) = some (reqStartLine p, expectedReqFields p, rest) :=
  request_head_lines _ rest

/-- the same for every program of response-header / `RequestContext` calls; `sl` = `consts.StatusLine`, `date` = the server date -/
theorem api_program_head_lines_resp (sl : Int → Bytes) (date : Bytes) (p : List RespCall) (rest : Bytes)
    (h : NoCRLF (sl (runResp p).status)) :
    parseHead (respWire sl date p ++ rest) = some (sl (runResp p).status, expectedRespFields sl date p, rest) :=
  response_head_lines _ rest h

/-- no CR, LF (or colon in a name) inside any of these lines -/
theorem api_program_lines_clean (p : List ReqCall) :
    ∀ kv ∈ expectedReqFields p, (∀ x ∈ kv.1, x ≠ 13 ∧ x ≠ 10 ∧ x ≠ 58) ∧ (∀ x ∈ kv.2, x ≠ 13 ∧ x ≠ 10) :=
  kept_fields_clean _

theorem api_program_lines_clean_resp (sl : Int → Bytes) (date : Bytes) (p : List RespCall) :
    ∀ kv ∈ expectedRespFields sl date p, (∀ x ∈ kv.1, x ≠ 13 ∧ x ≠ 10 ∧ x ≠ 58) ∧ (∀ x ∈ kv.2, x ≠ 13 ∧ x ≠ 10) :=
  kept_fields_clean _

/-- every field name on the wire is one of the fixed special names or a key some call of the program passed (as given, or
normalised by `NormalizeHeaderKey`) -/
theorem fields_only_from_calls (p : List ReqCall) :
    ∀ kv ∈ expectedReqFields p, kv.1 ∈ reqFixedNames ∨ ∃ c ∈ p, kv.1 ∈ reqCallKeys c :=
  req_fields_only_from_calls p

theorem fields_only_from_calls_resp (sl : Int → Bytes) (date : Bytes) (p : List RespCall) :
    ∀ kv ∈ expectedRespFields sl date p, kv.1 ∈ respFixedNames ∨ ∃ c ∈ p, kv.1 ∈ respCallKeys c :=
  resp_fields_only_from_calls sl date p

/-- never more fields than calls: each call adds at most one entry (`h`, or a response cookie); besides these the serialisers
write at most seven lines (User-Agent, Host, Content-Type, Content-Length, Trailer, Cookie, Connection / Server, Date,
Content-Type, Content-Encoding, Content-Length, Trailer, Connection) -/
theorem never_more_fields_than_calls (p : List ReqCall) : (expectedReqFields p).length ≤ p.length + 7 :=
  req_fields_count p

theorem never_more_fields_than_calls_resp (sl : Int → Bytes) (date : Bytes) (p : List RespCall) :
    (expectedRespFields sl date p).length ≤ p.length + 7 :=
  resp_fields_count sl date p

/-- the trailer block written after a chunked body, for the trailer object reached by any program (`Trailer().Set/Add`,
`Set("Trailer", …)`): reads back as exactly the kept trailer fields -/
theorem api_program_trailer_lines (p : List ReqCall) (rest : Bytes) :
    fields ((kept (runReq p).trailer).length + 1) (trailerBytes (runReq p).trailer ++ rest) = some (kept (runReq p).trailer, rest) :=
  trailer_lines _ rest

/-- method and request URI of the request line are the defaults or the argument of a `SetMethod` / `SetRequestURI` call of
the program: no other header API can touch the request line -/
theorem request_line_only_from_setters (p : List ReqCall) :
    reqStartLine p = requestLine (runReq p).method (runReq p).uri ∧
    ((runReq p).method = [] ∨ ReqCall.setMethod (runReq p).method ∈ p) ∧
    ((runReq p).uri = [] ∨ ReqCall.setRequestURI (runReq p).uri ∈ p) :=
  ⟨rfl, runReqFrom_line p p {} (fun _ h => h) (Or.inl rfl) (Or.inl rfl)⟩

/-- FULL strength (since /repo 910b0dd): for every program - every method and request-URI bytes - the request line has
exactly two SP and no CR/LF -/
theorem request_line_single (p : List ReqCall) :
    (reqStartLine p).count 32 = 2 ∧ NoCRLF (reqStartLine p) :=
  requestLine_single _ _

/-- regression on the former witness `SetMethod("GET /x HTTP/1.1\r\nX:")` (was `request_line_single_fails_at`): one line,
`GET%20/x%20HTTP/1.1%0D%0AX: / HTTP/1.1` -/
theorem request_line_single_repaired :
    reqStartLine [.setMethod [71, 69, 84, 32, 47, 120, 32, 72, 84, 84, 80, 47, 49, 46, 49, 13, 10, 88, 58]] =
      [71, 69, 84, 37, 50, 48, 47, 120, 37, 50, 48, 72, 84, 84, 80, 47, 49, 46, 49, 37, 48, 68, 37, 48, 65, 88, 58,
       32, 47, 32, 72, 84, 84, 80, 47, 49, 46, 49] := by
  decide +kernel

/-- regression on `SetRequestURI("/a\r\nX: 1")` (was `request_line_single_fails_at_uri`): `GET /a%0D%0AX:%201 HTTP/1.1` -/
theorem request_line_single_repaired_uri :
    reqStartLine [.setRequestURI [47, 97, 13, 10, 88, 58, 32, 49]] =
      [71, 69, 84, 32, 47, 97, 37, 48, 68, 37, 48, 65, 88, 58, 37, 50, 48, 49, 32, 72, 84, 84, 80, 47, 49, 46, 49] := by
  decide +kernel

/-- what the repair changes, exactly: a part of the request line is written unchanged iff it has no SP, CR, LF (restatement
of the former `request_line_single_exactly`); otherwise the three bytes appear as `%20`, `%0D`, `%0A` -/
theorem request_line_part_unchanged_iff (part : Bytes) : reqLinePart part = part ↔ Clean3 part :=
  reqLinePart_unchanged_iff part

/-- `URI.RequestURI()` itself still copies two parts verbatim: the quoted path and the serialised query arguments never contain
SP, CR, LF; `PathOriginal` under `DisablePathNormalizing` and the query string while `QueryArgs()` has not been used may -/
theorem request_target_partial (u : Target) (hp : u.disablePathNormalizing = true → Clean3 u.pathOriginal)
    (hq : u.parsedQueryArgs = false → Clean3 u.queryString) : Clean3 u.requestURI :=
  target_clean3 u hp hq

/-- … but the request line `req.Write` writes from it (method, `URI.RequestURI()`) is well formed for EVERY method and URI state -/
theorem request_line_written (m : Bytes) (u : Target) :
    (requestLine m u.requestURI).count 32 = 2 ∧ NoCRLF (requestLine m u.requestURI) :=
  requestLine_single _ _

/-- regression on `URI.SetQueryString("a\r\nb")` (was `request_target_fails_at`): the line break is written `%0D%0A` -/
theorem request_target_repaired :
    requestLine [] (Target.requestURI { path := [47, 97], queryString := [97, 13, 10, 98] }) =
      [71, 69, 84, 32, 47, 97, 63, 97, 37, 48, 68, 37, 48, 65, 98, 32, 72, 84, 84, 80, 47, 49, 46, 49] := by
  decide +kernel

/-- `Cookie.AppendBytes` with arbitrary key, value, domain, path, expiry and flags: the `Set-Cookie` line is ONE line of the
strict splitter, its content the cookie bytes with CR/LF turned into SP -/
theorem cookie_line_clean (c : Uri.CookieE) (rest : Bytes) :
    crlfLine (headerLine (strSetCookie, Uri.appendCookieE c) ++ rest) =
      some (strSetCookie ++ strColonSpace ++ newlineToSpace (Uri.appendCookieE c), rest) ∧
    NoCRLF (strSetCookie ++ strColonSpace ++ newlineToSpace (Uri.appendCookieE c)) := by
  refine ⟨setCookie_line c rest, ?_⟩
  have hname : ∀ x ∈ strSetCookie ++ strColonSpace, x ≠ 13 ∧ x ≠ 10 := by decide
  intro x hx
  rcases List.mem_append.mp hx with h | h
  · exact hname x h
  · exact newlineToSpace_clean _ x h

/-- non-vacuity: `Add("conNECTion", "x\r\ny")`, `Set("x-a", "1")`, `SetCookie("a", "b\r\nX: 1")`: three fields, the raw
`Add` key kept (the special-header path does not normalise), CR/LF neutralised -/
example : expectedReqFields [.add [99, 111, 110, 78, 69, 67, 84, 105, 111, 110] [120, 13, 10, 121], .set [120, 45, 97] [49],
                            .setCookie [97] [98, 13, 10, 88, 58, 32, 49]] =
    [([99, 111, 110, 78, 69, 67, 84, 105, 111, 110], [120, 32, 32, 121]), ([88, 45, 65], [49]),
     (strCookie, [97, 61, 98, 32, 32, 88, 58, 32, 49])] := by
  decide +kernel

/-- non-vacuity: `Set("X\r\nY", "v")` is dropped, `Redirect(302, "/a\r\nX: 1")` gives one Location line -/
example : expectedRespFields (fun _ => [72]) [68] [.set [88, 13, 10, 89] [118], .setNoDefaultDate true, .ctxRedirect 302 [47, 97, 13, 10, 88, 58, 32, 49]] =
    [(strLocation, [47, 97, 32, 32, 88, 58, 32, 49])] := by
  decide +kernel

example : (reqStartLine [.setMethod [80, 85, 84], .setRequestURI [47, 120]]).count 32 = 2 := by decide +kernel

/-- non-vacuity of the count bound: one call, two fields (the default Content-Type of a POST) -/
example : (expectedReqFields [.setMethod [80, 79, 83, 84], .set [88] [49]]).length = 2 := by decide +kernel

/-- non-vacuity: `Trailer().Set("Content-Length", "1")` is refused, `Trailer().Add("x-t", "a\r\nb")` kept and neutralised -/
example : kept (runReq [.trailerSet strContentLength [49], .trailerAdd [120, 45, 116] [97, 13, 10, 98]]).trailer = [([88, 45, 84], [97, 32, 32, 98])] := by
  decide +kernel

example : Clean3 (Target.requestURI { path := [47, 97, 32, 13], parsedQueryArgs := true,
                                      queryArgs := [{ key := [107, 13, 10], value := [32], noValue := false }] }) := by
  decide +kernel

end Hertz.Props.C05
