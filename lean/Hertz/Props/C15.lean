import Hertz.Proofs.Bind
import Hertz.Spec.Bind
/-!
# C15 — Binding fills each field from the highest-priority source that carries it

Statements are about the model `Hertz.Bind` (Model/Bind.lean), which mirrors
`decoder/{tag,getter,slice_getter,base_type_decoder,slice_type_decoder,text_decoder,decoder}.go` and
`binding/default.go` and is compared with the real `binding.Bind` on run-time generated struct types on
every run of the check.  The decoder-level theorems quantify over ALL tag lists (not only those
`lookupFieldTags` can produce), all requests, all field types; no size bounds.

Vocabulary (Proofs/Bind.lean): `t.isText` = the tag is consulted as a text source (not named `-`, not
json); `textPresent r t` / `textsPresent r t` = the getter of its source finds the key (single value /
at least one value for a slice); `jsonCarries r t` = JSON content type (case-insensitive) and the body has
the tag's name; `NoneCarries r tis` = no consulted tag of `tis` finds anything; `t.effective` = the tag
takes part in the loop (json, or not named `-`).

Known deviations of the code from the property as stated are kept as `…_fails_at` witnesses (checked
by `decide` here and replayed against the Go code by the harness) next to the `…_partial` theorem:
* `default_kept_fails_at`   — all source tags named `-`: the declared default is dropped.
Fixed defects have positive regression theorems: `f12_regression`, `ct_case_regression`, `slice_header_regression`.
-/
namespace Hertz.Props.C15
open Hertz Hertz.Bind

/-! ## the priority list is the documented one (regenerated from decoder/tag.go on every run) -/

/-- `lookupFieldTags` and `getDefaultFieldTags` enumerate the sources in the documented order
path, form, query, cookie, header, json (then raw_body / file_name, outside this property). -/
theorem priority_matches_documented :
    Gen.Bind.lookupFieldTagsOrder = ["path", "form", "query", "cookie", "header", "json", "raw_body", "file_name"] ∧
    Gen.Bind.defaultFieldTagsOrder = ["path", "form", "query", "cookie", "header", "json", "file_name"] ∧
    lookupOrder = Spec.Bind.priority ∧ defaultOrder = Spec.Bind.priority := by decide

def allBases : List Base :=
  [.bool, .str, .int 0, .int 8, .int 16, .int 32, .int 64, .uint 0, .uint 8, .uint 16, .uint 32, .uint 64, .float 32, .float 64]

/-- the hand-written facts of the model agree with the Go source as it is now: decoder and `bitSize`
per kind (`SelectTextDecoder`), base 10 in `ParseInt`/`ParseUint`, the getter installed per tag, and the
same getter table in both field decoders -/
theorem model_matches_gen :
    (∀ b ∈ allBases, Gen.Bind.selectTextDecoder.lookup b.kindName = some b.decoder) ∧
    Gen.Bind.strconvCalls = [("boolDecoder", "ParseBool", 0), ("floatDecoder", "ParseFloat", 0),
                             ("intDecoder", "ParseInt", 10), ("uintDecoder", "ParseUint", 10)] ∧
    Gen.Bind.baseGetters.take 6 = [("path", "path", "pathSlice"), ("form", "postForm", "postFormSlice"),
      ("query", "query", "querySlice"), ("cookie", "cookie", "cookieSlice"), ("header", "header", "headerSlice"), ("json", "", "")] ∧
    Gen.Bind.sliceGetters = Gen.Bind.baseGetters := by decide

/-- whatever the order of the tags inside the struct tag, the decoder sees them in priority order -/
theorem tags_in_priority_order (f : Field) :
    ((fieldTagInfos f).map (·.key)).Sublist [.path, .form, .query, .cookie, .header, .json] := by
  have h := fieldTagInfos_sorted f
  have e : lookupOrder = [.path, .form, .query, .cookie, .header, .json] := by decide
  rwa [e] at h

/-- all tags of a field carry the field's declared default -/
theorem tags_share_default (f : Field) : ∀ t ∈ fieldTagInfos f, t.dflt = f.dflt.getD [] :=
  fieldTagInfos_dflt f

/-! ## picks_first_present -/

/-- **Scalars.** If `ti` is the first consulted text tag of the list whose source carries its key, the
field is decoded from exactly that text (the declared default standing in for an empty text), by Go's
text rules for the field's kind; `required` errors of earlier tags are cleared, later tags (json
included) are not consulted. -/
theorem picks_first_present (r : Req) (ty : Ty) (pre : List TagInfo) (ti : TagInfo) (post : List TagInfo)
    (prev : FieldVal) (hpre : ∀ t ∈ pre, t.isText → textPresent r t = false)
    (hti : ti.isText) (hg : textPresent r ti = true) :
    decodeBase r ty (pre ++ ti :: post) prev = textOutcome ty (effText ty (getter r ti.key ti.value).1 ti.dflt) :=
  decodeBase_picks_first r ty pre ti post prev hpre hti hg

/-- **Slices.** Same, with all values of the key; if element-wise conversion fails the first text is
tried as a JSON array. -/
theorem picks_first_present_slice (r : Req) (ty : Ty) (pre : List TagInfo) (ti : TagInfo) (post : List TagInfo)
    (prev : FieldVal) (t0 : Bytes) (ts : List Bytes)
    (hpre : ∀ t ∈ pre, t.isText → textsPresent r t = false)
    (hti : ti.isText) (hg : sliceGetter r ti.key ti.value = t0 :: ts) :
    decodeSlice r ty (pre ++ ti :: post) prev = textsOutcome ty prev t0 ts :=
  decodeSlice_picks_first r ty pre ti post prev t0 ts hpre hti hg

/-- **JSON is last.**  If no text tag finds anything and the json tag (last in the list, see
`tags_in_priority_order`) names a key the JSON body carries (JSON content type in any letter case), the
field keeps what the JSON pre-bind stored in it — even if an earlier tag was `required`, even if a
default is declared.  Full strength since the fix ee1271c (`keyExist` folds case like the pre-bind). -/
theorem json_value_kept (r : Req) (ty : Ty) (pre : List TagInfo) (tj : TagInfo) (prev : FieldVal)
    (hpre : ∀ t ∈ pre, t.isText → textPresent r t = false) (hprej : ∀ t ∈ pre, t.key ≠ .json)
    (hk : tj.key = .json) (he : jsonCarries r tj = true) :
    decodeBase r ty (pre ++ [tj]) prev = .ok prev :=
  decodeBase_json_last r ty pre tj prev hpre hprej hk (by rw [keyExist_eq_jsonCarries]; exact he)

def tyInt : Ty := { base := .int 0 }
def kA : Bytes := [97]
def kB : Bytes := [98]
/-- `Application/JSON` -/
def ctMixed : Bytes := [65, 112, 112, 108, 105, 99, 97, 116, 105, 111, 110, 47, 74, 83, 79, 78]

set_option maxRecDepth 100000 in
/-- regression for the fixed defect `ct-case`: field `A int` tagged `query:"a" json:"a" default:"7"`, request with
`Content-Type: Application/JSON` and body `{"a":5}`: the hypotheses of `json_value_kept` hold and the field
is 5 (the old code overwrote it with the default 7). -/
theorem ct_case_regression :
    let f : Field := { name := [65], ty := tyInt, tags := [(.query, kA), (.json, kA)], dflt := some [55] }
    let r : Req := { ct := ctMixed, body := .json [(kA, .atom (.int 5))] }
    (∀ t ∈ fieldTagInfos f, t.isText → textPresent r t = false) ∧
    (∃ t ∈ fieldTagInfos f, t.key = .json ∧ jsonCarries r t = true) ∧
    preField r f = .ok (.one (.i 5)) ∧ bindField f r = .ok (.one (.i 5)) := by decide

set_option maxRecDepth 100000 in
/-- regression for the fixed defect `slice-header-case`: `A []string` tagged `header:"x-a"`, request header
`x-a: v` (stored as `X-A`): bound to `["v"]` (the old code compared `X-A` with `x-a` byte for byte). -/
theorem slice_header_regression :
    let f : Field := { name := [65], ty := { base := .str, slice := true }, tags := [(.header, [120, 45, 97])] }
    let r : Req := { headers := [([120, 45, 97], [118])] }
    sliceGetter r .header [120, 45, 97] = [[118]] ∧ bindField f r = .ok (.many [some (.s [118])]) := by decide

/-! ## required_is_error -/

/-- **A missing required value is an error, never a silent zero** (full strength: any tag list, any
position of the required tag, optional json tags included — the F12 defect is fixed). -/
theorem required_is_error (r : Req) (ty : Ty) (tis : List TagInfo) (prev : FieldVal)
    (hn : NoneCarries r tis) (hreq : ∃ t ∈ tis, t.effective ∧ t.required = true) :
    decodeBase r ty tis prev = .err .required :=
  decodeBase_required r ty tis prev hn hreq

theorem required_is_error_slice (r : Req) (ty : Ty) (tis : List TagInfo) (prev : FieldVal)
    (hn : NoneCarriesS r tis) (hreq : ∃ t ∈ tis, t.effective ∧ t.required = true) :
    decodeSlice r ty tis prev = .err .required :=
  decodeSlice_required r ty tis prev hn hreq

set_option maxRecDepth 100000 in
/-- regression for F12: `A int` tagged `query:"a,required" json:"b"`, empty request: an error (the old code
returned nil and left 0) -/
theorem f12_regression :
    Hertz.Bind.bind [{ name := [65], ty := tyInt, tags := [(.query, kA ++ [44] ++ requiredOpt), (.json, kB)] }] {} = .err .required := by
  decide

/-! ## default_kept -/

/-- **No source carries the field, nothing is required: the field keeps what it had (zero value) or gets
its declared default**, provided at least one tag takes part in the loop. -/
theorem default_kept_partial (r : Req) (ty : Ty) (tis : List TagInfo) (prev : FieldVal) (d : Bytes)
    (hty : ty.slice = false)
    (hn : NoneCarries r tis) (hr : ∀ t ∈ tis, t.effective → t.required = false)
    (hd : ∀ t ∈ tis, t.dflt = d) (he : ∃ t ∈ tis, t.effective) :
    decodeBase r ty tis prev = defaultOutcome ty d prev :=
  decodeBase_default r ty tis prev d hty hn hr hd he

/-- slices: the default is read as JSON -/
theorem default_kept_slice_partial (r : Req) (ty : Ty) (tis : List TagInfo) (prev : FieldVal) (d : Bytes)
    (hn : NoneCarriesS r tis) (hr : ∀ t ∈ tis, t.effective → t.required = false)
    (hd : ∀ t ∈ tis, t.dflt = d) (he : ∃ t ∈ tis, t.effective) :
    decodeSlice r ty tis prev = defaultOutcomeS ty d prev :=
  decodeSlice_default r ty tis prev d hn hr hd he

set_option maxRecDepth 100000 in
/-- Without the last hypothesis the statement is FALSE of the code: `A int` tagged `query:"-" default:"7"`:
every tag is skipped, `defaultValue` is never assigned, the field stays 0.  (class `dash-only-default`) -/
theorem default_kept_fails_at :
    let f : Field := { name := [65], ty := tyInt, tags := [(.query, dash)], dflt := some [55] }
    NoneCarries {} (fieldTagInfos f) ∧ (∀ t ∈ fieldTagInfos f, t.effective → t.required = false) ∧
    (∀ t ∈ fieldTagInfos f, t.dflt = [55]) ∧
    decodeBase {} tyInt (fieldTagInfos f) .unset ≠ defaultOutcome tyInt [55] .unset := by decide

/-! ## pure_function -/

/-- **The result depends only on the type description and the request**: through any binder whose cache
was filled by `bindTag` itself, any sequence of binds of any types gives, step by step, the result of
the cache-free function `bind`. -/
theorem pure_function (b : Binder) (hb : b.WF) (ops : List (List Field × Req)) :
    b.run ops = ops.map (fun (o : List Field × Req) => Hertz.Bind.bind o.1 o.2) :=
  Binder.run_pure b hb ops

/-- a fresh binder is well-formed and every bind keeps it so: first use and later uses agree -/
theorem cache_transparent (ops : List (List Field × Req)) (t : List Field) (r : Req) :
    ((Binder.mk []).run (ops ++ [(t, r)])).getLast? = some (Hertz.Bind.bind t r) := by
  rw [Binder.run_pure _ Binder.empty_wf]; simp

theorem bind_keeps_cache_wf (b : Binder) (hb : b.WF) (t : List Field) (r : Req) :
    (b.bind t r).1 = Hertz.Bind.bind t r ∧ (b.bind t r).2.WF :=
  Binder.bind_pure b hb t r

/-! ## non-vacuity -/

def tq (req : Bool) : TagInfo := { key := .query, value := kA, jsonName := [65], required := req }
def th : TagInfo := { key := .header, value := kA, jsonName := [65] }
def tj : TagInfo := { key := .json, value := kA, jsonName := kA }
def rqH : Req := { headers := [(kA, [51])] }                                   -- header a: 3
def rqJ : Req := { ct := mimeJSON, body := .json [(kA, .atom (.int 5))] }     -- {"a":5}

set_option maxRecDepth 100000 in
/-- picks_first_present: query required but absent, header present → 3 from the header, no error -/
example : (∀ t ∈ [tq true], t.isText → textPresent rqH t = false) ∧ th.isText ∧ textPresent rqH th = true ∧
    decodeBase rqH tyInt ([tq true] ++ th :: [tj]) .unset = .ok (.one (.i 3)) := by decide

set_option maxRecDepth 100000 in
/-- picks_first_present_slice: two query values -/
example : sliceGetter { query := [(kA, [49]), (kB, [50]), (kA, [51])] } .query kA = [[49], [51]] ∧
    decodeSlice { query := [(kA, [49]), (kB, [50]), (kA, [51])] } { base := .int 8, slice := true } ([] ++ tq false :: []) .unset
      = .ok (.many [some (.i 1), some (.i 3)]) := by decide

set_option maxRecDepth 100000 in
/-- json_value_kept: required query absent, json key present → pre-bound 5 kept -/
example : jsonCarries rqJ tj = true ∧ decodeBase rqJ tyInt ([tq true] ++ [tj]) (.one (.i 5)) = .ok (.one (.i 5)) := by decide

set_option maxRecDepth 100000 in
/-- required_is_error: hypotheses hold for the F12 shape -/
example : NoneCarries {} [tq true, { tj with jsonName := kB }] ∧
    (∃ t ∈ [tq true, { tj with jsonName := kB }], t.effective ∧ t.required = true) := by decide

set_option maxRecDepth 100000 in
/-- default_kept_partial: default 7 applied -/
example : NoneCarries {} [{ tq false with dflt := [55] }] ∧
    decodeBase {} tyInt [{ tq false with dflt := [55] }] .unset = .ok (.one (.i 7)) := by decide

set_option maxRecDepth 100000 in
/-- pure_function: A, B, A through one binder -/
example :
    let a : List Field := [{ name := [65], ty := tyInt, tags := [(.header, kA)] }]
    let b : List Field := [{ name := [66], ty := { base := .str }, tags := [(.query, kA)] }]
    (Binder.mk []).run [(a, rqH), (b, rqH), (a, rqH)] = [.ok [.one (.i 3)], .ok [.unset], .ok [.one (.i 3)]] := by decide

set_option maxRecDepth 100000 in
/-- tags_in_priority_order: tags written in reverse order -/
example : (fieldTagInfos { name := [65], ty := tyInt, tags := [(.json, kA), (.header, kA), (.path, kA)] }).map (·.key)
    = [.path, .header, .json] := by decide

/-
TODO-OPEN (not proved; checked per case by the driver on the implementation's output):
  refinement of the declarative specification,
    theorem bind_refines_spec (fields : List Field) (r : Req)
        (h : ∀ f ∈ fields, Spec.Bind.fieldClass f r = "") :
        bind fields r = Spec.Bind.specBind fields r
  What is missing: (1) the equivalence of `RequestHeader.Peek`'s key normalisation with
  case-insensitive comparison (`normalizeKey a = normalizeKey b ↔ ciEq a b`, a table fact),
  (2) relating the `find?` over the documented priority list to `baseLoop` on `fieldTagInfos f`
  via `tags_in_priority_order` (the decoder-level theorems above are the per-tag-list core of it),
  (3) the JSON pre-bind (`preBindMembers` folds over case-insensitively matching members, the spec over
  exactly matching ones; equal when `clsPrebindExtra` is false).
  The per-type decoder cache of the real code (a `sync.Map`) and concurrent binds are sampled only.
-/

end Hertz.Props.C15
