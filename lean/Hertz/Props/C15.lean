import Hertz.Proofs.Bind
import Hertz.Proofs.BindRefine
import Hertz.Proofs.BindNested
import Hertz.Spec.Bind
/-!
# C15 — Binding fills each field from the highest-priority source that carries it

Statements are about the model `Hertz.Bind` (Model/Bind.lean), which mirrors
`decoder/{tag,getter,slice_getter,base_type_decoder,slice_type_decoder,text_decoder,decoder}.go` and
`binding/default.go` and is compared with the real `binding.Bind` on run-time generated struct types on
every run of the check.  The decoder-level theorems quantify over ALL tag lists (not only those
`lookupFieldTags` can produce), all requests, all field types; no size bounds.

Vocabulary (Proofs/Bind.lean): `t.isText` = the tag is consulted as a text source (not named `-`, not
json); `textPresent r t` / `textsPresent r t` = the getter of its source finds the key (single value /
at least one value for a slice); `jsonCarries r t` = JSON content type (case-insensitive) and the body has
the tag's name; `NoneCarries r tis` = no consulted tag of `tis` finds anything; `t.effective` = the tag
takes part in the loop (json, or not named `-`).

Known deviations of the code from the property as stated are kept as `…_fails_at` witnesses (checked
by `decide` here and replayed against the Go code by the harness) next to the `…_partial` theorem:
* `default_kept_fails_at`   — all source tags named `-`: the declared default is dropped.
Fixed defects have positive regression theorems: `f12_regression`, `ct_case_regression`, `slice_header_regression`.
-/
namespace Hertz.Props.C15
open Hertz Hertz.Bind

/-! ## the priority list is the documented one (regenerated from decoder/tag.go on every run) -/

/-- `lookupFieldTags` and `getDefaultFieldTags` enumerate the sources in the documented order
path, form, query, cookie, header, json (then raw_body / file_name, outside this property). -/
theorem priority_matches_documented :
    Gen.Bind.lookupFieldTagsOrder = ["path", "form", "query", "cookie", "header", "json", "raw_body", "file_name"] ∧
    Gen.Bind.defaultFieldTagsOrder = ["path", "form", "query", "cookie", "header", "json", "file_name"] ∧
    lookupOrder = Spec.Bind.priority ∧ defaultOrder = Spec.Bind.priority := by decide

def allBases : List Base :=
  [.bool, .str, .int 0, .int 8, .int 16, .int 32, .int 64, .uint 0, .uint 8, .uint 16, .uint 32, .uint 64, .float 32, .float 64]

/-- the hand-written facts of the model agree with the Go source as it is now: decoder and `bitSize`
per kind (`SelectTextDecoder`), base 10 in `ParseInt`/`ParseUint`, the getter installed per tag, and the
same getter table in both field decoders -/
theorem model_matches_gen :
    (∀ b ∈ allBases, Gen.Bind.selectTextDecoder.lookup b.kindName = some b.decoder) ∧
    Gen.Bind.strconvCalls = [("boolDecoder", "ParseBool", 0), ("floatDecoder", "ParseFloat", 0),
                             ("intDecoder", "ParseInt", 10), ("uintDecoder", "ParseUint", 10)] ∧
    Gen.Bind.baseGetters.take 6 = [("path", "path", "pathSlice"), ("form", "postForm", "postFormSlice"),
      ("query", "query", "querySlice"), ("cookie", "cookie", "cookieSlice"), ("header", "header", "headerSlice"), ("json", "", "")] ∧
    Gen.Bind.sliceGetters = Gen.Bind.baseGetters := by decide

/-- whatever the order of the tags inside the struct tag, the decoder sees them in priority order -/
theorem tags_in_priority_order (f : Field) :
    ((fieldTagInfos f).map (·.key)).Sublist [.path, .form, .query, .cookie, .header, .json] := by
  have h := fieldTagInfos_sorted f
  have e : lookupOrder = [.path, .form, .query, .cookie, .header, .json] := by decide
  rwa [e] at h

/-- all tags of a field carry the field's declared default -/
theorem tags_share_default (f : Field) : ∀ t ∈ fieldTagInfos f, t.dflt = f.dflt.getD [] :=
  fieldTagInfos_dflt f

/-! ## picks_first_present -/

/-- **Scalars.** If `ti` is the first consulted text tag of the list whose source carries its key, the
field is decoded from exactly that text (the declared default standing in for an empty text), by Go's
text rules for the field's kind; `required` errors of earlier tags are cleared, later tags (json
included) are not consulted. -/
theorem picks_first_present (r : Req) (ty : Ty) (pre : List TagInfo) (ti : TagInfo) (post : List TagInfo)
    (prev : FieldVal) (hpre : ∀ t ∈ pre, t.isText → textPresent r t = false)
    (hti : ti.isText) (hg : textPresent r ti = true) :
    decodeBase r ty (pre ++ ti :: post) prev = textOutcome ty (effText ty (getter r ti.key ti.value).1 ti.dflt) :=
  decodeBase_picks_first r ty pre ti post prev hpre hti hg

/-- **Slices.** Same, with all values of the key; if element-wise conversion fails the first text is
tried as a JSON array. -/
theorem picks_first_present_slice (r : Req) (ty : Ty) (pre : List TagInfo) (ti : TagInfo) (post : List TagInfo)
    (prev : FieldVal) (t0 : Bytes) (ts : List Bytes)
    (hpre : ∀ t ∈ pre, t.isText → textsPresent r t = false)
    (hti : ti.isText) (hg : sliceGetter r ti.key ti.value = t0 :: ts) :
    decodeSlice r ty (pre ++ ti :: post) prev = textsOutcome ty prev t0 ts :=
  decodeSlice_picks_first r ty pre ti post prev t0 ts hpre hti hg

/-- **JSON is last.**  If no text tag finds anything and the json tag (last in the list, see
`tags_in_priority_order`) names a key the JSON body carries (JSON content type in any letter case), the
field keeps what the JSON pre-bind stored in it — even if an earlier tag was `required`, even if a
default is declared.  Full strength since the fix ee1271c (`keyExist` folds case like the pre-bind). -/
theorem json_value_kept (r : Req) (ty : Ty) (pre : List TagInfo) (tj : TagInfo) (prev : FieldVal)
    (hpre : ∀ t ∈ pre, t.isText → textPresent r t = false) (hprej : ∀ t ∈ pre, t.key ≠ .json)
    (hk : tj.key = .json) (he : jsonCarries r tj = true) :
    decodeBase r ty (pre ++ [tj]) prev = .ok prev :=
  decodeBase_json_last r ty pre tj prev hpre hprej hk (by rw [keyExist_eq_jsonCarries]; exact he)

def tyInt : Ty := { base := .int 0 }
def kA : Bytes := [97]
def kB : Bytes := [98]
/-- `Application/JSON` -/
def ctMixed : Bytes := [65, 112, 112, 108, 105, 99, 97, 116, 105, 111, 110, 47, 74, 83, 79, 78]

set_option maxRecDepth 100000 in
/-- regression for the fixed defect `ct-case`: field `A int` tagged `query:"a" json:"a" default:"7"`, request with
`Content-Type: Application/JSON` and body `{"a":5}`: the hypotheses of `json_value_kept` hold and the field
is 5 (the old code overwrote it with the default 7). -/
theorem ct_case_regression :
    let f : Field := { name := [65], ty := tyInt, tags := [(.query, kA), (.json, kA)], dflt := some [55] }
    let r : Req := { ct := ctMixed, body := .json [(kA, .atom (.int 5))] }
    (∀ t ∈ fieldTagInfos f, t.isText → textPresent r t = false) ∧
    (∃ t ∈ fieldTagInfos f, t.key = .json ∧ jsonCarries r t = true) ∧
    preField r f = .ok (.one (.i 5)) ∧ bindField f r = .ok (.one (.i 5)) := by decide

set_option maxRecDepth 100000 in
/-- regression for the fixed defect `slice-header-case`: `A []string` tagged `header:"x-a"`, request header
`x-a: v` (stored as `X-A`): bound to `["v"]` (the old code compared `X-A` with `x-a` byte for byte). -/
theorem slice_header_regression :
    let f : Field := { name := [65], ty := { base := .str, slice := true }, tags := [(.header, [120, 45, 97])] }
    let r : Req := { headers := [([120, 45, 97], [118])] }
    sliceGetter r .header [120, 45, 97] = [[118]] ∧ bindField f r = .ok (.many [some (.s [118])]) := by decide

/-! ## required_is_error -/

/-- **A missing required value is an error, never a silent zero** (full strength: any tag list, any
position of the required tag, optional json tags included — the F12 defect is fixed). -/
theorem required_is_error (r : Req) (ty : Ty) (tis : List TagInfo) (prev : FieldVal)
    (hn : NoneCarries r tis) (hreq : ∃ t ∈ tis, t.effective ∧ t.required = true) :
    decodeBase r ty tis prev = .err .required :=
  decodeBase_required r ty tis prev hn hreq

theorem required_is_error_slice (r : Req) (ty : Ty) (tis : List TagInfo) (prev : FieldVal)
    (hn : NoneCarriesS r tis) (hreq : ∃ t ∈ tis, t.effective ∧ t.required = true) :
    decodeSlice r ty tis prev = .err .required :=
  decodeSlice_required r ty tis prev hn hreq

set_option maxRecDepth 100000 in
/-- regression for F12: `A int` tagged `query:"a,required" json:"b"`, empty request: an error (the old code
returned nil and left 0) -/
theorem f12_regression :
    Hertz.Bind.bind [{ name := [65], ty := tyInt, tags := [(.query, kA ++ [44] ++ requiredOpt), (.json, kB)] }] {} = .err .required := by
  decide

/-! ## default_kept -/

/-- **No source carries the field, nothing is required: the field keeps what it had (zero value) or gets
its declared default**, provided at least one tag takes part in the loop. -/
theorem default_kept_partial (r : Req) (ty : Ty) (tis : List TagInfo) (prev : FieldVal) (d : Bytes)
    (hty : ty.slice = false)
    (hn : NoneCarries r tis) (hr : ∀ t ∈ tis, t.effective → t.required = false)
    (hd : ∀ t ∈ tis, t.dflt = d) (he : ∃ t ∈ tis, t.effective) :
    decodeBase r ty tis prev = defaultOutcome ty d prev :=
  decodeBase_default r ty tis prev d hty hn hr hd he

/-- slices: the default is read as JSON -/
theorem default_kept_slice_partial (r : Req) (ty : Ty) (tis : List TagInfo) (prev : FieldVal) (d : Bytes)
    (hn : NoneCarriesS r tis) (hr : ∀ t ∈ tis, t.effective → t.required = false)
    (hd : ∀ t ∈ tis, t.dflt = d) (he : ∃ t ∈ tis, t.effective) :
    decodeSlice r ty tis prev = defaultOutcomeS ty d prev :=
  decodeSlice_default r ty tis prev d hn hr hd he

set_option maxRecDepth 100000 in
/-- Without the last hypothesis the statement is FALSE of the code: `A int` tagged `query:"-" default:"7"`:
every tag is skipped, `defaultValue` is never assigned, the field stays 0.  (class `dash-only-default`) -/
theorem default_kept_fails_at :
    let f : Field := { name := [65], ty := tyInt, tags := [(.query, dash)], dflt := some [55] }
    NoneCarries {} (fieldTagInfos f) ∧ (∀ t ∈ fieldTagInfos f, t.effective → t.required = false) ∧
    (∀ t ∈ fieldTagInfos f, t.dflt = [55]) ∧
    decodeBase {} tyInt (fieldTagInfos f) .unset ≠ defaultOutcome tyInt [55] .unset := by decide

/-! ## pure_function -/

/-- **The result depends only on the type description and the request**: through any binder whose cache
was filled by `bindTag` itself, any sequence of binds of any types gives, step by step, the result of
the cache-free function `bind`. -/
theorem pure_function (b : Binder) (hb : b.WF) (ops : List (List Field × Req)) :
    b.run ops = ops.map (fun (o : List Field × Req) => Hertz.Bind.bind o.1 o.2) :=
  Binder.run_pure b hb ops

/-- a fresh binder is well-formed and every bind keeps it so: first use and later uses agree -/
theorem cache_transparent (ops : List (List Field × Req)) (t : List Field) (r : Req) :
    ((Binder.mk []).run (ops ++ [(t, r)])).getLast? = some (Hertz.Bind.bind t r) := by
  rw [Binder.run_pure _ Binder.empty_wf]; simp

theorem bind_keeps_cache_wf (b : Binder) (hb : b.WF) (t : List Field) (r : Req) :
    (b.bind t r).1 = Hertz.Bind.bind t r ∧ (b.bind t r).2.WF :=
  Binder.bind_pure b hb t r

/-! ## non-vacuity -/

def tq (req : Bool) : TagInfo := { key := .query, value := kA, jsonName := [65], required := req }
def th : TagInfo := { key := .header, value := kA, jsonName := [65] }
def tj : TagInfo := { key := .json, value := kA, jsonName := kA }
def rqH : Req := { headers := [(kA, [51])] }                                   -- header a: 3
def rqJ : Req := { ct := mimeJSON, body := .json [(kA, .atom (.int 5))] }     -- {"a":5}

set_option maxRecDepth 100000 in
/-- picks_first_present: query required but absent, header present → 3 from the header, no error -/
example : (∀ t ∈ [tq true], t.isText → textPresent rqH t = false) ∧ th.isText ∧ textPresent rqH th = true ∧
    decodeBase rqH tyInt ([tq true] ++ th :: [tj]) .unset = .ok (.one (.i 3)) := by decide

set_option maxRecDepth 100000 in
/-- picks_first_present_slice: two query values -/
example : sliceGetter { query := [(kA, [49]), (kB, [50]), (kA, [51])] } .query kA = [[49], [51]] ∧
    decodeSlice { query := [(kA, [49]), (kB, [50]), (kA, [51])] } { base := .int 8, slice := true } ([] ++ tq false :: []) .unset
      = .ok (.many [some (.i 1), some (.i 3)]) := by decide

set_option maxRecDepth 100000 in
/-- json_value_kept: required query absent, json key present → pre-bound 5 kept -/
example : jsonCarries rqJ tj = true ∧ decodeBase rqJ tyInt ([tq true] ++ [tj]) (.one (.i 5)) = .ok (.one (.i 5)) := by decide

set_option maxRecDepth 100000 in
/-- required_is_error: hypotheses hold for the F12 shape -/
example : NoneCarries {} [tq true, { tj with jsonName := kB }] ∧
    (∃ t ∈ [tq true, { tj with jsonName := kB }], t.effective ∧ t.required = true) := by decide

set_option maxRecDepth 100000 in
/-- default_kept_partial: default 7 applied -/
example : NoneCarries {} [{ tq false with dflt := [55] }] ∧
    decodeBase {} tyInt [{ tq false with dflt := [55] }] .unset = .ok (.one (.i 7)) := by decide

set_option maxRecDepth 100000 in
/-- pure_function: A, B, A through one binder -/
example :
    let a : List Field := [{ name := [65], ty := tyInt, tags := [(.header, kA)] }]
    let b : List Field := [{ name := [66], ty := { base := .str }, tags := [(.query, kA)] }]
    (Binder.mk []).run [(a, rqH), (b, rqH), (a, rqH)] = [.ok [.one (.i 3)], .ok [.unset], .ok [.one (.i 3)]] := by decide

set_option maxRecDepth 100000 in
/-- tags_in_priority_order: tags written in reverse order -/
example : (fieldTagInfos { name := [65], ty := tyInt, tags := [(.json, kA), (.header, kA), (.path, kA)] }).map (·.key)
    = [.path, .header, .json] := by decide

/-! ## bind_refines_spec: the model of `Bind` against the declarative specification -/

/-- **Header keys.** `RequestHeader.Peek` compares normalised keys; that is ASCII-case-insensitive
comparison (`utils.CaseInsensitiveCompare`), for all keys (table facts about `ToLowerTable`/`ToUpperTable`). -/
theorem header_key_normalisation (a b : Bytes) :
    H1.normalizeKey false a = H1.normalizeKey false b ↔ H1.ciEq a b = true :=
  normalizeKey_eq_iff a b

/-- **Getters.** The five getters of `getter.go` / `slice_getter.go` return what the specification calls
`present` / `presentAll` (form: post arguments, else non-empty multipart value, else query; header keys
case-insensitive; a path parameter carries a slice only when non-empty). -/
theorem getters_are_documented_sources (r : Req) (s : Src) (k : Bytes) :
    getter r s k = asPair (Spec.Bind.present r s k) ∧ sliceGetter r s k = Spec.Bind.presentAll r s k :=
  ⟨getter_eq r s k, sliceGetter_eq r s k⟩

/-- **Struct tags.** The specification reads a struct tag (`named`: split at commas, empty name = Go name,
`-` = not named, option `required`) exactly as `lookupFieldTags` / `getDefaultFieldTags` do, and the
decoder's tag list is the documented priority list filtered by it. -/
theorem tags_read_as_documented (f : Field) (s : Src) :
    fieldTagInfos f = Spec.Bind.priority.filterMap (tagOf f) ∧
    Spec.Bind.named f s = (tagOf f s).bind (fun t => if t.skip then none else some (t.value, t.required)) :=
  ⟨fieldTagInfos_eq f, named_eq f s⟩

/-- **Priority.** The first source, in documented order, that is named by the field and carries a value is
the first tag of the decoder's list at which the tag loop stops. -/
theorem first_source_is_first_hit (f : Field) (r : Req) :
    Spec.Bind.firstText f r = ((fieldTagInfos f).find? (hitB r)).map (fun t => (t.key, (getter r t.key t.value).1)) ∧
    Spec.Bind.firstTexts f r = ((fieldTagInfos f).find? (hitS r)).map (fun t => (t.key, sliceGetter r t.key t.value)) :=
  ⟨firstText_eq f r, firstTexts_eq f r⟩

/-- **JSON pre-bind.** For a field outside the class `json-prebind-extra` whose json tag names `n`, a
successful pre-bind (folding over the case-insensitively matching members) leaves exactly what the
specification computes from the members whose key is `n`, and leaves the field untouched when the body
does not carry `n`. -/
theorem prebind_is_json_value (f : Field) (r : Req) (pre : FieldVal) (n : Bytes) (q : Bool)
    (hx : Spec.Bind.clsPrebindExtra f r = false) (hn : Spec.Bind.named f .json = some (n, q))
    (hfn : jsonFieldName f = some n) (hp : preFieldS false r f = .ok pre) :
    (Spec.Bind.jsonCarries r n = true → Spec.Bind.jsonValue f.ty r n = .ok pre) ∧
    (Spec.Bind.jsonCarries r n = false → pre = .unset) :=
  prebind_some hx hn hfn hp

/-- sonic and `encoding/json` give the same verdict on the body outside the class `sonic-uint32-wrap` -/
theorem prebind_decoder_independent (r : Req) (fields : List Field)
    (hc : ∀ f ∈ fields, Spec.Bind.clsSonicU32 f r = false) : preBind true r fields = preBind false r fields :=
  preBind_sonic r fields hc

/-- **One field.**  `FieldWF f`: the field is not called `-` and no source key occurs twice in its struct tag. -/
theorem field_refines_spec (f : Field) (r : Req) (pre : FieldVal) (hwf : FieldWF f)
    (hc : Spec.Bind.fieldClass f r = "") (hp : preFieldS false r f = .ok pre) :
    (compileField f).run r pre = Spec.Bind.specField f r :=
  field_refines f r pre hwf hc hp

/-- **Refinement.**  For every list of well-formed field descriptions and every request, outside the four
classes of known findings, `Bind` (pre-bind, compiled decoders, tag loops) computes exactly what the
declarative specification says: each field takes the value of the first of path, form, query, cookie,
header, JSON body that is named in its tags and present; otherwise its default or zero value; unless
`required`. -/
theorem bind_refines_spec_partial (fields : List Field) (r : Req) (hwf : ∀ f ∈ fields, FieldWF f)
    (h : ∀ f ∈ fields, Spec.Bind.fieldClass f r = "") :
    Hertz.Bind.bind fields r = Spec.Bind.specBind fields r :=
  bind_refines fields r hwf h

/-- `A int` with the struct tag `query:"-" query:"a" default:"7"` -/
def dupTagField : Field := { name := [65], ty := tyInt, tags := [(.query, dash), (.query, kA)], dflt := some [55] }

/-- a field called `-` (not a Go identifier) tagged `json:",required"` -/
def dashNameField : Field := { name := dash, ty := tyInt, tags := [(.json, [44] ++ requiredOpt)] }

set_option maxRecDepth 100000 in
/-- Without `FieldWF` the refinement is FALSE of the model.  Witness: the source key `query` occurs twice in
the struct tag; `reflect.StructTag.Lookup` returns the first (`-`), so every tag is skipped and the
default is dropped (the known finding `dash-only-default`), but the classifier `clsDashOnly` looks at all
tags and does not put the field in that class. -/
theorem dup_tag_witness :
    Spec.Bind.clsSonicU32 dupTagField {} = false ∧ Spec.Bind.clsDashOnly dupTagField = false ∧
    Spec.Bind.clsJsonDash dupTagField = false ∧ Spec.Bind.clsPrebindExtra dupTagField {} = false ∧
    Hertz.Bind.bind [dupTagField] {} = .ok [.unset] ∧
    Spec.Bind.specBind [dupTagField] {} = .ok [.one (.i 7)] := by decide

set_option maxRecDepth 100000 in
/-- second witness (a modelling artefact: no Go field is called `-`): the decoder treats the json tag with
an empty name as named `-`, i.e. skipped, yet runs its `required` check under the Go name -/
theorem dash_name_witness :
    Spec.Bind.clsSonicU32 dashNameField {} = false ∧ Spec.Bind.clsDashOnly dashNameField = false ∧
    Spec.Bind.clsJsonDash dashNameField = false ∧ Spec.Bind.clsPrebindExtra dashNameField {} = false ∧
    Hertz.Bind.bind [dashNameField] {} = .err .required ∧
    Spec.Bind.specBind [dashNameField] {} = .ok [.unset] := by decide

/-- the refinement as first stated (hypothesis `fieldClass = ""` only) does not hold -/
theorem bind_refines_spec_fails_at :
    ¬ ∀ (fields : List Field) (r : Req), (∀ f ∈ fields, Spec.Bind.fieldClass f r = "") →
        Hertz.Bind.bind fields r = Spec.Bind.specBind fields r := by
  intro h
  obtain ⟨h1, h2, h3, h4, hb, hs⟩ := dup_tag_witness
  have := h [dupTagField] {} (by
    intro f hf
    rw [List.mem_singleton] at hf
    subst hf
    exact class_empty_of h1 h2 h3 h4)
  rw [hb, hs] at this
  cases this

/-- fields of the non-vacuity example: `A int` tagged `query:"a,required" json:"a"`, `B []string` tagged
`header:"X-B" default:"['z']"`, `C uint32` untagged with default 9 -/
def exFields : List Field :=
  [{ name := [65], ty := tyInt, tags := [(.json, kA), (.query, kA ++ [44] ++ requiredOpt)] },
   { name := [66], ty := { base := .str, slice := true }, tags := [(.header, [88, 45, 66])], dflt := some [91, 39, 122, 39, 93] },
   { name := [67], ty := { base := .uint 32 }, dflt := some [57] }]

/-- request: header `x-b: v`, `x-b: w`, body `{"a":5,"d":1}` with `Content-Type: Application/JSON` -/
def exReq : Req :=
  { headers := [([120, 45, 98], [118]), ([120, 45, 98], [119])], ct := ctMixed,
    body := .json [(kA, .atom (.int 5)), ([100], .atom (.int 1))] }

set_option maxRecDepth 100000 in
/-- bind_refines_spec_partial: hypotheses hold on a three-field struct and a request with headers and a
JSON body; A comes from the body (required query absent), B from the two header values, C from its default -/
example : (∀ f ∈ exFields, FieldWF f) ∧
    (∀ f ∈ exFields, Spec.Bind.clsSonicU32 f exReq = false ∧ Spec.Bind.clsDashOnly f = false ∧
      Spec.Bind.clsJsonDash f = false ∧ Spec.Bind.clsPrebindExtra f exReq = false) ∧
    Hertz.Bind.bind exFields exReq = .ok [.one (.i 5), .many [some (.s [118]), some (.s [119])], .one (.u 9)] := by decide

set_option maxRecDepth 100000 in
/-- … and therefore `fieldClass = ""` for each of them -/
example : ∀ f ∈ exFields, Spec.Bind.fieldClass f exReq = "" := by
  have h : ∀ f ∈ exFields, Spec.Bind.clsSonicU32 f exReq = false ∧ Spec.Bind.clsDashOnly f = false ∧
      Spec.Bind.clsJsonDash f = false ∧ Spec.Bind.clsPrebindExtra f exReq = false := by decide
  intro f hf
  exact class_empty_of (h f hf).1 (h f hf).2.1 (h f hf).2.2.1 (h f hf).2.2.2

set_option maxRecDepth 100000 in
/-- header_key_normalisation / getters_are_documented_sources: `x-b` is found under `X-B` -/
example : H1.normalizeKey false [120, 45, 98] = H1.normalizeKey false [88, 45, 66] ∧
    getter exReq .header [88, 45, 66] = ([118], true) ∧ sliceGetter exReq .header [88, 45, 66] = [[118], [119]] := by decide

set_option maxRecDepth 100000 in
/-- prebind_is_json_value / field_refines_spec: hypotheses hold for field A of the example -/
example : Spec.Bind.named (exFields.headD dupTagField) .json = some (kA, false) ∧
    jsonFieldName (exFields.headD dupTagField) = some kA ∧
    preFieldS false exReq (exFields.headD dupTagField) = .ok (.one (.i 5)) ∧
    Spec.Bind.jsonCarries exReq kA = true := by decide

/-! ## entry points and their decoder caches: state carried across calls on one binder

`defaultBinder` has six entry points that reach the field decoders (`Bind`, `BindAndValidate`, `BindPath`,
`BindForm`, `BindQuery`, `BindHeader`) and five caches keyed by the struct type alone.  The model
(`TagBinder`, Model/Bind.lean) keeps the five caches apart and is run, sequence by sequence, against the real
binder (`bindseq` cases of the harness). -/

def apiGoName : Api → String
  | .bind => "Bind" | .validate => "BindAndValidate" | .path => "BindPath" | .form => "BindForm"
  | .query => "BindQuery" | .header => "BindHeader"

def slotGoField : Slot → String
  | .all => "decoderCache" | .query => "queryDecoderCache" | .header => "headerDecoderCache"
  | .form => "formDecoderCache" | .path => "pathDecoderCache"

/-- the Go string of a `tag` argument -/
def tagText : Option Src → String
  | none => ""
  | some s => s.name

/-- `BindAndValidate` goes through `bindTagWithValidate`, the rest through `bindTag` -/
def apiHelper : Api → String
  | .validate => "bindTagWithValidate"
  | _ => "bindTag"

def allApis : List Api := [.bind, .validate, .path, .form, .query, .header]

/-- the entry-point part of the model agrees with `binding/default.go` as it is now: the tag each exported
method passes on, the cache `tagCache` selects for it, and the cache discipline of `bindTag` /
`bindTagWithValidate` — the cache comes from `tagCache(tag)`, the decoder is loaded from and stored into
that same cache and nothing else mutates a cache, `GetReqDecoder` gets the same tag, and only `bindTag`
makes the body pre-bind depend on the tag (`len(tag) == 0`). -/
theorem entry_points_match_gen :
    Gen.Bind.entryPoints = allApis.map (fun a => (apiGoName a, apiHelper a, tagText a.byTag)) ∧
    (∀ a ∈ allApis, ((Gen.Bind.tagCacheTable.lookup (tagText a.byTag)).orElse
        (fun _ => Gen.Bind.tagCacheTable.lookup "*")) = some (slotGoField (tagCache a.byTag))) ∧
    Gen.Bind.cacheUse = [("bindTag", "b.tagCache(tag)", ["cache"], ["Store:cache"], "tag", "len(tag) == 0"),
                         ("bindTagWithValidate", "b.tagCache(tag)", ["cache"], ["Store:cache"], "tag", "")] := by decide

/-- **Every entry point is a function of the type and the request alone**: through a fresh binder, any
sequence of calls of any entry points on any types gives, call by call, the result of the cache-free
function `bindBy` — in particular a `BindQuery`/`BindHeader`/`BindForm`/`BindPath` of a type never changes
what a later `Bind` of that type returns, and vice versa. -/
theorem entry_points_pure (ops : List (Api × List Field × Req)) :
    ({} : TagBinder).run ops = ops.map (fun (o : Api × List Field × Req) => bindBy o.1.byTag o.2.1 o.2.2) :=
  TagBinder.run_pure _ TagBinder.empty_wf ops

/-- the same from any binder state reachable by calls: each cached decoder was built with the tag of the
cache it sits in (`TagBinder.WF`), and every call keeps it so -/
theorem entry_point_keeps_caches_wf (b : TagBinder) (hb : b.WF) (a : Api) (t : List Field) (r : Req) :
    (b.call a t r).1 = bindBy a.byTag t r ∧ (b.call a t r).2.WF :=
  TagBinder.call_pure b hb a t r

/-- **`Bind` after anything.**  Whatever was called before on the binder, `Bind` and `BindAndValidate`
(types without validation tags) return what `bind` computes: the function the theorems above
(`picks_first_present`, `required_is_error`, `bind_refines_spec_partial`, …) are about. -/
theorem bind_unaffected_by_earlier_calls (ops : List (Api × List Field × Req)) (a : Api) (ha : a.byTag = none)
    (t : List Field) (r : Req) :
    (({} : TagBinder).run (ops ++ [(a, t, r)])).getLast? = some (Hertz.Bind.bind t r) := by
  rw [entry_points_pure]; simp [ha, bindBy_none]

/-- … and therefore the declared priority, outside the known-finding classes -/
theorem bind_after_any_calls_refines_spec_partial (ops : List (Api × List Field × Req)) (a : Api) (ha : a.byTag = none)
    (t : List Field) (r : Req) (hwf : ∀ f ∈ t, FieldWF f) (h : ∀ f ∈ t, Spec.Bind.fieldClass f r = "") :
    (({} : TagBinder).run (ops ++ [(a, t, r)])).getLast? = some (Spec.Bind.specBind t r) := by
  rw [bind_unaffected_by_earlier_calls ops a ha, bind_refines t r hwf h]

/-- **The tag-restricted entry points** bind every field from their one source, under the name its tag of
that source gives (Go name if there is none), `required` being an error, everything else left zero —
for all field lists and requests, no exclusions (`Spec.Bind.specFieldsBy`). -/
theorem tag_entry_points_refine_spec (a : Api) (s : Src) (ha : a.byTag = some s) (fields : List Field) (r : Req) :
    bindBy a.byTag fields r = Spec.Bind.specBindBy (some s) fields r := by
  rw [ha]
  exact bindBy_refines s (by cases a <;> simp [Api.byTag] at ha <;> (subst ha; decide)) fields r

/-- `P string path:"p"`, `Q int query:"q,required"`, `H string header:"X-H"` -/
def seqType : List Field :=
  [{ name := [80], ty := { base := .str }, tags := [(.path, [112])] },
   { name := [81], ty := tyInt, tags := [(.query, [113] ++ [44] ++ requiredOpt)] },
   { name := [72], ty := { base := .str }, tags := [(.header, [88, 45, 72])] }]

/-- path `p=p7`, query `q=11`, header `X-H: hv` -/
def seqReq : Req := { params := [([112], [112, 55])], query := [([113], [49, 49])], headers := [([88, 45, 72], [104, 118])] }

set_option maxRecDepth 100000 in
/-- entry_points_pure (non-vacuity): BindQuery, Bind, BindHeader, Bind of ONE type on one binder; then a
Bind without the required query value -/
example :
    ({} : TagBinder).run [(.query, seqType, seqReq), (.bind, seqType, seqReq), (.header, seqType, seqReq),
                           (.validate, seqType, seqReq), (.bind, seqType, { seqReq with query := [] })] =
      [.ok [.unset, .one (.i 11), .unset],
       .ok [.one (.s [112, 55]), .one (.i 11), .one (.s [104, 118])],
       .ok [.unset, .unset, .one (.s [104, 118])],
       .ok [.one (.s [112, 55]), .one (.i 11), .one (.s [104, 118])],
       .err .required] := by decide

set_option maxRecDepth 100000 in
/-- The hypothesis `WF` of `entry_point_keeps_caches_wf` cannot be dropped: a binder whose `Bind` cache holds,
for `seqType`, the decoder built for `BindQuery` (one cache shared by two entry points) answers `Bind`
from the query alone and no longer sees the missing required value. -/
theorem shared_cache_breaks_bind :
    let b := ({} : TagBinder).store .all seqType (compileBy (some .query) seqType)
    ¬ b.WF ∧
    (b.call .bind seqType seqReq).1 = .ok [.unset, .one (.i 11), .unset] ∧
    Hertz.Bind.bind seqType seqReq = .ok [.one (.s [112, 55]), .one (.i 11), .one (.s [104, 118])] ∧
    Hertz.Bind.bind seqType {} = .err .required ∧
    (({} : TagBinder).store .all seqType (compileBy (some .header) seqType) |>.call .bind seqType {}).1 = .ok [.unset, .unset, .unset] := by
  refine ⟨?_, by decide, by decide, by decide, by decide⟩
  intro h
  have := h .all seqType (compileBy (some .query) seqType) (by simp [TagBinder.store])
  revert this
  decide

set_option maxRecDepth 100000 in
/-- tag_entry_points_refine_spec (non-vacuity): BindHeader on the example type -/
example : Api.header.byTag = some .header ∧
    Spec.Bind.specBindBy (some .header) seqType seqReq = .ok [.unset, .unset, .one (.s [104, 118])] ∧
    Spec.Bind.specBindBy (some .query) seqType {} = .err .required := by decide


/-! ## nested struct types and streamed bodies (extension X15)

Model: `Model/BindNested.lean` — a struct type is a `Forest` (field tree of any depth and width; struct-typed fields by
value, behind pointers, embedded); `compileN` is `getFieldDecoder` with its `parentIdx` / `parentJSONName` built per
child; `runN` runs the decoders on a store addressed by full index paths (`fault` = Go would panic); `bindN` threads
the state of the request body (buffered / unread stream / drained stream).  Spec: the nested section of
`Spec/Bind.lean` (`specBindN`: every leaf is bound as a top-level field of the request focused on its enclosing JSON
object).  Run against the real binder on `reflect.StructOf` types by the `nbind` cases of the harness. -/

/-- **Two different leaves never get the same index path**: the leaf decoders `getFieldDecoder` builds for a type of
any depth and width address pairwise different `parentIndex ++ [index]` paths (the statement a shared backing array
between sibling paths breaks). -/
theorem index_paths_distinct (t : Forest) :
    (((compileN [] [] 0 t).filter (fun d => !d.isStruct)).map (fun d => d.parentIdx ++ [d.index])).Nodup := by
  rw [compileN_paths]; exact leafPaths_nodup t [] 0

/-- … and they are exactly the leaves of the type, in field order (depth first) -/
theorem index_paths_are_the_leaves (t : Forest) :
    ((compileN [] [] 0 t).filter (fun d => !d.isStruct)).map (fun d => d.parentIdx ++ [d.index]) = leafPaths [] 0 t :=
  compileN_paths t [] [] 0

/-- **A leaf decoder of a nested type is the decoder of a top-level field** run on the request whose JSON body is the
object enclosing the leaf (dotted path of the parents' JSON names), unless a `required` json tag is waived because that
object is absent (class `nested-required-waived`): position, siblings and depth play no role. -/
theorem nested_leaf_is_top_level_field (q : NReq) (P : List Bytes) (f : Field) (pre : FieldVal) (pidx : Path) (i : Nat)
    (hw : Spec.Bind.clsWaived q P f = false) :
    ({ parentIdx := pidx, index := i, jparent := P, dec := compileField f } : NDec).run q pre =
      (compileField f).run (Spec.Bind.focus q P) pre :=
  leaf_run_focus q P f pre pidx i hw

/-- the JSON name a struct-typed field hands down (`newParentJSONName`) is the one the specification uses -/
theorem parent_json_name_as_documented (hdr : Field) : newParentName hdr = Spec.Bind.specName hdr :=
  newParentName_eq hdr

/-- **Refinement for nested types.**  For every field tree of any depth and width (`ForestWF`: every field well-formed
as in `bind_refines_spec_partial`; struct-typed fields without `required` and without a default, no embedded struct
whose fields are promoted) and every request in
any body state, outside the known-finding classes (`NoClass`: the four flat classes per leaf on its focused request,
`nested-required-waived`, and the JSON path of the unmarshaller = the JSON path of the tags), `Bind` computes exactly
the specification: every leaf receives exactly its own value — the first present source named by its own tags. -/
theorem nested_bind_refines_spec_partial (t : Forest) (q : NReq) (hwf : ForestWF t) (hc : NoClass q.seen t) :
    (bindN t q).1 = Spec.Bind.specBindN t q :=
  bindN_refines t q hwf hc

/-- **No panic while addressing fields**: for EVERY field tree and EVERY request and body state (no exclusions), the
decoders `getFieldDecoder` builds never address an index path that is not a leaf of the bound value (`fault` = the
`reflect` panic in `GetFieldValue(…).Field(index)`) — what a path shared between siblings destroys. -/
theorem nested_bind_never_faults (t : Forest) (q : NReq) : (bindN t q).1 ≠ .fault :=
  bindN_no_fault t q

/-- `A struct { X int json:"x,required" }` -/
def waivedType : Forest :=
  .strct { name := [65], ty := { base := .str } } false
    (.leaf { name := [88], ty := tyInt, tags := [(.json, [120] ++ [44] ++ requiredOpt)] } .nil) .nil

/-- `Content-Type: application/json`, body `{}` -/
def waivedReq : NReq := { r := { ct := mimeJSON, body := .json [] } }

set_option maxRecDepth 100000 in
/-- Without `NoClass` the refinement is FALSE of the code: a `required` json leaf inside a struct whose object is
absent from a JSON body is bound to a silent zero (`checkRequireJSON`: "there should be a superior"), while the
property demands an error.  (class `nested-required-waived`; replayed against the Go code by the harness) -/
theorem nested_bind_refines_spec_fails_at :
    ForestWF waivedType ∧ (bindN waivedType waivedReq).1 = .ok [.unset] ∧
    Spec.Bind.specBindN waivedType waivedReq = .err .required ∧
    Spec.Bind.clsWaived waivedReq.seen [[65]] { name := [88], ty := tyInt, tags := [(.json, [120] ++ [44] ++ requiredOpt)] } = true := by
  decide

/-- `struct { Common; … }` with `type Common struct { Page int json:"page" default:"1" }` (embedded) -/
def embeddedType : Forest :=
  .strct { name := [67], ty := { base := .str } } true
    (.leaf { name := [80], ty := tyInt, tags := [(.json, [112])], dflt := some [49] } .nil) .nil

/-- `Content-Type: application/json`, body `{"p":5}` -/
def embeddedReq : NReq := { r := { ct := mimeJSON, body := .json [([112], .atom (.int 5))] } }

set_option maxRecDepth 100000 in
/-- regression (former `embedded_default_fails_at`, class `embedded-json-path`, repaired in `/repo` 1242bf1): the
unmarshaller promotes the fields of an embedded struct into the enclosing object and stores 5, and `keyExist` now looks
for `page` in that object too (before the repair it looked for `Common.page`, did not find it, and the declared default
1 overwrote the value the body carries; likewise a `required` promoted field was never enforced). -/
theorem embedded_default_repaired :
    Spec.Bind.promoted { name := [67], ty := { base := .str } } true = true ∧
    (bindN embeddedType embeddedReq).1 = .ok [.one (.i 5)] ∧
    Spec.Bind.specBindN embeddedType embeddedReq = .ok [.one (.i 5)] := by
  decide

set_option maxRecDepth 100000 in
/-- … and since the repair, types with promoted embedded structs are INSIDE `nested_bind_refines_spec_partial` (its
hypothesis `ForestWF` no longer excludes them; the first version of the proof had to): the embedded example is
well-formed and outside every known-finding class, so the refinement theorem speaks about it. -/
theorem embedded_types_inside_refinement :
    ForestWF embeddedType ∧ NoClassB embeddedReq.seen embeddedType ∧
    (bindN embeddedType embeddedReq).1 = Spec.Bind.specBindN embeddedType embeddedReq := by
  decide

/-- **Binding the same request twice gives the same result**, whatever the state of its body: the second bind sees
the request as the first one left it (`preBindBody` calls `Request.Body()`, which copies a body stream into the
request buffer). -/
theorem bind_idempotent_on_request (t : Forest) (q : NReq) : (bindN t (bindN t q).2).1 = (bindN t q).1 :=
  bindN_twice t q

/-- … and a body delivered as a stream is bound as the same body delivered in the buffer -/
theorem bind_independent_of_body_delivery (t : Forest) (q : NReq) :
    (bindN t { q with st := .stream }).1 = (bindN t { q with st := .buffered }).1 :=
  bindN_delivery t q .stream .buffered (by decide) (by decide)

/-- both binds of a request meet the specification -/
theorem both_binds_refine_spec_partial (t : Forest) (q : NReq) (hwf : ForestWF t) (hc : NoClass q.seen t) :
    bindTwice t q = (Spec.Bind.specBindN t q, Spec.Bind.specBindN t q) := by
  unfold bindTwice
  rw [bind_idempotent_on_request, nested_bind_refines_spec_partial t q hwf hc]

def leafQ (n : UInt8) (k : Bytes) : Field := { name := [n], ty := tyInt, tags := [(.query, k)] }
def hdrS (n : Bytes) (p : Nat) : Field := { name := n, ty := { base := .str, ptr := p } }

/-- `Root { A { B *{ C { D1 {X,Y int query x1,y1}; D2 *{X,Y int query x2,y2} } } } }`: two sibling structs at depth 4 -/
def deepType : Forest :=
  .strct (hdrS [65] 0) false (.strct (hdrS [66] 1) false (.strct (hdrS [67] 0) false
    (.strct (hdrS [68, 49] 0) false (.leaf (leafQ 88 [120, 49]) (.leaf (leafQ 89 [121, 49]) .nil))
      (.strct (hdrS [68, 50] 1) false (.leaf (leafQ 88 [120, 50]) (.leaf (leafQ 89 [121, 50]) .nil)) .nil)) .nil) .nil) .nil

/-- query `x1=10&y1=20&y2=40` -/
def deepReq : NReq := { r := { query := [([120, 49], [49, 48]), ([121, 49], [50, 48]), ([121, 50], [52, 48])] } }

set_option maxRecDepth 100000 in
/-- index_paths_distinct / nested_bind_refines_spec_partial (non-vacuity): the four leaves sit at
`[0,0,0,0,0] [0,0,0,0,1] [0,0,0,1,0] [0,0,0,1,1]`; D1 gets 10 and 20, D2 gets 0 and 40 -/
example : leafPaths [] 0 deepType = [[0, 0, 0, 0, 0], [0, 0, 0, 0, 1], [0, 0, 0, 1, 0], [0, 0, 0, 1, 1]] ∧
    ForestWF deepType ∧ NoClassB deepReq.seen deepType ∧
    (bindN deepType deepReq).1 = .ok [.one (.i 10), .one (.i 20), .unset, .one (.i 40)] := by decide

/-- `Item string json:"item,required"`, `Qty int json:"qty" default:"1"`, `Meta { Cur string json:"cur,required" default:"USD" }` -/
def orderType : Forest :=
  .leaf { name := [73], ty := { base := .str }, tags := [(.json, [105] ++ [44] ++ requiredOpt)] }
    (.leaf { name := [81], ty := tyInt, tags := [(.json, [113])], dflt := some [49] }
      (.strct (hdrS [77] 0) false
        (.leaf { name := [67], ty := { base := .str }, tags := [(.json, [99] ++ [44] ++ requiredOpt)], dflt := some [85] } .nil) .nil))

/-- `{"i":"p","q":25,"M":{"c":"E"}}` delivered as a body stream -/
def orderReq : NReq :=
  { r := { ct := mimeJSON, body := .json [([105], .atom (.str [112])), ([113], .atom (.int 25)), ([77], .atom .obj)] },
    deep := [{ parents := [[77]], key := [99], val := .atom (.str [69]) }], st := .stream }

set_option maxRecDepth 100000 in
/-- bind_idempotent_on_request / both_binds_refine_spec_partial (non-vacuity): streamed JSON body, `required` and
`default` on json fields at two levels; both binds give item "p", qty 25, cur "E"; the stream is buffered afterwards -/
example : ForestWF orderType ∧ NoClassB orderReq.seen orderType ∧
    bindTwice orderType orderReq = (.ok [.one (.s [112]), .one (.i 25), .one (.s [69])], .ok [.one (.s [112]), .one (.i 25), .one (.s [69])]) ∧
    (bindN orderType orderReq).2.st = .buffered ∧
    (bindN orderType { orderReq with st := .drained }).1 = .err .body := by decide

set_option maxRecDepth 100000 in
/-- nested_bind_never_faults: the fault outcome is real — the decoders of the depth-4 type with the index path of
sibling D1 redirected to D2's struct (what the shared backing array does) and D2 given one field only: fault -/
example :
    runN deepReq [{ parentIdx := [0, 0, 0, 1], index := 1, jparent := [], dec := compileField (leafQ 89 [121, 49]) }]
      [([0, 0, 0, 0, 0], .unset), ([0, 0, 0, 0, 1], .unset), ([0, 0, 0, 1, 0], .unset)] = .fault := by decide

set_option maxRecDepth 100000 in
/-- nested_leaf_is_top_level_field (non-vacuity): the hypothesis holds for leaf `Cur` inside `M` -/
example : Spec.Bind.clsWaived orderReq.seen [[77]]
    { name := [67], ty := { base := .str }, tags := [(.json, [99] ++ [44] ++ requiredOpt)], dflt := some [85] } = false := by decide

/-
TODO-OPEN
  `bind_refines_spec` is now PROVED as `bind_refines_spec_partial`: for all field lists and requests,
  `bind fields r = Spec.Bind.specBind fields r` when every field is outside the four known-finding classes
  (`fieldClass f r = ""`) and well-formed (`FieldWF f`: the Go name is not `-`, no source key occurs twice
  in the struct tag).  The three pieces that were missing are theorems above: `header_key_normalisation`,
  `first_source_is_first_hit` (with `tags_read_as_documented`, `getters_are_documented_sources`),
  `prebind_is_json_value` (with `prebind_decoder_independent`).
  The statement with `fieldClass = ""` alone is false of the model (`bind_refines_spec_fails_at`): with a
  repeated source key (`dup_tag_witness`) the real code behaves as the model (known finding
  `dash-only-default`; the classifier `Spec.Bind.clsDashOnly` does not recognise it because it looks at
  shadowed tags); `dash_name_witness` is a modelling artefact (`reflect.StructOf` rejects the name `-`).
  What remains open (not proved; sampled by the driver on the implementation's output):
  * the per-type decoder caches of the real code (five `sync.Map`s; the Lean caches are lists, kept apart per entry
    point as `tagCache` does: `entry_points_pure`, tied to the source by `entry_points_match_gen`) and concurrent binds;
  * outcomes `unk` are equal on both sides by the theorem, but what the real code does there (floats outside
    the canonical grammar, JSON texts outside the small grammar) is only copied from the implementation;
  * nested structs are now INSIDE the model (extension X15: `index_paths_distinct`, `nested_bind_refines_spec_partial`,
    `bind_idempotent_on_request`).  Open there: (a) struct-typed fields that themselves carry `required` or a default,
    and a text addressed to a struct-typed field (decoded as JSON into the struct): excluded by `ForestWF` / `unk` in the
    model, checked per case by the driver (`Spec.Bind.specStruct` on the implementation's output); (b) allocation of
    pointer-to-struct parents is not observed (a nil pointer is rendered as a struct of zero leaves); (c) embedded structs
    whose promoted names clash with names of the enclosing struct, repeated object-valued keys, names containing `.`:
    assumptions of the generator; (d) tag-restricted entry points (`BindQuery` …) on nested types are not modelled;
  * arrays, maps, `raw_body`, `file_name`, custom decoders: outside the model.
-/

end Hertz.Props.C15
