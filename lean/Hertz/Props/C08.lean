import Hertz.Proofs.Fs
import Hertz.Proofs.FsTree
import Hertz.Proofs.FsCache
import Hertz.Proofs.FsCachePool
import Hertz.Proofs.FsCacheSrc
/-!
# C08 — static file responses return exactly the requested bytes

Property theorems only; lemmas live in `Hertz/Proofs/Fs.lean`.  Every statement is about the model
in `Hertz/Model/Fs.lean` (`ParseUint`, `ParseByteRange`, `AppendUint`, `SetContentRange`, the two
`UpdateByteRange`s and the range part of `fsHandler.handleRequest`), which `bin/check C08` holds to
the Go code through a real `Engine` over a temporary directory, and about the statement skeletons in
`Hertz/Gen/Fs.lean`, regenerated from the Go source on every run.  The specification
(`Hertz/Spec/Fs.lean`) is RFC 7233's single-range rule on unbounded naturals.

Quantifiers: all header values (`Bytes`), all file contents, all lengths (below 2^63, a Go `int`,
where `AppendUint`'s 20-byte buffer matters), both methods, all three reader kinds, both settings of
`AcceptByteRange`.  All statements are at full strength (the code was fixed for the two defects
found earlier — suffix ranges selecting no bytes, and the overflow test of `ParseUintBuf`; the
former witnesses are kept as regression examples).

The second part (`## which file is served`) is about the open path — `openFSFile`,
`compressAndOpenFSFile`, `compressFileNolock`, the two file caches — over an abstract directory tree
(`Hertz/Model/FsTree.lean`), held to the Go code by the `fsseq` scenarios of `bin/check C08`
(trees that change between requests: planted / stale / newer `.hertz.gz` siblings, roll-backs with
preserved mtimes, restarts, real cache expiry).

Not modelled (exercised by the correspondence only): the gzip encoder itself
(a compressed file is "some gzip stream of these bytes"), directories and index page generation,
`If-Modified-Since`, path normalisation (C07).
-/
namespace Hertz.Props.C08
open Hertz Hertz.FS Hertz.FS.Spec

/-! ## integers -/

/-- `ParseUint` accepts exactly the non-empty digit strings whose value fits a Go int, and returns
that value: for ALL byte strings. -/
theorem parseUint_exact (b : Bytes) (r : Int) :
    parseUint b = .ok r ↔ (isDigits b = true ∧ (decVal b : Int) < 9223372036854775808 ∧ r = (decVal b : Int)) := by
  constructor
  · exact parseUint_ok
  · intro ⟨hd, hfit, hr⟩; rw [hr]; exact parseUint_complete hd hfit

/-- Everything else is an error (no wrong value is ever returned). -/
theorem parseUint_rejects (b : Bytes) (h : ¬ (isDigits b = true ∧ (decVal b : Int) < 9223372036854775808)) :
    ∃ e, parseUint b = .error e := parseUint_reject h

example : parseUint [49, 50, 51] = .ok 123 := by decide
example : parseUint [57, 50, 50, 51, 51, 55, 50, 48, 51, 54, 56, 53, 52, 55, 55, 53, 56, 48, 55] = .ok 9223372036854775807 := by decide
/-- regression (former wrap-around witness): 2^63 and 25000000000000000000 are rejected. -/
example : parseUint [57, 50, 50, 51, 51, 55, 50, 48, 51, 54, 56, 53, 52, 55, 55, 53, 56, 48, 56] = .error .trailing ∧
    parseUint [50, 53, 48, 48, 48, 48, 48, 48, 48, 48, 48, 48, 48, 48, 48, 48, 48, 48, 48, 48] = .error .trailing := by decide

/-! ## `range_ok_bounds`, `range_eq_rfc` -/

/-- Every accepted range lies inside the file: all header values, all lengths. -/
theorem range_ok_bounds (r : Bytes) (n s e : Int) (hn : 0 ≤ n) (h : parseByteRange r n = .ok (s, e)) :
    0 ≤ s ∧ s ≤ e ∧ e < n := parseByteRange_bounds r n s e hn h

/-- `ParseByteRange` has no reachable slice/index panic: it returns a pair or the Go error. -/
theorem range_no_panic (r : Bytes) (n : Int) :
    (∃ p, parseByteRange r n = .ok p) ∨ parseByteRange r n = .error .bad := parseByteRange_no_panic r n

/-- `ParseByteRange` is RFC 7233's single-range rule (satisfiable ↦ that range, invalid or
unsatisfiable ↦ error) for every header value and every length; a header naming a position that
does not fit a Go int is rejected. -/
theorem range_eq_rfc (r : Bytes) (n : Nat) :
    parseByteRange r (n : Int) = if numsFit r then rfcExcept (rfcRange r n) else .error .bad := by
  cases h : numsFit r
  · simpa using parseByteRange_unfit r n h
  · simpa using parseByteRange_eq_rfc r n h

/-- Every accepted range is the range the RFC prescribes (no side condition at all). -/
theorem range_sound (r : Bytes) (n : Nat) (s e : Int) (h : parseByteRange r (n : Int) = .ok (s, e)) :
    rfcRange r n = .sat s.toNat e.toNat := parseByteRange_sound r n s e h

example : parseByteRange [98, 121, 116, 101, 115, 61, 45, 51] 10 = .ok (7, 9) ∧
    rfcRange [98, 121, 116, 101, 115, 61, 45, 51] 10 = .sat 7 9 := by decide
example : numsFit [98, 121, 116, 101, 115, 61, 50, 45, 57, 57] = true ∧
    parseByteRange [98, 121, 116, 101, 115, 61, 50, 45, 57, 57] 5 = .ok (2, 4) := by decide
/-- regression (former F14 witnesses): suffix ranges that select nothing are errors. -/
example : parseByteRange [98, 121, 116, 101, 115, 61, 45, 49] 0 = .error .bad ∧
    parseByteRange [98, 121, 116, 101, 115, 61, 45, 48] 10 = .error .bad ∧
    rfcRange [98, 121, 116, 101, 115, 61, 45, 49] 0 = .unsat ∧ rfcRange [98, 121, 116, 101, 115, 61, 45, 48] 10 = .unsat := by decide
/-- regression (former wrap-around witness): rejected also for an absurdly long file. -/
example : parseByteRange [98, 121, 116, 101, 115, 61, 50, 53, 48, 48, 48, 48, 48, 48, 48, 48, 48, 48, 48, 48, 48, 48, 48, 48, 48, 48, 45]
    7000000000000000000 = .error .bad := by decide

/-! ## the handler's decision -/

/-- `decision_no_panic` + `decision_consistent`: for every reader kind, content, method, `Range`
value and `AcceptByteRange` setting the decision is total (no panic, no short body, no seek error)
and its answer is consistent — 200 with the whole file, or 416 exactly when `ParseByteRange` fails,
or 206 with `first ≤ last < length`, `Content-Length = last - first + 1 = |body|`, a `Content-Range`
that reads back as `(first, last, length)` and the body equal to that slice; HEAD has an empty body. -/
theorem decision_total_consistent (kind : ReaderKind) (content : Bytes) (head : Bool) (r : Bytes) (accept : Bool)
    (hn : (content.length : Int) < 9223372036854775808) :
    ∃ resp, serveDecision kind content head r accept = .ok resp ∧
      (head = true → resp.body = []) ∧ (head = false → (resp.body.length : Int) = resp.contentLength) ∧
      (resp.status = 200 ∧ resp.contentRange = none ∧ resp.contentLength = content.length ∧
          (head = false → resp.body = content) ∨
       resp.status = 416 ∧ resp.contentRange = none ∧ accept = true ∧ parseByteRange r content.length = .error .bad ∨
       ∃ s e : Nat, resp.status = 206 ∧ accept = true ∧ parseByteRange r content.length = .ok ((s : Int), (e : Int)) ∧
          s ≤ e ∧ e < content.length ∧ resp.contentLength = ((e + 1 - s : Nat) : Int) ∧
          (resp.contentRange.bind parseContentRange) = some (s, e, content.length) ∧
          (head = false → resp.body = slice content s e)) :=
  serve_total kind content head r accept hn

/-- `decision_no_panic` spelled out. -/
theorem decision_no_panic (kind : ReaderKind) (content : Bytes) (head : Bool) (r : Bytes) (accept : Bool)
    (hn : (content.length : Int) < 9223372036854775808) (site : String) :
    serveDecision kind content head r accept ≠ .error (.panic site) := by
  obtain ⟨resp, h, _⟩ := serve_total kind content head r accept hn
  rw [h]; intro h'; cases h'

/-- The full statement against the independent spec: the answer satisfies `Spec.respOk`
(whole file / exactly the RFC 7233 range / 416), for all inputs. -/
theorem serve_meets_rfc (kind : ReaderKind) (content : Bytes) (head : Bool) (r : Bytes) (accept : Bool)
    (hn : (content.length : Int) < 9223372036854775808) :
    ∃ resp, serveDecision kind content head r accept = .ok resp ∧ respOk content head r accept resp = true :=
  serve_meets_spec kind content head r accept hn

/-- HEAD returns the headers of GET without a body. -/
theorem head_same_headers (kind : ReaderKind) (content : Bytes) (r : Bytes) (accept : Bool)
    (hn : (content.length : Int) < 9223372036854775808) :
    ∃ g, serveDecision kind content false r accept = .ok g ∧
      serveDecision kind content true r accept = .ok { g with body := [] } :=
  FS.head_same_headers kind content r accept hn

/-- Small-file reader, big-file reader and directory-index reader give the same answer. -/
theorem reader_kind_irrelevant (k₁ k₂ : ReaderKind) (content : Bytes) (head : Bool) (r : Bytes) (accept : Bool)
    (hn : (content.length : Int) < 9223372036854775808) :
    serveDecision k₁ content head r accept = serveDecision k₂ content head r accept :=
  FS.reader_kind_irrelevant k₁ k₂ content head r accept hn

/-- non-vacuity: a 206 on a five-byte file. -/
example : serveDecision .small [10, 11, 12, 13, 14] false [98, 121, 116, 101, 115, 61, 49, 45, 51] true =
      .ok { status := 206, contentLength := 3, contentRange := some [98, 121, 116, 101, 115, 32, 49, 45, 51, 47, 53],
            acceptRanges := true, body := [11, 12, 13] } := by decide
/-- regression (former F14 witnesses): 416, no panic, no `206 bytes 10-9/10`. -/
example : serveDecision .small [] false [98, 121, 116, 101, 115, 61, 45, 49] true = .ok (abortResp false 416 msg416) ∧
    serveDecision .small [1, 2, 3, 4, 5, 6, 7, 8, 9, 10] false [98, 121, 116, 101, 115, 61, 45, 48] true
      = .ok (abortResp false 416 msg416) := by decide

/-- `SetContentRange` on in-range arguments reads back as the three numbers. -/
theorem contentRange_roundtrip (s e n : Int) (hs : 0 ≤ s) (he : 0 ≤ e) (hn : 0 ≤ n)
    (hs' : s < 9223372036854775808) (he' : e < 9223372036854775808) (hn' : n < 9223372036854775808) :
    ∃ cr, contentRange s e n = .ok cr ∧ parseContentRange cr = some (s.toNat, e.toNat, n.toNat) :=
  contentRange_ok hs he hn hs' he' hn'

example : contentRange 8191 8192 20000 = .ok [98, 121, 116, 101, 115, 32, 56, 49, 57, 49, 45, 56, 49, 57, 50, 47, 50, 48, 48, 48, 48] := by decide

/-! ## which file is served

The tree maps paths to files `(payload, mtime, compressible)`; `Payload.gz p` is a gzip stream of
`p`.  `FsFile.meaning` is what a client has after undoing the `Content-Encoding` the handler
announces.  The hypothesis `hs` is the assumption every mtime-keyed cache makes: a `.hertz.gz`
sibling carrying the modification time of the file is a gzip stream of the file.  Nothing is assumed
about siblings with any other modification time — older OR newer, whatever they hold. -/

/-- `openFSFile` returns the requested file's own bytes — plain, or as a gzip stream of exactly
them — and its modification time: for every tree, every path, with or without `mustCompress`,
whatever an older or newer `.hertz.gz` sibling holds. -/
theorem open_serves_the_file (t : Tree) (path c : Bytes) (m : Nat) (z mc : Bool)
    (hf : t.find path = some ⟨.raw c, m, z⟩)
    (hs : ∀ s, t.find (path ++ gzSuffix) = some s → s.mtime = m → s.payload = .gz (.raw c)) :
    ∃ ff, (openFSFile t path mc).2 = .ok ff ∧ ff.meaning = some c ∧ ff.lastModified = m :=
  open_serves t path c m z mc hf hs

/-- regression (seed C08-m3): a sibling NEWER than the file with other content is not trusted: it
is replaced by a gzip stream of the file, and that is what is served. -/
example :
    let t : Tree := [([97], ⟨.raw [1, 2, 3], 5, true⟩), ([97] ++ gzSuffix, ⟨.gz (.raw [9, 9]), 7, false⟩)]
    openFSFile t [97] true =
      ([([97] ++ gzSuffix, ⟨.gz (.raw [1, 2, 3]), 5, false⟩), ([97], ⟨.raw [1, 2, 3], 5, true⟩)],
       .ok ⟨.gz (.raw [1, 2, 3]), true, 5⟩) := by decide
/-- non-vacuity of `hs`: without it the claim is false — a sibling with the file's own mtime is
served as it is. -/
example :
    let t : Tree := [([97], ⟨.raw [1, 2, 3], 5, true⟩), ([97] ++ gzSuffix, ⟨.gz (.raw [9, 9]), 5, false⟩)]
    (openFSFile t [97] true).2 = .ok ⟨.gz (.raw [9, 9]), true, 5⟩ := by decide

/-- A missing file is an error (404) whatever siblings lie around. -/
theorem open_missing_is_error (t : Tree) (path : Bytes) (mc : Bool) (hf : t.find path = none) :
    ∃ e, (openFSFile t path mc).2 = .error e := open_missing t path mc hf

example : (openFSFile [([97] ++ gzSuffix, ⟨.gz (.raw [9, 9]), 7, false⟩)] [97] true).2 = .error .other := by decide

/-- Opening a file changes nothing in the tree except that file's `.hertz.gz` sibling: no served
file is ever modified. -/
theorem open_touches_only_the_sibling (t : Tree) (path q : Bytes) (mc : Bool) (hq : q ≠ path ++ gzSuffix) :
    (openFSFile t path mc).1.find q = t.find q := open_tree t path q mc hq

/-- … and the sibling it leaves behind again satisfies the assumption `hs`. -/
theorem open_leaves_honest_sibling (t : Tree) (path c : Bytes) (m : Nat) (z mc : Bool)
    (hf : t.find path = some ⟨.raw c, m, z⟩)
    (hs : ∀ s, t.find (path ++ gzSuffix) = some s → s.mtime = m → s.payload = .gz (.raw c)) :
    ∀ s, (openFSFile t path mc).1.find (path ++ gzSuffix) = some s → s.mtime = m → s.payload = .gz (.raw c) :=
  open_sibling t path c m z mc hf hs

example : (openFSFile [([97], ⟨.raw [1, 2, 3], 5, true⟩)] [97] true).1.find ([97] ++ gzSuffix)
    = some ⟨.gz (.raw [1, 2, 3]), 5, false⟩ := by decide

/-- A request that finds no cache entry (first request, new handler, expired entry) is answered
from `openFSFile` on the tree as it is now. -/
theorem uncached_request_opens_current_tree (compress : Bool) (st : State) (path r : Bytes) (ae : Bool)
    (h1 : st.cache.find path = none) (h2 : st.ccache.find path = none) :
    (fetch compress st path r ae).2 = (openFSFile st.tree path (mustCompress compress r ae)).2 :=
  (fetch_uncached compress st path r ae h1 h2).1

example : (fetch true {} [97] [] true).2 = .error .notExist := by decide

/-- **Whole scenarios.**  Take any sequence of tree changes (files replaced, deleted, re-created with
any modification times; `.hertz.gz` siblings planted with any payload and any modification time, or
removed), cache flushes (new handler / expiry) and requests (any method, `Range`, with or without
`Accept-Encoding: gzip`), with `Compress` on or off.  If the scenario respects the mtime assumption
(`Spec.honest`: same name and same modification time imply same content) and no name is itself a
`.hertz.gz` path, then EVERY request is answered from a file whose meaning — its bytes, or what its
gzip stream decodes to — is a content the requested file had at some moment since the caches were
last empty; and with an error (404) only if the file was absent at such a moment. -/
theorem scenario_serves_a_version (compress : Bool) (steps pre post : List Step) (name r : Bytes) (head ae : Bool)
    (hh : Spec.honest steps = true) (hn : ∀ s ∈ steps, ∀ n, s.name? = some n → ¬ gzSuffix <:+ n)
    (hsplit : steps = pre ++ .get name head ae r :: post) :
    match (fetch compress (stateAfter compress {} pre) name r ae).2 with
    | .ok ff => ∃ c, ff.meaning = some c ∧ some c ∈ (Spec.viewOf name pre).since
    | .error _ => none ∈ (Spec.viewOf name pre).since := by
  have := scenario_good compress steps pre post name r head ae hh hn hsplit
  cases h : (fetch compress (stateAfter compress {} pre) name r ae).2 <;> (rw [h] at this; exact this)

/-- non-vacuity, and the roll-back of seed C08-m3 as a scenario: v2 `[7,7]` (mtime 9) is served
compressed, the file is rolled back to v1 `[1,2,3]` with its older mtime 2, the cache is emptied:
a gzip client gets v1, which is the only content allowed. -/
example :
    let pre : List Step := [.write [97] [7, 7] 9 true, .get [97] false true [], .write [97] [1, 2, 3] 2 true, .flush]
    Spec.honest (pre ++ [.get [97] false true []]) = true ∧
    (fetch true (stateAfter true {} pre) [97] [] true).2 = .ok ⟨.gz (.raw [1, 2, 3]), true, 2⟩ ∧
    (Spec.viewOf [97] pre).since = [some [1, 2, 3]] := by decide
/-- without the flush the cached v2 may still be served, and the spec allows exactly that -/
example :
    let pre : List Step := [.write [97] [7, 7] 9 true, .get [97] false true [], .write [97] [1, 2, 3] 2 true]
    (fetch true (stateAfter true {} pre) [97] [] true).2 = .ok ⟨.gz (.raw [7, 7]), true, 9⟩ ∧
    (Spec.viewOf [97] pre).since = [some [1, 2, 3], some [7, 7], none] := by decide


/-! ## the cache and the reader reference counts (open path) as a state machine

`Hertz/Model/FsCache.lean`: one `fsHandler` — every `fsFile` it created (count, reader pool, OS file open?, cached?,
pending?, expired?), the readers held by responses, the tree below the root — under every sequence of requests
(small / big files, `index.html` of a directory, Range, HEAD, If-Modified-Since → 304), deliveries of held bodies,
changes of the tree (remove, replace by a file or a directory), expiry, and `cleanCache` rounds.  `bin/check C08` holds it to
the Go code with the `fscache` scenarios (status, Content-Length, Content-Range, body bytes, and the number of open
descriptors after every step).  Quantifiers: all op sequences of every length, both `AcceptByteRange` settings, every Range
header value, every tree.  Requests are sequential (`cacheLock` serialises the count updates; two requests inside
`handleRequest` at once are not modelled).

Not modelled: `compressedCache`, generated index pages.
-/
section cache
open Hertz.FsCache

/-- **No reference-count panic, and no other one**: every sequence of operations runs to the end; in particular
`panic("BUG: negative fsFile.readersCount!")` (`Fault.negativeCount`) is unreachable. -/
theorem no_refcount_panic (accept : Bool) (ops : List Op) : ∃ s, run accept {} ops = .ok s :=
  (G_run accept ops G_init).imp fun _ h => h.1

/-- In every reachable state the count of an `fsFile` is exactly the number of readers handed to responses and not
yet closed. -/
theorem readers_count_is_live_readers (accept : Bool) (ops : List Op) (s : FsCache.State) (h : run accept {} ops = .ok s) :
    ∀ o ∈ s.objs, o.rc = (countFid o.id s.live : Int) := by
  obtain ⟨s', e, g⟩ := G_run accept ops G_init
  rw [h] at e; cases e
  intro o ho; simpa using g.cnt o ho

theorem count_never_negative (accept : Bool) (ops : List Op) (s : FsCache.State) (h : run accept {} ops = .ok s) :
    ∀ o ∈ s.objs, 0 ≤ o.rc := by
  intro o ho
  rw [readers_count_is_live_readers accept ops s h o ho]; omega

/-- The OS file of an `fsFile` is closed (`Release`) only when it is out of the cache, out of the cleaner's pending
list, and no response holds a reader of it; and it stays that way (the statement holds in every reachable state). -/
theorem file_closed_only_when_unreferenced (accept : Bool) (ops : List Op) (s : FsCache.State) (h : run accept {} ops = .ok s) :
    ∀ o ∈ s.objs, o.fileOpen = false → o.cached = false ∧ o.pending = false ∧ countFid o.id s.live = 0 ∧ o.rc = 0 := by
  obtain ⟨s', e, g⟩ := G_run accept ops G_init
  rw [h] at e; cases e
  intro o ho hf
  obtain ⟨a, b, c, _⟩ := g.closed o ho hf
  refine ⟨a, b, c, ?_⟩
  have := g.cnt o ho
  simp [c] at this; exact this

/-- Every download in flight reads from an `fsFile` whose OS file is still open, whatever happened in between
(other requests failing, the file removed, the cache expired and cleaned). -/
theorem live_reader_file_open (accept : Bool) (ops : List Op) (s : FsCache.State) (h : run accept {} ops = .ok s) :
    ∀ r ∈ s.live, ∃ o ∈ s.objs, o.id = r.fid ∧ o.fileOpen = true := by
  obtain ⟨s', e, g⟩ := G_run accept ops G_init
  rw [h] at e; cases e
  intro r hr
  obtain ⟨o, ho, e⟩ := g.ref r hr
  refine ⟨o, ho, e, ?_⟩
  cases hf : o.fileOpen with
  | true => rfl
  | false =>
    have c := (g.closed o ho hf).2.2.1
    have := countFid_pos_of_mem hr
    rw [← e] at this; omega

/-- A request that is answered without a body stream — 404, 403, 500 (the cached big file cannot be re-opened, or its name denotes another file object by now), 416, 304,
HEAD — leaves the readers in flight as they were, and every count still equal to their number: a failed open gives its
reference back exactly once. -/
theorem failed_open_leaves_counts_unchanged (accept : Bool) (ops : List Op) (s s' : FsCache.State) (a : Ans)
    (key : Nat) (head : Bool) (ims : Option Nat) (range : Bytes)
    (h : run accept {} ops = .ok s) (hr : handleRequest accept key head ims range s = .ok (s', a)) (hn : a.rid = none) :
    s'.live = s.live ∧ ∀ o ∈ s'.objs, o.rc = (countFid o.id s.live : Int) := by
  obtain ⟨s0, e, g⟩ := G_run accept ops G_init
  rw [h] at e; cases e
  obtain ⟨s1, a1, e1, g1, l1⟩ := G_handleRequest accept key head ims range g
  rw [hr] at e1; cases e1
  refine ⟨l1 hn, ?_⟩
  intro o ho
  rw [← l1 hn]; simpa using g1.cnt o ho

/-- non-vacuity: a 9000-byte file is being downloaded, is removed, and is requested again: 500, the count stays 1,
the held reader stays; then the body is delivered and the cache cleaned: count 0, file released. -/
example :
    let ops : List Op := [.setNode 0 (.file ⟨7, 1, 9000⟩ 1), .req 0 false none [], .setNode 0 .absent, .req 0 false none []]
    (run true {} ops).toOption.map (fun s => (s.objs.map (·.rc), s.live.map (·.rid), fds s)) = some ([1], [1], 2) ∧
    (run true {} (ops ++ [.close 1, .expire, .tick])).toOption.map
      (fun s => (s.objs.map (·.rc), s.objs.map (·.fileOpen), fds s)) = some ([0], [false], 0) := by decide
/-- the fault is a real outcome of the model: the decrement of seed C08-m5, done twice for one request, panics -/
example :
    (match (decReadersCount 0 ⟨[⟨0, 0, false, ⟨7, 1, 9000⟩, 1, 1, [], true, true, false, false⟩], [], 1, fun _ => .absent⟩).bind
        (decReadersCount 0) with
     | .error f => some f
     | .ok _ => none) = some FsCache.Fault.negativeCount := by decide

/-- **A pooled reader is not live**: in every reachable state a `bigFileReader` object that sits in the pool of an `fsFile`
(`ff.bigFiles`) is not held by any response. -/
theorem pooled_reader_not_live (accept : Bool) (ops : List Op) (s : FsCache.State) (h : run accept {} ops = .ok s) :
    ∀ o ∈ s.objs, ∀ p ∈ o.pool, ∀ r ∈ s.live, p.rid ≠ r.rid := by
  obtain ⟨s', e, _, p⟩ := GP_run accept ops G_init P_init
  rw [h] at e; cases e
  intro o ho q hq r hr
  exact P_pooled_not_live p ho hq hr

/-- Every reader object is in at most one place, once: held by one response, or in the pool of one `fsFile`. -/
theorem reader_in_one_place (accept : Bool) (ops : List Op) (s : FsCache.State) (h : run accept {} ops = .ok s) :
    ∀ rid, occ rid s ≤ 1 := by
  obtain ⟨s', e, _, p⟩ := GP_run accept ops G_init P_init
  rw [h] at e; cases e
  intro rid; simpa using p.one rid

/-- non-vacuity: one download of a big file in flight (reader 1), a second one finished (reader 2, pooled); the next
request takes reader 2 out of the pool again -/
example :
    let ops : List Op := [.setNode 0 (.file ⟨7, 1, 9000⟩ 1), .req 0 false none [], .req 0 false none [], .close 2]
    (run true {} ops).toOption.map (fun s => (s.objs.map (fun o => o.pool.map (·.rid)), s.live.map (·.rid))) = some ([[2]], [1]) ∧
    (run true {} (ops ++ [.req 0 false none []])).toOption.map
      (fun s => (s.objs.map (fun o => o.pool.map (·.rid)), s.live.map (·.rid))) = some ([[]], [2, 1]) := by decide

/-- **The re-opened file is the cached file**: in every reachable state every reader — held by a response or pooled —
reads the very file object (identity, bytes, length) its `fsFile` was made from, i.e. the one the response headers
(`Content-Length`, `Last-Modified`, `Content-Range`) describe; whatever was removed, replaced or recreated under that
name in between.  For big files this rests on the `os.SameFile` check after `os.Open(ff.f.Name())` (commit 435a1ed). -/
theorem reopened_file_is_cached_file (accept : Bool) (ops : List Op) (s : FsCache.State) (h : run accept {} ops = .ok s) :
    (∀ r ∈ s.live, ∀ o ∈ s.objs, o.id = r.fid → r.src = .content o.c) ∧
    (∀ o ∈ s.objs, ∀ p ∈ o.pool, p.src = .content o.c) :=
  have hs := S_run accept ops S_init h
  ⟨fun r hr => (hs.live r hr).1, hs.pool⟩

/-- regression example (the former witness of finding C08-reopen-by-name): a 9000-byte file is being downloaded, another
file object of 8193 bytes is renamed over it, the name is requested again.  The request is answered 500 — before the repair:
200, Content-Length 9000 and the 8193 bytes of the other file —, the count stays 1, the held reader stays and still reads
the first file object; no reader of the second object exists. -/
example :
    let ops : List Op := [.setNode 0 (.file ⟨7, 1, 9000⟩ 2), .req 0 false none [], .setNode 0 (.file ⟨8, 2, 8193⟩ 2)]
    ((run true {} ops).toOption.bind fun s => (handleRequest true 0 false none [] s).toOption.map
      (fun p => (p.2.status, p.2.rid, p.1.objs.map (·.rc), fds p.1))) = some (500, none, [1], 2) ∧
    ((run true {} ops).toOption.bind fun s => (handleRequest true 0 false none [] s).toOption.map
      (fun p => p.1.live.map (fun r => (r.rid, r.src)))) = some [(1, .content ⟨7, 1, 9000⟩)] := by decide
/-- the same name replaced by a directory, and by the SAME file object renamed away and back: 500, and 200 from that object -/
example :
    let ops : List Op := [.setNode 0 (.file ⟨7, 1, 9000⟩ 2), .req 0 false none []]
    ((run true {} (ops ++ [.setNode 0 (.dir none)])).toOption.bind fun s =>
      (handleRequest true 0 false none [] s).toOption.map (fun p => p.2.status)) = some 500 ∧
    ((run true {} (ops ++ [.setNode 0 .absent, .setNode 0 (.file ⟨7, 1, 9000⟩ 2)])).toOption.bind fun s =>
      (handleRequest true 0 false none [] s).toOption.map (fun p => (p.2.status, p.1.live.map (fun r => r.src))))
      = some (200, [.content ⟨7, 1, 9000⟩, .content ⟨7, 1, 9000⟩]) := by decide

/-- The Go source still touches `readersCount` exactly where the model does (`Hertz/Gen/Fs.lean`, regenerated on every
run from ALL functions of `pkg/app/fs.go`): one increment per cache hit / insertion in `handleRequest`, one decrement in
`handleRequest` (304), one in `NewReader` (re-open failed) and one in each `Close`; `bigFileReader()` itself has none; files
are released by `cleanCache` only (and by the twice-opened branch of `handleRequest`).  A new site — such as a second
decrement on the failed re-open — changes the list and breaks this theorem. -/
theorem model_matches_gen_refcounts :
    Gen.Fs.rcSites =
      [("fsSmallFileReader.Close", ["ff.decReadersCount()"]),
       ("bigFileReader.Close", ["r.ff.decReadersCount()"]),
       ("fsHandler.cleanCache", ["if ff.readersCount > 0", "ff.Release()"]),
       ("fsFile.decReadersCount", ["ff.readersCount--", "if ff.readersCount < 0", "panic(\"BUG: negative fsFile.readersCount!\")"]),
       ("fsFile.NewReader", ["ff.decReadersCount()"]),
       ("fsHandler.handleRequest", ["ff.readersCount++", "fileCache[pathStr] = ff", "ff.readersCount++", "ff1.readersCount++",
                                    "ff.Release()", "ff.decReadersCount()"]),
       ("cleanCacheNolock", ["if ff.readersCount > 0", "delete(cache, k)"])] ∧
    Gen.Fs.newReader = ["if ff.isBig()", "r, err := ff.bigFileReader()", "if err != nil", "ff.decReadersCount()",
                        "return r, err", "return ff.smallFileReader(), nil"] ∧
    Gen.Fs.fsFileBigFileReader.length = 23 ∧ "f, err := os.Open(ff.f.Name())" ∈ Gen.Fs.fsFileBigFileReader ∧
    "if fi0, err = ff.f.Stat(); err == nil && !os.SameFile(fi0, fi)" ∈ Gen.Fs.fsFileBigFileReader ∧
    Gen.Fs.fsFileBigFileReader.drop 19 = ["if err != nil", "f.Close()", "return nil, ERR", "return &bigFileReader{ f: f, ff: ff, r: f, }, nil"] ∧
    Gen.Fs.bigClose.length = 13 ∧ Gen.Fs.smallClose.length = 7 ∧ Gen.Fs.release.length = 6 ∧
    Gen.Fs.cleanCache.length = 13 ∧ Gen.Fs.cleanCacheNolock.length = 8 ∧ Gen.Fs.decReadersCount.length = 4 := by
  refine ⟨rfl, rfl, rfl, by decide, by decide, rfl, rfl, rfl, rfl, rfl, rfl, rfl⟩

example : (Gen.Fs.rcSites.map (·.1)).length = 7 := by decide

end cache

/-- The Go sources still have the shape the model was written against (see `Hertz/Gen/Fs.lean`). -/
theorem model_matches_gen_C08 :
    strBytes = Gen.Str.strBytes ∧ Gen.Fs.maxSmallFileSize = 8192 ∧
    Gen.Fs.smallUpdateByteRange = ["r.startPos = startPos", "r.endPos = endPos + 1", "return nil"] ∧
    Gen.Fs.maxIntExpr = "int(^uint(0) >> 1)" :=
  ⟨model_matches_gen.1, model_matches_gen.2.1, model_matches_gen.2.2.2.1, model_matches_gen.2.2.2.2.2.2.2.2.1⟩

/-- `openFSFile`, `compressAndOpenFSFile`, `compressFileNolock` and the sibling suffix still have the
shape `Hertz/Model/FsTree.lean` mirrors (statement skeletons regenerated from the Go source). -/
theorem model_matches_gen_open_path :
    gzSuffix = Gen.Fs.compressedFileSuffix ∧
    "if fileInfoOriginal.ModTime() != fileInfo.ModTime()" ∈ Gen.Fs.openFSFile ∧
    Gen.Fs.openFSFile.length = 27 ∧ Gen.Fs.compressAndOpenFSFile.length = 22 ∧ Gen.Fs.compressFileNolock.length = 25 := by
  obtain ⟨h0, h1, h2, h3⟩ := open_path_matches_gen
  refine ⟨h0, ?_, ?_, ?_, ?_⟩
  · rw [h1]; decide
  · rw [h1]; rfl
  · rw [h2]; rfl
  · rw [h3]; rfl

example : Gen.Fs.compressedFileSuffix.length = 9 ∧ Gen.Fs.openFSFile.head? = some "filePathOriginal := filePath" := by decide

end Hertz.Props.C08
