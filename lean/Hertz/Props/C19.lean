import Hertz.Proofs.Tracer
import Hertz.Proofs.ServeSkeleton
import Hertz.Proofs.TraceRefine
/-!
# C19 — tracer start/finish calls pair up exactly once per request, in causal order

Model (`Model/Tracer.lean`): `Server.Serve` reduced to its tracer-relevant actions — `DoStart`/`DoFinish`
sites, `eventStack` push/pop, `traceStarted`, every `return`, the deferred epilogue — driven by a
*history* (one `Iter` per loop iteration: does the idle peek fail, and which path the iteration takes:
header error / body error / 100-continue failures / handled and then handler panic, write error, flush
error, body-stream release error, hijack, close, keep-alive), for both idle styles (`idleZero`: return to
the poller after every request) and any number of `Serve` calls per connection; `observe` runs the
actions against `httpStats` (`Record` with the level filter, `eventMap[idx]`, `Reset`) and a recording
tracer.  The property itself is `Spec/Tracer.lean:logOK`, written against the call log only.

Proved, for every configuration with a tracer, every trace level (any `Nat`), every history of every
length and every number of `Serve` calls on the connection:
* `start_finish_alternate`, `no_finish_without_start` — calls alternate `S F S F …` beginning with a
  start; at every moment #F ≤ #S ≤ #F + 1; the log of a finished connection ends on a finish;
* `pairs_bracket_requests` — the full predicate: the n-th pair's start plants n, its handler (if the
  request got that far) and its finish find n, the finish still sees the data of exactly that handled
  request, a start sees an event table holding nothing of an earlier request, a finish sees
  start ≤ read-header ≤ read-body ≤ handle ≤ write ≤ finish with every started stage finished (error
  exits and an unwinding handler panic included);
* `finish_events_ordered`, `handled_inside_one_pair` — the two parts people quote, extracted;
* `no_tracer_no_calls` — without a tracer nothing is called;
* `model_matches_gen`, `events_match_gen`, `skeleton_balanced`, `iter_follows_skeleton` — the model is
  tied to the source: the hand-written skeleton equals the one regenerated from `server.go`; on every
  control-flow path through a loop iteration every push has its pop, `DoStart`/`DoFinish` alternate and
  the loop-head state is restored; every pass of the functional model is one of these paths; event
  indices and levels are those of `event.go`.

The defect F9 of the pinned snapshot (a `Finish` with no `Start` when a keep-alive connection ends while
idle: log `S F S F F`) has been repaired in /repo (`traceStarted`); the old witness is kept below as a
positive regression example, and the mutation "remove the `traceStarted` guard" breaks
`skeleton_balanced` as well as the correspondence.

From byte streams to histories (`Proofs/TraceRefine.lean`), for every configuration, stream end and byte
stream of every length:
* `classify_refines_serve` — the history `H1.classify` reads off a byte stream and the event list of the
  keep-alive loop model `H1.serve` project onto the same word over the alphabet they share (`H1.Out`:
  request target reached the handler / response written: handler's or error response, connection kept
  or closed).  The projections are explicit: `H1.projEv` (forgets the parsed request except its target,
  the status except "is it 200", and the interim `100 Continue`) and `H1.projIters` (idle-wait end,
  `ErrNothingRead` and `io.EOF` closes show nothing; a read failure answered by `writeErrorResponse` shows
  `resp false true`; a handled request shows its target and the response).  Neither alphabet embeds in
  the other, so there is no projection from one onto the other: `Ev.req` carries the whole parsed request
  and `Ev.resp` the status, which no `Outcome` has; an `Outcome` tells three silent closes apart, which
  the (empty) event list does not.
  Hypotheses = exactly what `H1.serve` does not model: `poll = false` (in-loop idle handling; `serve` has
  no return-to-poller style), `Common t` for every iteration (not: unwinding handler panic, hijack,
  failing write/flush of the response or of the interim `100 Continue`, handler-initiated
  `Connection: close` — none of them is an event of `serve`, whose handler is the echo handler), and no
  `Ev.unmodelled` (hand-over to `mime/multipart`; `classify_refines_serve_noPreParse`: implied by
  `preParse = false`).  `refinement_needs_*` show on concrete streams that each hypothesis is needed.
  A recovered handler panic and a write failure scheduled for a *later* write are on the common ground.
* `tracer_log_of_every_stream`, `tracer_pairs_per_request` — the tracer theorems applied to byte streams:
  the call log of every stream is accepted by `logOK` (every configuration, `poll` included); on the
  common ground it has exactly one handler run — inside its own `Start … Finish` pair — per `.req`
  event of `serve`, at most one more pair (the exchange that failed before the handler), and as many
  finishes as starts.

* `classify_refines_serve_upto` — for every stream (no hypothesis on the iterations): the projection of the
  longest prefix of the history that stays on the common ground is a prefix of the projection of
  `serve`'s events; i.e. the two models agree up to the first iteration that leaves the common ground.

TODO-OPEN (not part of the property; decided per explored case by the correspondence):
* from the first iteration outside the common ground on, `classify` and `serve` are not compared by a
  theorem: they describe different handlers there (`serve`: echo handler, writes never fail).
* return-to-poller style (`poll = true`): `tracer_log_of_every_stream` covers it; the refinement and the
  count of handler runs per `.req` event are stated for `poll = false` only, because `serve` models the
  in-loop idle wait (`refinement_needs_inloop_idle` is the stream on which the two styles differ).
-/
namespace Hertz.Props.C19
open Hertz Hertz.Tracer

/-- **Pairing, data and stage order.**  The call log of every connection is a sequence of complete pairs
`Start, [handler], Finish` accepted by `Spec.Tracer.logOK`. -/
theorem pairs_bracket_requests (cfg : Cfg) (hen : cfg.enableTrace = true) (lv : Level)
    (hists : List (List Iter)) : logOK lv (observe lv (connection cfg hists)) = true :=
  connection_logOK cfg hen lv hists

/-- **Alternation.**  Start and finish calls strictly alternate, beginning with a start and ending with
a finish (so the end of a keep-alive connection produces no extra call). -/
theorem start_finish_alternate (cfg : Cfg) (hen : cfg.enableTrace = true) (lv : Level)
    (hists : List (List Iter)) : alternates (observe lv (connection cfg hists)) = true :=
  pairsFrom_alternates lv 1 1 _ (connection_logOK cfg hen lv hists)

/-- the same for one call of `Serve` (in-loop idle handling) -/
theorem start_finish_alternate_serve (cfg : Cfg) (hen : cfg.enableTrace = true) (lv : Level)
    (hist : List Iter) : alternates (observe lv (serve cfg hist)) = true := by
  have := start_finish_alternate cfg hen lv [hist]
  simpa [connection] using this

/-- **No finish without an unmatched start**, at every moment: for every prefix `p` of the log,
`#Finish ≤ #Start ≤ #Finish + 1`. -/
theorem no_finish_without_start (cfg : Cfg) (hen : cfg.enableTrace = true) (lv : Level)
    (hists : List (List Iter)) (p q : List Call) (h : observe lv (connection cfg hists) = p ++ q) :
    nFinishes p ≤ nStarts p ∧ nStarts p ≤ nFinishes p + 1 := by
  have ha := start_finish_alternate cfg hen lv hists
  rw [h] at ha
  simpa using alternatesFrom_prefix p q false ha

/-- **Stage order.**  Whatever way the exchange ended, the event table a `Finish` sees is ordered
start ≤ read-header ≤ read-body ≤ handle ≤ write ≤ finish, every started stage is finished, later
stages imply earlier ones, and `Stats().Error()` agrees with the status of `HTTPFinish`. -/
theorem finish_events_ordered (cfg : Cfg) (hen : cfg.enableTrace = true) (lv : Level)
    (hists : List (List Iter)) (c d : Option Nat) (e : Bool) (f : Snap)
    (hm : Call.finish c d e f ∈ observe lv (connection cfg hists)) :
    ordered f = true ∧ finishSnapOK lv d.isSome e f = true :=
  have h := pairsFrom_finish lv 1 1 _ (connection_logOK cfg hen lv hists) c d e f hm
  ⟨finishSnapOK_ordered h, h⟩

/-- **Without a tracer** (`EnableTrace` false) no tracer call is made; handlers run with the caller's context. -/
theorem no_tracer_no_calls (cfg : Cfg) (hen : cfg.enableTrace = false) (lv : Level)
    (hists : List (List Iter)) : logOffOK 1 (observe lv (connection cfg hists)) = true :=
  connection_logOffOK cfg hen lv hists

/-! ### tie to the source -/

/-- The skeleton the model was written from is the one `server.go` has now (regenerated on every run):
order of `DoStart` / `DoFinish` / `Record` / push / pop / `traceStarted` writes / `return`s, block structure. -/
theorem model_matches_gen : serveSk.flatten = Hertz.Gen.ServeSkeleton.tokens := serveSk_matches_gen

/-- Event indices (slots of `eventMap`), levels and the table size are those declared in `event.go`. -/
theorem events_match_gen : eventsMatchGen = true := Hertz.Tracer.events_match_gen

/-- On every control-flow path through one loop iteration (722 with tracing, deferred function included):
every push has its pop, no pop hits an empty stack, `DoStart`/`DoFinish` alternate, nothing is left
open at exit, and a path reaching the loop end restores the loop-head state. -/
theorem skeleton_balanced (en : Bool) (r : PSt × Bool) (h : r ∈ iterPaths en) : PSt.balanced en r = true :=
  Hertz.Tracer.skeleton_balanced en r h

/-- Every pass of the functional model (whatever configuration, position, idle-wait answer, outcome) is
one of the paths of that skeleton, action for action. -/
theorem iter_follows_skeleton (cfg : Cfg) (first : Bool) (it : Iter) :
    ∃ r ∈ iterPaths cfg.enableTrace,
      r.1.acts = eraseActs (iterStep cfg first it).1 ∧ r.2 = (iterStep cfg first it).2.isNone :=
  Hertz.Tracer.iter_follows_skeleton cfg first it

/-! ### from byte streams to histories -/

/-- **Refinement.**  In-loop idle handling, every iteration on the ground both models cover, no
hand-over to `mime/multipart`: the history read off the byte stream by `H1.classify` and the event list
of the keep-alive loop model `H1.serve` project onto the same sequence of handled request targets,
responses and close decisions. -/
theorem classify_refines_serve (c : H1.TraceCfg) (hp : c.poll = false) (e : H1.End) (s : Bytes)
    (hc : ∀ t ∈ H1.classify c e s, H1.Common t = true) (hu : H1.Ev.unmodelled ∉ H1.serve c.h1 e s) :
    H1.projIters true (H1.classify c e s) = H1.projEv (H1.serve c.h1 e s) :=
  H1.classify_refines_serve c hp e s hc hu

/-- the same with the hypothesis on `serve` replaced by the configuration flag that implies it -/
theorem classify_refines_serve_noPreParse (c : H1.TraceCfg) (hp : c.poll = false) (hpp : c.h1.preParse = false)
    (e : H1.End) (s : Bytes) (hc : ∀ t ∈ H1.classify c e s, H1.Common t = true) :
    H1.projIters true (H1.classify c e s) = H1.projEv (H1.serve c.h1 e s) :=
  H1.classify_refines_serve c hp e s hc (H1.serve_no_unmodelled c.h1 hpp e s)

/-- **Refinement up to divergence**, for every stream: the part of the history before the first iteration
that leaves the common ground projects onto a prefix of what `H1.serve` reports. -/
theorem classify_refines_serve_upto (c : H1.TraceCfg) (hp : c.poll = false) (e : H1.End) (s : Bytes)
    (hu : H1.Ev.unmodelled ∉ H1.serve c.h1 e s) :
    H1.projIters true ((H1.classify c e s).takeWhile (H1.Common ·)) <+: H1.projEv (H1.serve c.h1 e s) :=
  H1.classify_refines_serve_upto c hp e s hu

/-- **The tracer theorems apply to every byte stream**: whatever the configuration (idle style included),
the way the stream ends and the bytes, the call log of the connection is a sequence of complete pairs. -/
theorem tracer_log_of_every_stream (c : H1.TraceCfg) (e : H1.End) (s : Bytes) (lv : Level) :
    logOK lv (observe lv (H1.traceActs c true e s)) = true ∧
    alternates (observe lv (H1.traceActs c true e s)) = true :=
  ⟨H1.traceActs_logOK c e s lv, pairsFrom_alternates lv 1 1 _ (H1.traceActs_logOK c e s lv)⟩

/-- **One pair per request.**  On the common ground the call log has exactly one handler run — inside
its own `Start … Finish` pair, by `logOK` — per `.req` event of `H1.serve`, at most one pair more (the
exchange that failed or ended before the handler), and every start has its finish. -/
theorem tracer_pairs_per_request (c : H1.TraceCfg) (hp : c.poll = false) (e : H1.End) (s : Bytes)
    (hc : ∀ t ∈ H1.classify c e s, H1.Common t = true) (hu : H1.Ev.unmodelled ∉ H1.serve c.h1 e s) (lv : Level) :
    logOK lv (observe lv (H1.traceActs c true e s)) = true ∧
    nHandles (observe lv (H1.traceActs c true e s)) = H1.nReqs (H1.serve c.h1 e s) ∧
    H1.nReqs (H1.serve c.h1 e s) ≤ nStarts (observe lv (H1.traceActs c true e s)) ∧
    nStarts (observe lv (H1.traceActs c true e s)) ≤ H1.nReqs (H1.serve c.h1 e s) + 1 ∧
    nFinishes (observe lv (H1.traceActs c true e s)) = nStarts (observe lv (H1.traceActs c true e s)) :=
  H1.traceActs_per_request c hp e s hc hu lv

/-! #### the hypotheses of `classify_refines_serve` are satisfiable and each is needed -/

/-- `GET /a HTTP/1.1\r\nHost: x\r\n\r\n` -/
def reqA : Bytes := [71,69,84,32,47,97,32,72,84,84,80,47,49,46,49,13,10,72,111,115,116,58,32,120,13,10,13,10]
/-- `POST /p HTTP/1.1\r\nHost: x\r\nContent-Length: 2\r\nExpect: 100-continue\r\n\r\nhi` -/
def reqCont : Bytes := [80,79,83,84,32,47,112,32,72,84,84,80,47,49,46,49,13,10,72,111,115,116,58,32,120,13,10,67,111,110,116,101,110,116,45,76,101,110,103,116,104,58,32,50,13,10,69,120,112,101,99,116,58,32,49,48,48,45,99,111,110,116,105,110,117,101,13,10,13,10,104,105]
/-- the same with `Content-Type: multipart/form-data` -/
def reqMp : Bytes := [80,79,83,84,32,47,112,32,72,84,84,80,47,49,46,49,13,10,72,111,115,116,58,32,120,13,10,67,111,110,116,101,110,116,45,84,121,112,101,58,32,109,117,108,116,105,112,97,114,116,47,102,111,114,109,45,100,97,116,97,13,10,67,111,110,116,101,110,116,45,76,101,110,103,116,104,58,32,50,13,10,69,120,112,101,99,116,58,32,49,48,48,45,99,111,110,116,105,110,117,101,13,10,13,10,104,105]
/-- `BAD\r\n\r\n` -/
def reqBad : Bytes := [66,65,68,13,10,13,10]
/-- `GET <target> HTTP/1.1\r\nHost: x\r\n\r\n` -/
def getReq (target : Bytes) : Bytes :=
  [71,69,84,32] ++ target ++ [32,72,84,84,80,47,49,46,49,13,10,72,111,115,116,58,32,120,13,10,13,10]
def tHijack : Bytes := [47,104,105,106,97,99,107]
def tWfailnext : Bytes := [47,119,102,97,105,108,110,101,120,116]
def tClose : Bytes := [47,99,108,111,115,101]
def tPanic : Bytes := [47,112,97,110,105,99]

/-- a plain request, one with `Expect: 100-continue` and a body, then a malformed head: all hypotheses
hold, three iterations, six events -/
example : (∀ t ∈ H1.classify {} .eof (reqA ++ reqCont ++ reqBad), H1.Common t = true) ∧
    H1.Ev.unmodelled ∉ H1.serve {} .eof (reqA ++ reqCont ++ reqBad) ∧
    (H1.classify {} .eof (reqA ++ reqCont ++ reqBad)).length = 3 ∧
    (H1.serve {} .eof (reqA ++ reqCont ++ reqBad)).length = 6 ∧
    H1.projEv (H1.serve {} .eof (reqA ++ reqCont ++ reqBad)) =
      [.req [47, 97], .resp true false, .req [47, 112], .resp true false, .resp false true] := by
  decide +kernel

/-- the configuration hypotheses of `classify_refines_serve(_noPreParse)` / `tracer_pairs_per_request`
hold for the default configuration used above -/
example : ({} : H1.TraceCfg).poll = false ∧ ({} : H1.TraceCfg).h1.preParse = false := ⟨rfl, rfl⟩

/-- a recovered handler panic, and a write failure scheduled for a write that never happens, are on the
common ground -/
example : (∀ t ∈ H1.classify { recovery := true } .stall (getReq tPanic ++ getReq tWfailnext), H1.Common t = true) ∧
    (H1.classify { recovery := true } .stall (getReq tPanic ++ getReq tWfailnext)).length = 3 := by
  decide +kernel

/-- `classify_refines_serve_upto` on a stream that leaves the common ground at its second request
(hijack): the first exchange is common, `serve` goes on with what the echo handler would do -/
example : H1.Ev.unmodelled ∉ H1.serve {} .eof (reqA ++ getReq tHijack ++ reqA) ∧
    H1.projIters true ((H1.classify {} .eof (reqA ++ getReq tHijack ++ reqA)).takeWhile (H1.Common ·)) =
      [.req [47, 97], .resp true false] ∧
    (H1.projEv (H1.serve {} .eof (reqA ++ getReq tHijack ++ reqA))).length = 6 := by decide +kernel

/-- outside the common ground the two models describe different handlers — hijack: -/
theorem refinement_needs_common_hijack :
    H1.projIters true (H1.classify {} .eof (reqA ++ getReq tHijack ++ reqA)) ≠
      H1.projEv (H1.serve {} .eof (reqA ++ getReq tHijack ++ reqA)) := by decide +kernel

/-- … unwinding handler panic (no recovery middleware): -/
theorem refinement_needs_common_panic :
    H1.projIters true (H1.classify {} .eof (getReq tPanic ++ reqA)) ≠
      H1.projEv (H1.serve {} .eof (getReq tPanic ++ reqA)) := by decide +kernel

/-- … a failing write (scheduled by the request before): -/
theorem refinement_needs_common_writeErr :
    H1.projIters true (H1.classify {} .eof (getReq tWfailnext ++ reqA)) ≠
      H1.projEv (H1.serve {} .eof (getReq tWfailnext ++ reqA)) := by decide +kernel

/-- … a handler that closes the connection itself: -/
theorem refinement_needs_common_close :
    H1.projIters true (H1.classify {} .eof (getReq tClose ++ reqA)) ≠
      H1.projEv (H1.serve {} .eof (getReq tClose ++ reqA)) := by decide +kernel

/-- return-to-poller style: a fragment shorter than four bytes after a request is read as a request head
(`Serve` is entered afresh, no idle peek) and answered 400, while the in-loop idle wait of `serve` ends
silently; every iteration is on the common ground -/
theorem refinement_needs_inloop_idle :
    (∀ t ∈ H1.classify { poll := true } .eof (reqA ++ [71]), H1.Common t = true) ∧
    H1.projIters true (H1.classify { poll := true } .eof (reqA ++ [71])) ≠
      H1.projEv (H1.serve {} .eof (reqA ++ [71])) := by decide +kernel

/-- multipart pre-parse: `serve` stops with `unmodelled` (no opinion), `classify` files the request under
"body read failed after `100 Continue`"; every iteration is on the common ground -/
theorem refinement_needs_no_unmodelled :
    (∀ t ∈ H1.classify { h1 := { preParse := true } } .eof reqMp, H1.Common t = true) ∧
    H1.projIters true (H1.classify { h1 := { preParse := true } } .eof reqMp) ≠
      H1.projEv (H1.serve { preParse := true } .eof reqMp) := by decide +kernel

/-! ### non-vacuity and regression examples -/

def okNext : Iter := { outcome := .handled .next }
def idleEnd : Iter := { peekFails := true, outcome := .handled .next }

def kind : Call → String
  | .start .. => "S" | .handle .. => "H" | .finish .. => "F"

/-- the log of the stream `reqA ++ reqCont ++ reqBad` (hypotheses of `tracer_pairs_per_request` hold, see above): three pairs, two handler runs -/
example : (observe 2 (H1.traceActs {} true .eof (reqA ++ reqCont ++ reqBad))).map kind =
    ["S", "H", "F", "S", "H", "F", "S", "F"] := by decide +kernel

/-- F9 regression, in-loop idle handling: two requests, then the idle wait fails (peer close or idle
time-out — the same path).  Before the repair the log was `S H F S H F F`. -/
example : (observe 2 (serve {} [okNext, okNext, idleEnd])).map kind = ["S", "H", "F", "S", "H", "F"] := by decide

/-- F9 regression, return-to-poller style: `Serve` is entered once per request. -/
example : (observe 2 (connection { idleZero := true } [[okNext], [okNext]])).map kind = ["S", "H", "F", "S", "H", "F"] := by
  decide

/-- the ids and data of that log: pair 2 belongs to request 2 -/
example : (observe 0 (serve {} [okNext, okNext, idleEnd])) =
    [.start 1 (List.replicate 10 none), .handle (some 1) 1, .finish (some 1) (some 1) false (List.replicate 10 none),
     .start 2 (List.replicate 10 none), .handle (some 2) 2, .finish (some 2) (some 2) false (List.replicate 10 none)] := by
  decide

/-- a failed exchange: malformed header after one good request; the failed request has its own pair, the
read-header stage is closed with an error status, later stages are absent -/
example : (observe 2 (serve {} [okNext, { outcome := .headerErr .other }])).getLast? =
    some (.finish (some 2) none true
      [some ⟨10, false⟩, some ⟨11, false⟩, some ⟨12, true⟩, none, none, none, none, none, none, some ⟨13, true⟩]) := by
  decide

/-- an unwinding handler panic still closes the handle stage and delivers the finish -/
example : (observe 2 (serve {} [{ outcome := .handled .panic }])).map kind = ["S", "H", "F"] := by decide

/-- hypotheses of `no_finish_without_start` are satisfiable with a non-trivial prefix -/
example : ∃ p q, observe 2 (serve {} [okNext, okNext, idleEnd]) = p ++ q ∧ nStarts p = 2 ∧ nFinishes p = 1 :=
  ⟨(observe 2 (serve {} [okNext, okNext, idleEnd])).take 4, (observe 2 (serve {} [okNext, okNext, idleEnd])).drop 4,
   by decide, by decide, by decide⟩

/-- hypothesis of `finish_events_ordered` is satisfiable -/
example : ∃ c d e f, Call.finish c d e f ∈ observe 2 (connection {} [[okNext]]) := by
  refine ⟨some 1, some 1, false, (List.range 10).map (fun i => some ⟨i, false⟩), ?_⟩
  decide

/-- without a tracer -/
example : observe 2 (connection { enableTrace := false } [[okNext, okNext, idleEnd]]) = [.handle none 1, .handle none 2] := by
  decide

/-- the specification is not trivially true: the log of the pinned snapshot's defect F9 is rejected -/
example : alternates [.start 1 [], .finish (some 1) none false [], .start 2 [], .finish (some 2) none false [],
    .finish (some 2) none false []] = false := by decide

/-- … and so is a finish that sees an event table out of causal order -/
example : finishSnapOK 2 false false
    [some ⟨0, false⟩, some ⟨5, false⟩, some ⟨2, false⟩, none, none, none, none, none, none, some ⟨6, false⟩] = false := by
  decide

/-- the skeleton has paths, with and without tracing -/
example : (iterPaths true).length = 722 ∧ (iterPaths false).length = 362 := by decide +kernel

end Hertz.Props.C19
