import Hertz.Proofs.Tracer
import Hertz.Proofs.ServeSkeleton
/-!
# C19 — tracer start/finish calls pair up exactly once per request, in causal order

Model (`Model/Tracer.lean`): `Server.Serve` reduced to its tracer-relevant actions — `DoStart`/`DoFinish`
sites, `eventStack` push/pop, `traceStarted`, every `return`, the deferred epilogue — driven by a
*history* (one `Iter` per loop iteration: does the idle peek fail, and which path the iteration takes:
header error / body error / 100-continue failures / handled and then handler panic, write error, flush
error, body-stream release error, hijack, close, keep-alive), for both idle styles (`idleZero`: return to
the poller after every request) and any number of `Serve` calls per connection; `observe` runs the
actions against `httpStats` (`Record` with the level filter, `eventMap[idx]`, `Reset`) and a recording
tracer.  The property itself is `Spec/Tracer.lean:logOK`, written against the call log only.

Proved, for every configuration with a tracer, every trace level (any `Nat`), every history of every
length and every number of `Serve` calls on the connection:
* `start_finish_alternate`, `no_finish_without_start` — calls alternate `S F S F …` beginning with a
  start; at every moment #F ≤ #S ≤ #F + 1; the log of a finished connection ends on a finish;
* `pairs_bracket_requests` — the full predicate: the n-th pair's start plants n, its handler (if the
  request got that far) and its finish find n, the finish still sees the data of exactly that handled
  request, a start sees an event table holding nothing of an earlier request, a finish sees
  start ≤ read-header ≤ read-body ≤ handle ≤ write ≤ finish with every started stage finished (error
  exits and an unwinding handler panic included);
* `finish_events_ordered`, `handled_inside_one_pair` — the two parts people quote, extracted;
* `no_tracer_no_calls` — without a tracer nothing is called;
* `model_matches_gen`, `events_match_gen`, `skeleton_balanced`, `iter_follows_skeleton` — the model is
  tied to the source: the hand-written skeleton equals the one regenerated from `server.go`; on every
  control-flow path through a loop iteration every push has its pop, `DoStart`/`DoFinish` alternate and
  the loop-head state is restored; every pass of the functional model is one of these paths; event
  indices and levels are those of `event.go`.

The defect F9 of the pinned snapshot (a `Finish` with no `Start` when a keep-alive connection ends while
idle: log `S F S F F`) has been repaired in /repo (`traceStarted`); the old witness is kept below as a
positive regression example, and the mutation "remove the `traceStarted` guard" breaks
`skeleton_balanced` as well as the correspondence.

TODO-OPEN (not part of the property; decided per explored case by the correspondence):
* `classify_refines_serve`: the history `H1.classify` reads off a byte stream projects onto the event list
  of the keep-alive loop model `H1.serve` (same readers, same order) — the two are compared with the real
  server separately (C01–C03 and C19 ops), not with each other by a theorem.
-/
namespace Hertz.Props.C19
open Hertz Hertz.Tracer

/-- **Pairing, data and stage order.**  The call log of every connection is a sequence of complete pairs
`Start, [handler], Finish` accepted by `Spec.Tracer.logOK`. -/
theorem pairs_bracket_requests (cfg : Cfg) (hen : cfg.enableTrace = true) (lv : Level)
    (hists : List (List Iter)) : logOK lv (observe lv (connection cfg hists)) = true :=
  connection_logOK cfg hen lv hists

/-- **Alternation.**  Start and finish calls strictly alternate, beginning with a start and ending with
a finish (so the end of a keep-alive connection produces no extra call). -/
theorem start_finish_alternate (cfg : Cfg) (hen : cfg.enableTrace = true) (lv : Level)
    (hists : List (List Iter)) : alternates (observe lv (connection cfg hists)) = true :=
  pairsFrom_alternates lv 1 1 _ (connection_logOK cfg hen lv hists)

/-- the same for one call of `Serve` (in-loop idle handling) -/
theorem start_finish_alternate_serve (cfg : Cfg) (hen : cfg.enableTrace = true) (lv : Level)
    (hist : List Iter) : alternates (observe lv (serve cfg hist)) = true := by
  have := start_finish_alternate cfg hen lv [hist]
  simpa [connection] using this

/-- **No finish without an unmatched start**, at every moment: for every prefix `p` of the log,
`#Finish ≤ #Start ≤ #Finish + 1`. -/
theorem no_finish_without_start (cfg : Cfg) (hen : cfg.enableTrace = true) (lv : Level)
    (hists : List (List Iter)) (p q : List Call) (h : observe lv (connection cfg hists) = p ++ q) :
    nFinishes p ≤ nStarts p ∧ nStarts p ≤ nFinishes p + 1 := by
  have ha := start_finish_alternate cfg hen lv hists
  rw [h] at ha
  simpa using alternatesFrom_prefix p q false ha

/-- **Stage order.**  Whatever way the exchange ended, the event table a `Finish` sees is ordered
start ≤ read-header ≤ read-body ≤ handle ≤ write ≤ finish, every started stage is finished, later
stages imply earlier ones, and `Stats().Error()` agrees with the status of `HTTPFinish`. -/
theorem finish_events_ordered (cfg : Cfg) (hen : cfg.enableTrace = true) (lv : Level)
    (hists : List (List Iter)) (c d : Option Nat) (e : Bool) (f : Snap)
    (hm : Call.finish c d e f ∈ observe lv (connection cfg hists)) :
    ordered f = true ∧ finishSnapOK lv d.isSome e f = true :=
  have h := pairsFrom_finish lv 1 1 _ (connection_logOK cfg hen lv hists) c d e f hm
  ⟨finishSnapOK_ordered h, h⟩

/-- **Without a tracer** (`EnableTrace` false) no tracer call is made; handlers run with the caller's context. -/
theorem no_tracer_no_calls (cfg : Cfg) (hen : cfg.enableTrace = false) (lv : Level)
    (hists : List (List Iter)) : logOffOK 1 (observe lv (connection cfg hists)) = true :=
  connection_logOffOK cfg hen lv hists

/-! ### tie to the source -/

/-- The skeleton the model was written from is the one `server.go` has now (regenerated on every run):
order of `DoStart` / `DoFinish` / `Record` / push / pop / `traceStarted` writes / `return`s, block structure. -/
theorem model_matches_gen : serveSk.flatten = Hertz.Gen.ServeSkeleton.tokens := serveSk_matches_gen

/-- Event indices (slots of `eventMap`), levels and the table size are those declared in `event.go`. -/
theorem events_match_gen : eventsMatchGen = true := Hertz.Tracer.events_match_gen

/-- On every control-flow path through one loop iteration (722 with tracing, deferred function included):
every push has its pop, no pop hits an empty stack, `DoStart`/`DoFinish` alternate, nothing is left
open at exit, and a path reaching the loop end restores the loop-head state. -/
theorem skeleton_balanced (en : Bool) (r : PSt × Bool) (h : r ∈ iterPaths en) : PSt.balanced en r = true :=
  Hertz.Tracer.skeleton_balanced en r h

/-- Every pass of the functional model (whatever configuration, position, idle-wait answer, outcome) is
one of the paths of that skeleton, action for action. -/
theorem iter_follows_skeleton (cfg : Cfg) (first : Bool) (it : Iter) :
    ∃ r ∈ iterPaths cfg.enableTrace,
      r.1.acts = eraseActs (iterStep cfg first it).1 ∧ r.2 = (iterStep cfg first it).2.isNone :=
  Hertz.Tracer.iter_follows_skeleton cfg first it

/-! ### non-vacuity and regression examples -/

def okNext : Iter := { outcome := .handled .next }
def idleEnd : Iter := { peekFails := true, outcome := .handled .next }

def kind : Call → String
  | .start .. => "S" | .handle .. => "H" | .finish .. => "F"

/-- F9 regression, in-loop idle handling: two requests, then the idle wait fails (peer close or idle
time-out — the same path).  Before the repair the log was `S H F S H F F`. -/
example : (observe 2 (serve {} [okNext, okNext, idleEnd])).map kind = ["S", "H", "F", "S", "H", "F"] := by decide

/-- F9 regression, return-to-poller style: `Serve` is entered once per request. -/
example : (observe 2 (connection { idleZero := true } [[okNext], [okNext]])).map kind = ["S", "H", "F", "S", "H", "F"] := by
  decide

/-- the ids and data of that log: pair 2 belongs to request 2 -/
example : (observe 0 (serve {} [okNext, okNext, idleEnd])) =
    [.start 1 (List.replicate 10 none), .handle (some 1) 1, .finish (some 1) (some 1) false (List.replicate 10 none),
     .start 2 (List.replicate 10 none), .handle (some 2) 2, .finish (some 2) (some 2) false (List.replicate 10 none)] := by
  decide

/-- a failed exchange: malformed header after one good request; the failed request has its own pair, the
read-header stage is closed with an error status, later stages are absent -/
example : (observe 2 (serve {} [okNext, { outcome := .headerErr .other }])).getLast? =
    some (.finish (some 2) none true
      [some ⟨10, false⟩, some ⟨11, false⟩, some ⟨12, true⟩, none, none, none, none, none, none, some ⟨13, true⟩]) := by
  decide

/-- an unwinding handler panic still closes the handle stage and delivers the finish -/
example : (observe 2 (serve {} [{ outcome := .handled .panic }])).map kind = ["S", "H", "F"] := by decide

/-- hypotheses of `no_finish_without_start` are satisfiable with a non-trivial prefix -/
example : ∃ p q, observe 2 (serve {} [okNext, okNext, idleEnd]) = p ++ q ∧ nStarts p = 2 ∧ nFinishes p = 1 :=
  ⟨(observe 2 (serve {} [okNext, okNext, idleEnd])).take 4, (observe 2 (serve {} [okNext, okNext, idleEnd])).drop 4,
   by decide, by decide, by decide⟩

/-- hypothesis of `finish_events_ordered` is satisfiable -/
example : ∃ c d e f, Call.finish c d e f ∈ observe 2 (connection {} [[okNext]]) := by
  refine ⟨some 1, some 1, false, (List.range 10).map (fun i => some ⟨i, false⟩), ?_⟩
  decide

/-- without a tracer -/
example : observe 2 (connection { enableTrace := false } [[okNext, okNext, idleEnd]]) = [.handle none 1, .handle none 2] := by
  decide

/-- the specification is not trivially true: the log of the pinned snapshot's defect F9 is rejected -/
example : alternates [.start 1 [], .finish (some 1) none false [], .start 2 [], .finish (some 2) none false [],
    .finish (some 2) none false []] = false := by decide

/-- … and so is a finish that sees an event table out of causal order -/
example : finishSnapOK 2 false false
    [some ⟨0, false⟩, some ⟨5, false⟩, some ⟨2, false⟩, none, none, none, none, none, none, some ⟨6, false⟩] = false := by
  decide

/-- the skeleton has paths, with and without tracing -/
example : (iterPaths true).length = 722 ∧ (iterPaths false).length = 362 := by decide +kernel

end Hertz.Props.C19
