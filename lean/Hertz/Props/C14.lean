import Hertz.Model.Http1.Stream
/-!
# C14 — a streamed request body reads exactly the body and keeps the connection in sync

Model: `H1.Stream.serveStream` (prefetch of `ReadBodyWithStreaming`, `bodyStream.Read` for fixed and
chunked bodies, `skipRest`, the keep-alive loop with `StreamRequestBody`), compared with the real
server for every consumption program (read size, stop point) incl. exhaustive stop points of small
bodies, each followed by a pipelined probe request, under arbitrary segmentation.  Two defects found
this way are fixed in /repo (over-read past a fixed-length body; draining from inside a chunk parsed
payload as framing and served an embedded request).

Proved here (fixed-length bodies, all inputs):
* `fixed_reads_prefix`: what the handler reads is a prefix of the `Content-Length` bytes that follow the
  head, never more than it asked for, and end-of-stream is reported only when all of them were read;
* `fixed_resync_exact`: when the connection is kept, the next request is parsed from exactly the first
  byte after the body, whatever the handler consumed.

TODO-OPEN (decided per explored case by correspondence + spec step): the same two statements for
chunked bodies (`consumeChunked` yields a prefix of the de-chunked body; `drainChunked` ends exactly
after the terminating chunk and trailer), and `reads never block beyond the body` (runtime).
-/
namespace Hertz.Props.C14
open Hertz Hertz.H1 Hertz.H1.Stream

theorem fixed_reads_prefix (cfg : Cfg) (e : End) (hd : ReqHead) (s : Bytes) (c : Consume) (r : ReqOut) (a : After)
    (hcl : 0 ≤ hd.cl) (h : streamBody cfg e hd s c = .ok (r, a)) :
    r.got.bytes <+: s.take hd.cl.toNat ∧ r.got.bytes.length ≤ c.stopAfter ∧
      (r.got.eof = true → r.got.err = false → r.got.bytes = s.take hd.cl.toNat) := by
  unfold streamBody at h
  have h2 : ¬ hd.cl = -2 := by omega
  have h1 : ¬ hd.cl = -1 := by omega
  simp only [h2, h1, if_false] at h
  split at h
  · simp at h
  · simp only [Except.ok.injEq, Prod.mk.injEq] at h
    obtain ⟨hr, _⟩ := h
    subst hr
    simp only
    by_cases h0 : c.stopAfter = 0
    · simp [h0]
    · simp only [h0, if_false]
      split
      · rename_i hw
        refine ⟨?_, ?_, ?_⟩
        · simp only
          have : List.take (min c.stopAfter hd.cl.toNat) s = List.take (min c.stopAfter hd.cl.toNat) (List.take hd.cl.toNat s) := by
            rw [List.take_take]; congr 1; omega
          rw [this]; exact List.take_prefix _ _
        · simp only [List.length_take]; omega
        · intro he _
          simp only [decide_eq_true_eq] at he
          simp only
          congr 1; omega
      · refine ⟨?_, ?_, ?_⟩
        · simp only
          have : List.take (min hd.cl.toNat s.length) s = List.take (min hd.cl.toNat s.length) (List.take hd.cl.toNat s) := by
            rw [List.take_take]; congr 1; omega
          rw [this]; exact List.take_prefix _ _
        · simp only [List.length_take]; omega
        · intro he; simp at he

theorem fixed_resync_exact (cfg : Cfg) (e : End) (hd : ReqHead) (s : Bytes) (c : Consume) (r : ReqOut) (rest : Bytes)
    (hcl : 0 ≤ hd.cl) (h : streamBody cfg e hd s c = .ok (r, .resync rest)) :
    rest = s.drop hd.cl.toNat ∧ hd.cl.toNat ≤ s.length := by
  unfold streamBody at h
  have h2 : ¬ hd.cl = -2 := by omega
  have h1 : ¬ hd.cl = -1 := by omega
  simp only [h2, h1, if_false] at h
  split at h
  · simp at h
  · simp only [Except.ok.injEq, Prod.mk.injEq] at h
    obtain ⟨_, ha⟩ := h
    split at ha
    · rename_i hl
      simp only [After.resync.injEq] at ha
      exact ⟨ha.symm, hl⟩
    · simp at ha

/-- non-vacuity: Content-Length 5, handler reads 3 bytes in one-byte reads, probe stays in sync. -/
example : (streamBody {} .eof { cl := 5, method := [80] } [1, 2, 3, 4, 5, 71, 69, 84] { readSize := 1, stopAfter := 3 }).toOption.map
    (fun p => (p.1.got.bytes, p.1.got.eof)) = some ([1, 2, 3], false) := by decide +kernel

end Hertz.Props.C14
