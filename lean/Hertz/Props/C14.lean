import Hertz.Model.Http1.Stream
import Hertz.Proofs.StreamChunked
import Hertz.Model.Http1.StreamX
import Hertz.Proofs.StreamX
import Hertz.Model.Http1.StreamApi
import Hertz.Proofs.StreamApi
/-!
# C14 — a streamed request body reads exactly the body and keeps the connection in sync

Model: `H1.Stream.serveStream` (prefetch of `ReadBodyWithStreaming`, `bodyStream.Read` for fixed and
chunked bodies, `skipRest`, the keep-alive loop with `StreamRequestBody`), compared with the real
server for every consumption program (read size, stop point) incl. exhaustive stop points of small
bodies, each followed by a pipelined probe request, under arbitrary segmentation.  Two defects found
this way are fixed in /repo (over-read past a fixed-length body; draining from inside a chunk parsed
payload as framing and served an embedded request).

Proved here (fixed-length bodies, all inputs):
* `fixed_reads_prefix`: what the handler reads is a prefix of the `Content-Length` bytes that follow the
  head, never more than it asked for, and end-of-stream is reported only when all of them were read;
* `fixed_resync_exact`: when the connection is kept, the next request is parsed from exactly the first
  byte after the body, whatever the handler consumed.

Proved here (chunked bodies, all well-formed encodings — any chunking, leading zeros, blanks after the
size, any case of the hex digits —, all texts behind the message, all read sizes and stop points;
lemmas in `Proofs/StreamChunked.lean`):
* `chunked_msg_is_spec_encoding`: every `ChunkedMsg` is accepted by the independent strict decoder
  `Spec.Http.chunksAux` with body `m.body`, ending before the trailer section;
* `chunked_reads_prefix`: the bytes the handler obtains are a prefix of the de-chunked body, at most
  `stopAfter` of them; if no read failed they are exactly the first `stopAfter` body bytes and
  end-of-stream is reported iff the handler asked for more than the body (no condition on the trailer);
* `chunked_read_succeeds`, `chunked_reads_all`: with a positive read size only the trailer reader can
  fail; with an empty trailer section nothing fails and a handler that reads to the end gets all of it
  (this includes that the model's fuel always suffices);
* `chunked_resync_exact`: for a trailer section of field lines (`TrFieldOk`: a colon, no LF, no leading
  blank — a field name may start with any byte, `0` included), the connection is closed if a read
  failed, else the next request is parsed from exactly the text behind the message (`resync rest` when
  the handler saw end-of-stream, `either rest` = that or closed, depending on buffering, when
  `skipRest` had to drain);
  `chunked_resync_exact_folded`: the same when fields are followed by obs-fold continuation lines
  (leading SP/HTAB, no colon), which the scanner's look-ahead joins to the field;
  `chunked_resync_exact_unread`: the same for ANY trailer lines without LF (no colon needed) as long as
  the handler has not been told end-of-stream (the drain uses `SkipTrailer`);
* `trailer_name_zero_regression`: FOUND BY THIS PROOF, FIXED IN /repo (commit `fix: a trailer field whose
  name starts with '0' no longer desynchronises the connection`).  The first form of the theorem above
  needed the hypothesis "the trailer section does not begin with the byte `0`", and without it the
  statement was false of the model and, replayed, of the real server: `ext.parseTrailer` skipped three
  bytes whenever the section started with `0` and did not count them, so after the legal trailer field
  `0:x` a handler that had read to the end left the connection at `x\r\n\r\n…`; the server answered 400
  to that and the pipelined request behind the message was lost (same defect on the buffered path,
  C01).  After the repair `parseTrailer` skips only a complete repeated `0\r\n` line and counts it; the
  hypothesis is gone (`parseTrailer_lines`) and the witness is kept as a regression theorem and in
  corpus/C14/trailer-zero.txt;
* `after_means_next_request_from_rest`: in the connection loop the next request is parsed from exactly
  the `rest` of `resync rest` / `either rest`;
* `stream_error_closes`, `nothing_after_stream_error`: a failed body read (malformed chunk framing,
  rejected trailer, wire ended; fixed length too) gives `After.closed`, and in the event list of the
  whole connection nothing but that request's response follows it.

Proved here (handlers that consume the stream through hertz's own request API - `MultipartForm/FormFile/FormValue/
PostForm`, `Body()`, `BodyWriteTo`, `CloseBodyStream`, `ResetBody`, `SetBodyStream` -, model `Model/Http1/StreamApi.lean`,
lemmas `Proofs/StreamApi.lean`; every statement for an arbitrary program: any read size, any stop point, any amount the
multipart reader takes):
* `attached_is_plain_model`, `after_means_next_request_from_rest_any_program`: the loop with per-request programs is the loop
  above for programs that keep the stream, and always goes on at exactly the `rest` of `resync`/`either`;
* `form_parse_reads_prefix`, `form_parse_reads_prefix_fixed`: a form parse obtains a prefix of the body for ANY consumed amount;
* `sync_after_any_consumption` (chunked), `sync_after_any_consumption_fixed`: after the handler returns the connection is
  closed or the next request is parsed from exactly `rest`, for EVERY program, whatever the request references at the end;
  `sync_after_form_parse`, `body_all_reads_everything` (instances for the form APIs and `Body()`);
  `sync_after_any_consumption_on_connection`: the same on the event list of the connection (after the response: over, or
  the events of exactly `rest`); `detached_stream_is_drained_or_closed`.
* HISTORY: the first versions needed the proviso "the request still references the stream the server built, or the stream
  was read to its reported end"; without it the statements were false of the code (`CloseBodyStream()/ResetBody()/
  SetBodyStream(wrapper)` before the end of the body, or `Body()` on malformed framing, left body bytes to be parsed as the
  next request).  Repaired in `/repo` d6f45a0 (`Serve` releases the stream it built); the former counterexamples are the
  regression theorems `detached_stream_is_drained_or_closed_repaired`, `sync_after_replaced_stream_repaired`,
  `stream_error_closes_after_body_repaired`.

TODO-OPEN:
* the amount `mime/multipart` takes from the stream as a function of chunking and bufio read-ahead is a parameter, not
  modelled; sequences of several API calls are covered only through their net effect on the stream (one `Prog`);
  a handler that keeps the stream and reads it in a goroutine after returning is not modelled;

* trailer lines that begin with a blank AND contain a colon (the look-ahead does not join them; they are
  scanned as a field whose name has a leading blank and rejected) and trailer sections with a
  repeated `0\r\n` line in front (hertz skips and counts it — see the example below —, the strict
  grammar has no such line): both are outside `encTrailer (fieldLines fs)` with `TrField.Ok` fields, so
  `chunked_resync_exact_folded` says nothing about them on the read-to-the-end path
  (`chunked_resync_exact_unread` covers them on the drain path);
* `chunked_read_succeeds` for a non-empty trailer keeps its hypothesis that the trailer reader accepts
  the section (it may legitimately reject: forbidden names, blank in a name);
* that every encoding accepted by `Spec.Http.chunksAux` is a `ChunkedMsg` (the converse direction
  of `ChunkedMsg`'s definition; the spec additionally tolerates tabs after the size, hertz does not);
* `reads never block beyond the body` (runtime, not expressible in the model);
* the tie to the Go code stays the correspondence check (`serveStream` vs the real server per case).
-/
namespace Hertz.Props.C14
open Hertz Hertz.H1 Hertz.H1.Stream

theorem fixed_reads_prefix (cfg : Cfg) (e : End) (hd : ReqHead) (s : Bytes) (c : Consume) (r : ReqOut) (a : After)
    (hcl : 0 ≤ hd.cl) (h : streamBody cfg e hd s c = .ok (r, a)) :
    r.got.bytes <+: s.take hd.cl.toNat ∧ r.got.bytes.length ≤ c.stopAfter ∧
      (r.got.eof = true → r.got.err = false → r.got.bytes = s.take hd.cl.toNat) := by
  unfold streamBody at h
  have h2 : ¬ hd.cl = -2 := by omega
  have h1 : ¬ hd.cl = -1 := by omega
  simp only [h2, h1, if_false] at h
  split at h
  · simp at h
  · simp only [Except.ok.injEq, Prod.mk.injEq] at h
    obtain ⟨hr, _⟩ := h
    subst hr
    simp only
    by_cases h0 : c.stopAfter = 0
    · simp [h0]
    · simp only [h0, if_false]
      split
      · rename_i hw
        refine ⟨?_, ?_, ?_⟩
        · simp only
          have : List.take (min c.stopAfter hd.cl.toNat) s = List.take (min c.stopAfter hd.cl.toNat) (List.take hd.cl.toNat s) := by
            rw [List.take_take]; congr 1; omega
          rw [this]; exact List.take_prefix _ _
        · simp only [List.length_take]; omega
        · intro he _
          simp only [decide_eq_true_eq] at he
          simp only
          congr 1; omega
      · refine ⟨?_, ?_, ?_⟩
        · simp only
          have : List.take (min hd.cl.toNat s.length) s = List.take (min hd.cl.toNat s.length) (List.take hd.cl.toNat s) := by
            rw [List.take_take]; congr 1; omega
          rw [this]; exact List.take_prefix _ _
        · simp only [List.length_take]; omega
        · intro he; simp at he

theorem fixed_resync_exact (cfg : Cfg) (e : End) (hd : ReqHead) (s : Bytes) (c : Consume) (r : ReqOut) (rest : Bytes)
    (hcl : 0 ≤ hd.cl) (h : streamBody cfg e hd s c = .ok (r, .resync rest)) :
    rest = s.drop hd.cl.toNat ∧ hd.cl.toNat ≤ s.length := by
  unfold streamBody at h
  have h2 : ¬ hd.cl = -2 := by omega
  have h1 : ¬ hd.cl = -1 := by omega
  simp only [h2, h1, if_false] at h
  split at h
  · simp at h
  · simp only [Except.ok.injEq, Prod.mk.injEq] at h
    obtain ⟨_, ha⟩ := h
    split at ha
    · rename_i hl
      simp only [After.resync.injEq] at ha
      exact ⟨ha.symm, hl⟩
    · simp at ha

/-- non-vacuity: Content-Length 5, handler reads 3 bytes in one-byte reads, probe stays in sync. -/
example : (streamBody {} .eof { cl := 5, method := [80] } [1, 2, 3, 4, 5, 71, 69, 84] { readSize := 1, stopAfter := 3 }).toOption.map
    (fun p => (p.1.got.bytes, p.1.got.eof)) = some ([1, 2, 3], false) := by decide +kernel


/-! ## chunked bodies

A well-formed chunked body is a `ChunkedMsg` (`Proofs/StreamChunked.lean`): chunks written as size line
(1..15 hex digits read by the independent `Spec.Http.parseHex`, any number of blanks, CRLF), non-empty
payload, CRLF; the size line of the last chunk (value 0); the trailer section.  `m.bytes` is the wire
text, `m.body` the concatenated payloads.  Every statement is for every chunking, every text `rest`
behind the message and every consumption program `c` (read size, stop point). -/

/-- the encodings quantified over are encodings in the sense of the independent strict decoder
(`Spec.Http.chunksAux`, as called by `Spec.Http.decodeOne`): it accepts `m.bytes`, assigns it the body
`m.body` and ends before the trailer section. -/
theorem chunked_msg_is_spec_encoding (m : ChunkedMsg) (hm : m.Wf) (rest : Bytes) :
    Spec.Http.chunksAux ((m.bytes ++ rest).length + 1) (m.bytes ++ rest) [] = some (m.body, m.trailer ++ rest) :=
  spec_decodes_msg m hm rest

/-- (1) what the handler reads of a chunked body is a prefix of the de-chunked body, never more than it
asked for (so never a byte of `rest`); if no read failed it is exactly the first `stopAfter` bytes — all
of the body when the handler reads to the end — and end-of-stream is reported iff the handler asked
for more than the body.  No condition on the trailer section. -/
theorem chunked_reads_prefix (cfg : Cfg) (e : End) (hd : ReqHead) (c : Consume) (m : ChunkedMsg) (rest : Bytes)
    (r : ReqOut) (a : After) (hcl : hd.cl = -1) (hm : m.Wf)
    (h : streamBody cfg e hd (m.bytes ++ rest) c = .ok (r, a)) :
    r.got.bytes <+: m.body ∧ r.got.bytes.length ≤ c.stopAfter ∧
      (r.got.err = false →
        r.got.bytes = m.body.take c.stopAfter ∧ (r.got.eof = true ↔ m.body.length < c.stopAfter)) := by
  rw [streamBody_chunked cfg e hd _ c hcl] at h
  simp only [Except.ok.injEq, Prod.mk.injEq] at h
  rw [← h.1]
  exact chunked_reads cfg e hd.trailer c m hm rest _

/-- (1, completeness) with a positive read size the only read that can fail on a well-formed chunked
body is the trailer reader's (`ReadTrailer` rejecting the trailer section). -/
theorem chunked_read_succeeds (cfg : Cfg) (e : End) (hd : ReqHead) (c : Consume) (m : ChunkedMsg) (rest : Bytes)
    (r : ReqOut) (a : After) (hcl : hd.cl = -1) (hm : m.Wf) (hr : 0 < c.readSize)
    (ht : ∀ x, readTrailerReq cfg e hd.trailer (m.trailer ++ rest) ≠ .error x)
    (h : streamBody cfg e hd (m.bytes ++ rest) c = .ok (r, a)) :
    r.got.err = false := by
  rw [streamBody_chunked cfg e hd _ c hcl] at h
  simp only [Except.ok.injEq, Prod.mk.injEq] at h
  rw [← h.1]
  exact chunked_no_error cfg e hd.trailer c m hm rest _ hr (by omega) ht

/-- (1, completeness) with an empty trailer section no read fails: the handler gets the first
`stopAfter` bytes of the body, all of it if it asks for at least that much. -/
theorem chunked_reads_all (cfg : Cfg) (e : End) (hd : ReqHead) (c : Consume) (m : ChunkedMsg) (rest : Bytes)
    (r : ReqOut) (a : After) (hcl : hd.cl = -1) (hm : m.Wf) (hr : 0 < c.readSize) (htr : m.trailer = [13, 10])
    (h : streamBody cfg e hd (m.bytes ++ rest) c = .ok (r, a)) :
    r.got.err = false ∧ r.got.bytes = m.body.take c.stopAfter ∧ (m.body.length ≤ c.stopAfter → r.got.bytes = m.body) := by
  have he : r.got.err = false := by
    refine chunked_read_succeeds cfg e hd c m rest r a hcl hm hr ?_ h
    intro x
    rw [htr]
    simp [readTrailerReq_empty]
  have := (chunked_reads_prefix cfg e hd c m rest r a hcl hm h).2.2 he
  refine ⟨he, this.1, fun hl => ?_⟩
  rw [this.1, List.take_of_length_le hl]

/-- (2) where the connection stands after the handler returned, for a trailer section of field lines
(`TrFieldOk`: a colon, no LF, no leading blank; the field name may start with `0`): closed if a read
failed; otherwise the next request is parsed from exactly `rest` — never from a suffix of the message,
never with a byte of `rest` consumed (`either`: or the connection is closed, when the remainder of the
message has not arrived yet). -/
theorem chunked_resync_exact (cfg : Cfg) (e : End) (hd : ReqHead) (c : Consume) (m : ChunkedMsg)
    (ls : List Bytes) (rest : Bytes) (r : ReqOut) (a : After) (hcl : hd.cl = -1) (hm : m.Wf)
    (hls : ∀ l ∈ ls, TrFieldOk l) (htr : m.trailer = encTrailer ls)
    (h : streamBody cfg e hd (m.bytes ++ rest) c = .ok (r, a)) :
    a = if r.got.err then .closed else if r.got.eof then .resync rest else .either rest := by
  rw [streamBody_chunked cfg e hd _ c hcl] at h
  simp only [Except.ok.injEq, Prod.mk.injEq] at h
  rw [← h.1, ← h.2]
  refine chunked_after cfg e hd.trailer c m hm ls (fun l hl => (hls l hl).lineOk) htr rest _ (fun _ => ?_)
  rw [htr]
  exact readTrailerReq_lines cfg e hd.trailer ls rest hls

/-- (2) with obs-fold: every trailer field may be followed by continuation lines (`TrContOk`: leading SP
or HTAB, no LF, no colon), which the scanner's look-ahead joins to the field; the statement is the same. -/
theorem chunked_resync_exact_folded (cfg : Cfg) (e : End) (hd : ReqHead) (c : Consume) (m : ChunkedMsg)
    (fs : List TrField) (rest : Bytes) (r : ReqOut) (a : After) (hcl : hd.cl = -1) (hm : m.Wf)
    (hfs : ∀ f ∈ fs, TrField.Ok f) (htr : m.trailer = encTrailer (fieldLines fs))
    (h : streamBody cfg e hd (m.bytes ++ rest) c = .ok (r, a)) :
    a = if r.got.err then .closed else if r.got.eof then .resync rest else .either rest := by
  rw [streamBody_chunked cfg e hd _ c hcl] at h
  simp only [Except.ok.injEq, Prod.mk.injEq] at h
  rw [← h.1, ← h.2]
  refine chunked_after cfg e hd.trailer c m hm (fieldLines fs) (fieldLines_lineOk fs hfs) htr rest _ (fun _ => ?_)
  rw [htr]
  exact readTrailerReq_fields cfg e hd.trailer fs rest hfs

/-- non-vacuity of `chunked_resync_exact_folded`: trailer `X:1\r\n 2\r\n\t3\r\nY:4\r\n\r\n`, read to the end. -/
example : ∀ f ∈ [(([88, 58, 49], [[32, 50], [9, 51]]) : TrField), ([89, 58, 52], [])], TrField.Ok f := by
  have hx : TrFieldOk [88, 58, 49] :=
    ⟨by decide, by decide, by intro c t hct; simp only [List.cons.injEq] at hct; rw [← hct.1]; decide⟩
  have hy : TrFieldOk [89, 58, 52] :=
    ⟨by decide, by decide, by intro c t hct; simp only [List.cons.injEq] at hct; rw [← hct.1]; decide⟩
  intro f hf
  simp only [List.mem_cons, List.not_mem_nil, or_false] at hf
  rcases hf with hf | hf <;> subst hf
  · refine ⟨hx, ?_⟩
    intro l hl
    simp only [List.mem_cons, List.not_mem_nil, or_false] at hl
    rcases hl with hl | hl <;> subst hl
    · exact ⟨by decide, by decide, 32, [50], rfl, Or.inl rfl⟩
    · exact ⟨by decide, by decide, 9, [51], rfl, Or.inr rfl⟩
  · exact ⟨hy, by intro l hl; simp at hl⟩

/-- (2) for any trailer lines without LF (a colon is not needed): as long
as the handler has not been told end-of-stream, the drain (`skipRest`) ends exactly behind the message. -/
theorem chunked_resync_exact_unread (cfg : Cfg) (e : End) (hd : ReqHead) (c : Consume) (m : ChunkedMsg)
    (ls : List Bytes) (rest : Bytes) (r : ReqOut) (a : After) (hcl : hd.cl = -1) (hm : m.Wf)
    (hls : ∀ l ∈ ls, TrLineOk l) (htr : m.trailer = encTrailer ls) (heof : r.got.eof = false)
    (h : streamBody cfg e hd (m.bytes ++ rest) c = .ok (r, a)) :
    a = if r.got.err then .closed else .either rest := by
  rw [streamBody_chunked cfg e hd _ c hcl] at h
  simp only [Except.ok.injEq, Prod.mk.injEq] at h
  rw [← h.1] at heof
  simp only at heof
  rw [← h.1, ← h.2]
  have := chunked_after cfg e hd.trailer c m hm ls hls htr rest _ (fun hf => by rw [heof] at hf; cases hf)
  rw [this, heof]
  simp

/-- the message of the examples and of the counterexample: `3\r\nabc\r\n02 \r\nde\r\n0\r\n` + trailer -/
def msgOf (trailer : Bytes) : ChunkedMsg :=
  { chunks := [{ digits := [51], pad := 0, data := [97, 98, 99] }, { digits := [48, 50], pad := 1, data := [100, 101] }],
    zdigits := [48], zpad := 0, trailer := trailer }

theorem msgOf_wf (trailer : Bytes) : (msgOf trailer).Wf := by
  refine ⟨?_, (by decide : ([48] : Bytes).length ≤ 15), (by decide : Spec.Http.parseHex [48] = some 0)⟩
  intro k hk
  simp only [msgOf, List.mem_cons, List.not_mem_nil, or_false] at hk
  rcases hk with hk | hk <;> subst hk <;> exact ⟨by decide, by decide, by decide⟩

/-- Regression of a defect found by this proof work and repaired in /repo (`fix: a trailer field whose name starts
with '0' …`): `ext.parseTrailer` used to skip three bytes whenever the trailer section started with the byte `0`
and did not count them, so after the trailer field `0:x` the server went on at `x\r\n\r\n` + `rest` and parsed the
tail of the trailer section as the next request.  With the repaired code the connection is positioned at `rest`. -/
example : ∀ l ∈ [[(48 : UInt8), 58, 120]], TrFieldOk l := by
  intro l hl
  simp only [List.mem_cons, List.not_mem_nil, or_false] at hl
  subst hl
  exact ⟨by decide, by decide, by intro c t hct; simp only [List.cons.injEq] at hct; rw [← hct.1]; decide⟩

theorem trailer_name_zero_regression :
    (streamBody {} .eof { cl := -1 } ((msgOf (encTrailer [[48, 58, 120]])).bytes ++ [71, 69, 84])
      { readSize := 10, stopAfter := 100 }).toOption.map (·.2) = some (.resync [71, 69, 84]) := by decide +kernel

/-- what the `After` of (2) means for the connection: after a kept-alive streamed request the loop goes
on with exactly the `rest` named by `resync`/`either` (or stops, for `closed`). -/
theorem after_means_next_request_from_rest (cfg : Cfg) (e : End) (c : Consume) (fuel : Nat) (first : Bool) (s : Bytes)
    (hd : ReqHead) (n : Nat) (r : ReqOut) (a : After)
    (hgo : (!first && decide (s.length < 4)) = false) (hp : parseReqHead cfg.disableNorm s = .ok (hd, n))
    (hb : streamBody cfg e hd (s.drop n) c = .ok (r, a))
    (hk : (cfg.disableKeepalive || r.head.connClose) = false) :
    streamLoop cfg e c (fuel + 1) first s =
      (if mayContinue hd then [SEv.continue100] else []) ++ [.req r, .resp 200 false] ++
        match a with
        | .resync rest => streamLoop cfg e c fuel false rest
        | .closed => []
        | .either rest => .maybeClosed :: streamLoop cfg e c fuel false rest :=
  streamLoop_after cfg e c fuel first s hd n r a hgo hp hb hk

/-- non-vacuity of `after_means_next_request_from_rest` (and of the whole chain): the example message
behind a request head, followed by a pipelined `GET /probe`; the handler stops after 4 bytes; events:
request (1), response (2), maybe-closed (3), then the probe request with URI `/probe` and its response. -/
example : (serveStream {} .eof { readSize := 3, stopAfter := 4 }
    [80, 79, 83, 84, 32, 47, 99, 32, 72, 84, 84, 80, 47, 49, 46, 49, 13, 10, 72, 111, 115, 116, 58, 32,
    104, 13, 10, 84, 114, 97, 110, 115, 102, 101, 114, 45, 69, 110, 99, 111, 100, 105, 110, 103, 58, 32,
    99, 104, 117, 110, 107, 101, 100, 13, 10, 13, 10, 51, 13, 10, 97, 98, 99, 13, 10, 48, 50, 32, 13,
    10, 100, 101, 13, 10, 48, 13, 10, 88, 58, 49, 13, 10, 13, 10, 71, 69, 84, 32, 47, 112, 114, 111, 98,
    101, 32, 72, 84, 84, 80, 47, 49, 46, 49, 13, 10, 72, 111, 115, 116, 58, 32, 112, 13, 10, 13, 10]).map
    (fun ev => match ev with
      | .continue100 => (0, []) | .req r => (1, r.head.uri) | .resp _ _ => (2, []) | .maybeClosed => (3, [])) =
    [(1, [47, 99]), (2, []), (3, []), (1, [47, 112, 114, 111, 98, 101]), (2, [])] := by decide +kernel

/-- (3) a failed read of the body stream (malformed chunk framing, rejected trailer, wire ended) closes
the connection, for every kind of body. -/
theorem stream_error_closes (cfg : Cfg) (e : End) (hd : ReqHead) (s : Bytes) (c : Consume) (r : ReqOut) (a : After)
    (h : streamBody cfg e hd s c = .ok (r, a)) (herr : r.got.err = true) : a = .closed :=
  streamBody_err_closed cfg e hd s c r a h herr

/-- (3) on the whole connection: after a request whose body read failed, nothing but that request's
response follows — no later bytes are parsed as a request. -/
theorem nothing_after_stream_error (cfg : Cfg) (e : End) (c : Consume) (s : Bytes) :
    errEnds (serveStream cfg e c s) = true :=
  streamLoop_errEnds cfg e c _ true s

/-- non-vacuity of (1) and (2): the example message with trailer `X:1`, the handler stops after 4 bytes
(inside the second chunk) reading 3 at a time; the drain ends exactly before `GET`. -/
example : (streamBody {} .eof { cl := -1 } ((msgOf (encTrailer [[88, 58, 49]])).bytes ++ [71, 69, 84])
    { readSize := 3, stopAfter := 4 }).toOption.map (fun p => (p.1.got.bytes, p.1.got.eof, p.1.got.err, p.2)) =
    some ([97, 98, 99, 100], false, false, .either [71, 69, 84]) := by decide +kernel

/-- the same message read to the end: all five bytes, end-of-stream, in sync. -/
example : (streamBody {} .eof { cl := -1 } ((msgOf (encTrailer [[88, 58, 49]])).bytes ++ [71, 69, 84])
    { readSize := 3, stopAfter := 9 }).toOption.map (fun p => (p.1.got.bytes, p.1.got.eof, p.1.got.err, p.2)) =
    some ([97, 98, 99, 100, 101], true, false, .resync [71, 69, 84]) := by decide +kernel

example : (msgOf (encTrailer [[88, 58, 49]])).Wf ∧ (∀ l ∈ [[88, 58, 49]], TrFieldOk l) :=
  ⟨msgOf_wf _, by
    intro l hl
    simp only [List.mem_cons, List.not_mem_nil, or_false] at hl
    subst hl
    exact ⟨by decide, by decide, by intro c t hct; simp only [List.cons.injEq] at hct; rw [← hct.1]; decide⟩⟩

/-- outside `chunked_resync_exact` (the line `0` has no colon), shown for the record: a repeated `0\r\n`
line in front of the empty line is skipped and counted by the repaired `parseTrailer`; in sync. -/
example : (streamBody {} .eof { cl := -1 } ((msgOf [48, 13, 10, 13, 10]).bytes ++ [71, 69, 84])
    { readSize := 3, stopAfter := 9 }).toOption.map (fun p => (p.1.got.bytes, p.1.got.eof, p.1.got.err, p.2)) =
    some ([97, 98, 99, 100, 101], true, false, .resync [71, 69, 84]) := by decide +kernel

/-- the folded trailer `X:1\r\n 2\r\n\t3\r\nY:4\r\n\r\n` read to the end: in sync. -/
example : (streamBody {} .eof { cl := -1 }
    ((msgOf (encTrailer (fieldLines [([88, 58, 49], [[32, 50], [9, 51]]), ([89, 58, 52], [])]))).bytes ++ [71, 69, 84])
    { readSize := 3, stopAfter := 9 }).toOption.map (fun p => (p.1.got.bytes, p.1.got.eof, p.1.got.err, p.2)) =
    some ([97, 98, 99, 100, 101], true, false, .resync [71, 69, 84]) := by decide +kernel

/-- non-vacuity of `chunked_reads_all`: empty trailer section, read in one-byte reads to the end. -/
example : (msgOf [13, 10]).Wf ∧ (msgOf [13, 10]).trailer = [13, 10] := ⟨msgOf_wf _, rfl⟩
example : (streamBody {} .stall { cl := -1 } ((msgOf [13, 10]).bytes ++ [71, 69, 84])
    { readSize := 1, stopAfter := 5 }).toOption.map (fun p => (p.1.got.bytes, p.1.got.eof, p.1.got.err, p.2)) =
    some ([97, 98, 99, 100, 101], false, false, .either [71, 69, 84]) := by decide +kernel

/-- non-vacuity of `chunked_read_succeeds`: the trailer `X:1` is accepted by the trailer reader. -/
example : (readTrailerReq {} .eof [] ((msgOf (encTrailer [[88, 58, 49]])).trailer ++ [71, 69, 84])).toOption.isSome = true := by
  decide +kernel

/-- non-vacuity of (3): a chunk-size line `zz` after the first chunk; the read fails and the
connection is closed although a complete request follows. -/
example : (streamBody {} .eof { cl := -1 } [49, 13, 10, 97, 13, 10, 122, 122, 13, 10, 13, 10, 71, 69, 84]
    { readSize := 16, stopAfter := 50 }).toOption.map (fun p => (p.1.got.bytes, p.1.got.err, p.2)) =
    some ([97], true, .closed) := by decide +kernel

/-! ## idle style of the transport and read time-outs in the middle of the stream

`serveStreamX` (`Model/Http1/StreamX.lean`): the loop above with (a) the return-to-poller style of a
transport with `IdleTimeout == 0` (netpoll): `Server.Serve` returns after every kept-alive request and is
entered again, as a first iteration, while unread input remains; (b) the inbound stream cut into segments
by read time-outs: a read that needs a byte of the next segment fails once, then the bytes are there.
Lemmas in `Proofs/StreamX.lean`. -/

/-- with the in-loop idle wait and no time-out the extended model is the model of the theorems above -/
theorem no_timeout_is_plain_model (cfg : Cfg) (e : End) (c : Consume) (s : Bytes) :
    serveStreamX cfg false e c [] s = serveStream cfg e c s :=
  serveStreamX_plain cfg e c s

/-- (3) in every idle style and for time-outs anywhere (any number, repeated): after a request whose body
read failed - a time-out inside the body included - nothing but that request's response follows; no later
byte is parsed as a request, whatever arrives after the time-out. -/
theorem nothing_after_stream_error_any_style (cfg : Cfg) (poll : Bool) (e : End) (c : Consume) (tmos : List Nat) (s : Bytes) :
    errEnds (serveStreamX cfg poll e c tmos s) = true :=
  streamLoopX_errEnds cfg poll e c _ true _

/-- (2) in every idle style: after a kept-alive streamed request the connection goes on (`contX`: the next
loop iteration, or the next entry of `Serve` from the poller) with exactly the `rest` the release of the body
stream left - never with bytes of the body. -/
theorem after_means_next_entry_from_rest (cfg : Cfg) (poll : Bool) (e : End) (c : Consume) (fuel : Nat) (first : Bool)
    (v : Bytes) (more : List Bytes) (hd : ReqHead) (n : Nat) (r : ReqOut) (a : After) (more' : List Bytes)
    (hgo : (!first && decide (v.length < 4)) = false) (hp : parseReqHead cfg.disableNorm v = .ok (hd, n))
    (hb : streamBodyX cfg e hd (v.drop n) more c = .ok (r, a, more'))
    (hk : (cfg.disableKeepalive || r.head.connClose) = false) :
    streamLoopX cfg poll e c (fuel + 1) first (v :: more) =
      (if mayContinue hd then [SEv.continue100] else []) ++ [.req r, .resp 200 false] ++
        match a with
        | .resync rest => contX cfg poll e c fuel rest more'
        | .closed => []
        | .either rest => .maybeClosed :: contX cfg poll e c fuel rest more' :=
  streamLoopX_after cfg poll e c fuel first v more hd n r a more' hgo hp hb hk

/-- return-to-poller style: `Serve` is entered again at exactly `rest`, as a first iteration (no idle
`Peek(4)`), as long as a byte of the current segment is left -/
theorem poll_reenters_at_rest (cfg : Cfg) (e : End) (c : Consume) (fuel : Nat) (b : UInt8) (rest : Bytes) (more : List Bytes) :
    contX cfg true e c fuel (b :: rest) more = streamLoopX cfg true e c fuel true ((b :: rest) :: more) := rfl

/-- non-vacuity (the situation of the return-to-poller style): chunk payload `A: b`, empty line, a complete
request for `/smuggled`; the handler reads nothing; `Serve` is left and entered again.  Events: request `/c`
(1), response (2), maybe-closed (3), then the probe - the payload is skipped, not served. -/
example : (serveStreamX {} true .eof { readSize := 64, stopAfter := 0 } []
    [80, 79, 83, 84, 32, 47, 99, 32, 72, 84, 84, 80, 47, 49, 46, 49, 13, 10, 72, 111, 115, 116, 58, 32, 104, 13, 10, 84, 114, 97, 110, 115, 102, 101, 114, 45, 69, 110, 99, 111, 100, 105, 110, 103, 58, 32, 99, 104, 117, 110, 107, 101, 100, 13, 10, 13, 10, 50, 98, 13, 10, 65, 58, 32, 98, 13, 10, 13, 10, 71, 69, 84, 32, 47, 115, 109, 117, 103, 103, 108, 101, 100, 32, 72, 84, 84, 80, 47, 49, 46, 49, 13, 10, 72, 111, 115, 116, 58, 32, 120, 13, 10, 13, 10, 13, 10, 48, 13, 10, 13, 10, 71, 69, 84, 32, 47, 112, 114, 111, 98, 101, 32, 72, 84, 84, 80, 47, 49, 46, 49, 13, 10, 72, 111, 115, 116, 58, 32, 112, 13, 10, 13, 10]).map
    (fun ev => match ev with
      | .continue100 => (0, []) | .req r => (1, r.head.uri) | .resp _ _ => (2, []) | .maybeClosed => (3, [])) =
    [(1, [47, 99]), (2, []), (3, []), (1, [47, 112, 114, 111, 98, 101]), (2, [])] := by decide +kernel

/-- `bytesconv.ReadHexInt` drops a read error that comes after at least one digit, so a time-out that strikes
inside a chunk-size line is used up unnoticed.  That can never make a cut number pass for a whole one: if the
next segment goes on with a hex digit the size line is refused (the read fails, the connection is closed by
`nothing_after_stream_error_any_style`) ... -/
theorem cut_size_line_is_refused (e : End) (v : Bytes) (d : UInt8) (t : Bytes) (ms : List Bytes) (n : Nat)
    (hv : readHexInt .stall v = .ok (n, [])) (hd : hex2int d ≠ 16) :
    parseChunkSizeX e v ((d :: t) :: ms) = .error .bad :=
  parseChunkSizeX_cut_refused e v d t ms n hv hd

/-- ... and if it goes on with anything else the number was whole: the size line is read exactly as if the
two segments had arrived together. -/
theorem whole_size_line_timeout_invisible (e : End) (v : Bytes) (d : UInt8) (t : Bytes) (ms : List Bytes) (n : Nat)
    (hv : readHexInt .stall v = .ok (n, [])) (hd : hex2int d = 16) :
    parseChunkSizeX e v ((d :: t) :: ms) =
      match parseChunkSize (viewEnd e ms) (v ++ d :: t) with
      | .error x => .error x
      | .ok (k, r) => .ok (k, r, ms) :=
  parseChunkSizeX_whole_invisible e v d t ms n hv hd

set_option maxRecDepth 100000 in
/-- non-vacuity of both: `3` | `0\r\n…` is refused, `30` | `\r\n` is the size 0x30 -/
example : readHexInt .stall [51] = .ok (3, []) ∧ hex2int 48 ≠ 16 ∧
    readHexInt .stall [51, 48] = .ok (48, []) ∧ hex2int 13 = 16 :=
  ⟨rfl, by decide +kernel, rfl, by decide +kernel⟩

/-- non-vacuity of `nothing_after_stream_error_any_style` with a time-out: second chunk of 0x30 bytes that
start with an empty line and a complete request for `/smuggled`; the peer pauses after the `3` of `30` for
two read time-outs (offset 68 twice) and then sends the rest: the handler's read fails after `hello`, the
response is written and that is all - in both idle styles. -/
example : ∀ poll, (serveStreamX {} poll .eof { readSize := 64, stopAfter := 100 } [68, 68]
    [80, 79, 83, 84, 32, 47, 99, 32, 72, 84, 84, 80, 47, 49, 46, 49, 13, 10, 72, 111, 115, 116, 58, 32, 104, 13, 10, 84, 114, 97, 110, 115, 102, 101, 114, 45, 69, 110, 99, 111, 100, 105, 110, 103, 58, 32, 99, 104, 117, 110, 107, 101, 100, 13, 10, 13, 10, 53, 13, 10, 104, 101, 108, 108, 111, 13, 10, 51, 48, 13, 10, 13, 10, 71, 69, 84, 32, 47, 115, 109, 117, 103, 103, 108, 101, 100, 32, 72, 84, 84, 80, 47, 49, 46, 49, 13, 10, 72, 111, 115, 116, 58, 32, 120, 13, 10, 13, 10, 120, 120, 120, 120, 120, 120, 120, 120, 120, 120, 120, 13, 10, 48, 13, 10, 13, 10, 71, 69, 84, 32, 47, 112, 114, 111, 98, 101, 32, 72, 84, 84, 80, 47, 49, 46, 49, 13, 10, 72, 111, 115, 116, 58, 32, 112, 13, 10, 13, 10]).map
    (fun ev => match ev with
      | .continue100 => (0, [], false) | .req r => (1, r.got.bytes, r.got.err) | .resp _ _ => (2, [], false)
      | .maybeClosed => (3, [], false)) =
    [(1, [104, 101, 108, 108, 111], true), (2, [], false)] := by decide +kernel


/-! ## handlers that consume the stream through hertz's own request API

`Model/Http1/StreamApi.lean`: the alphabet `Api` (`read`, `formParse upTo` - `MultipartForm()/FormFile/FormValue/PostForm`,
where the amount `upTo` the multipart reader takes is a parameter -, `bodyAll`, `writeTo`, `closeStream`, `replaceStream`,
`readThenBody`, `none`), a program `Prog` = the `Read` calls that reach the stream + what the request references when the
handler returns (`Fin`), and the loop's post-handler step exactly as in `http1/server.go`: `skipRest`, and the check of a
remembered read error, run only if `ctx.Request.IsBodyStream()` still yields the `*bodyStream` the server built.
Lemmas in `Proofs/StreamApi.lean`.  The statements are about an arbitrary `Prog` (any read size, any stop point, any
`Fin`), which covers every `Api.prog`. -/

/-- programs that leave the stream attached run the loop of the theorems above -/
theorem attached_is_plain_model (cfg : Cfg) (e : End) (c : Consume) (fuel : Nat) (first : Bool) (s : Bytes) :
    (streamLoopP cfg e (fun _ _ => ⟨c, .attached⟩) fuel first s).map PEv.toSEv = streamLoop cfg e c fuel first s :=
  streamLoopP_attached cfg e c fuel first s

/-- in the loop with per-request programs the next request is parsed from exactly the `rest` of `resync rest` /
`either rest`, for every program -/
theorem after_means_next_request_from_rest_any_program (cfg : Cfg) (e : End) (prog : ReqHead → Bytes → Prog) (fuel : Nat)
    (first : Bool) (s : Bytes) (hd : ReqHead) (n : Nat) (r : ReqOut) (a : After)
    (hgo : (!first && decide (s.length < 4)) = false) (hp : parseReqHead cfg.disableNorm s = .ok (hd, n))
    (hb : streamBodyP cfg e hd (s.drop n) (prog hd (s.drop n)) = .ok (r, a))
    (hk : (cfg.disableKeepalive || r.head.connClose) = false) :
    streamLoopP cfg e prog (fuel + 1) first s =
      (if mayContinue hd then [PEv.continue100] else []) ++
        [.req r (if r.streamed then (prog hd (s.drop n)).fin else .attached), .resp 200 false] ++
        match a with
        | .resync rest => streamLoopP cfg e prog fuel false rest
        | .closed => []
        | .either rest => .maybeClosed :: streamLoopP cfg e prog fuel false rest :=
  streamLoopP_after cfg e prog fuel first s hd n r a hgo hp hb hk

/-- `MultipartForm()` & co. on a chunked upload, for ANY amount `upTo` the multipart reader takes: what it obtains is
a prefix of the de-chunked body - never a byte of the terminator, the trailer or the next request -, exactly the first
`upTo` bytes if no read failed, and it is told end-of-stream iff it asked for more than the body. -/
theorem form_parse_reads_prefix (cfg : Cfg) (e : End) (hd : ReqHead) (upTo n : Nat) (m : ChunkedMsg) (rest : Bytes)
    (r : ReqOut) (a : After) (hcl : hd.cl = -1) (hm : m.Wf)
    (h : streamBodyP cfg e hd (m.bytes ++ rest) ((Api.formParse upTo).prog n) = .ok (r, a)) :
    r.got.bytes <+: m.body ∧ r.got.bytes.length ≤ upTo ∧
      (r.got.err = false → r.got.bytes = m.body.take upTo ∧ (r.got.eof = true ↔ m.body.length < upTo)) := by
  rw [streamBodyP_attached _ _ _ _ _ rfl] at h
  exact chunked_reads_prefix cfg e hd _ m rest r a hcl hm h

/-- the same for a fixed-length upload (streamed when multipart pre-parsing is off): a prefix of the `Content-Length`
bytes, and afterwards the connection is closed or stands right behind them. -/
theorem form_parse_reads_prefix_fixed (cfg : Cfg) (e : End) (hd : ReqHead) (upTo n : Nat) (s : Bytes)
    (r : ReqOut) (a : After) (hcl : 0 ≤ hd.cl)
    (h : streamBodyP cfg e hd s ((Api.formParse upTo).prog n) = .ok (r, a)) :
    r.got.bytes <+: s.take hd.cl.toNat ∧ r.got.bytes.length ≤ upTo ∧ After.InSync a (s.drop hd.cl.toNat) := by
  rw [streamBodyP_attached _ _ _ _ _ rfl] at h
  have h1 := fixed_reads_prefix cfg e hd s _ r a hcl h
  refine ⟨h1.1, h1.2.1, ?_⟩
  rcases fixed_after cfg e hd s _ r a hcl h with ha | ha
  · exact Or.inl ha
  · exact Or.inr (Or.inl ha)

/-- (2) for EVERY consumption program on a well-formed chunked message (trailer section of field lines) followed by any
`rest`: the connection is closed or the next request is parsed from exactly `rest` — whatever the request references
when the handler returns (`MultipartForm`, own reads, `none`: attached; `Body()`, `BodyWriteTo`, `PostArgs`,
`CloseBodyStream()`, `ResetBody()`: detached; `SetBodyStream(other)`: replaced).  Full strength since `/repo` d6f45a0;
the first version of this theorem needed the proviso "still attached, or read to the reported end without a failed
read", and without it the statement was false of the code (`*_repaired` below are its former counterexamples). -/
theorem sync_after_any_consumption (cfg : Cfg) (e : End) (hd : ReqHead) (p : Prog) (m : ChunkedMsg)
    (ls : List Bytes) (rest : Bytes) (r : ReqOut) (a : After) (hcl : hd.cl = -1) (hm : m.Wf)
    (hls : ∀ l ∈ ls, TrFieldOk l) (htr : m.trailer = encTrailer ls)
    (h : streamBodyP cfg e hd (m.bytes ++ rest) p = .ok (r, a)) :
    After.InSync a rest := by
  rw [streamBodyP_eq] at h
  have := chunked_resync_exact cfg e hd p.c m ls rest r a hcl hm hls htr h
  rw [this]
  unfold After.InSync
  cases r.got.err <;> cases r.got.eof <;> simp

/-- (2) on the connection: a kept-alive upload with a well-formed chunked body, ANY program, any `rest`: after the
request's response the event list is over (closed), or continues with the events of exactly `rest` (`maybeClosed`: or is
over) - no byte of the body, the terminator or the trailer is ever parsed as a request, and no byte of `rest` is lost. -/
theorem sync_after_any_consumption_on_connection (cfg : Cfg) (e : End) (prog : ReqHead → Bytes → Prog) (fuel : Nat)
    (first : Bool) (s : Bytes) (hd : ReqHead) (n : Nat) (m : ChunkedMsg) (ls : List Bytes) (rest : Bytes) (r : ReqOut) (a : After)
    (hgo : (!first && decide (s.length < 4)) = false) (hp : parseReqHead cfg.disableNorm s = .ok (hd, n))
    (hs : s.drop n = m.bytes ++ rest) (hcl : hd.cl = -1) (hm : m.Wf)
    (hls : ∀ l ∈ ls, TrFieldOk l) (htr : m.trailer = encTrailer ls)
    (hb : streamBodyP cfg e hd (s.drop n) (prog hd (s.drop n)) = .ok (r, a))
    (hk : (cfg.disableKeepalive || r.head.connClose) = false) :
    ∃ tail, streamLoopP cfg e prog (fuel + 1) first s =
        (if mayContinue hd then [PEv.continue100] else []) ++
          [.req r (if r.streamed then (prog hd (s.drop n)).fin else .attached), .resp 200 false] ++ tail ∧
      (tail = [] ∨ tail = streamLoopP cfg e prog fuel false rest ∨ tail = .maybeClosed :: streamLoopP cfg e prog fuel false rest) := by
  have hloop := streamLoopP_after cfg e prog fuel first s hd n r a hgo hp hb hk
  have hb' := hb
  rw [hs] at hb'
  have hin := sync_after_any_consumption cfg e hd _ m ls rest r a hcl hm hls htr hb'
  rcases hin with ha | ha | ha <;> subst ha
  · exact ⟨[], hloop, Or.inl rfl⟩
  · exact ⟨_, hloop, Or.inr (Or.inl rfl)⟩
  · exact ⟨_, hloop, Or.inr (Or.inr rfl)⟩

/-- in particular the form APIs for ANY consumed amount -/
theorem sync_after_form_parse (cfg : Cfg) (e : End) (hd : ReqHead) (upTo n : Nat) (m : ChunkedMsg)
    (ls : List Bytes) (rest : Bytes) (r : ReqOut) (a : After) (hcl : hd.cl = -1) (hm : m.Wf)
    (hls : ∀ l ∈ ls, TrFieldOk l) (htr : m.trailer = encTrailer ls)
    (h : streamBodyP cfg e hd (m.bytes ++ rest) ((Api.formParse upTo).prog n) = .ok (r, a)) :
    After.InSync a rest :=
  sync_after_any_consumption cfg e hd _ m ls rest r a hcl hm hls htr h

/-- `Body()` / `BodyWriteTo` / `PostArgs()` on a well-formed chunked message whose trailer the reader accepts: the
caller gets exactly the de-chunked body, and the connection stands exactly behind the message (everything was read). -/
theorem body_all_reads_everything (cfg : Cfg) (e : End) (hd : ReqHead) (m : ChunkedMsg)
    (ls : List Bytes) (rest : Bytes) (r : ReqOut) (a : After) (hcl : hd.cl = -1) (hm : m.Wf)
    (hls : ∀ l ∈ ls, TrFieldOk l) (htr : m.trailer = encTrailer ls)
    (h : streamBodyP cfg e hd (m.bytes ++ rest) (Api.bodyAll.prog (m.bytes ++ rest).length) = .ok (r, a))
    (herr : r.got.err = false) :
    r.got.bytes = m.body ∧ r.got.eof = true ∧ a = .resync rest := by
  rw [streamBodyP_eq] at h
  have hlen := body_length_le m rest
  have hpre := (chunked_reads_prefix cfg e hd _ m rest r a hcl hm h).2.2 herr
  have hstop : (Api.bodyAll.prog (m.bytes ++ rest).length).c.stopAfter = (m.bytes ++ rest).length + 1 := rfl
  have heof : r.got.eof = true := hpre.2.mpr (by rw [hstop]; omega)
  refine ⟨?_, heof, ?_⟩
  · rw [hpre.1, hstop, List.take_of_length_le (by omega)]
  · rw [chunked_resync_exact cfg e hd _ m ls rest r a hcl hm hls htr h, herr, heof]
    simp

/-- (2) fixed length, EVERY program: closed or exactly behind the `Content-Length` bytes (no proviso since d6f45a0). -/
theorem sync_after_any_consumption_fixed (cfg : Cfg) (e : End) (hd : ReqHead) (s : Bytes) (p : Prog)
    (r : ReqOut) (a : After) (hcl : 0 ≤ hd.cl)
    (h : streamBodyP cfg e hd s p = .ok (r, a)) :
    After.InSync a (s.drop hd.cl.toNat) := by
  rw [streamBodyP_eq] at h
  rcases fixed_after cfg e hd s _ r a hcl h with ha | ha
  · exact Or.inl ha
  · exact Or.inr (Or.inl ha)

/-- regression (former `detached_stream_is_drained_or_closed_fails_at`, finding `stream-detached-undrained`, repaired in
`/repo` d6f45a0): the example message `3 abc / 02 de / 0` followed by `GET`, handler calls `c.Request.CloseBodyStream()`
(or `ResetBody()`): the stream the server built is drained all the same and the connection stands at `GET` (or is
closed).  Before the repair the loop's `IsBodyStream()` test skipped the drain and the next request was parsed from the
first byte of the BODY. -/
theorem detached_stream_is_drained_or_closed_repaired :
    ∃ a, (streamBodyP {} .eof { cl := -1 } ((msgOf [13, 10]).bytes ++ [71, 69, 84]) (Api.closeStream.prog 25)).toOption.map (·.2) = some a ∧
      After.InSync a [71, 69, 84] :=
  ⟨.either [71, 69, 84], by decide +kernel, Or.inr (Or.inr rfl)⟩

/-- regression: the same through a wrapper put in place of the stream (`SetBodyStream`), after reading 4 of the 5 body
bytes (before the repair the next request was parsed from `e\r\n0\r\n\r\nGET`). -/
theorem sync_after_replaced_stream_repaired :
    ∃ a, (streamBodyP {} .eof { cl := -1 } ((msgOf [13, 10]).bytes ++ [71, 69, 84]) ((Api.replaceStream 3 4).prog 25)).toOption.map (·.2) = some a ∧
      After.InSync a [71, 69, 84] :=
  ⟨.either [71, 69, 84], by decide +kernel, Or.inr (Or.inr rfl)⟩

/-- regression: `stream_error_closes` survives `Body()`: a refused chunk-size line (`zz`) makes the read fail, `Body()`
drops the error and detaches the stream, and the connection IS closed (the server's stream remembers the error). -/
theorem stream_error_closes_after_body_repaired :
    (streamBodyP {} .eof { cl := -1 } [49, 13, 10, 97, 13, 10, 122, 122, 13, 10, 13, 10, 71, 69, 84] (Api.bodyAll.prog 15)).toOption.map
      (fun p => (p.1.got.err, decide (p.2 = .closed))) = some (true, true) := by decide +kernel

/-- **detached or replaced streams are drained or the connection is closed**: for every program and every `Fin` the
reads are the same as for the attached program and the connection is in sync. -/
theorem detached_stream_is_drained_or_closed (cfg : Cfg) (e : End) (hd : ReqHead) (p : Prog) (m : ChunkedMsg)
    (ls : List Bytes) (rest : Bytes) (r : ReqOut) (a : After) (hcl : hd.cl = -1) (hm : m.Wf)
    (hls : ∀ l ∈ ls, TrFieldOk l) (htr : m.trailer = encTrailer ls) (fin : Fin)
    (h : streamBodyP cfg e hd (m.bytes ++ rest) { p with fin := fin } = .ok (r, a)) :
    After.InSync a rest ∧ streamBodyP cfg e hd (m.bytes ++ rest) { p with fin := .attached } = .ok (r, a) :=
  ⟨sync_after_any_consumption cfg e hd _ m ls rest r a hcl hm hls htr h, h⟩

/-- non-vacuity of `sync_after_form_parse` / `form_parse_reads_prefix`: the multipart reader takes 4 bytes (inside the
second chunk); drained to exactly `GET`. -/
example : (streamBodyP {} .eof { cl := -1 } ((msgOf (encTrailer [[88, 58, 49]])).bytes ++ [71, 69, 84])
    ((Api.formParse 4).prog 33)).toOption.map (fun p => (p.1.got.bytes, p.1.got.eof, p.1.got.err, p.2)) =
    some ([97, 98, 99, 100], false, false, .either [71, 69, 84]) := by decide +kernel

/-- non-vacuity of `body_all_reads_everything`: `Body()` on the example message with trailer `X:1`. -/
example : (streamBodyP {} .eof { cl := -1 } ((msgOf (encTrailer [[88, 58, 49]])).bytes ++ [71, 69, 84])
    (Api.bodyAll.prog ((msgOf (encTrailer [[88, 58, 49]])).bytes ++ [71, 69, 84]).length)).toOption.map
      (fun p => (p.1.got.bytes, p.1.got.eof, p.1.got.err, p.2)) =
    some ([97, 98, 99, 100, 101], true, false, .resync [71, 69, 84]) := by decide +kernel

/-- non-vacuity of `sync_after_any_consumption_fixed`: Content-Length 5, `Body()`, detached. -/
example : (streamBodyP {} .eof { cl := 5, method := [80] } [1, 2, 3, 4, 5, 71, 69, 84] (Api.bodyAll.prog 8)).toOption.map
    (fun p => (p.1.got.bytes, p.2)) = some ([1, 2, 3, 4, 5], .resync [71, 69, 84]) := by decide +kernel

/-- the whole connection: upload `/c` (chunked `abc`,`de`, trailer `X:1`) + pipelined `GET /probe`.  With
`MultipartForm`-style consumption (any amount, here 4 bytes) the probe is served; with `CloseBodyStream()` too (second
example; before d6f45a0 the body bytes were parsed as a request: 400, connection closed, probe lost). -/
example : ((serveStreamP {} .eof (fun _ _ => (Api.formParse 4).prog 0)
    [80, 79, 83, 84, 32, 47, 99, 32, 72, 84, 84, 80, 47, 49, 46, 49, 13, 10, 72, 111, 115, 116, 58, 32,
    104, 13, 10, 84, 114, 97, 110, 115, 102, 101, 114, 45, 69, 110, 99, 111, 100, 105, 110, 103, 58, 32,
    99, 104, 117, 110, 107, 101, 100, 13, 10, 13, 10, 51, 13, 10, 97, 98, 99, 13, 10, 48, 50, 32, 13,
    10, 100, 101, 13, 10, 48, 13, 10, 88, 58, 49, 13, 10, 13, 10, 71, 69, 84, 32, 47, 112, 114, 111, 98,
    101, 32, 72, 84, 84, 80, 47, 49, 46, 49, 13, 10, 72, 111, 115, 116, 58, 32, 112, 13, 10, 13, 10]).map
    (fun ev => match ev with
      | .continue100 => (0, []) | .req r _ => (1, r.head.uri) | .resp st _ => (st, []) | .maybeClosed => (3, []))) =
    [(1, [47, 99]), (200, []), (3, []), (1, [47, 112, 114, 111, 98, 101]), (200, [])] := by decide +kernel

example : ((serveStreamP {} .eof (fun hd _ => if hd.uri = [47, 99] then Api.closeStream.prog 0 else Api.none.prog 0)
    [80, 79, 83, 84, 32, 47, 99, 32, 72, 84, 84, 80, 47, 49, 46, 49, 13, 10, 72, 111, 115, 116, 58, 32,
    104, 13, 10, 84, 114, 97, 110, 115, 102, 101, 114, 45, 69, 110, 99, 111, 100, 105, 110, 103, 58, 32,
    99, 104, 117, 110, 107, 101, 100, 13, 10, 13, 10, 51, 13, 10, 97, 98, 99, 13, 10, 48, 50, 32, 13,
    10, 100, 101, 13, 10, 48, 13, 10, 88, 58, 49, 13, 10, 13, 10, 71, 69, 84, 32, 47, 112, 114, 111, 98,
    101, 32, 72, 84, 84, 80, 47, 49, 46, 49, 13, 10, 72, 111, 115, 116, 58, 32, 112, 13, 10, 13, 10]).map
    (fun ev => match ev with
      | .continue100 => (0, []) | .req r _ => (1, r.head.uri) | .resp st _ => (st, []) | .maybeClosed => (3, []))) =
    [(1, [47, 99]), (200, []), (3, []), (1, [47, 112, 114, 111, 98, 101]), (200, [])] := by decide +kernel

end Hertz.Props.C14
