/-
C10 — Client connections are exclusive, bounded, never leaked and never reused dirty.

Model: `Hertz.Pool.step` (Model/ClientPool.lean), one event per lock region of
pkg/protocol/http1/client.go; a schedule is an arbitrary list of events (any number of callers,
any interleaving, any length) accepted by `step` from the empty pool.  The model is held to the
code by trace validation (harness/c10.go, hook H2): every recorded trace of the real pool must be
accepted by `step` with equal `(connsCount, len(conns), connsWait.len())` after every lock region,
and for single-goroutine runs the model predicts the complete trace.

Statement by statement:
  exclusive ............ `exclusive`, `exclusive_places`               proved
  bounded .............. `count_conserved`, `count_le_max`             proved
  never leaked ......... `quiescent`                                   proved
      pending gauge ..... `pending_gauge`, `pending_zero`                proved (F10 fixed in /repo)
      no waiter queued .. `no_waiter_queued_fails_at` (stale wantConn) + `queued_waiters_dead_partial`
  never reused dirty ... `reuse_only_if_clean`, `error_closes`         proved (decision logic)
  sent at most once .... `non_idempotent_sent_once`, `retry_only_bad_pool_conn`   proved
  response belongs to caller ... `response_belongs_to_caller` (+ `_state`, `pooled_connection_wire_empty`,
      `wire_trace_is_pool_schedule`, `peer_assumption_needed`)       proved on the wire refinement
      (Proofs/ClientWire.lean) under the stated peer assumption; `client_guards_allow_every_exchange`; the refinement itself is not
      trace-validated against the code, see TODO-OPEN
  sequential program ... `seq_program_accepted`, `seq_do_accepted`    proved (Proofs/ClientSeq.lean)
  bounded per host at the Client level (host-client map + janitor, pkg/app/client) ...
      `host_bound_across_janitor_ticks`, `dropped_host_client_has_no_connection`,
      `janitor_must_count_busy_connections` (evicting on "no idle connection" breaks the bound)   proved
  Connection: close sent (by the request or for MaxConnDuration) => never pooled ...
      `close_sent_never_pooled`, `retired_connection_not_released`                                proved
  source facts for these (ShouldRemove, cleanHostClients, shouldCloseConn, the retire-if) ...
      `client_level_matches_source`
  returns within timeout+slack:  runtime clause, see TODO-OPEN below.
-/
import Hertz.Proofs.ClientPool
import Hertz.Proofs.ClientSeq
import Hertz.Proofs.ClientWire
import Hertz.Proofs.ClientHosts
import Hertz.Proofs.ClientHelper
import Hertz.Gen.ClientHelper
import Hertz.Gen.CloseIdle
namespace Hertz.Props.C10
open Hertz.Pool

/-- `connsCount` is exactly the number of connections the pool answers for: idle + in use +
delivered to a waiter + dial slots (callers and `dialConnFor` goroutines) + closed connections whose
`decConnsCount` has not run yet — after every lock region of every schedule. -/
theorem count_conserved (cfg : Cfg) (evs : List Ev) (s : State) (h : run cfg init evs = some s) :
    s.count = s.idle.length + s.held.length + s.boxed.length + s.slots.length + s.helperSlots + s.owed.length :=
  (reach_inv h).cons

/-- The number of connections counted per host never exceeds the configured maximum (and never
goes negative). -/
theorem count_le_max (cfg : Cfg) (evs : List Ev) (s : State) (h : run cfg init evs = some s) :
    0 ≤ s.count ∧ s.count ≤ cfg.maxConns :=
  ⟨by have := (reach_inv h).cons; unfold Cons at this; omega, (reach_inv h).le⟩

/-- A connection is in at most one place: idle in the pool, in the hands of one actor, parked in
one undelivered `wantConn`, or closed — and at most once there. -/
theorem exclusive (cfg : Cfg) (evs : List Ev) (s : State) (h : run cfg init evs = some s) (c : Nat) :
    s.idle.count c + s.held.count c + s.boxed.count c + s.closed.count c ≤ 1 :=
  (reach_inv h).excl c

/-- Readable form: a connection some actor is using is neither idle (so nobody can acquire it),
nor waiting in a `wantConn`, nor closed; and it is held once. -/
theorem exclusive_places (cfg : Cfg) (evs : List Ev) (s : State) (h : run cfg init evs = some s) (c : Nat)
    (hc : c ∈ s.held) : c ∉ s.idle ∧ c ∉ s.boxed ∧ c ∉ s.closed ∧ s.held.count c = 1 := by
  have e := exclusive cfg evs s h c
  have p := List.count_pos_iff.mpr hc
  refine ⟨?_, ?_, ?_, by omega⟩ <;> (rw [← List.count_eq_zero]; omega)

/-- Once all calls have returned (and the goroutines the pool started hold nothing): no connection
is in use, no dial is in flight, no decrement is owed, no waiter is still waiting, nothing sits in a
`wantConn`, and `connsCount` equals the number of idle connections — every connection is idle in
the pool or closed. -/
theorem quiescent (cfg : Cfg) (evs : List Ev) (s : State) (h : run cfg init evs = some s) (hq : Quiet s) :
    s.held = [] ∧ s.slots = [] ∧ s.owed = [] ∧ s.live = [] ∧ s.boxed = [] ∧ s.count = s.idle.length :=
  quiet_rest (reach_inv h) hq

/-- The pending-request gauge is exactly the number of calls in progress, after every event of
every schedule (the `ctx.Done()` exit of `HostClient.Do` decrements like the normal exit). -/
theorem pending_gauge (cfg : Cfg) (evs : List Ev) (s : State) (h : run cfg init evs = some s) :
    s.pending = s.inDo.length :=
  (reach_inv h).pend

/-- Once all calls have returned the pending-request gauge is zero — for every schedule. -/
theorem pending_zero (cfg : Cfg) (evs : List Ev) (s : State) (h : run cfg init evs = some s)
    (hq : Quiet s) : s.pending = 0 := by
  have := pending_gauge cfg evs s h
  rw [hq.1] at this
  simpa using this

/-- regression (old F10 witness, `c10seq 1 0 1 g 0 1 0`): a call with an already cancelled context
leaves the gauge at 0; same after a send followed by a cancelled retry -/
example : (run ⟨1, false⟩ init [.begin 0 0, .endd 0 0 true]).map (·.pending) = some 0 := by decide
example : (run ⟨2, true⟩ init [.begin 0 0, .acqCreate 0, .dialOk 0 0, .rel 0 0 0 none false, .endd 0 0 false,
    .begin 0 1, .acqIdle 0 0, .close 0 0, .dec 0 0 none, .endd 0 1 true]).map (fun s => (s.pending, s.count))
    = some (0, 0) := by decide

/-- the schedule of the stale waiter: caller 1 sees the pool full, caller 0 closes its connection
(nobody queued, so the count drops), only then caller 1 queues, times out, returns -/
def staleSchedule : List Ev :=
  [.begin 0 0, .acqCreate 0, .dialOk 0 0, .begin 1 1, .acqFull 1, .close 0 0, .dec 0 0 none, .endd 0 0 false,
   .enq 1 0 0, .cancel 1 0 none, .endd 1 1 false]

/-- "No waiter remains queued at quiescence" is FALSE of the code for `connsWait.len()` (what
`ConnPoolState().WaitConnNum` reports): a `wantConn` that gave up stays in the queue until the next
release/close/enqueue.  Witness replayed against the real code: `c10stale 40`. -/
theorem no_waiter_queued_fails_at :
    ¬ (∀ (cfg : Cfg) (evs : List Ev) (s : State), run cfg init evs = some s → Quiet s → s.queue = []) := by
  intro h
  have := h ⟨1, true⟩ staleSchedule _ rfl (by decide)
  revert this; decide

/-- … what does hold: every `wantConn` still queued at quiescence is dead (no caller waits). -/
theorem queued_waiters_dead_partial (cfg : Cfg) (evs : List Ev) (s : State) (h : run cfg init evs = some s)
    (hq : Quiet s) : ∀ w ∈ s.queue, w ∉ s.live := by
  intro w _
  rw [(quiescent cfg evs s h hq).2.2.2.1]
  simp

/-- A connection is put back for reuse exactly when its exchange completed cleanly: full response
read, no `Connection: close` on either side, no forced reset, no error, no timeout, no upgrade, no
unread stream. -/
theorem reuse_only_if_clean (inPool : Bool) (ex : Exch) :
    (verdict inPool ex).act = .release ↔ ex.clean = true :=
  verdict_release_iff inPool ex

/-- Every attempt that ends with an error closes its connection. -/
theorem error_closes (inPool : Bool) (ex : Exch) (h : (verdict inPool ex).err ≠ .none) :
    (verdict inPool ex).act = .close :=
  verdict_err_closes inPool ex h

/-- A request that is not safe to repeat is attempted — hence sent — at most once, whatever the
attempts would do (default retry policy, `RetryIfFunc == nil`). -/
theorem non_idempotent_sent_once (outcomes : List Attempt) :
    (doLoop false outcomes).length ≤ 1 ∧ sentCount (doLoop false outcomes) ≤ 1 :=
  ⟨doLoop_nonidem outcomes, Nat.le_trans (sentCount_le_length _) (doLoop_nonidem outcomes)⟩

/-- `Do` repeats a request only after `ErrBadPoolConn` on a repeatable request, and
`ErrBadPoolConn` only arises on a connection that came out of the pool (`inPool`). -/
theorem retry_only_bad_pool_conn (idem : Bool) (outcomes : List Attempt) (i : Nat)
    (h : i + 1 < (doLoop idem outcomes).length) :
    ∃ t, (doLoop idem outcomes)[i]? = some t ∧ t.err = .badPool ∧ t.canRetry = true ∧ idem = true :=
  doLoop_retried idem outcomes i h

theorem bad_pool_conn_only_from_pool (inPool : Bool) (ex : Exch) (h : (verdict inPool ex).err = .badPool) :
    inPool = true ∧ (verdict inPool ex).canRetry = true ∧ (verdict inPool ex).act = .close :=
  verdict_badPool inPool ex h

/-- The decision table, the retry condition of `Do`, the idempotent-method list, the default
maximum and the decrement-before-every-return of `Do` used by the model are the ones in the Go source as it stands now (regenerated by
gen/c10.go into `Gen/ClientPaths.lean` on every run). -/
theorem model_matches_source :
    modelPaths = Hertz.Gen.Client.doPaths ∧ doRetryCond = Hertz.Gen.Client.doRetryCond ∧
    defaultMaxConnsPerHost = Hertz.Gen.Client.defaultMaxConnsPerHost ∧
    idempotentMethods = Hertz.Gen.Client.idempotentMethods ∧
    doReturnsDecrement = Hertz.Gen.Client.doReturnsDecrement :=
  ⟨model_matches_gen, retry_cond_matches_gen, consts_match_gen.1, consts_match_gen.2, pending_decrement_matches_gen⟩

/-- POST, PATCH and CONNECT are not in the list, so `doLoop false` (one attempt) applies to them. -/
theorem post_not_idempotent : isIdem "POST" = false ∧ isIdem "PATCH" = false ∧ isIdem "CONNECT" = false := by
  decide

example : isIdem "GET" = true := by decide
example : Hertz.Gen.Client.doPaths.length = 16 := by decide
example : effMax 0 = 512 ∧ effMax 3 = 3 := by decide

/-! ### Non-vacuity: schedules that exercise the hypotheses -/

/-- hand-over through the waiter queue, a `dialConnFor` helper, a late delivery returned by
`cancel`, reuse of an idle connection: accepted, and quiescent at the end -/
def demoSchedule : List Ev :=
  [.begin 0 0, .acqCreate 0, .dialOk 0 0, .begin 1 1, .acqFull 1, .enq 1 0 0, .begin 2 2, .acqFull 2, .enq 2 1 0,
   .tryd 0 0 (some 0) true, .rel 0 0 1 (some 0) true, .endd 0 0 false, .wake 1 0 (some 0),
   .close 1 0, .dec 1 1 (some 1), .endd 1 1 false, .dialOk 100 1, .cancel 2 1 none, .tryd 100 1 (some 1) false,
   .rel 100 1 0 none false, .endd 2 2 false, .begin 0 3, .acqIdle 0 1, .rel 0 1 0 none false, .endd 0 3 false]

example : (run ⟨1, true⟩ init demoSchedule).isSome = true := by decide
example : ((run ⟨1, true⟩ init demoSchedule).map (fun s => (s.count, s.idle, s.queue, s.closed, s.pending)))
    = some (1, [1], [], [0], 0) := by decide
example : ∃ s, run ⟨1, true⟩ init demoSchedule = some s ∧ Quiet s := ⟨_, rfl, by decide⟩
example : ∃ s, run ⟨1, true⟩ init (demoSchedule.take 13) = some s ∧ 0 ∈ s.held := ⟨_, rfl, by decide⟩
example : ∃ s, run ⟨1, true⟩ init staleSchedule = some s ∧ Quiet s ∧ s.queue = [0] := ⟨_, rfl, by decide, by decide⟩
example : (verdict true (.done false false false)).act = .release := by decide
example : (verdict true .peekEOF).err = .badPool ∧ (verdict false .peekEOF).err = .eof := by decide
example : (verdict false (.done false true false)).act = .close := by decide
example : doLoop true [⟨true, true, .badPool⟩, ⟨true, true, .badPool⟩, ⟨true, false, .none⟩]
    = [⟨true, true, .badPool⟩, ⟨true, true, .badPool⟩, ⟨true, false, .none⟩] := by decide
example : doLoop false [⟨true, true, .badPool⟩, ⟨true, false, .none⟩] = [⟨true, true, .badPool⟩] := by decide

/-! ### The caller's program, run sequentially, stays inside the model (`seq_program_accepted`) -/

/-- What the flag `Sim.ok` means: `emit` keeps it exactly when `step` accepts the event (the only
other place that clears it is fuel exhaustion in `simLoop`). -/
theorem sim_ok_meaning (cfg : Cfg) (sim : Sim) (e : Ev) :
    (emit cfg sim e).ok = true ↔ (sim.ok = true ∧ (step cfg sim.st e).isSome = true) :=
  emit_ok_iff cfg sim e

/-- For every configuration and every script (any length, any fault codes, any context modes), the
sequential run of the caller's program from the empty pool — the run the driver compares token by
token with the recorded trace — never emits an event `step` rejects and never runs out of fuel;
it ends with nobody inside `Do` and no connection in anybody's hands; and the pool state it ends in
is the result of an accepted schedule, so every theorem above applies to it. -/
theorem seq_program_accepted (cfg : Cfg) (script : List Req) :
    (simSeq cfg {} 0 script []).1.ok = true ∧
    (∃ evs, run cfg init evs = some (simSeq cfg {} 0 script []).1.st) ∧
    (simSeq cfg {} 0 script []).1.st.inDo = [] ∧ (simSeq cfg {} 0 script []).1.st.held = [] :=
  simSeq_accepted cfg script

/-- The same for one call of `Do` by any caller `a < auxBase` from any simulator state at rest
(`Ph cfg a [] [] [] []`: flag up, state reachable, nobody in `Do`, nothing held / dialling / owed,
no live waiter, nothing parked, numbering of connections and waiters consistent). -/
theorem seq_do_accepted (cfg : Cfg) (a : Nat) (sim : Sim) (h : Ph cfg a [] [] [] [] sim) (id : Nat) (q : Req) :
    Ph cfg a [] [] [] [] (simDo cfg sim a id q).1 :=
  simDo_ph h id q

/-- non-vacuity: the empty simulator is at rest; a script with a keep-alive race (the peer closes
after answering, the next request meets `ErrBadPoolConn`, is retried on a new connection) -/
example : Ph ⟨1, true⟩ 0 [] [] [] [] ({} : Sim) := ph_init _
example : (simSeq ⟨1, true⟩ {} 0 [⟨false, 2, 0, false⟩, ⟨false, 0, 0, false⟩] []).1.st.closed = [0] ∧
    (simSeq ⟨1, true⟩ {} 0 [⟨false, 2, 0, false⟩, ⟨false, 0, 0, false⟩] []).1.st.idle = [1] := by decide
/-- a full pool with a waiter that times out, a failed dial, a POST that is not retried -/
example : (simSeq ⟨0, true⟩ {} 0 [⟨false, 0, 0, false⟩] []).1.st.queue = [0] := by decide
example : (simSeq ⟨2, false⟩ {} 0 [⟨true, 2, 0, false⟩, ⟨true, 0, 0, false⟩, ⟨false, 0, 0, true⟩] []).1.st.closed = [0]
    := by decide

/-! ### The response a caller reads is the answer to its own request (`response_belongs_to_caller`)

The extended machine `wstep` (Proofs/ClientWire.lean) runs `step` for the pool events and adds, per
connection, the queue `out` of requests written and not yet answered and the buffer `left` of
answers that arrived and were not read yet.  Peer assumption: the only event that puts anything
into `left c` is `answer c`, which moves the oldest entry of `out c` to the end of `left c` — one
response per request, on the same connection, in request order, nothing unsolicited
(`unsol = false`).  Client assumptions (guards of `wstep`): only the holder writes and reads; one
write per hold; `Exch.done` is reported only after one write and one complete read (`exchOk`);
a connection is handed back (`releaseConn`, directly or through `tryDeliver`) only if nothing was
written on it or `verdict … = release`. -/

/-- For every accepted trace of the extended machine from the empty pool: if actor `a` then reads
a complete response from connection `c` and that response is the answer to request `x`, then `x`
was written by `a` itself, on `c`, earlier in the trace, and between that write and the read no
event acquired, handed back, closed, or wrote on `c`. -/
theorem response_belongs_to_caller (cfg : Cfg) (evs : List WEv) (ws ws' : WState) (a c : Nat) (x : Msg)
    (hr : wrun cfg false winit evs = some ws) (h : wstep cfg false ws (.read a c x) = some ws') :
    x.1 = a ∧ ∃ pre post reached ok, evs = pre ++ .write a c x.2 reached ok :: post ∧
      ∀ e ∈ post, touch c e = false :=
  read_trace hr h

/-- State form: the reader holds `c`, and `x` is the request recorded for its present hold. -/
theorem response_belongs_to_caller_state (cfg : Cfg) (evs : List WEv) (ws ws' : WState) (a c : Nat) (x : Msg)
    (hr : wrun cfg false winit evs = some ws) (h : wstep cfg false ws (.read a c x) = some ws') :
    (c ∈ ws.pool.held ∧ ws.pool.holder c = a) ∧ ws.req c = some x ∧ x.1 = a :=
  read_own (wreach_inv hr) h

/-- A connection is in the pool (idle, or parked in a `wantConn`) only with an empty outstanding
queue and no leftovers — the wire-level content of `exclusive` + `reuse_only_if_clean`. -/
theorem pooled_connection_wire_empty (cfg : Cfg) (evs : List WEv) (ws : WState)
    (hr : wrun cfg false winit evs = some ws) (c : Nat) (hc : c ∈ ws.pool.idle ∨ c ∈ ws.pool.boxed) :
    ws.out c = [] ∧ ws.left c = [] :=
  pooled_wire_empty (wreach_inv hr) hc

/-- The extension is a refinement: the pool events of an accepted extended trace are an accepted
schedule of `step` ending in the same pool state (so `exclusive`, `count_le_max`, … hold along it). -/
theorem wire_trace_is_pool_schedule (cfg : Cfg) (unsol : Bool) (evs : List WEv) (ws : WState)
    (hr : wrun cfg unsol winit evs = some ws) : run cfg init (poolEvents evs) = some ws.pool :=
  wrun_pool hr

/-- The client-side guards of the extended machine do not block the modelled caller: from any
reachable state where `a` holds `c` and has not written yet, the wire events of an attempt with
outcome `ex` (`attemptWire`) and the report of `ex` are accepted for EVERY `ex`, and whenever
`verdict` says `release` the hand-back guard is open. -/
theorem client_guards_allow_every_exchange (cfg : Cfg) (evs : List WEv) (ws : WState)
    (hr : wrun cfg false winit evs = some ws) (a c r : Nat) (inPool : Bool) (ex : Exch)
    (hh : c ∈ ws.pool.held ∧ ws.pool.holder c = a) (hf : ws.ph c = .fresh) :
    ∃ ws1, wrun cfg false ws (attemptWire a c r ex ++ [.outcome a c inPool ex]) = some ws1 ∧
      ws1.pool = ws.pool ∧ ((verdict inPool ex).act = .release → releasable ws1 c = true) :=
  attempt_wire_accepted (wreach_inv hr) a c r inPool ex hh hf

/-- two callers use connection 0 one after the other; each reads the answer to its own request -/
def wireDemo : List WEv :=
  [.pool (.begin 0 0), .pool (.acqCreate 0), .pool (.dialOk 0 0), .write 0 0 7 true true, .answer 0,
   .read 0 0 (0, 7), .outcome 0 0 false (.done false false false), .pool (.rel 0 0 0 none false),
   .pool (.endd 0 0 false),
   .pool (.begin 1 1), .pool (.acqIdle 1 0), .write 1 0 8 true true, .answer 0]

/-- hand-over through a waiter: caller 1 queues, caller 0 finishes cleanly and delivers connection 0
into the `wantConn`, caller 1 wakes up with it and writes -/
def wireHandover : List WEv :=
  [.pool (.begin 0 0), .pool (.acqCreate 0), .pool (.dialOk 0 0), .write 0 0 7 true true,
   .pool (.begin 1 1), .pool (.acqFull 1), .pool (.enq 1 0 0), .answer 0, .read 0 0 (0, 7),
   .outcome 0 0 false (.done false false false), .pool (.tryd 0 0 (some 0) true),
   .pool (.rel 0 0 1 (some 0) true), .pool (.endd 0 0 false), .pool (.wake 1 0 (some 0)),
   .write 1 0 8 true true, .answer 0]

example : (wrun ⟨1, false⟩ false winit wireDemo).isSome = true := by decide
example : ((wrun ⟨1, false⟩ false winit wireDemo).bind
    (fun ws => wstep ⟨1, false⟩ false ws (.read 1 0 (1, 8)))).isSome = true := by decide
example : ((wrun ⟨1, true⟩ false winit wireHandover).bind
    (fun ws => wstep ⟨1, true⟩ false ws (.read 1 0 (1, 8)))).isSome = true := by decide
example : ((wrun ⟨1, false⟩ false winit (wireDemo.take 9)).map (fun ws => (ws.pool.idle, ws.out 0, ws.left 0)))
    = some ([0], [], []) := by decide
example : ∃ ws, wrun ⟨1, false⟩ false winit (wireDemo.take 3) = some ws ∧
    (0 ∈ ws.pool.held ∧ ws.pool.holder 0 = 0) ∧ ws.ph 0 = .fresh := ⟨_, rfl, by decide, by decide⟩
/-- the guards bite: handing the connection back before the response is read, or reporting
`Exch.done` before it is read, is not accepted -/
example : (wrun ⟨1, false⟩ false winit (wireDemo.take 4 ++ [.pool (.rel 0 0 0 none false)])).isSome = false := by
  decide
example : (wrun ⟨1, false⟩ false winit (wireDemo.take 5 ++ [.outcome 0 0 false (.done false false false)])).isSome
    = false := by decide

/-- the peer answers caller 0's request a second time (or pushes any bytes nobody asked for) after
the exchange completed; the connection goes back to the pool with that leftover; caller 1 gets it -/
def unsolicitedTrace : List WEv :=
  [.pool (.begin 0 0), .pool (.acqCreate 0), .pool (.dialOk 0 0), .write 0 0 7 true true, .answer 0,
   .read 0 0 (0, 7), .outcome 0 0 false (.done false false false), .pool (.rel 0 0 0 none false),
   .pool (.endd 0 0 false), .inject 0 (0, 7),
   .pool (.begin 1 1), .pool (.acqIdle 1 0), .write 1 0 8 true true]

/-- The peer assumption cannot be dropped: with unsolicited bytes allowed (`unsol = true`) there is
an accepted trace after which caller 1 reads the answer to caller 0's request.  (`releaseConn` does
not look at the reader's buffer, so nothing in the client stops this.) -/
theorem peer_assumption_needed :
    ¬ (∀ (cfg : Cfg) (evs : List WEv) (ws ws' : WState) (a c : Nat) (x : Msg),
        wrun cfg true winit evs = some ws → wstep cfg true ws (.read a c x) = some ws' → x.1 = a) := by
  intro h
  have := h ⟨1, false⟩ unsolicitedTrace _ _ 1 0 (0, 7) rfl rfl
  revert this; decide


/-! ## Client level: the host-client map, its janitor, MaxConnDuration (Model/ClientHosts.lean)

A host entry is the `HostClient` the `Client` has in its map for the host plus the ones its 10 s
janitor (`cleanHostClients`) has deleted from the map; events: `create` (`Client.do` finds none),
`pool e` (a lock region of the one in the map), `tick` (the janitor visits the entry and deletes it
when `ShouldRemove()`).  Held to the code by `c10cli` (harness/c10cli.go): the real `Client` under
scripts with calls kept in flight across the real tick. -/

/-- However requests, dial failures, closes and janitor ticks interleave, the connections counted
against one host by all the HostClients the Client ever made for it — the one in the map and every
dropped one — stay within the configured maximum. -/
theorem host_bound_across_janitor_ticks (cfg : Cfg) (evs : List CEv) (h : HostEntry) (hr : crun cfg {} evs = some h) :
    0 ≤ hostCounted h ∧ hostCounted h ≤ cfg.maxConns :=
  hostCounted_bounds (creach_cinv hr)

/-- A HostClient the janitor dropped has no connection at all: nothing idle, nothing in use,
nothing parked in a waiter, no dial in flight, no decrement owed — nothing is leaked with it and
nothing of it can still be open next to the connections of its replacement. -/
theorem dropped_host_client_has_no_connection (cfg : Cfg) (evs : List CEv) (h : HostEntry)
    (hr : crun cfg {} evs = some h) (s : State) (hs : s ∈ h.dropped) :
    s.count = 0 ∧ s.idle = [] ∧ s.held = [] ∧ s.boxed = [] ∧ s.slots = [] ∧ s.helperSlots = 0 ∧ s.owed = [] :=
  have i := (creach_cinv hr).dropped s hs
  ⟨i.2, count_zero_empty i.1 i.2⟩

/-- The janitor's predicate has to look at the counted connections: with "no idle connection" in
its place (`len(c.conns) == 0`) a HostClient whose only connection is in use is dropped, the next
request creates a second HostClient, and two connections are counted for a host with maximum 1. -/
theorem janitor_must_count_busy_connections :
    ∃ evs h, crunWith (fun s => s.idle.isEmpty) ⟨1, false⟩ {} evs = some h ∧ hostCounted h = 2 :=
  ⟨[.create, .pool (.begin 0 0), .pool (.acqCreate 0), .pool (.dialOk 0 0), .tick,
    .create, .pool (.begin 1 1), .pool (.acqCreate 1), .pool (.dialOk 1 0)], _, rfl, by decide⟩

/-- An exchange in which the client sent `Connection: close` — because the request asked for it
or because the connection was older than `MaxConnDuration` (`resetConnection`) — ends with the
connection closed, whatever the response says. -/
theorem close_sent_never_pooled (inPool reqClose respClose resetConn : Bool) (h : (reqClose || resetConn) = true) :
    (verdict inPool (.done reqClose respClose resetConn)).act = .close :=
  close_sent_closes inPool reqClose respClose resetConn h

/-- The same against the scripted peer, for every fault and every peer policy (answers without the
header and keeps the connection, answers and closes silently, echoes the header): the connection
is not released. -/
theorem retired_connection_not_released (inPool : Bool) (ppol : Nat) (q : CReq) (resetConn : Bool)
    (h : (q.close || resetConn) = true) : (verdict inPool (peerAnswer ppol q resetConn).1).act ≠ .release :=
  peerAnswer_close_not_released inPool ppol q resetConn h

/-- `ShouldRemove`, the janitor's delete, the close-or-release disjunction and the statement that
retires an old connection are, in the Go source as it stands now, what the model assumes. -/
theorem client_level_matches_source :
    shouldRemoveSrc = Hertz.Gen.Client.shouldRemoveBody ∧ janitorDeleteSrc = Hertz.Gen.Client.janitorDelete ∧
    closeDecisionSrc = Hertz.Gen.Client.closeDecision ∧ retireOldConnSrc = Hertz.Gen.Client.retireOldConn :=
  ⟨should_remove_matches_gen, janitor_delete_matches_gen, close_decision_matches_gen, retire_old_conn_matches_gen⟩

/-- one call in flight across a tick: the entry stays, the second call finds the pool full -/
def busyAcrossTick : List CEv :=
  [.create, .pool (.begin 0 0), .pool (.acqCreate 0), .pool (.dialOk 0 0), .tick, .pool (.begin 1 1), .pool (.acqFull 1)]

example : (crun ⟨1, false⟩ {} busyAcrossTick).map (fun h => (hostCounted h, h.dropped.length, h.cur.isSome)) = some (1, 0, true) := by
  decide
example : (crun ⟨1, false⟩ {} (busyAcrossTick.take 5 ++ [.create])).isSome = false := by decide
-- an entry whose connection was closed is dropped and re-created
example : (crun ⟨1, false⟩ {} [.create, .pool (.begin 0 0), .pool (.acqCreate 0), .pool (.dialOk 0 0), .pool (.close 0 0),
    .pool (.dec 0 0 none), .pool (.endd 0 0 false), .tick, .create, .pool (.begin 0 1), .pool (.acqCreate 0)]).map
      (fun h => (hostCounted h, h.dropped.length)) = some (1, 1) := by decide
example : (verdict true (.done false false true)).act = .close ∧ (verdict true (.done true false false)).act = .close := by decide
example : (peerAnswer 0 ⟨true, false, 0, 0, false⟩ true).1 = .done false false true ∧
          (peerAnswer 2 ⟨true, true, 0, 0, false⟩ false).1 = .done true true false ∧
          (peerAnswer 1 ⟨false, false, 0, 0, false⟩ false).1 = .done false false false := by decide
example : Hertz.Gen.Client.shouldRemoveBody.length = 3 ∧ Hertz.Gen.Client.closeDecision.length = 3 := by decide

/-
TODO-OPEN (not proved here; checked at run time by harness/c10.go on every case):

 * response_belongs_to_caller: PROVED above for the wire refinement `wstep` of Proofs/ClientWire.lean
   (all traces, any number of callers/connections, honest peer: in-order answers per connection, one
   response per request, nothing unsolicited — `peer_assumption_needed` shows the last part is
   necessary).  What remains open is the tie of the refinement to the code: hook H2 records lock
   regions only, not the writes/reads on a connection, so the guards of `wstep` that speak about the
   client (only the holder touches the connection; one `reqI.Write` per acquisition; `Exch.done`
   reported only after a complete read; hand-back only when fresh or `verdict = release`) are read off
   `doNonNilReqResp` by hand (the release/close sites are pinned by `model_matches_source`), not
   trace-validated.  The byte level (framing of responses in `standard.Conn`'s buffer, a response
   split over reads) is abstracted to whole messages; C11/C13 cover the parsing and the buffer.
   The harness still checks the end-to-end statement directly: the scripted peer echoes the request
   id in the body and every successful call compares it (`wrong` counter, must be 0), and the peer
   flags a request that arrives while the previous response is unread or after a non-clean exchange
   (`dirty`, must be 0).

 * returns_within_timeout: "a call given a request or read timeout returns no later than that
   timeout plus scheduling slack".  Runtime clause; measured by the harness (`late` counter, must be
   0: read timeout 25ms and wait-for-connection timeout 12ms per attempt, slack 500ms).  The model only shows the
   structural part: the one blocking point of `acquireConn` is a `select` over `w.ready` and a timer.

 * seq_program_accepted: PROVED above (`seq_program_accepted`, `seq_do_accepted`) for every script and
   configuration; the driver's `sim.ok` conjunct is now redundant (kept as a cross-check).  Not
   covered: `Exch.upgrade` / `Exch.streamOpen` (the scripted peer never produces them; the caller
   would keep the connection past `endd`, which `step` rejects by `ownsNothing`).

 * Client level: the theorems above are about one host entry; the script simulator of
   Model/ClientHosts.lean (`cloop`, `CSim.step`: calls kept in flight, per-host HostClients, epochs
   for MaxConnDuration) is compared with the real `Client` case by case (c10cli) and cross-checked by
   `sim.ok` (every event it emits is accepted by `step`), but `seq_program_accepted` has not been
   extended to it.  The janitor's period (10 s) and `MaxConnDuration` are real time in the harness.
-/

/-! ## `CloseIdleConnections` -/

/-- `CloseIdleConnections` at the granularity of the pool model: ONE lock region in which EVERY idle connection leaves the
pool (`reap a idle.length`), into the hands of the caller `a` alone; the closes follow outside the lock.  In every
reachable state the step is enabled, empties the pool, and hands exactly the formerly idle connections to `a`. -/
theorem close_idle_takes_every_idle_connection (cfg : Cfg) (evs : List Ev) (s : State) (a : Nat)
    (_h : run cfg init evs = some s) (ha : auxBase ≤ a) :
    ∃ s', step cfg s (.reap a s.idle.length) = some s' ∧ s'.idle = [] ∧ s'.held = s.idle ++ s.held ∧
      (∀ c ∈ s.idle, s'.holder c = a) ∧ s'.count = s.count := by
  refine ⟨{ s with idle := s.idle.drop s.idle.length, held := s.idle.take s.idle.length ++ s.held,
                     holder := fun c => if c ∈ s.idle.take s.idle.length then a else s.holder c }, ?_, ?_, ?_, ?_, rfl⟩
  · simp only [step, ha, Nat.le_refl, and_self, if_true]
  · simp
  · simp
  · intro c hc
    simp [hc]

/-- … and from there on the invariants of every run apply: a connection taken this way is in nobody else's hands, in no
`wantConn` and not in the pool, so a release that happens meanwhile can neither be closed by this call nor lose its slot
(what seed C10-m7 broke by aliasing the idle list with the pool). -/
theorem close_idle_connections_are_exclusive (cfg : Cfg) (evs : List Ev) (s s' : State) (a : Nat)
    (h : run cfg init (evs ++ [.reap a s.idle.length]) = some s') (c : Nat) (hc : c ∈ s'.held) :
    c ∉ s'.idle ∧ c ∉ s'.boxed ∧ c ∉ s'.closed ∧ s'.held.count c = 1 :=
  exclusive_places cfg _ s' h c hc

/-- the text of `HostClient.CloseIdleConnections` is the shape the step stands for: the idle list is COPIED under the lock,
the pool's slots are cleared and the pool emptied before the unlock, the closes run on the copy afterwards -/
theorem close_idle_matches_source :
    Hertz.Gen.CloseIdle.stmts =
      ["c.connsLock.Lock()", "scratch := append([]*clientConn{}, c.conns...)", "for i := range c.conns", "  c.conns[i] = nil",
       "c.conns = c.conns[:0]", "c.connsLock.Unlock()", "for _, cc := range scratch", "  c.closeConn(cc)"] := by decide

/-! ## the convenience layer: `GetURLTimeout` / `GetURLDeadline` (`Model/ClientHelper.lean`)

A timed-out call leaves its goroutine running; the goroutine still sends its result on the channel it was started with.
"The response returned to a caller is the response to that caller's request" therefore rests on the discipline of the
pool of result channels: a channel goes back into the pool only on the receive branch. -/
section Helper
open Hertz.ClientHelper

/-- **a helper call returns the result of its own request**: in every run (any number of calls, any interleaving of
starts, goroutine completions, receives and timeouts, any choice `sync.Pool.Get` makes) a call that returns a result
returns the result of ITS request. -/
theorem helper_result_belongs_to_call (es : List ClientHelper.Ev) (i v : Call) (h : (run false init es).phase i = .got v) : v = i :=
  (inv_run init inv_init es).gotOwn i v h

/-- … because a pooled channel is quiet: empty, nobody waits on it, and no goroutine is going to send on it -/
theorem helper_pooled_channel_quiet (es : List ClientHelper.Ev) (c : Chan) (hc : c ∈ (run false init es).pool) :
    (run false init es).buf c = none ∧ (∀ j, (run false init es).worker j ≠ some c) ∧
    (∀ j, (run false init es).phase j ≠ .waiting c) :=
  let I := inv_run init inv_init es
  ⟨I.poolEmpty c hc, I.poolNoWorker c hc, I.poolNoWaiter c hc⟩

/-- … and a waiting call shares its channel with no other call and no other goroutine -/
theorem helper_channel_exclusive (es : List ClientHelper.Ev) (i j : Call) (c : Chan) (h : (run false init es).phase i = .waiting c) :
    ((run false init es).phase j = .waiting c → i = j) ∧ ((run false init es).worker j = some c → j = i) :=
  let I := inv_run init inv_init es
  ⟨fun h2 => I.waitUnique i j c h h2, fun hw => I.waitWorker i c j h hw⟩

/-- non-vacuity: call 0 times out, its late answer arrives while calls 1 and 2 run on other channels; call 3 then
reuses a pooled channel; everyone who gets an answer gets his own -/
example : let s := run false init [.start 0 0, .timeout 0, .start 1 0, .send 1, .recv 1, .start 2 0, .send 0, .send 2, .recv 2, .start 3 0, .send 3, .recv 3]
    (s.phase 0, s.phase 1, s.phase 2, s.phase 3) = (.timedOut, .got 1, .got 2, .got 3) ∧ s.pool.length = 1 := by decide

/-- **the timeout branch must not return the channel**: in the variant that puts the channel back on the timeout branch
too, call 0 times out, call 1 is handed the same channel, the late answer of call 0 arrives, and call 1 returns the
result of call 0 (seed C10-m5; replayed on the real code by the op `c10url`). -/
theorem helper_timeout_must_not_put_back :
    (run true init [.start 0 0, .timeout 0, .start 1 0, .send 0, .recv 1]).phase 1 = .got 0 := by decide

/-- the pool sites of the current source are the ones the model was written against: `Get`, `make(chan, 1)`, one send
inside the goroutine, `Put` on the receive branch ONLY -/
theorem helper_sites_match_source :
    Hertz.Gen.ClientHelper.sites =
      [("GetURLDeadline", "", "get"), ("GetURLDeadline", "", "make:1"), ("GetURLDeadline", "", "go:send ch"),
       ("GetURLDeadline", "resp := <-ch", "case"), ("GetURLDeadline", "resp := <-ch", "put"),
       ("GetURLDeadline", "<-tc.C", "case")] := by decide

end Helper

end Hertz.Props.C10
