/-
C10 — Client connections are exclusive, bounded, never leaked and never reused dirty.

Model: `Hertz.Pool.step` (Model/ClientPool.lean), one event per lock region of
pkg/protocol/http1/client.go; a schedule is an arbitrary list of events (any number of callers,
any interleaving, any length) accepted by `step` from the empty pool.  The model is held to the
code by trace validation (harness/c10.go, hook H2): every recorded trace of the real pool must be
accepted by `step` with equal `(connsCount, len(conns), connsWait.len())` after every lock region,
and for single-goroutine runs the model predicts the complete trace.

Statement by statement:
  exclusive ............ `exclusive`, `exclusive_places`               proved
  bounded .............. `count_conserved`, `count_le_max`             proved
  never leaked ......... `quiescent`                                   proved
      pending gauge ..... `pending_gauge`, `pending_zero`                proved (F10 fixed in /repo)
      no waiter queued .. `no_waiter_queued_fails_at` (stale wantConn) + `queued_waiters_dead_partial`
  never reused dirty ... `reuse_only_if_clean`, `error_closes`         proved (decision logic)
  sent at most once .... `non_idempotent_sent_once`, `retry_only_bad_pool_conn`   proved
  response belongs to caller / returns within timeout+slack:  runtime clauses, see TODO-OPEN below.
-/
import Hertz.Proofs.ClientPool
namespace Hertz.Props.C10
open Hertz.Pool

/-- `connsCount` is exactly the number of connections the pool answers for: idle + in use +
delivered to a waiter + dial slots (callers and `dialConnFor` goroutines) + closed connections whose
`decConnsCount` has not run yet — after every lock region of every schedule. -/
theorem count_conserved (cfg : Cfg) (evs : List Ev) (s : State) (h : run cfg init evs = some s) :
    s.count = s.idle.length + s.held.length + s.boxed.length + s.slots.length + s.helperSlots + s.owed.length :=
  (reach_inv h).cons

/-- The number of connections counted per host never exceeds the configured maximum (and never
goes negative). -/
theorem count_le_max (cfg : Cfg) (evs : List Ev) (s : State) (h : run cfg init evs = some s) :
    0 ≤ s.count ∧ s.count ≤ cfg.maxConns :=
  ⟨by have := (reach_inv h).cons; unfold Cons at this; omega, (reach_inv h).le⟩

/-- A connection is in at most one place: idle in the pool, in the hands of one actor, parked in
one undelivered `wantConn`, or closed — and at most once there. -/
theorem exclusive (cfg : Cfg) (evs : List Ev) (s : State) (h : run cfg init evs = some s) (c : Nat) :
    s.idle.count c + s.held.count c + s.boxed.count c + s.closed.count c ≤ 1 :=
  (reach_inv h).excl c

/-- Readable form: a connection some actor is using is neither idle (so nobody can acquire it),
nor waiting in a `wantConn`, nor closed; and it is held once. -/
theorem exclusive_places (cfg : Cfg) (evs : List Ev) (s : State) (h : run cfg init evs = some s) (c : Nat)
    (hc : c ∈ s.held) : c ∉ s.idle ∧ c ∉ s.boxed ∧ c ∉ s.closed ∧ s.held.count c = 1 := by
  have e := exclusive cfg evs s h c
  have p := List.count_pos_iff.mpr hc
  refine ⟨?_, ?_, ?_, by omega⟩ <;> (rw [← List.count_eq_zero]; omega)

/-- Once all calls have returned (and the goroutines the pool started hold nothing): no connection
is in use, no dial is in flight, no decrement is owed, no waiter is still waiting, nothing sits in a
`wantConn`, and `connsCount` equals the number of idle connections — every connection is idle in
the pool or closed. -/
theorem quiescent (cfg : Cfg) (evs : List Ev) (s : State) (h : run cfg init evs = some s) (hq : Quiet s) :
    s.held = [] ∧ s.slots = [] ∧ s.owed = [] ∧ s.live = [] ∧ s.boxed = [] ∧ s.count = s.idle.length :=
  quiet_rest (reach_inv h) hq

/-- The pending-request gauge is exactly the number of calls in progress, after every event of
every schedule (the `ctx.Done()` exit of `HostClient.Do` decrements like the normal exit). -/
theorem pending_gauge (cfg : Cfg) (evs : List Ev) (s : State) (h : run cfg init evs = some s) :
    s.pending = s.inDo.length :=
  (reach_inv h).pend

/-- Once all calls have returned the pending-request gauge is zero — for every schedule. -/
theorem pending_zero (cfg : Cfg) (evs : List Ev) (s : State) (h : run cfg init evs = some s)
    (hq : Quiet s) : s.pending = 0 := by
  have := pending_gauge cfg evs s h
  rw [hq.1] at this
  simpa using this

/-- regression (old F10 witness, `c10seq 1 0 1 g 0 1 0`): a call with an already cancelled context
leaves the gauge at 0; same after a send followed by a cancelled retry -/
example : (run ⟨1, false⟩ init [.begin 0 0, .endd 0 0 true]).map (·.pending) = some 0 := by decide
example : (run ⟨2, true⟩ init [.begin 0 0, .acqCreate 0, .dialOk 0 0, .rel 0 0 0 none false, .endd 0 0 false,
    .begin 0 1, .acqIdle 0 0, .close 0 0, .dec 0 0 none, .endd 0 1 true]).map (fun s => (s.pending, s.count))
    = some (0, 0) := by decide

/-- the schedule of the stale waiter: caller 1 sees the pool full, caller 0 closes its connection
(nobody queued, so the count drops), only then caller 1 queues, times out, returns -/
def staleSchedule : List Ev :=
  [.begin 0 0, .acqCreate 0, .dialOk 0 0, .begin 1 1, .acqFull 1, .close 0 0, .dec 0 0 none, .endd 0 0 false,
   .enq 1 0 0, .cancel 1 0 none, .endd 1 1 false]

/-- "No waiter remains queued at quiescence" is FALSE of the code for `connsWait.len()` (what
`ConnPoolState().WaitConnNum` reports): a `wantConn` that gave up stays in the queue until the next
release/close/enqueue.  Witness replayed against the real code: `c10stale 40`. -/
theorem no_waiter_queued_fails_at :
    ¬ (∀ (cfg : Cfg) (evs : List Ev) (s : State), run cfg init evs = some s → Quiet s → s.queue = []) := by
  intro h
  have := h ⟨1, true⟩ staleSchedule _ rfl (by decide)
  revert this; decide

/-- … what does hold: every `wantConn` still queued at quiescence is dead (no caller waits). -/
theorem queued_waiters_dead_partial (cfg : Cfg) (evs : List Ev) (s : State) (h : run cfg init evs = some s)
    (hq : Quiet s) : ∀ w ∈ s.queue, w ∉ s.live := by
  intro w _
  rw [(quiescent cfg evs s h hq).2.2.2.1]
  simp

/-- A connection is put back for reuse exactly when its exchange completed cleanly: full response
read, no `Connection: close` on either side, no forced reset, no error, no timeout, no upgrade, no
unread stream. -/
theorem reuse_only_if_clean (inPool : Bool) (ex : Exch) :
    (verdict inPool ex).act = .release ↔ ex.clean = true :=
  verdict_release_iff inPool ex

/-- Every attempt that ends with an error closes its connection. -/
theorem error_closes (inPool : Bool) (ex : Exch) (h : (verdict inPool ex).err ≠ .none) :
    (verdict inPool ex).act = .close :=
  verdict_err_closes inPool ex h

/-- A request that is not safe to repeat is attempted — hence sent — at most once, whatever the
attempts would do (default retry policy, `RetryIfFunc == nil`). -/
theorem non_idempotent_sent_once (outcomes : List Attempt) :
    (doLoop false outcomes).length ≤ 1 ∧ sentCount (doLoop false outcomes) ≤ 1 :=
  ⟨doLoop_nonidem outcomes, Nat.le_trans (sentCount_le_length _) (doLoop_nonidem outcomes)⟩

/-- `Do` repeats a request only after `ErrBadPoolConn` on a repeatable request, and
`ErrBadPoolConn` only arises on a connection that came out of the pool (`inPool`). -/
theorem retry_only_bad_pool_conn (idem : Bool) (outcomes : List Attempt) (i : Nat)
    (h : i + 1 < (doLoop idem outcomes).length) :
    ∃ t, (doLoop idem outcomes)[i]? = some t ∧ t.err = .badPool ∧ t.canRetry = true ∧ idem = true :=
  doLoop_retried idem outcomes i h

theorem bad_pool_conn_only_from_pool (inPool : Bool) (ex : Exch) (h : (verdict inPool ex).err = .badPool) :
    inPool = true ∧ (verdict inPool ex).canRetry = true ∧ (verdict inPool ex).act = .close :=
  verdict_badPool inPool ex h

/-- The decision table, the retry condition of `Do`, the idempotent-method list, the default
maximum and the decrement-before-every-return of `Do` used by the model are the ones in the Go source as it stands now (regenerated by
gen/c10.go into `Gen/ClientPaths.lean` on every run). -/
theorem model_matches_source :
    modelPaths = Hertz.Gen.Client.doPaths ∧ doRetryCond = Hertz.Gen.Client.doRetryCond ∧
    defaultMaxConnsPerHost = Hertz.Gen.Client.defaultMaxConnsPerHost ∧
    idempotentMethods = Hertz.Gen.Client.idempotentMethods ∧
    doReturnsDecrement = Hertz.Gen.Client.doReturnsDecrement :=
  ⟨model_matches_gen, retry_cond_matches_gen, consts_match_gen.1, consts_match_gen.2, pending_decrement_matches_gen⟩

/-- POST, PATCH and CONNECT are not in the list, so `doLoop false` (one attempt) applies to them. -/
theorem post_not_idempotent : isIdem "POST" = false ∧ isIdem "PATCH" = false ∧ isIdem "CONNECT" = false := by
  decide

example : isIdem "GET" = true := by decide
example : Hertz.Gen.Client.doPaths.length = 16 := by decide
example : effMax 0 = 512 ∧ effMax 3 = 3 := by decide

/-! ### Non-vacuity: schedules that exercise the hypotheses -/

/-- hand-over through the waiter queue, a `dialConnFor` helper, a late delivery returned by
`cancel`, reuse of an idle connection: accepted, and quiescent at the end -/
def demoSchedule : List Ev :=
  [.begin 0 0, .acqCreate 0, .dialOk 0 0, .begin 1 1, .acqFull 1, .enq 1 0 0, .begin 2 2, .acqFull 2, .enq 2 1 0,
   .tryd 0 0 (some 0) true, .rel 0 0 1 (some 0) true, .endd 0 0 false, .wake 1 0 (some 0),
   .close 1 0, .dec 1 1 (some 1), .endd 1 1 false, .dialOk 100 1, .cancel 2 1 none, .tryd 100 1 (some 1) false,
   .rel 100 1 0 none false, .endd 2 2 false, .begin 0 3, .acqIdle 0 1, .rel 0 1 0 none false, .endd 0 3 false]

example : (run ⟨1, true⟩ init demoSchedule).isSome = true := by decide
example : ((run ⟨1, true⟩ init demoSchedule).map (fun s => (s.count, s.idle, s.queue, s.closed, s.pending)))
    = some (1, [1], [], [0], 0) := by decide
example : ∃ s, run ⟨1, true⟩ init demoSchedule = some s ∧ Quiet s := ⟨_, rfl, by decide⟩
example : ∃ s, run ⟨1, true⟩ init (demoSchedule.take 13) = some s ∧ 0 ∈ s.held := ⟨_, rfl, by decide⟩
example : ∃ s, run ⟨1, true⟩ init staleSchedule = some s ∧ Quiet s ∧ s.queue = [0] := ⟨_, rfl, by decide, by decide⟩
example : (verdict true (.done false false false)).act = .release := by decide
example : (verdict true .peekEOF).err = .badPool ∧ (verdict false .peekEOF).err = .eof := by decide
example : (verdict false (.done false true false)).act = .close := by decide
example : doLoop true [⟨true, true, .badPool⟩, ⟨true, true, .badPool⟩, ⟨true, false, .none⟩]
    = [⟨true, true, .badPool⟩, ⟨true, true, .badPool⟩, ⟨true, false, .none⟩] := by decide
example : doLoop false [⟨true, true, .badPool⟩, ⟨true, false, .none⟩] = [⟨true, true, .badPool⟩] := by decide

/-
TODO-OPEN (not proved here; checked at run time by harness/c10.go on every case):

 * response_belongs_to_caller: "the response returned to a caller is the response to that caller's
   request".  With `exclusive` the only reader of a connection between an acquire and the matching
   release is its holder, and `reuse_only_if_clean` says a connection is released only after the
   full response was consumed; what is missing for a Lean statement is a model of the bytes on the
   wire per connection (requests written, responses queued, buffered leftovers of `standard.Conn`).
   The harness checks it directly: the scripted peer echoes the request id in the body and every
   successful call compares it (`wrong` counter, must be 0), and the peer flags a request that
   arrives while the previous response is unread or after a non-clean exchange (`dirty`, must be 0).

 * returns_within_timeout: "a call given a request or read timeout returns no later than that
   timeout plus scheduling slack".  Runtime clause; measured by the harness (`late` counter, must be
   0: read timeout 25ms and wait-for-connection timeout 12ms per attempt, slack 500ms).  The model only shows the
   structural part: the one blocking point of `acquireConn` is a `select` over `w.ready` and a timer.

 * seq_program_accepted: every event `Sim.simDo` (the caller's program run sequentially) emits is
   accepted by `step`.  Checked per case by the driver (`sim.ok`), not proved.
-/

end Hertz.Props.C10
