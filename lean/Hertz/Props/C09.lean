import Hertz.Proofs.Recycle
import Hertz.Proofs.PoolOwn
import Hertz.Gen.PoolSites
/-!
# C09 — a recycled context, request or response is indistinguishable from a fresh one

All statements are about the reset functions in `Hertz/Gen/Resets.lean`, which are *regenerated from the Go
source on every run* (one Lean function per Go method, statement by statement; capacity tests become the
universally quantified `Oracle`), the hand-written observation/fresh-object spec in `Hertz/Spec/Recycle.lean`
and the pool/serve-loop steps in `Hertz/Model/Recycle.lean`.

The full-strength statement "for all states `s`: `observe (reset s) = observe (fresh s)`" is **false of the code
as it stands** for `RequestContext`: no reset line writes `RequestContext.exiled` or `RequestContext.hijackHandler`.
The file therefore contains, for this type, the negation on concrete witnesses (`…_fails_at`, by `decide`), the exact
residue (`reset_exact`: the reset state is the fresh state except for exactly those two fields) and the `_partial`
theorems whose extra hypotheses are precisely "those fields were not dirtied".  `hijackHandler` is cleared by the serve
loop itself before the reset, so the keep-alive statement `serve_recycle_fresh_partial` excludes only `exiled`
(known finding `exiled-survives-reset`).  For `Request`, `Response`, `URI`, `Cookie`, `Args`, `Trailer` the statement
holds at full strength (`ResponseHeader.headerLength`, which used to survive `Response.Reset`, is reset since 9be7dd6;
the old witnesses are kept as positive regression examples).
-/
namespace Hertz.Props.C09
open Hertz Hertz.ResetBase Hertz.Gen.Resets Hertz.Recycle

/-! ## the tie to the source -/

/-- The hand-written steps of `Model/Recycle.lean` were written against these call skeletons of
`Server.Serve`, `putRequestContext` and the `Release*` functions; nothing in the reset closure is outside the
translator's grammar; `NewContext` initialises exactly `Params` and `index`; `Serve` re-establishes the
connection-scoped fields before the loop; no other `Reset*` method exists on the pooled types than the two
`ResetConnectionClose` (header editing, not recycling). -/
theorem model_matches_gen :
    generatedSkeletons = expectedSkeletons ∧ untranslatedCount = 0 ∧
    serveLoopLast = "ctx.ResetWithoutConn()" ∧
    newContextKeys = ["Params", "index"] ∧
    servePrologue = ["ctx.HTMLRender = s.HTMLRender", "ctx.SetConn(conn)", "ctx.Request.SetIsTLS(s.TLS != nil)",
                     "ctx.SetEnableTrace(s.EnableTrace)"] ∧
    otherResetMethods = ["RequestHeader.ResetConnectionClose", "ResponseHeader.ResetConnectionClose"] := by
  decide

/-- Every field of `Request`, `Response`, `URI`, `Cookie`, `Args`, `Trailer` (and everything nested in them) is written by
the reset closure or is on the allow-list; every allow-list entry names a field that exists.  Decided over the
generated field and write tables: adding a field to one of these Go structs, or deleting a reset line, breaks it. -/
theorem every_field_accounted :
    unaccounted "Request" "Reset" = [] ∧ unaccounted "Request" "ResetWithoutConn" = [] ∧
    unaccounted "Response" "Reset" = [] ∧
    unaccounted "URI" "Reset" = [] ∧ unaccounted "Cookie" "Reset" = [] ∧ unaccounted "Args" "Reset" = [] ∧
    unaccounted "Trailer" "Reset" = [] ∧ staleAllow = [] := by
  decide +kernel

/-- For `RequestContext` the same statement is false … -/
theorem every_field_accounted_fails_at :
    unaccounted "RequestContext" "ResetWithoutConn" ≠ [] ∧ unaccounted "RequestContext" "Reset" ≠ [] := by
  decide +kernel

/-- … and these are exactly the fields nothing resets (any further unaccounted field breaks this theorem). -/
theorem every_field_accounted_partial :
    unaccounted "RequestContext" "ResetWithoutConn" = ["RequestContext.hijackHandler", "RequestContext.exiled"] ∧
    unaccounted "RequestContext" "Reset" = unaccounted "RequestContext" "ResetWithoutConn" := by
  decide +kernel

/-! ## witnesses -/

def o₀ : Oracle := Oracle.ofAssoc []
def o₁ : Oracle := Oracle.ofAssoc [("c_Request_ResetBody_0", true), ("c_Response_ResetBody_0", true)]

def kv (k v : Bytes) : ArgsKV := { key := k, value := v, noValue := false }

/-- a context on which a handler has used about everything -/
def dirtyContext : RequestContext :=
  { zero_RequestContext with
    conn := 7, HTMLRender := 3, traceInfo := 5, enableTrace := true, clientIPFunc := 1, formValueFunc := 1,
    binder := 1, validator := 1,
    Errors := [1, 1], Params := [1], handlers := 4, fullPath := [47, 97], index := 63, Keys := 2, finished := 1,
    mu := 1,
    Request := { zero_Request with
      isTLS := true, maxKeepBodySize := 4096,
      Header := { zero_RequestHeader with
        disableNormalizing := true, connectionClose := true, cookiesCollected := true, contentLength := 5,
        method := [80], host := [104], h := [kv [88] [49]], cookies := [kv [99] [100]], rawHeaders := [88],
        mulHeader := [[1]], protocol := [72], bufKV := kv [1] [2],
        trailer := some { zero_Trailer with h := [kv [84] [116]], disableNormalizing := true } },
      uri := { zero_URI with
        path := [47], queryString := [97, 61, 98], parsedQueryArgs := true,
        queryArgs := { zero_Args with args := [kv [97] [98]], buf := [9] }, DisablePathNormalizing := true,
        fullURI := [1], requestURI := [2] },
      postArgs := { zero_Args with args := [kv [112] [113]] },
      bodyStream := 1, w := 1, body := some [98, 111, 100, 121], bodyRaw := [114], multipartForm := 1,
      multipartFormBoundary := [45], parsedURI := true, parsedPostArgs := true, multipartFiles := [1],
      multipartFields := [1, 1], options := 1 },
    Response := { zero_Response with
      maxKeepBodySize := 4096, ImmediateHeaderFlush := true, SkipBody := true, bodyStream := 1, w := 1,
      body := some [111, 107], bodyRaw := [1], raddr := 1, laddr := 1, hijackWriter := 1,
      Header := { zero_ResponseHeader with
        disableNormalizing := true, connectionClose := true, noDefaultContentType := true, noDefaultDate := true,
        statusCode := 404, contentLength := 2, headerLength := 53, contentType := [116], server := [115], h := [kv [88] [49]],
        cookies := [kv [99] [100]], mulHeader := [[1]], protocol := [72],
        trailer := some { zero_Trailer with h := [kv [84] [116]] } } } }

def wExiled : RequestContext := { zero_RequestContext with exiled := true }
def wHijack : RequestContext := { zero_RequestContext with hijackHandler := 1 }
def wHeaderLength : Response := { zero_Response with Header := { zero_ResponseHeader with headerLength := 5 } }
def wCtxHeaderLength : RequestContext := { zero_RequestContext with Response := wHeaderLength }

/-! ## RequestContext -/

/-- What `ResetWithoutConn` / `Reset` do, exactly, for every state and every outcome of the capacity tests: the
observable state afterwards is that of a fresh context *except* for `exiled` and `hijackHandler`. -/
theorem reset_exact (o : Oracle) (s : RequestContext) :
    obsContext (RequestContext_ResetWithoutConn o s) = obsContext (contextResidue s) ∧
    obsContext (RequestContext_Reset o s) = obsContext { contextResidue s with conn := 0 } :=
  ⟨context_resetWithoutConn o s, context_reset o s⟩

example : contextResidue dirtyContext ≠ dirtyContext ∧ contextResidue wExiled ≠ freshContext wExiled := by decide

/-- FALSE as stated in the design (`∀ s, observe (resetWithoutConn s) = observe (fresh (scoped s))`): two
concrete states on which it fails.  Checked against the real code by the harness ops `rst`/`probe`
(class `exiled-survives-reset`; the `hijackHandler` witness by a one-off test, see INTEGRATION.md). -/
theorem reset_fresh_fails_at :
    obsContext (RequestContext_ResetWithoutConn o₀ wExiled) ≠ obsContext (freshContext wExiled) ∧
    obsContext (RequestContext_ResetWithoutConn o₀ wHijack) ≠ obsContext (freshContext wHijack) := by
  decide

/-- regression (fixed in 9be7dd6): the old `headerLength` witnesses are now reset like everything else -/
example : obsContext (RequestContext_ResetWithoutConn o₀ wCtxHeaderLength) = obsContext (freshContext wCtxHeaderLength) ∧
    obsContext (serveRecycle o₀ wCtxHeaderLength) = obsContext (freshContext wCtxHeaderLength) ∧
    obsResponse (releaseResponse o₀ wHeaderLength) = obsResponse (freshResponse wHeaderLength) ∧
    obsResponse wHeaderLength ≠ obsResponse (freshResponse wHeaderLength) := by decide

theorem reset_fresh_false :
    ¬ ∀ (o : Oracle) (s : RequestContext), obsContext (RequestContext_ResetWithoutConn o s) = obsContext (freshContext s) :=
  fun h => reset_fresh_fails_at.1 (h o₀ wExiled)

/-- `reset_fresh` with the excluding hypotheses: for every state in which the two residue fields are clean and
every outcome of the capacity tests, the context after `ResetWithoutConn` is observably a fresh context of the
same connection. -/
theorem reset_fresh_partial (o : Oracle) (s : RequestContext)
    (h1 : s.hijackHandler = 0) (h2 : s.exiled = false) :
    obsContext (RequestContext_ResetWithoutConn o s) = obsContext (freshContext s) := by
  rw [context_resetWithoutConn, contextResidue_fresh s h1 h2]

example : dirtyContext.hijackHandler = 0 ∧ dirtyContext.exiled = false ∧ dirtyContext.Response.Header.headerLength = 53 ∧
    obsContext dirtyContext ≠ obsContext (freshContext dirtyContext) ∧
    obsContext (RequestContext_ResetWithoutConn o₁ dirtyContext) = obsContext (freshContext dirtyContext) := by decide

/-- The keep-alive step of `Server.Serve` (`SetHijackHandler(nil)`, later `ResetWithoutConn()`): the next
request on the connection observes a fresh context — whatever the handler did to any other field, for every
outcome of the capacity tests — provided the handler did not `Exile()` the context. -/
theorem serve_recycle_fresh_partial (o : Oracle) (s : RequestContext) (h2 : s.exiled = false) :
    obsContext (serveRecycle o s) = obsContext (freshContext s) := by
  have h := reset_fresh_partial o (RequestContext_SetHijackHandler o 0 s) rfl h2
  have e : freshContext (RequestContext_SetHijackHandler o 0 s) = freshContext s := rfl
  rw [e] at h
  exact h

example : obsContext (serveRecycle o₀ { dirtyContext with hijackHandler := 9 })
    = obsContext (freshContext dirtyContext) := by decide

theorem serve_recycle_fails_at :
    obsContext (serveRecycle o₀ wExiled) ≠ obsContext (freshContext wExiled) := by
  decide

/-- A context taken from `Engine.ctxPool` after any history of connections (each `put` is the end of a
connection: the context is in an arbitrary state except that it is not exiled — exiled contexts are not
put back by `Serve`) is observably what `ctxPool.New` returns, up to the configuration fields. -/
theorem pooled_context_fresh_partial (new : RequestContext) (hn : obsContext new = obsContext (freshPooledContext new))
    (es : List (PoolEv RequestContext))
    (hq : ∀ x ∈ putsOf es, x.exiled = false) :
    ∀ y ∈ poolRun poolRecycle new es [], obsContext y = obsContext (freshPooledContext y) := by
  refine pool_gets poolRecycle new (fun y => obsContext y = obsContext (freshPooledContext y))
    (fun x => x.exiled = false) hn ?_ es [] hq (by simp)
  intro o x h2
  have h := context_reset o (RequestContext_SetHijackHandler o 0 x)
  have hr : contextResidue (RequestContext_SetHijackHandler o 0 x) = freshContext x :=
    contextResidue_fresh (RequestContext_SetHijackHandler o 0 x) rfl h2
  have key : obsContext (poolRecycle o x) = obsContext (freshPooledContext x) := by
    simpa [poolRecycle, hr, freshPooledContext] using h
  -- the configuration fields of the reset context are those of `x`
  have hcfg : freshPooledContext (poolRecycle o x) = freshPooledContext x := by
    rw [freshPooled_of_obs _ _ key, freshPooled_idem]
  simpa [hcfg] using key

example : ∀ y ∈ poolRun poolRecycle (freshPooledContext dirtyContext)
      [.get 0, .put o₁ dirtyContext, .put o₀ { dirtyContext with hijackHandler := 3, Keys := 9 }, .get 1, .get 0, .get 5] [],
    obsContext y = obsContext (freshPooledContext dirtyContext) := by decide

/-! ## Request, Response, URI, Cookie, Args from the public pools -/

/-- `ReleaseRequest` then `AcquireRequest`: for every state of the released request and every outcome of the
capacity test, the request is observably `new(Request)` (with the retention limit it was configured with). -/
theorem release_acquire_fresh_request (o : Oracle) (s : Request) :
    obsRequest (releaseRequest o s) = obsRequest (freshRequest s) := request_reset o s

example : obsRequest dirtyContext.Request ≠ obsRequest (freshRequest dirtyContext.Request) ∧
    obsRequest (releaseRequest o₁ dirtyContext.Request) = obsRequest (freshRequest dirtyContext.Request) := by decide

/-- the same through any history of the pool -/
theorem acquire_request_fresh (es : List (PoolEv Request)) :
    ∀ y ∈ poolRun releaseRequest zero_Request es [], obsRequest y = obsRequest (freshRequest y) := by
  refine pool_gets releaseRequest zero_Request (fun y => obsRequest y = obsRequest (freshRequest y)) (fun _ => True)
    rfl ?_ es [] (by simp) (by simp)
  intro o x _
  have key := request_reset o x
  show obsRequest (Request_Reset o x) = obsRequest (freshRequest (Request_Reset o x))
  rw [freshRequest_of_obs _ _ key]; exact key

example : ∀ y ∈ poolRun releaseRequest zero_Request
      [.put o₁ dirtyContext.Request, .get 0, .put o₀ dirtyContext.Request, .get 3, .get 0] [],
    obsRequest y = obsRequest (freshRequest y) := by decide

/-- `ReleaseResponse` then `AcquireResponse`: observably `new(Response)` (with its retention limit), for every state
and every outcome of the capacity test — at full strength since `headerLength` is reset. -/
theorem release_acquire_fresh_response (o : Oracle) (s : Response) :
    obsResponse (releaseResponse o s) = obsResponse (freshResponse s) := response_reset o s

example : dirtyContext.Response.Header.headerLength = 53 ∧
    obsResponse dirtyContext.Response ≠ obsResponse (freshResponse dirtyContext.Response) ∧
    obsResponse (releaseResponse o₀ dirtyContext.Response) = obsResponse (freshResponse dirtyContext.Response) := by decide

theorem acquire_response_fresh (es : List (PoolEv Response)) :
    ∀ y ∈ poolRun releaseResponse zero_Response es [], obsResponse y = obsResponse (freshResponse y) := by
  refine pool_gets releaseResponse zero_Response (fun y => obsResponse y = obsResponse (freshResponse y))
    (fun _ => True) rfl ?_ es [] (by simp) (by simp)
  intro o x _
  have key := release_acquire_fresh_response o x
  show obsResponse (releaseResponse o x) = obsResponse (freshResponse (releaseResponse o x))
  rw [freshResponse_of_obs _ _ key]; exact key

example : ∀ y ∈ poolRun releaseResponse zero_Response
      [.put o₁ dirtyContext.Response, .get 0, .put o₀ wHeaderLength, .get 0, .get 0] [],
    obsResponse y = obsResponse (freshResponse y) := by decide

/-- `ReleaseURI`/`AcquireURI`, `ReleaseCookie`/`AcquireCookie`, and `Args.Reset`, `Trailer.Reset` (these two have
no pool of their own; they are recycled inside URI/Request/headers): observably the zero value, for all states. -/
theorem release_acquire_fresh_uri (o : Oracle) (s : URI) : obsURI (releaseURI o s) = obsURI zero_URI := uri_reset o s
theorem release_acquire_fresh_cookie (o : Oracle) (s : Cookie) : obsCookie (releaseCookie o s) = obsCookie zero_Cookie :=
  cookie_reset o s
theorem args_reset_fresh (o : Oracle) (s : Args) : obsArgs (Args_Reset o s) = obsArgs zero_Args := args_reset o s
theorem trailer_reset_fresh (o : Oracle) (s : Trailer) : obsTrailer (Trailer_Reset o s) = obsTrailer zero_Trailer :=
  trailer_reset o s

example : obsURI dirtyContext.Request.uri ≠ obsURI zero_URI ∧
    obsURI (releaseURI o₀ dirtyContext.Request.uri) = obsURI zero_URI := by decide
example : obsCookie (releaseCookie o₀ { zero_Cookie with
    key := [107], value := [118], expire := 1, maxAge := 9,
    domain := [100], path := [47], httpOnly := true, secure := true, partitioned := true, sameSite := 2, buf := [1] })
    = obsCookie zero_Cookie := by decide
example : obsArgs (Args_Reset o₀ dirtyContext.Request.postArgs) = obsArgs zero_Args ∧
    obsArgs dirtyContext.Request.postArgs ≠ obsArgs zero_Args := by decide

example : obsTrailer (Trailer_Reset o₀ { zero_Trailer with h := [kv [84] [116]], bufKV := kv [1] [2], disableNormalizing := true })
    = obsTrailer zero_Trailer := by decide

theorem acquire_uri_fresh (es : List (PoolEv URI)) : ∀ y ∈ poolRun releaseURI zero_URI es [], obsURI y = obsURI zero_URI :=
  pool_gets releaseURI zero_URI (fun y => obsURI y = obsURI zero_URI) (fun _ => True) rfl
    (fun o x _ => uri_reset o x) es [] (by simp) (by simp)

theorem acquire_cookie_fresh (es : List (PoolEv Cookie)) :
    ∀ y ∈ poolRun releaseCookie zero_Cookie es [], obsCookie y = obsCookie zero_Cookie :=
  pool_gets releaseCookie zero_Cookie (fun y => obsCookie y = obsCookie zero_Cookie) (fun _ => True) rfl
    (fun o x _ => cookie_reset o x) es [] (by simp) (by simp)

example : ∀ y ∈ poolRun releaseURI zero_URI [.put o₀ dirtyContext.Request.uri, .get 0, .get 0] [], obsURI y = obsURI zero_URI := by
  decide

example : ∀ y ∈ poolRun releaseCookie zero_Cookie
      [.put o₀ { zero_Cookie with key := [107], value := [118], httpOnly := true, sameSite := 3 }, .get 0] [],
    obsCookie y = obsCookie zero_Cookie := by decide


/-! ## ownership of pooled objects along every path of `Serve` (`Model/PoolOwn.lean`)

Pools are multisets of identities, `Put` is unconditional, `Get` takes any stored identity or a new one; a run is ANY
list of events (any length, any interleaving of any number of connections; an event that does not fit the control
point of its connection is a no-op). -/
section Ownership
open Hertz.PoolOwn

set_option maxRecDepth 100000 in
/-- The acquire / release sites (with their guards and early returns) of `Server.Serve`, `get/putRequestContext`,
`Acquire/ReleaseBodyStream`, `ContinueReadBodyStream`, `acquire/releaseHijackConn`, `hijackConnHandler`,
`hijackConn.Close` (with its `conn == nil` return, 4f1f5ed), `Request.BodyBuffer/ResetBody/CloseBodyStream` in the
current source are the ones the state machine was written against: a new `Put`/`Release*` site, a changed guard or a
removed early return breaks this theorem. -/
theorem release_sites_match_gen : Hertz.Gen.PoolSites.sites = expectedSites := by decide

/-- The whole discipline, along every run on an engine with any `KeepHijackedConns` setting.  The alphabet contains
`userClose`: the user's code calling `Close()` on its hijack conn any number of times.  The ONE excluded call is
`staleClose` (see `stale_close_fails_at`): a holder that already released its conn closing again AFTER the object was
handed to another connection. -/
theorem ownership_invariant (keep : Bool) (es : List Ev) (hs : NoStale (initK keep) es) : Inv (run (initK keep) es) :=
  inv_run _ _ (inv_initK keep) hs

/-- without `KeepHijackedConns` (`Close` does nothing) there is nothing to exclude: every run, full strength -/
theorem ownership_invariant_noKeep (es : List Ev) : Inv (run (initK false) es) :=
  inv_run _ _ (inv_initK false) (noStale_of_not_keep _ es rfl)

/-- A pool never contains one identity twice. -/
theorem no_double_put (keep : Bool) (es : List Ev) (hs : NoStale (initK keep) es) (k : Kind) :
    ((run (initK keep) es).pool k).Nodup :=
  (ownership_invariant keep es hs).nodup k

/-- An object a live connection holds (its context; the request's body stream while the handler may run and on the
early returns that skip the release; the hijack conn from `acquireHijackConn` to its first effective release) is not
in its pool. -/
theorem no_use_after_put (keep : Bool) (es : List Ev) (hs : NoStale (initK keep) es) (c : Nat) (cn : Conn) (k : Kind)
    (x : Nat) (hc : (run (initK keep) es).conns c = some cn) (hx : cn.holds k x) : x ∉ (run (initK keep) es).pool k :=
  (ownership_invariant keep es hs).notPooled c cn k x hc hx

/-- Two live connections never hold the same object. -/
theorem distinct_owners (keep : Bool) (es : List Ev) (hs : NoStale (initK keep) es) (c d : Nat) (cn dn : Conn)
    (k : Kind) (x : Nat) (hc : (run (initK keep) es).conns c = some cn) (hd : (run (initK keep) es).conns d = some dn)
    (hx : cn.holds k x) (hy : dn.holds k x) : c = d :=
  (ownership_invariant keep es hs).distinct c d cn dn k x hc hd hx hy

/-- No leak: an object that is accounted for (in its pool, or held by a live connection) is still accounted for after
any further event — except at the places where `Serve` deliberately lets it go (`deliberate`): the context of an
exiled request at the end of the connection; the body stream on the returns before the release site (response
write / flush failure, unrecovered panic); a hijack conn the user still holds when `Serve` returns
(`KeepHijackedConns`, not closed yet). -/
theorem every_acquired_released_or_owned (keep : Bool) (es : List Ev) (hs : NoStale (initK keep) es) (e : Ev)
    (k : Kind) (x : Nat) (ht : tracked (run (initK keep) es) k x) :
    tracked (step (run (initK keep) es) e) k x ∨ deliberate (run (initK keep) es) e k x :=
  tracked_step _ e k x (ownership_invariant keep es hs) ht

/-- Regression for 4f1f5ed (was known finding `hijackconn-double-close`): in EVERY state, a second `Close()` right
after a `Close()` changes nothing — no second `Put`, whatever `KeepHijackedConns` is. -/
theorem hijack_close_idempotent (s : State) (c : Nat) :
    step (step s (.userClose c)) (.userClose c) = step s (.userClose c) := close_idem s c

/-- the former witness (`KeepHijackedConns`, the hijack handler closes three times): the object is in the pool once,
and the run is inside the protected alphabet -/
example :
    let es := [Ev.accept 0 0, .read 0 true 0, .handle 0 false .returned, .respond 0 true false, .after 0 .hijack 0,
      .userClose 0, .userClose 0, .userClose 0, .hijackEnd 0, .finish 0]
    (run (initK true) es).pool .hjconn = [2] ∧ (run (initK true) es).pool .ctx = [0] ∧
      (run (initK true) es).pool .stream = [1] := by decide

example : NoStale (initK true) [Ev.accept 0 0, .read 0 true 0, .handle 0 false .returned, .respond 0 true false,
    .after 0 .hijack 0, .userClose 0, .userClose 0, .userClose 0, .hijackEnd 0, .finish 0] := by
  simp only [NoStale, and_true]
  refine ⟨?_, ?_, ?_, ?_, ?_, ?_, ?_, ?_, ?_, ?_⟩ <;> first
    | (intro h; exact h)
    | (rintro ⟨cn, x, hc, hh, hl, hset, _, _⟩
       simp [step, initK, State.setConn, State.setPool, State.put, State.setHj, take] at hc hset
       all_goals (try subst hc)
       all_goals (try simp_all))

/-- What the repaired `Close` still does NOT protect (the full-strength statements are false with this call in the
alphabet): connection 0 closes its kept hijack conn (object 0 goes back to the pool), connection 1 is hijacked and is
handed object 0, then the holder of connection 0 calls `Close()` again — `Conn` is set again, the guard does not
fire: object 0 is put while connection 1 holds it (and connection 1's network connection is closed under it).
Only the holder can avoid this (do not touch a hijack conn after closing it); a generation counter in `hijackConn`
would be needed to detect it. -/
theorem stale_close_fails_at :
    let es := [Ev.accept 0 0, .read 0 false 0, .handle 0 false .returned, .respond 0 true false, .after 0 .hijack 0,
      .userClose 0,
      .accept 1 0, .read 1 false 0, .handle 1 false .returned, .respond 1 true false, .after 1 .hijack 0,
      .userClose 0]
    ¬ NoStale (initK true) es ∧
    ((run (initK true) es).conns 1).map (fun cn => (cn.hj, cn.hjLive)) = some (some 1, true) ∧
    (run (initK true) es).pool .hjconn = [1] := by
  refine ⟨?_, by decide, by decide⟩
  simp only [NoStale, and_true, not_and]
  intro _ _ _ _ _ _ _ _ _ _ _ h
  apply h
  exact ⟨{ phase := .hijacking, ctx := 0, hj := some 1, hjLive := false }, 1, by decide, rfl, rfl, by decide, rfl,
    Or.inl rfl⟩

/-- … and the listed places do lose the object (the exceptions are not vacuous): stream on a write failure. -/
example :
    let es := [Ev.accept 0 0, .read 0 true 0, .handle 0 false .returned, .respond 0 false false]
    tracked (run init es) .stream 1 ∧ ¬ tracked (step (run init es) (.finish 0)) .stream 1 ∧
      deliberate (run init es) (.finish 0) .stream 1 := by
  refine ⟨Or.inr ⟨0, _, rfl, by decide⟩, ?_, ⟨_, rfl, by decide, Or.inr (Or.inl ⟨rfl, Or.inl rfl⟩)⟩⟩
  rintro (h | ⟨c, cn, hc, _⟩)
  · revert h; decide
  · by_cases e : c = 0
    · subst e
      have : (step (run init [Ev.accept 0 0, .read 0 true 0, .handle 0 false .returned, .respond 0 false false])
          (.finish 0)).conns 0 = none := by decide
      rw [this] at hc; cases hc
    · have : (step (run init [Ev.accept 0 0, .read 0 true 0, .handle 0 false .returned, .respond 0 false false])
          (.finish 0)).conns c = none := by
        simp [run, step, init, State.setConn, State.setPool, State.put, take, e]
      rw [this] at hc; cases hc

/-- non-vacuity: two keep-alive connections with streamed bodies interleaved, one closes, a third reuses its objects -/
example :
    let es := [Ev.accept 0 0, .accept 1 0, .read 0 true 0, .read 1 true 0, .handle 0 false .returned,
      .respond 0 true false, .after 0 .close 0, .finish 0, .accept 2 0, .handle 1 false .returned, .read 2 true 0]
    (run init es).pool .ctx = [] ∧ (run init es).pool .stream = [] ∧
    ((run init es).conns 2).map (fun cn => (cn.ctx, cn.stream)) = some (0, some 2) ∧
    ((run init es).conns 1).map (fun cn => (cn.ctx, cn.stream)) = some (1, some 3) := by decide

/-- The hazard the discipline lives with: after "Release request body stream" `ctx.Request.bodyStream` still points
to the pooled object until `ResetWithoutConn()`/`Reset()` (the hijack handler and the deferred function run in that
window).  Nothing in `Serve` dereferences it there — which is exactly what a second release would do. -/
theorem released_reference_dangles :
    let s := run init [Ev.accept 0 0, .read 0 true 0, .handle 0 false .returned, .respond 0 true false]
    (s.conns 0).map (fun cn => (cn.stream, cn.owns .stream)) = some (some 1, false) ∧ s.pool .stream = [1] := by decide

/-- `Put` is unconditional in the model (as in `sync.Pool`): releasing through a dangling reference puts the
object a second time — the discipline is a property of the release SITES, not of the pool. -/
theorem second_release_breaks_nodup (s : State) (k : Kind) (x : Nat) : ¬ (((s.put k x).put k x).pool k).Nodup := by
  simp [State.put, State.setPool]

/-- scripts without `KeepHijackedConns` are runs: every scripted schedule of connections keeps the discipline -/
theorem scripted_connections_keep_discipline (scripts : List (Nat × Bool × List Req)) :
    Inv (run (initK false) (scripts.flatMap (fun p => Ev.accept p.1 0 :: connEvents p.1 p.2.1 p.2.2))) :=
  ownership_invariant_noKeep _

example : (run init (Ev.accept 0 0 :: connEvents 0 false
      [{ readable := true, streamed := true }, { readable := true, streamed := true, close := true }])).pool .stream = [1]
    ∧ (run init (Ev.accept 0 0 :: connEvents 0 false
      [{ readable := true, streamed := true }, { readable := true, streamed := true, close := true }])).pool .ctx = [0] := by
  decide

end Ownership

/-
TODO-OPEN (not provable in this model, covered by the differential runs only):

* `reset_fresh` at full strength — `∀ o s, obsContext (RequestContext_ResetWithoutConn o s) = obsContext (freshContext s)` —
  is FALSE of the code as it stands (see `reset_fresh_false`, `reset_exact`); it becomes provable (delete the
  `_fails_at` theorems, drop the hypotheses of the `_partial` ones) once the Go code resets `exiled` and
  `hijackHandler` (known finding `exiled-survives-reset`: the keep-alive loop would have to take a new context after
  `Exile()`).
* Retained capacity: `x = x[:0]` keeps the backing array; `allocArg` hands the stale `argsKV` slots out again and
  relies on every user overwriting key, value and noValue.  The model maps slices to lists, so "no stale slot content
  becomes visible" is not a statement of this model; it is checked end to end (a mutation that appends to the stale key
  is caught by the probes only).
* nil versus empty slices/maps after a reset (`Keys == nil`, `Body() == nil`) are identified by the model.
* `traceInfo.Reset()` (tracer statistics) and the closing of `finished` / body streams are effects outside the state.
* Ownership model (`Model/PoolOwn.lean`): the byte buffers of request/response bodies (`requestBodyPool`,
  `responseBodyPool`: put back only when their capacity exceeds `maxKeepBodySize`), `eventStackPool` (tracing), the
  multipart form and the `traceInfo` object are not in the state machine (their sites ARE in the generated site list, so
  a new release site still breaks `release_sites_match_gen`).  `NoHijackConnPool` and `disabaleRequestContextPool`
  (no pooling at all) are not modelled.  A kept hijack conn closed by its holder AFTER `Serve` returned is not an event
  (the connection record is gone at `finish`: the object counts as deliberately let go).  `stale_close_fails_at` is
  the residue of 4f1f5ed: the ownership theorems carry the hypothesis `NoStale`.
* The guard CORRELATION of `Serve` (which ending follows which handler flags) is over-approximated: `Ev.after` picks
  the branch freely; the script-level function `connEvents` fixes the order of the guards and is compared with the real
  server on every `own` case.
* That `obs…` erases exactly what no exported getter can see is an assumption about ~400 getters; the probe dump calls
  every exported nullary method and visitor of the real objects and found one exception, `RequestHeader.GetBufValue`.
-/

end Hertz.Props.C09
